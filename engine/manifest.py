#!/usr/bin/env python3
"""Regenerates /verif/MANIFEST.json from the table below (kept valid at all times)."""
import json, os
ROOT = os.path.dirname(os.path.dirname(os.path.abspath(__file__)))

LEVEL_NOTE_COMMON = ("Trusted: Coq 8.16.1 kernel incl. vm_compute (no native_compute, no extraction in registered checks); "
                     "no axioms declared (Print Assumptions parsed into the evidence on every run); hand-written Gallina model tied to /repo "
                     "by the per-run correspondence check (implementation built from the working tree with -tags verif, same inputs "
                     "evaluated by the model inside Coq); Go harness and recorded tables of external primitives (Poseidon, float formatting). ")

CHECKS = {
 "C20": dict(
   text="Theorems (Properties/C20.v) on an interleaving semantics with a readers-writer lock, for ALL programs, thread counts, call lists and schedules: "
        "a program whose methods pass the verified checker discipline_ok has no reachable racy state, no runtime fault, no deadlock, and every run is "
        "linearizable to the sequential map semantics in program order (C20_discipline_sound, C20_program_order); the instance C20_cache / "
        "C20_cache_all_methods is decided by vm_compute on the lock/event skeleton REGENERATED from loaders/memory_cache.go by a go/ast translator on "
        "every run (it aborts on any construct it does not know); C20_pure: package variables of loaders/merklize are written only by the setters and no "
        "Merklizer/documentLoader method assigns a receiver field (translator tables). Partial: the Go memory model, races inside dependencies and the "
        "scheduler are not modelled; they are searched on every run by a race-instrumented stress program (2-64 goroutines, shared loader/cache/merklizer, "
        "cold/warm/expiring cache) whose per-goroutine results are compared with a sequential oracle, and Get/Set hand-over cases are evaluated in Coq.",
   note="Translator (harness/c20/translate.go, go/parser) is trusted to emit the skeleton of the code it reads; on failure it overwrites the generated file with an "
        "ill-typed term so a stale skeleton cannot be used. The race detector of the Go toolchain is used for the search only.",
   technique="Coq proof (interleaving semantics, verified lock-discipline checker) over a skeleton regenerated from source by a translator + race-detector stress search",
   design="5 C20"),
 "C19": dict(
   text="Theorems (Properties/C19.v, 17, all closed) by induction over ALL histories of {serve, fail, load, tick} (fold_left step), every configuration and every "
        "behaviour of the cachecontrol dependency (cc is an arbitrary function in the theorems, a recorded table in the runs): C19_inv (every cache entry stems "
        "from an earlier 200+JSON response with storable headers, expiry = that time + lifetime; embedded URLs never enter the cache), C19_fresh (a load returns "
        "Err, or the origin's current document with exactly one request, or an unexpired cached one, or the embedded one - in the last two cases the whole state "
        "incl. the request log is unchanged), C19_no_reuse(_headers) (no-store / private / no-cache / no-freshness / expired responses are never reused), "
        "C19_failures, C19_embedded_*, C19_route(_table,_dispatch) (complete routing decision table), C19_total. The model (LoadDocument, loadDocumentFromHTTP "
        "incl. the alternate-Link recursion on fuel, IPFS client/gateway paths, memoryCacheEngine) is run against the REAL loader on ~2300 histories per run "
        "(all histories of length <=3 over a 7-symbol alphabet + random ones over 16 header sets, 8 status codes, all schemes and configurations) with an injected "
        "transport, a virtual clock and recorded cachecontrol tables; compared: per-load outcome, requests issued, final cache contents.",
   note="Theorems are stated under the explicit hypothesis that no response carries an alternate Link header (outside the property's history alphabet); for that branch "
        "C19_link_reuse_refuted / C19_link_diverges_refuted record two observations (O-L1 unbounded recursion on a self-referential link, O-L2 a no-store alternate "
        "reused under the linking URL's policy). pquerna/cachecontrol and http.NewRequest are recorded oracles. Hook: loaders/verif_hooks_c19.go (025b116).",
   technique="Coq proof by induction over histories of an executable loader/cache model + per-run model/implementation differential on the real loader (vm_compute)",
   design="5 C19"),
 "C01": dict(
   text="Theorems (Properties/C01.v, 21, all closed) over the executable model of EntriesFromRDF for EVERY RDF dataset with unique graph names (any size, graph order, prime, float oracle): "
        "C01_entries_exact (an Ok result is, one for one and in sorted-graph order, exactly the literal/IRI-valued quads, each under its ancestor path + predicate + value index with the value "
        "converted per datatype: nothing dropped, duplicated, merged or invented), C01_indices_value / C01_indices_child (indices exactly 0..m-1 when a group / parent key has more than one member, "
        "absent otherwise), C01_shared_rejected / C01_shared_graph_rejected / C01_cycle_rejected / C01_self_reference_rejected / C01_blank_leaf_rejected (such datasets are never Ok), "
        "C01_terminates (fuel > #quads never diverges), C01_leaves / C01_leaves_distinct_paths (one tree leaf per entry, pairwise distinct keys; via SMT/ and Merklizer/). "
        "Per run the model is evaluated in Coq on ~500 datasets (json-gold output of generated documents incl. named graphs, shared nodes, cycles, duplicate paths; hand-built raw datasets json-gold never emits) "
        "under three hashers and compared with EntriesFromRDFWithHasher / MerklizeJSONLD (entries, leaf accounting: #value quads = #leaves = #entries).",
   note="JSON-LD expansion and URDNA2015 (json-gold) are not modelled: the theorems are about datasets; the document-level leg (generator's expected facts vs entries modulo sibling renumbering) is differential.",
   technique="Coq proof (refinement of an executable model to a relational spec, for all datasets) + per-run model/implementation differential (vm_compute)",
   design="5 C01, Appendix A"),
 "C02": dict(
   text="Theorems (Properties/C02.v, all closed) over Merklizer/Model.v + SMT/: for every entry list / dataset, hashers and tree parameters: C02_member (every entry gets an existence proof plus a Value "
        "holding its value, verifying against Root(); for merkletree.VerifyProof with its argument checks under range facts only - no injectivity or collision-freeness assumed), C02_nonmember "
        "(non-member key => verifying non-existence proof, no Value), C02_entry_iff (Entry <=> JSONLDType <=> existence), C02_value_iff_existence, C02_entries_stored, and C02_shared_member / "
        "C02_shared_nonmember for a CALLER-PROVIDED tree modelled as script state (after any history of other documents / direct Adds every earlier merklizer still proves its entries against the live Root()). "
        "Per run: every member path and six non-member families of every generated merklizer, shared-tree scenarios, compared on existence flag, siblings, aux node, value kind/hash, VerifyProof, "
        "Entry / JSONLDType; the auxiliary SMT driver compares the tree model with go-merkletree-sql (adds, proofs, 16 kinds of tampering).",
   note="Input of the model is the normalised dataset / the entries read through the hook merklize/verif_hooks.go; json-gold is not modelled. go-merkletree-sql is modelled (SMT/Model.v) and validated differentially, not verified.",
   technique="Coq proof (SMT completeness + entries-map/tree bijection invariant, shared tree as script state) + per-run model/implementation differential (vm_compute)",
   design="5 C02, 4.2"),
 "C16": dict(
   text="NON-INTERFERENCE theorems (Properties/C16.v, all closed): C16_noninterference - for every dataset, configured hasher Hc, script over {merklize, proof, entry/path/value via the merklizer's "
        "Options, root} and every pair of default-hasher STREAMS D, D' (a different package default at every call, so SetHasher interleavings are covered) the observations are identical; "
        "C16_noninterference_shared_tree (whole histories on a shared tree), C16_merklize_independent, C16_stored_hashes (every stored key/value hash is produced by Hc), C16_prime (integer ranges follow prime Hc). "
        "Per run: 7 hashers (default, salted HashBytes, wrapped Hash, both, small primes) x documents x derived objects incl. restore-from-bytes, with a COUNTING default hasher installed by SetHasher "
        "that must never be called, and integer-boundary documents per prime; model evaluated in Coq on the same scripts with recorded primitive hash tables.",
   note="Resolver-made paths: the model claims only which hasher they store (checked differentially). The pre-72b544a defect D7 is kept as a regression Example.",
   technique="Coq proof (non-interference of the default hasher, two-hasher parametric model) + per-run model/implementation differential with a counting default hasher",
   design="5 C16"),
 "C07": dict(
   text="Theorems (Properties/C07.v, all closed, no hypothesis on any external function for soundness): C07_sound / C07_decision - verify_bjj b = Ok iff the property's conjunction holds exactly "
        "(signature valid for Poseidon[hi,hv] under the auth-claim key; existence proof carries the auth claim to claimsTreeRoot; Poseidon[ctr,rtr,ror] = state; published or genesis of the DID; "
        "status nonce = auth nonce; status validates non-revoked), including behaviour on absent members; C07_complete (honest issuance model verifies; hypotheses: signature correctness, hash outputs are "
        "field elements, trees reachable by Add, honest resolvers, status nonce survives the JSON float64 round trip), C07_complete_refuted_json_number (D22), C07_auth_claim_in_issuers_tree and "
        "C07_not_revoked_in_tree (modulo an explicit Collision witness, via SMT soundness), C07_total. Per run ~870 bundles: synthetic issuers (keys, trees, genesis/later states, nonces up to 2^64) "
        "through the public VerifyProof with ONE FAULT AT A TIME (~95 faults); accept/reject/panic compared with the model evaluated in Coq on recorded primitive tables, plus an independent impl-side "
        "evaluation of the property's conjunction.",
   note="Poseidon, BabyJubJub, DID parsing, IDFromDID, CheckGenesisStateID and the encoding/json number round trip are recorded tables of primitive calls; the claim/credential binding check is C06's. "
        "Known finding D22 (honest nonce not float64-exact rejected).",
   technique="Coq proof of an exact decision characterisation + completeness over an issuance model (abstract crypto) + per-run single-fault differential through VerifyProof",
   design="5 C07"),
 "C08": dict(
   text="Theorems (Properties/C08.v, all closed): C08_sound / C08_decision (verify_smt = Ok iff the MTP is an EXISTENCE proof carrying (hi,hv) to claimsTreeRoot, Poseidon[ctr,rtr,ror] = state, "
        "state published or genesis; exact on absent members), C08_complete (every claim inserted in the synthetic claims tree verifies with the proof gen produces, via SMT.mt_completeness), "
        "C08_never_issued (for a well-formed tree without (hi,hv) no bundle naming that honest state verifies, or an explicit Collision is exhibited), C08_total, C08_verify_proof (dispatch). "
        "Per run ~650 bundles with one fault at a time (~65 faults: existence flag, each sibling, aux node, claim, each root, state, DID, resolver answer, optional members) through VerifyProof, compared with the model in Coq.",
   note="Same recorded primitives as C07; go-merkletree-sql modelled in SMT/ (validated differentially).",
   technique="Coq proof of an exact decision characterisation + completeness/never-issued via SMT theorems + per-run single-fault differential through VerifyProof",
   design="5 C08"),
 "C09": dict(
   text="Theorems (Properties/C09.v, 19, all closed; poseidon arbitrary): C09_decision_ok / _revoked / _other (validate_status = Ok iff resolved, tree state consistent, proof verifies for (nonce,0) "
        "against the revocation root and shows non-existence; Err revoked iff the same with existence; every other outcome a different error, never a panic), C09_tree_state (missing roots mean zero), "
        "C09_real_tree (for EVERY well-formed revocation tree and the honest answer built by gen: Ok iff nonce not in keys, revoked iff in keys), C09_sound / C09_sound_state (adversarial answers, modulo an "
        "explicit Collision witness), C09_http / C09_http_boundary (answer iff 200<=code<300, body < 16384 bytes - 16383 accepted, 16384 refused - and parses), C09_direct, C09_registry_*, C09_coerce. "
        "Per run ~5000 cases: real go-merkletree-sql revocation trees (0..300 nonces, clustered), members / near-misses / non-members, one fault at a time in the answer, HTTP stub (7 codes x sizes around the limit x malformed), "
        "registry histories; compared with the model in Coq.",
   note="json.Unmarshal of a status body and net/http transport behaviour are recorded oracles; hook verifiable/verif_hooks_c09.go (4a2704c).",
   technique="Coq proof of an exact decision table + real-tree iff via SMT completeness/soundness + per-run single-fault differential",
   design="5 C09"),
 "C18": dict(
   text="A VERIFIED REFERENCE VALIDATOR in Coq (Schema/): declarative relation Valid per keyword of the structural vocabulary for draft-07 and 2020-12 and an executable validate with fuel; theorems "
        "(Properties/C18.v, 40, all closed): C18_decides_bounded (for schemas whose $ref chains end within the fuel: validate = Some true <-> Valid, Some false <-> ~Valid), C18_decides / C18_sound / "
        "C18_complete (any definite verdict is exact, for all schemas incl. recursive ones; Valid <-> exists fuel, validate = Some true), C18_glue_exact / C18_fuel_adequate / C18_glue_total (the model of "
        "validator.go returns Ok iff Valid; errors for malformed schema/data text, non-object data, uncompilable schema), C18_unknown_members_ignored ($metadata), draft-specific $ref-sibling laws, "
        "C18_history_independent. PARTIAL: agreement of santhosh-tekuri/jsonschema with Valid is differential: per run ~1900 (schema, instance) pairs (generated schemas with conforming and one-violation "
        "instances, defective schemas, ~840 cases transcribed from the JSON-Schema test suite style, call histories sharing $id) are evaluated by the Coq validator and compared with ValidateData's verdict.",
   note="JSON text syntax, duplicate keys, keywords and regex syntax outside the subset are not modelled (the model answers 'unsupported'). Known findings D16 (float64 decoding), D17 (enum [] in the dependency).",
   technique="Coq proof (verified reference validator: executable = declarative semantics) + per-run differential against the library through ValidateData",
   design="5 C18"),
 "C15": dict(
   text="Theorems (Properties/C15.v, 20, all closed) over a model of json-gold's context processing as far as it decides the fate of an object key (Context.parse, createTermDefinition, ExpandIri for keys, "
        "property-/type-scoped and embedded contexts with reverting, the expandObject walk with its drop/reject decision and the swallowed error under @set/@list/@default) and of the option plumbing of "
        "all public entry points, for EVERY document loader behaviour (Normalize phase and Compact phase views): C15_safe (safe-mode Ok => every member anywhere - top level, nested, array items, @graph - "
        "has a keyword or absolute-IRI key; stated in full under a hypothesis excluding exactly the shapes of the known findings D26/D27), C15_safe_rejects(_err), C15_safe_load_failure (a failing "
        "Compact-phase context load is never Ok), C15_unsafe (unsafe result = result on strip_undefined d), C15_strip_is_removal, C15_default / C15_plumbing / C15_options_mode (default is safe; "
        "MerklizeJSONLD, W3CCredential.Merklize, ToCoreClaim, VerifyProof forward the caller's mode for every loader configuration incl. a nil default loader), C15_normalize_ignores_mode. "
        "PARTIAL: expansion result, ToRDF, URDNA2015 and compaction are an abstract backend quantified in every theorem. Per run ~180 (context, document) pairs with 0-3 undefined members of 15 kinds injected "
        "at 5 kinds of site plus defined look-alikes, both modes, 5 option lists, scripted flaky loaders, nil default loader; accept/reject, root, stripped document and dropped paths compared with the model in Coq.",
   note="json-gold's context processing and key classification are modelled for the generated subset (@reverse term definitions, @import, container maps with object values: 'unsupported'). Known findings D26, D27, D28 (dependency).",
   technique="Coq proof over a subset model of JSON-LD key expansion + option plumbing (abstract backend) + per-run model/implementation differential",
   design="5 C15"),
 "C10": dict(
   text="Theorems (Properties/C10.v, all closed): C10_agree - for every hasher, datatype and JSON value (bool, number, string) value_to_hash H F dt (raw v) = leaf_value H F dt lex where (lex, dt) is what the "
        "model of json-gold's native-value conversion to_rdf_lex produces (integrality decided on the IEEE bit pattern by the pure function float_int64); single float hypothesis: a canonical double re-parses "
        "to a float with the same canonical form (explicit premise, validated on every float of every run); C10_kind (the Value returned with a proof has the Go kind implied by the datatype and hashes to the leaf), "
        "C10_int_roundtrip, C10_hasher_pinned / C10_pinned_member (a later SetHasher changes no observation of an existing merklizer). Per run ~1400 literals of generated documents and a boundary grid: "
        "HashValueWithHasher(dt, RawValue(path)) vs proof Value MtEntry vs leaf in tree vs the model in Coq, incl. SetHasher sequences.",
   note="Known findings D13 family (RawValue indexes the document array, leaves the canonical order): c10-rawvalue-array-order, -repeated, -order-mixed, -node-array-order. strconv.ParseFloat / canonical double are recorded oracles.",
   technique="Coq proof (standalone hashing = leaf hashing for all values, float formatting abstract) + per-run model/implementation differential",
   design="5 C10"),
 "C13": dict(
   text="Theorems (Properties/C13.v, all closed, no hash-function hypothesis) over a typed-wire abstraction of the gob envelope: C13_roundtrip (for EVERY permutation pi in which Go's map iteration emits "
        "the entries, unmarshal (marshal pi mz) succeeds with the same tree, documents and flag; via SMT.add_all_perm_ok), C13_obs_eq (same root, hasher, entry set; identical Entry / JSONLDType / Proof results "
        "for every path and every default hasher), C13_member_proof, C13_entry / C13_entry_identity (single entry, every value kind), C13_tag_sound, C13_given_tree (with a caller tree: success iff its root "
        "equals the recorded root; tree untouched), C13_count / C13_total (negative or oversized declared count is an error; never panics or diverges on any wire value). Per run: real gob round trips of ~75 merklizers "
        "(all value kinds incl. negative big integers, times with offsets and nanoseconds), default and custom hashers, with/without caller tree (matching, empty, unrelated), 20 repeated marshals, tampered streams "
        "(version, count -1 / 2^40 in a child process under RLIMIT_AS, malformed entries), blob aliasing, post-restore SetHasher; wire model evaluated in Coq on the same entries.",
   note="gob and json byte formats are trusted (typed wire values); RawValue / ResolveDocPath are functions of fields the theorem shows unchanged; aliasing of returned bytes is checked impl-side only.",
   technique="Coq proof (round trip for every map-iteration permutation, observational equality) + per-run differential on real gob round trips",
   design="5 C13"),
 "C03": dict(
   text="Theorems (Properties/C03.v, 19, all closed) on the dataset->entries->tree pipeline: C03_graph_order (for every dataset with unique graph names and EVERY permutation of the Go map ds.Graphs, "
        "entries_from_rdf is equal on success and an error on both sides otherwise; _precise: literally the same outcome unless both stop in assertDatasetConsistency, where only which inconsistency is "
        "reported may differ - _same_error_refuted gives the witness, replayed 300x on the real code), C03_sort_canonical, C03_insertion_order(_entries,_fail) (same tree for every reordering of "
        "AddEntriesToMerkleTree, via SMT.add_all_perm_root), C03_deterministic (whole pipeline invariant under every permutation of the only map the code ranges over), C03_empty_tree / C03_given_tree "
        "(caller-provided tree), C03_value_binding (two entry lists equal except for one value with different encodings have different roots OR an explicit Collision; via SMT.Sound.binding, C04 injectivity), "
        "C03_spelling_dataset (respelling literals with equal conversions leaves entries unchanged when quads keep their place), C03_labels / C03_labels_root (an injective renaming of blank-node labels that is monotone on the graph names leaves entries and root literally unchanged; _needs_monotone / _needs_injective show both hypotheses are necessary). PARTIAL: invariance under JSON re-presentation (key order, array permutation, "
        "whitespace, number spellings, blank-node relabelling, inline vs remote context) is json-gold's and is checked metamorphically per run (~10k implementation evaluations: six transformations composed, "
        "50 repeats in one process and in parallel goroutines, provided trees, per-leaf replacement); entries and ROOT of the model are compared with the implementation on ~400 datasets under several graph orders.",
   note="Known findings D21 (+2 variants): lexical respelling of a typed literal can renumber siblings (json-gold / URDNA2015 order effect).",
   technique="Coq proof (permutation invariance of the model, SMT insertion-order independence and binding) + metamorphic search on the implementation + per-run model/implementation differential",
   design="5 C03"),
 "C05": dict(
   text="Theorems (Properties/C05.v, 8, all closed) over a model of ToCoreClaim with a two-cell store (caller's options object / local copy) and of the go-iden3-core claim setters: C05_layout "
        "(i0 = schema + 2^128*(subj + 8*exp + 16*upd + 32*mrk) + 2^160*version, v0 = nonce + 2^64*(exp mod 2^64), id and root at the requested positions), C05_slots, C05_schema_hash (last 16 digest bytes), "
        "C05_errors (exact iff for when a claim is produced, incl. 'root requested for a serialized schema is an error'), C05_pure (the caller's options come back unchanged), C05_history (for every call list "
        "over shared option/credential objects the i-th result equals that call made first), C05_deterministic (same result for every permutation of the term definitions). Per run ~1800 call histories / 3400 "
        "calls: 288-point option grid, merklized and serialized schemas with all 2^4 slot subsets, with/without subject id and expiration (incl. pre-1970), malformed attributes, two loaders serving different "
        "schema documents at the same URL; observables: the 8 raw slots decoded from MarshalBinary by the harness's own decoder, error class, deep compare of options and credential afterwards.",
   note="Keccak-256 (own implementation in the harness as oracle), DID->ID, the Merkle root, field encodings and JSON-LD term definitions are oracles. 'Credential unchanged' is checked impl-side (the model has no write to it).",
   technique="Coq proof (layout, purity over a store model, history independence) + per-run model/implementation differential over option grids and call histories",
   design="5 C05"),
 "C17": dict(
   text="Theorems (Properties/C17.v, 14, all closed): C17_agree (index i reported => i in {2,3,6,7} and every claim of a credential of that type holds the field's encoding in raw slot i), C17_claim_slots, "
        "C17_agree_iff (injective designations) / C17_first_slot, C17_malformed / C17_context_error / C17_not_named / C17_unknown_type (error cases of both operations coincide), C17_order (lookup independent "
        "of term-map order, over Permutation), C17_name_or_iri, C17_grammar (iden3:v1: + 1-4 key=path parts), C17_facade (the processor facade returns its component's result, missing component is an error) and "
        "C17_facade_json. Per run: EXHAUSTIVE over the 1296 slot assignments x lookups by type name and IRI x claims of credentials of those types, malformed attributes, alias-term schemas, facade vs direct "
        "parser for every option field; ~28000 model evaluations.",
   note="Same oracles as C05. Observation O3 (GetFieldSlotIndex(\"\")) is excluded by hypothesis.",
   technique="Coq proof (lookup/claim-building agreement, order independence) + exhaustive per-run differential over all slot assignments",
   design="5 C17"),
 "C14": dict(
   text="Theorems (Properties/C14.v, all closed) over a GENERIC model of encoding/json's struct codec driven by field descriptors that a go/ast translator REGENERATES from verifiable/*.go on every run "
        "(16 structs, 3 proof wire structs, Merklize's call sequence and deleted keys, extractProof dispatch, custom-codec set; aborts on anything it does not know): C14_lossless (for every document of the "
        "stated supported shape the struct view minus proof and the original minus proof have equal normalised members up to RFC3339 re-spelling and null-vs-absent optionals; side conditions vm_computed on the "
        "generated lists: C14_descriptors_lossless, C14_merklize_deletes_only_proof), C14_same_root, C14_proof_independent, C14_time_roundtrip, C14_roundtrip (decode/encode/decode, known and unknown proof kinds), "
        "C14_did_roundtrip. PARTIAL: encoding/json's reflection semantics are modelled and differentially validated, not verified. Per run ~680 documents: W3CCredential.Merklize().Root() vs "
        "MerklizeJSONLD(original - proof), independence of proofs, marshal/unmarshal equality, DID documents; re-encoded JSON trees compared with the Coq codec.",
   note="Hypotheses about external code only: float64 print/parse idempotent; merkletree.Proof codec idempotent. Hook verifiable/verif_hooks_c14.go.",
   technique="Coq proof (generic struct codec over descriptors regenerated by a translator; side conditions by vm_compute) + per-run model/implementation differential",
   design="5 C14"),
 "C11": dict(
   text="Theorems (Properties/C11.v, 18, all closed) over a Coq model of the JSON-LD SUBSET the generators emit (context parse with term definitions, prefixes, aliases, property- and type-scoped "
        "contexts with reverting; document walk `facts`) and FAITHFUL models of the repository's five resolvers: C11_doc_vs_store (the resolver's path is the path under which the document states the field, "
        "under the explicit D8 boundary `ok_along`), C11_field_is_fact, C11_ctx_vs_doc (field path from context = document-side path), C11_datatype(_recorded), C11_type_id (TypeIDFromContext = rdf:type fact "
        "of a root node of that type), C11_numeric_segment / _errors (on an array the segment selects a member, out of range is an error), six C11_errors_* theorems (unresolvable path / failing context => Err); "
        "refuted with witnesses where the current code violates the property: C11_doc_vs_store_refuted_type_scoped (D8), C11_numeric_segment_on_non_array_refuted, C11_single_member_index_refuted, "
        "C11_missing_index_refuted (D31). PARTIAL by construction (model-vs-model proof; full JSON-LD is not modelled): both sides are tied to the code per run - the resolver models against /repo's resolvers "
        "(path parts / error class) and `facts` against the entries MerklizeJSONLD stores - on ~200 generated schemas/documents incl. multi-typed nodes and context switches between calls; impl-side oracles "
        "compare doc path = context path = stored key, datatypes, type id and schema hash IRI.",
   note="Known findings D8, D14-non-array (pinned by the repository's TestIPFSContext), D14-single-member, D31. Document-order vs canonical-order indices are compared up to index values (cf. D13).",
   technique="Coq proof over a JSON-LD subset model + faithful resolver models (with refutation witnesses) + per-run two-sided model/implementation differential",
   design="5 C11"),
 "C06": dict(
   text="Theorems (Properties/C06.v, 14, all closed; Keccak, DID->ID, Poseidon arbitrary, no injectivity assumed): C06_complete (for every credential and every option object incl. nil, the claim produced at "
        "issuance passes the binding check), C06_readback (re-deriving with the options read back from the claim reproduces the claim, all positions x updatable x version x nonce), C06_exact (accepted "
        "claims are exactly the claims the credential yields under some options), C06_sound_meta(_rejects) (any change to an accepted claim that keeps the read-back options is rejected), "
        "C06_option_fields_free (the exact boundary: nonce/version/updatable are read back from the claim itself), C06_sound_doc (two credentials accepted for one claim have equal kind, schema hash, Merkle "
        "root or data slots, expiration, subject id), C06_sound_doc_type / _entries / _entries_values (equal type IRI / entry multisets, or an explicit truncated-Keccak / value-encoding / Poseidon Collision; "
        "via SMT.Sound.add_all_root_binding), C06_first(_accept) (VerifyProof runs the binding check before any proof-type specific step, for every proof type). Per run 1700 implementation evaluations / "
        "1421 model evaluations: option grid completeness, EVERY single-site modification of the credential document and of the claim, BJJ and SMT bundles end to end, multi-proof ordering, two-loader histories.",
   note="Completeness is for equal merklizer options at issuance and verification (O7). Known finding D29 (trailing-NUL strings hash alike). The merklizer enters as a recorded view tied per run.",
   technique="Coq proof (read-back idempotence, exactness, soundness modulo explicit collisions) + per-run single-site-modification differential",
   design="5 C06"),
 "C12": dict(
   text="Totality theorems (Properties/C12.v, 22, all closed) over control skeletons in which every nil dereference, every make with a decoded count, every nil hash element and every known library panic "
        "is an explicit Panic outcome, quantified over ALL values the decoders can deliver: hash_value_total (a field element or an error, never (nil,nil)), merklize_tail_total, entries_from_rdf_total / "
        "walk_fuel_bound / cycles_are_errors (via RDF/ThTotal.v), rdfentry_unmarshal_total, merklizer_unmarshal_total (0 <= slots requested by make <= len(input)), decode_mtp_total, "
        "dependency_decoder_total_iff_safe, proofs_/cred_/diddoc_/status_/gist_/auth_unmarshal_total, did_resolve_total, validate_status_total, verify_bjj_total, verify_smt_total, verify_proof_total; "
        "guards_are_needed (13 witnesses: for each repair commit the code before it panics, returns (nil,nil) or requests 2^40 slots), redundant_guards. Per run ~19000 evaluations / 14000 in Coq: "
        "EXHAUSTIVE removal of optional members of four valid bundles (all 2^k subsets), of the status answer (2^10), DID document (2^12), gist proof (2^6); gob token streams; cycle / shared-node / empty-string "
        "documents; hostile sibling lists; HTTP answers of both resolvers; HashValue on every Go kind; plus structure-aware mutation of every JSON position into 13 decoders, each risky call under recover, "
        "watchdog and a child process with RLIMIT_AS.",
   note="encoding/json, encoding/gob, json-gold and the crypto libraries are assumed total and are only searched. The allocation bound is proved for make([]RDFEntry, n) only; elsewhere measured. "
        "Observations (outside the quantifier): a json-gold panic in ExpandIri on a null term used as prefix; cubic URDNA2015 on deep nesting. Hook verifiable/verif_hooks_total.go.",
   technique="Coq proof (totality of control skeletons with explicit Panic/Diverge outcomes, guard-necessity witnesses) + exhaustive optional-member removal and structure-aware mutation search",
   design="5 C12"),
 "C04": dict(
   text="Theorems (Properties/C04.v) over the executable model of the value-encoding code, for every hasher, lexical form and odd modulus p>=3: "
        "integer types accepted exactly in range and encoded as v / p+v without reduction, injective per type, spelling-independent; booleans; "
        "dateTime = Unix ns mod p (injective for p>=2^70); other types = byte hash. The model is run against the implementation on ~8000 "
        "boundary/spelling/malformed cases over 9 primes per run.",
   note="Lexical grammars are those of Go's big.Rat.SetString (decimal forms) and time.Parse(RFC3339Nano) as modelled in Value/Model.v, Value/Time.v "
        "(forms with base prefixes/underscores are outside the modelled grammar and are not generated); strconv.ParseFloat and "
        "json-gold's canonical double are recorded oracles.",
   technique="Coq proof over an executable model + per-run model/implementation differential (vm_compute)",
   design="5 C04"),
}

NOT_YET = {}

# additions of the model-growth round (DESIGN.md 11.6): appended to the level text of each check
GROWTH = {
 "C01": "C01_literals_verbatim, C01_value_function_of_object, C01_every_quad_accounted, C01_ill_typed_rejected, C01_non_integer_rejected (RDF/Theory.v).",
 "C02": "Go-slice/heap model of Path.Append / Path.Prepend (Merklizer/SliceModel.v): C02_path_append_does_not_alias, C02_path_prepend_does_not_alias for every heap and growth policy, pre-fix versions refuted (D35, D36); random op programs on real Path values evaluated by the model (SliceRun.v).",
 "C03": "RDF/OrdFail.v: C03_integer_literal_rejected, C03_integer_spelling_invariant, C03_add_error_propagates (caller tree whose k-th Add fails), C03_duplicate_path_rejected; evaluated per run.",
 "C05": "Claim/OptsSlice.v: C05_options_backing_array_untouched (option slices sharing a backing array, on the slice model), append variant refuted; zcase per history.",
 "C06": "credential view recorded without W3CCredential.Merklize; C06_slot_subset_sound, C06_named_field_bound, two parseSlots variants refuted.",
 "C07": "credentialStatus object decoded by the model (decode_cs); C07_status_entry_only, C07_status_issuer_never_a_fallback, C07_verify_proof_list (whole proof list).",
 "C08": "C08_verify_proof_list (first proof of the requested type is bound and verified); near-miss hash faults in quick.",
 "C09": "byte-level one-JSON-value recogniser and HTTP gate (C09_http_gate), C09_nonexistence_aux_key_differs, registry histories (C09_registry_history).",
 "C10": "C10_proof_value_hasher, C10_proof_path_hasher_independent (Value/LeafPinned.v).",
 "C11": "tree keys under the case's hasher table (JsonLD/KeyModel.v): C11_resolver_hasher, C11_key_determined, C11_keys_agree, C11_stored_key_agrees.",
 "C12": "ParseSerializationAttr and document path walk with explicit nth_or_panic sites: C12_ser_attr_total, C12_doc_path_total, seeded bounds variants refuted; evaluated per run on the hostile strings / degenerate paths.",
 "C13": "every restore entry point modelled (from_bytes, unmarshal_zero, gob_decode): C13_restore_entry_points_agree, C13_hasher_defaulted, C13_roundtrip_entry_points.",
 "C14": "state-passing Merklize / ToCoreClaim / VerifyProof (Codec/State.v): C14_tocoreclaim_pure; C14_decode_overwrites, C14_auth_roundtrip, C14_gist_roundtrip.",
 "C15": "pipeline after the dataset with a caller tree that may fail at step k (JsonLD/Safe.v): C15_success_covers_entries, C15_add_failure_propagated, C15_success_covers_document, C15_unsafe_equals_stripped.",
 "C16": "SetHasher histories (mkh) and HashValueWithHasher ranges under the hasher's own prime (mkv) evaluated by the model.",
 "C17": "Claim/AttrAgree.v: C17_attr_parse_agrees (attribute STRING level, on Total's parser), C17_facade_transparent over the component subsets.",
 "C18": "RFC 8259 parser over the raw bytes (Schema/JsonText.v): C18_malformed_rejected, C18_text_exact, C18_facade_is_validator.",
 "C19": "Loader/RoutingKeys.v: C19_alternate_routed_by_scheme (one level of alternate link), C19_cache_key_is_url, C19_library_sees_every_line.",
 "C20": "Conc/LoaderModel.v: LoadDocument's HTTP branch as a state machine for any number of goroutines: C20_no_stale_after_expiry, C20_failure_needs_origin_failure, event logs of the stress runs judged in Coq; C20_writes_under_write_lock on the regenerated skeleton.",
}

def main():
    props = [json.loads(l) for l in open(os.path.join(ROOT, "properties.jsonl"))]
    checks, na = [], []
    for p in props:
        pid = p["id"]
        if pid in CHECKS:
            c = CHECKS[pid]
            checks.append({
                "property_id": pid,
                "quick_cmd": "./check %s --tier quick" % pid,
                "thorough_cmd": "./check %s --tier thorough" % pid,
                "evidence_file": "/verif/evidence/%s.json" % pid,
                "replay_cmd_template": "./check %s --replay {path}" % pid,
                "engine": "coq-proof+correspondence",
                "level_claimed": {"category": "proof", "text": c["text"] + (" Added in the model-growth round (DESIGN.md 11.6): " + GROWTH[pid] if pid in GROWTH else ""), "design_ref": "DESIGN.md section " + c["design"]},
                "level_note": LEVEL_NOTE_COMMON + c["note"],
                "technique": c["technique"],
            })
        else:
            na.append({"property_id": pid, "reason": NOT_YET.get(pid, "check not built yet in this round (planned: DESIGN.md section 5); not claimed until it exists")})
    m = {
        "version": 1,
        "setup_cmd": "./engine/setup.sh",
        "hooks": {
            "guard": "verif",
            "enable": "go build -tags verif (harness module /verif/harness with replace => /repo)",
            "baseline_off_cmd": "python3 /verif/engine/baseline.py",
            "source_commits": ["9e3fb9e", "2ae4494", "025b116", "4a2704c", "3c277b5", "14552f9"],
            "add_only": True,
        },
        "engines": [{"name": "coq-proof+correspondence", "path": "/verif/check",
                     "serves_properties": [c["property_id"] for c in checks],
                     "kind_free_text": "Coq 8.16.1 development (coq/) rebuilt and re-checked on every run; Go harness (harness/) built against /repo's working tree; model evaluated inside Coq on the implementation's inputs"}],
        "checks": checks,
        "notes": "All checks: exit 0 = property held on everything explored; exit 1 + VIOLATION line otherwise; KNOWN-FINDING lines for entries of known_findings.json.",
        "not_applicable": na,
    }
    json.dump(m, open(os.path.join(ROOT, "MANIFEST.json"), "w"), indent=1)
    print("MANIFEST.json: %d checks, %d not claimed" % (len(checks), len(na)))

if __name__ == "__main__":
    main()
