#!/usr/bin/env python3
"""Regenerates /verif/MANIFEST.json from the table below (kept valid at all times)."""
import json, os
ROOT = os.path.dirname(os.path.dirname(os.path.abspath(__file__)))

LEVEL_NOTE_COMMON = ("Trusted: Coq 8.16.1 kernel incl. vm_compute (no native_compute, no extraction in registered checks); "
                     "no axioms declared (Print Assumptions parsed into the evidence on every run); hand-written Gallina model tied to /repo "
                     "by the per-run correspondence check (implementation built from the working tree with -tags verif, same inputs "
                     "evaluated by the model inside Coq); Go harness and recorded tables of external primitives (Poseidon, float formatting). ")

CHECKS = {
 "C20": dict(
   text="Theorems (Properties/C20.v) on an interleaving semantics with a readers-writer lock, for ALL programs, thread counts, call lists and schedules: "
        "a program whose methods pass the verified checker discipline_ok has no reachable racy state, no runtime fault, no deadlock, and every run is "
        "linearizable to the sequential map semantics in program order (C20_discipline_sound, C20_program_order); the instance C20_cache / "
        "C20_cache_all_methods is decided by vm_compute on the lock/event skeleton REGENERATED from loaders/memory_cache.go by a go/ast translator on "
        "every run (it aborts on any construct it does not know); C20_pure: package variables of loaders/merklize are written only by the setters and no "
        "Merklizer/documentLoader method assigns a receiver field (translator tables). Partial: the Go memory model, races inside dependencies and the "
        "scheduler are not modelled; they are searched on every run by a race-instrumented stress program (2-64 goroutines, shared loader/cache/merklizer, "
        "cold/warm/expiring cache) whose per-goroutine results are compared with a sequential oracle, and Get/Set hand-over cases are evaluated in Coq.",
   note="Translator (harness/c20/translate.go, go/parser) is trusted to emit the skeleton of the code it reads; on failure it overwrites the generated file with an "
        "ill-typed term so a stale skeleton cannot be used. The race detector of the Go toolchain is used for the search only.",
   technique="Coq proof (interleaving semantics, verified lock-discipline checker) over a skeleton regenerated from source by a translator + race-detector stress search",
   design="5 C20"),
 "C19": dict(
   text="Theorems (Properties/C19.v, 17, all closed) by induction over ALL histories of {serve, fail, load, tick} (fold_left step), every configuration and every "
        "behaviour of the cachecontrol dependency (cc is an arbitrary function in the theorems, a recorded table in the runs): C19_inv (every cache entry stems "
        "from an earlier 200+JSON response with storable headers, expiry = that time + lifetime; embedded URLs never enter the cache), C19_fresh (a load returns "
        "Err, or the origin's current document with exactly one request, or an unexpired cached one, or the embedded one - in the last two cases the whole state "
        "incl. the request log is unchanged), C19_no_reuse(_headers) (no-store / private / no-cache / no-freshness / expired responses are never reused), "
        "C19_failures, C19_embedded_*, C19_route(_table,_dispatch) (complete routing decision table), C19_total. The model (LoadDocument, loadDocumentFromHTTP "
        "incl. the alternate-Link recursion on fuel, IPFS client/gateway paths, memoryCacheEngine) is run against the REAL loader on ~2300 histories per run "
        "(all histories of length <=3 over a 7-symbol alphabet + random ones over 16 header sets, 8 status codes, all schemes and configurations) with an injected "
        "transport, a virtual clock and recorded cachecontrol tables; compared: per-load outcome, requests issued, final cache contents.",
   note="Theorems are stated under the explicit hypothesis that no response carries an alternate Link header (outside the property's history alphabet); for that branch "
        "C19_link_reuse_refuted / C19_link_diverges_refuted record two observations (O-L1 unbounded recursion on a self-referential link, O-L2 a no-store alternate "
        "reused under the linking URL's policy). pquerna/cachecontrol and http.NewRequest are recorded oracles. Hook: loaders/verif_hooks_c19.go (025b116).",
   technique="Coq proof by induction over histories of an executable loader/cache model + per-run model/implementation differential on the real loader (vm_compute)",
   design="5 C19"),
 "C04": dict(
   text="Theorems (Properties/C04.v) over the executable model of the value-encoding code, for every hasher, lexical form and odd modulus p>=3: "
        "integer types accepted exactly in range and encoded as v / p+v without reduction, injective per type, spelling-independent; booleans; "
        "dateTime = Unix ns mod p (injective for p>=2^70); other types = byte hash. The model is run against the implementation on ~8000 "
        "boundary/spelling/malformed cases over 9 primes per run.",
   note="Lexical grammars are those of Go's big.Rat.SetString (decimal forms) and time.Parse(RFC3339Nano) as modelled in Value/Model.v, Value/Time.v "
        "(forms with base prefixes/underscores are outside the modelled grammar and are not generated); strconv.ParseFloat and "
        "json-gold's canonical double are recorded oracles.",
   technique="Coq proof over an executable model + per-run model/implementation differential (vm_compute)",
   design="5 C04"),
}

NOT_YET = {}

def main():
    props = [json.loads(l) for l in open(os.path.join(ROOT, "properties.jsonl"))]
    checks, na = [], []
    for p in props:
        pid = p["id"]
        if pid in CHECKS:
            c = CHECKS[pid]
            checks.append({
                "property_id": pid,
                "quick_cmd": "./check %s --tier quick" % pid,
                "thorough_cmd": "./check %s --tier thorough" % pid,
                "evidence_file": "/verif/evidence/%s.json" % pid,
                "replay_cmd_template": "./check %s --replay {path}" % pid,
                "engine": "coq-proof+correspondence",
                "level_claimed": {"category": "proof", "text": c["text"], "design_ref": "DESIGN.md section " + c["design"]},
                "level_note": LEVEL_NOTE_COMMON + c["note"],
                "technique": c["technique"],
            })
        else:
            na.append({"property_id": pid, "reason": NOT_YET.get(pid, "check not built yet in this round (planned: DESIGN.md section 5); not claimed until it exists")})
    m = {
        "version": 1,
        "setup_cmd": "./engine/setup.sh",
        "hooks": {
            "guard": "verif",
            "enable": "go build -tags verif (harness module /verif/harness with replace => /repo)",
            "baseline_off_cmd": "python3 /verif/engine/baseline.py",
            "source_commits": ["9e3fb9e", "2ae4494", "025b116"],
            "add_only": True,
        },
        "engines": [{"name": "coq-proof+correspondence", "path": "/verif/check",
                     "serves_properties": [c["property_id"] for c in checks],
                     "kind_free_text": "Coq 8.16.1 development (coq/) rebuilt and re-checked on every run; Go harness (harness/) built against /repo's working tree; model evaluated inside Coq on the implementation's inputs"}],
        "checks": checks,
        "notes": "All checks: exit 0 = property held on everything explored; exit 1 + VIOLATION line otherwise; KNOWN-FINDING lines for entries of known_findings.json.",
        "not_applicable": na,
    }
    json.dump(m, open(os.path.join(ROOT, "MANIFEST.json"), "w"), indent=1)
    print("MANIFEST.json: %d checks, %d not claimed" % (len(checks), len(na)))

if __name__ == "__main__":
    main()
