#!/usr/bin/env python3
"""seedtest.py — run registered checks against a seeded change without touching /repo.

  engine/seedtest.py seeded/<id> [--props C01,C02 | --all] [--validate] [--tier quick]

A seeded change is a directory with patch.diff, meta.json ({"property": "Cxx", "demo_file": "<path in repo>",
"demo_src": "<file in the seed dir>", "demo_run": "<go test command run in the repo root>", ...}).
The change is applied to a scratch git worktree of /repo's HEAD (plus /repo's uncommitted hook files), the
checks run with VERIF_REPO pointing at it, and everything is removed afterwards.
--validate also confirms: the patched tree builds, the pinned test suite still passes (engine/baseline.py),
the demonstration fails with the patch and passes without it.
Writes seeded/<id>/result.json."""
import sys, os, json, subprocess, tempfile, shutil, glob, time
ROOT = os.path.dirname(os.path.dirname(os.path.abspath(__file__)))
ENV = dict(os.environ, GOFLAGS="-mod=mod", GOPROXY="off", GOSUMDB="off", GOTOOLCHAIN="local")

def sh(cmd, cwd=None, env=None, timeout=3600):
    p = subprocess.run(cmd, shell=True, cwd=cwd, env=env or ENV, stdout=subprocess.PIPE, stderr=subprocess.STDOUT, text=True, errors="replace", timeout=timeout)
    return p.returncode, p.stdout

def mkwt():
    wt = tempfile.mkdtemp(prefix="seedwt-", dir="/tmp")
    os.rmdir(wt)
    rc, out = sh("git -C /repo worktree add -q --detach %s HEAD" % wt)
    assert rc == 0, out
    # uncommitted add-only hook files of /repo
    rc, out = sh("git -C /repo ls-files --others --exclude-standard")
    for f in out.split():
        if os.path.basename(f).startswith("verif_hooks"):
            shutil.copy(os.path.join("/repo", f), os.path.join(wt, f))
    return wt

def rmwt(wt):
    sh("git -C /repo worktree remove --force %s" % wt)
    shutil.rmtree(wt, ignore_errors=True)
    sh("git -C /repo worktree prune")

def demo(wt, sd, meta):
    if not meta.get("demo_run"):
        return None
    if meta.get("demo_file"):
        shutil.copy(os.path.join(sd, meta["demo_src"]), os.path.join(wt, meta["demo_file"]))
    rc, out = sh("timeout 600 " + meta["demo_run"] + " 2>&1 | tail -c 3000", cwd=wt)
    # `tail` hides the exit code: recompute
    rc, _ = sh("timeout 600 " + meta["demo_run"] + " >/dev/null 2>&1", cwd=wt)
    if meta.get("demo_file"):
        os.remove(os.path.join(wt, meta["demo_file"]))
    return rc, out

def main():
    a = sys.argv[1:]
    sd = os.path.abspath(a[0])
    meta = json.load(open(os.path.join(sd, "meta.json")))
    props = [meta["property"]] if "property" in meta else []
    validate = "--validate" in a
    tier = "quick"
    if "--props" in a:
        props = a[a.index("--props") + 1].split(",")
    if "--all" in a:
        props = [c["property_id"] for c in json.load(open(os.path.join(ROOT, "MANIFEST.json")))["checks"]]
    if "--tier" in a:
        tier = a[a.index("--tier") + 1]
    res = {"seed": os.path.basename(sd), "property": meta.get("property", meta.get("package", "")), "at": time.strftime("%Y-%m-%dT%H:%M:%SZ", time.gmtime()),
           "repo_head": sh("git -C /repo rev-parse --short HEAD")[1].strip(), "checks": {}}
    wt = mkwt()
    try:
        if validate:
            d0 = demo(wt, sd, meta)
            res["demo_without_patch_rc"] = d0[0] if d0 else None
        rc, out = sh("git -C %s apply %s" % (wt, os.path.join(sd, "patch.diff")))
        if rc != 0:
            # the repository moved on since the change was written (later fix: commits): three-way merge
            sh("git -C %s checkout -- . " % wt)
            rc, out = sh("patch -p1 -F3 --no-backup-if-mismatch -i %s" % os.path.join(sd, "patch.diff"), cwd=wt)
            res["applied_with_fuzz"] = rc == 0
        if rc != 0:
            res["error"] = "patch does not apply: " + out[-1000:]
            print(res["error"])
            return res
        if validate:
            rc, out = sh("go build ./... && go vet ./... 2>&1 | tail -5", cwd=wt)
            res["builds"] = rc == 0
            rc, out = sh("python3 %s/engine/baseline.py" % ROOT, env=dict(ENV, REPO=wt))
            res["baseline_passes"] = rc == 0
            res["baseline_out"] = out[-500:]
            d1 = demo(wt, sd, meta)
            res["demo_with_patch_rc"] = d1[0] if d1 else None
            res["demo_with_patch_out"] = d1[1][-1500:] if d1 else None
        for p in props:
            t0 = time.time()
            rc, out = sh("./check %s --tier %s" % (p, tier), cwd=ROOT, env=dict(ENV, VERIF_REPO=wt))
            vio = [l for l in out.split("\n") if l.startswith("VIOLATION")]
            res["checks"][p] = {"rc": rc, "violations": vio, "wall_s": round(time.time() - t0, 1),
                                "tail": out[-1500:] if rc != 0 else ""}
            print("%s: rc=%d %s" % (p, rc, vio[:2]))
    finally:
        rmwt(wt)
        import hashlib
        alt = os.path.join(ROOT, ".scratch", "alt-" + hashlib.sha1(wt.encode()).hexdigest()[:10])
        # keep replay files of the detected violations beside the seed, drop the rest
        rp = os.path.join(alt, "evidence", "replay")
        if os.path.isdir(rp):
            os.makedirs(os.path.join(sd, "replays"), exist_ok=True)
            for f in glob.glob(os.path.join(rp, "*.json"))[:6]:
                shutil.copy(f, os.path.join(sd, "replays"))
        shutil.rmtree(alt, ignore_errors=True)
        try: os.remove(os.path.join(ROOT, ".scratch", os.path.basename(alt) + ".lock"))
        except OSError: pass
    res["caught_by"] = sorted(p for p, r in res["checks"].items() if r["rc"] != 0)
    if not validate:
        # keep the validation record of an earlier --validate run
        try:
            old = json.load(open(os.path.join(sd, "result.json")))
            for k in ("demo_without_patch_rc", "builds", "baseline_passes", "baseline_out", "demo_with_patch_rc", "demo_with_patch_out"):
                if k in old and k not in res:
                    res[k] = old[k]
        except (OSError, ValueError):
            pass
    json.dump(res, open(os.path.join(sd, "result.json"), "w"), indent=1)
    print("caught by:", res["caught_by"])
    return res

if __name__ == "__main__":
    main()
