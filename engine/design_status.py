#!/usr/bin/env python3
"""Refresh the per-property status table of DESIGN.md section 11.2 from evidence/Cxx.json (numbers) and the static
descriptions below (text)."""
import json, os
ROOT = os.path.dirname(os.path.dirname(os.path.abspath(__file__)))
D = {
 "C01": ("RDF (README.md)", "datasets (json-gold output + hand-built): entries, leaf accounting", "JSON-LD expansion, URDNA2015", "holds (D25, D33 repaired)"),
 "C02": ("Merklizer, SMT (README.md)", "merklizers x all member + 6 non-member path families, built/resolved paths, shared trees; SMT aux driver", "json-gold; go-merkletree-sql modelled", "holds (D36 repaired)"),
 "C03": ("RDF/Ord* (README-Order.md)", "entries + ROOT under several graph orders and label renamings; metamorphic re-presentations, boundary sweeps, remote contexts through the real loader", "JSON re-presentation invariance is json-gold's: metamorphic only", "known D21 x3 (D34 repaired)"),
 "C04": ("Value", "boundary grid x 9 primes (shared-modulus hashers) x lexical / Go-typed spellings, instants at machine-word boundaries, floats under integer types", "lexical grammar of big.Rat / time.Parse as modelled", "holds"),
 "C05": ("Claim (README.md)", "call histories over option grids, failing calls, two loaders, multi-context credentials", "Keccak, DID->ID, root and encodings are oracles", "holds (D6, D11 repaired)"),
 "C06": ("Claim/Binding* (README_Binding.md)", "every single-site modification of document and claim; BJJ/SMT bundles end to end; two-loader histories", "as C05", "known D29"),
 "C07": ("Verify (README-C07-C08.md)", "bundles, one fault at a time (~110 faults), key perturbations, DID documents with several methods; thorough: weak-comparison probes", "Poseidon, BabyJubJub, DID functions: recorded primitive tables", "known D22"),
 "C08": ("Verify", "bundles, one fault at a time; thorough: weak-comparison probes", "as C07", "holds (D4, D5 repaired)"),
 "C09": ("Verify/Status* (README.C09.md)", "real revocation trees, faults through Go values AND raw JSON, HTTP decode matrix, registry histories; thorough: weak-comparison probes", "net/http recorded; JSON decode now modelled (decode_mtp)", "holds"),
 "C10": ("Value/Leaf* (README-Leaf.md)", "every literal of generated documents + grid; SetHasher sequences; shared-modulus hashers", "float formatting: one explicit hypothesis, validated per run", "known D13 x4 (D23 repaired)"),
 "C11": ("JsonLD (README.md)", "resolver models vs /repo's resolvers; facts vs stored entries; path aliasing checks", "JSON-LD subset model (partial by construction)", "known D8, D14-non-array, D14-single-member, D31 (D9, D14, D35 repaired)"),
 "C12": ("Total (README.md)", "exhaustive optional-member removal (+ recomputed dependants), gob streams, hostile proofs and member names, HTTP resolvers, paths, HashValue on every Go kind", "decoders of dependencies are searched, not modelled", "holds (D1-D3, D10, D12, D15, D20, D30, D33 repaired)"),
 "C13": ("Merklizer/Binary* (README-Binary.md)", "real gob round trips, tampered streams, blob aliasing, post-restore SetHasher", "gob / json byte formats trusted (typed wire)", "holds (D2 repaired)"),
 "C14": ("Codec (README.md)", "documents through the generic codec in Coq; struct view vs raw JSON roots; decode-into-non-zero; purity after failing calls", "encoding/json reflection semantics modelled", "holds"),
 "C15": ("JsonLD/Safe* (README.Safe.md)", "(context, document) pairs x undefined-member kinds x sites, 5 option lists, flaky loaders, io.Closer readers, nil default loader", "expansion backend abstract", "known D26, D27, D28"),
 "C16": ("Merklizer", "scripts x 9 hasher families (incl. shared-modulus), every path-producing API, counting default hasher", "as C02", "holds (D7 repaired)"),
 "C17": ("Claim/Slots", "exhaustive 1296 slot assignments, alias terms, multi-context, type placement, facade vs parser", "as C05", "holds (D11 repaired)"),
 "C18": ("Schema (README.md)", "(schema, instance) pairs, call histories, big-integer keywords, Load->ValidateData, $id references", "library vs `Valid` is differential", "known D16, D17 (D18, D19 repaired)"),
 "C19": ("Loader (README.md)", "histories on the real loader (24 header variants, multi-line Cache-Control, Link observation stream)", "cachecontrol is a recorded table", "holds (D24, D32 repaired)"),
 "C20": ("Conc (README.md)", "Get/Set hand-over programs in Coq; race-instrumented stress (3 loaders, IPFS aliases, slow origins)", "Go memory model, dependency races, scheduler: searched only", "holds"),
}
rows = ["| id | Coq development (README) | property theorems / obligations | impl. evaluations / model evaluations in Coq (quick, seed 1) | what the per-run correspondence covers | boundary (modelled, not verified) | on the unchanged tree |",
        "|---|---|---|---|---|---|---|"]
for pid in sorted(D):
    e = json.load(open(os.path.join(ROOT, "evidence", pid + ".json")))
    c = e["coverage"]
    dev, what, bnd, st = D[pid]
    rows.append("| %s | %s | %d / %d | %d / %d (%d shards, %.0f s) | %s | %s | %s |" % (
        pid, dev, len(c.get("property_theorems", [])), c["obligations"], c["evaluations"], c["model_evaluations_in_coq"], c["shards"], e["wall_s"], what, bnd, st))
p = os.path.join(ROOT, "DESIGN.md")
s = open(p).read()
a = s.index("<!-- STATUSTABLE-BEGIN -->") + len("<!-- STATUSTABLE-BEGIN -->\n")
b = s.index("<!-- STATUSTABLE-END -->")
open(p, "w").write(s[:a] + "\n".join(rows) + "\n" + s[b:])
print("status table refreshed")
