#!/bin/bash
# MANIFEST.setup_cmd: build the framework from files on disk only (offline).
set -e
cd "$(dirname "$0")/.."
export GOFLAGS=-mod=mod GOPROXY=off GOSUMDB=off GOTOOLCHAIN=local
mkdir -p .scratch evidence
./engine/gobuild.sh
[ -x ./engine/translate.sh ] && ./engine/translate.sh || true
./engine/coqbuild.sh
echo "setup ok"
