#!/bin/bash
# MANIFEST.setup_cmd: build the framework from files on disk only (offline).
# Every check rebuilds what it needs itself (its own harness binary from the repository's working tree,
# its own Coq targets), so this script is a warm-up: it never fails because one property's part is broken.
cd "$(dirname "$0")/.."
export GOFLAGS=-mod=mod GOPROXY=off GOSUMDB=off GOTOOLCHAIN=local
mkdir -p .scratch evidence coq/Generated
rc=0
for d in harness/cmd/vh-*; do
  [ -d "$d" ] || continue
  if VERIF_HARNESS_PKG=./cmd/$(basename "$d") ./engine/gobuild.sh; then
    VERIF_HARNESS_PKG=./cmd/$(basename "$d") ./engine/translate.sh || echo "setup: translator of $d failed"
  else
    echo "setup: $d does not build"; rc=1
  fi
done
./engine/coqbuild.sh -k || { echo "setup: Coq development has errors (see above)"; rc=1; }
[ $rc = 0 ] && echo "setup ok" || echo "setup finished with errors"
exit 0
