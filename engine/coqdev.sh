#!/bin/bash
# Development helper: compile the given Coq files (paths relative to /verif/coq), in the
# order given, without touching the shared Makefile.  Usage: coqdev.sh Loader/Model.v Loader/Theory.v
cd "$(dirname "$0")/../coq"
for f in "$@"; do
  echo "COQC $f"
  timeout ${COQ_FILE_TIMEOUT:-1200} coqc -Q . GSP -w -notation-overridden "$f" || exit 1
done
