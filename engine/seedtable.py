#!/usr/bin/env python3
"""Print a markdown table of the seeded changes (seeded/<id>/meta.json + result.json)."""
import json, os, glob
ROOT = os.path.dirname(os.path.dirname(os.path.abspath(__file__)))
print("| seed | property | change (one line) | needs, to manifest | validated | caught by (quick) |")
print("|---|---|---|---|---|---|")
for d in sorted(glob.glob(os.path.join(ROOT, "seeded", "*"))):
    if not os.path.exists(os.path.join(d, "meta.json")):
        continue
    m = json.load(open(os.path.join(d, "meta.json")))
    r = json.load(open(os.path.join(d, "result.json"))) if os.path.exists(os.path.join(d, "result.json")) else {}
    val = "yes" if (r.get("builds") and r.get("baseline_passes") and r.get("demo_without_patch_rc") == 0 and r.get("demo_with_patch_rc") not in (0, None)) else ("-" if "builds" not in r else "NO")
    caught = ", ".join(r.get("caught_by", [])) or ("MISSED" if r else "not run")
    t = lambda s, n: (s[:n] + "…") if len(s) > n else s
    print("| %s | %s | %s | %s | %s | %s |" % (os.path.basename(d), m["property"], t(m.get("title", "").replace("|", "/"), 110),
                                             t(m.get("what_it_needs_to_manifest", "").replace("|", "/").replace("\n", " "), 160), val, caught))
