#!/usr/bin/env python3
"""Refresh the seeded-change table of DESIGN.md section 11.4 from seeded/*/result.json."""
import subprocess, os
ROOT = os.path.dirname(os.path.dirname(os.path.abspath(__file__)))
tab = subprocess.run(["python3", os.path.join(ROOT, "engine", "seedtable.py")], capture_output=True, text=True).stdout
p = os.path.join(ROOT, "DESIGN.md")
s = open(p).read()
a = s.index("<!-- SEEDTABLE-BEGIN -->") + len("<!-- SEEDTABLE-BEGIN -->\n")
b = s.index("<!-- SEEDTABLE-END -->")
open(p, "w").write(s[:a] + tab + s[b:])
print("table refreshed:", tab.count("\n") - 2, "seeds")
