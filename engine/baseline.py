#!/usr/bin/env python3
"""Run /repo's test suite (hooks guard OFF unless --tags given) and compare the set of
passing tests with /root/.vp/BASELINE.json's stable_pass list.  Exit 0 iff all 135 pass."""
import json, subprocess, sys, os
repo = os.environ.get("REPO", "/repo")
tags = []
if "--tags" in sys.argv:
    tags = ["-tags", sys.argv[sys.argv.index("--tags") + 1]]
env = dict(os.environ, GOFLAGS="-mod=mod", GOPROXY="off", GOSUMDB="off", GOTOOLCHAIN="local")
p = subprocess.run(["go", "test"] + tags + ["-json", "-vet=off", "-count=1", "-timeout", "25m", "./..."],
                   cwd=repo, env=env, stdout=subprocess.PIPE, stderr=subprocess.DEVNULL, text=True)
passed = set()
for line in p.stdout.split("\n"):
    try:
        e = json.loads(line)
    except Exception:
        continue
    if e.get("Action") == "pass" and e.get("Test"):
        passed.add("%s::%s" % (e["Package"], e["Test"]))
base = json.load(open("/root/.vp/BASELINE.json"))
want = set(base["stable_pass"])
missing = sorted(want - passed)
print("baseline: %d/%d stable tests pass; %d other passing" % (len(want & passed), len(want), len(passed - want)))
for m in missing:
    print("MISSING", m)
# second run: everything that is reachable offline.  In the plain run the four tests that need the network fail and one
# of them (TestWithHasherWorkflow) panics, which aborts the rest of package merklize, so TestRoots, TestIPFSContext, ...
# never run there.  They do run with the four skipped, and none of them may fail.
SKIP = "^(TestMerklizer_BinaryMashaler|TestMerklizer_BinaryMashaler_3|TestMerklizer_BinaryMashaler_WithMT|TestWithHasherWorkflow)$"
p2 = subprocess.run(["go", "test"] + tags + ["-json", "-vet=off", "-count=1", "-timeout", "25m", "-skip", SKIP, "./..."],
                    cwd=repo, env=env, stdout=subprocess.PIPE, stderr=subprocess.DEVNULL, text=True)
failed2, passed2 = set(), 0
for line in p2.stdout.split("\n"):
    try:
        e = json.loads(line)
    except Exception:
        continue
    if e.get("Test") and e.get("Action") == "fail":
        failed2.add("%s::%s" % (e["Package"], e["Test"]))
    if e.get("Test") and e.get("Action") == "pass":
        passed2 += 1
print("extended run (network tests skipped): %d pass, %d fail" % (passed2, len(failed2)))
for m in sorted(failed2):
    print("FAILED", m)
sys.exit(0 if not missing and not failed2 and p2.returncode == 0 else 1)
