#!/usr/bin/env python3
"""Run /repo's test suite (hooks guard OFF unless --tags given) and compare the set of
passing tests with /root/.vp/BASELINE.json's stable_pass list.  Exit 0 iff all 135 pass."""
import json, subprocess, sys, os
repo = os.environ.get("REPO", "/repo")
tags = []
if "--tags" in sys.argv:
    tags = ["-tags", sys.argv[sys.argv.index("--tags") + 1]]
env = dict(os.environ, GOFLAGS="-mod=mod", GOPROXY="off", GOSUMDB="off", GOTOOLCHAIN="local")
p = subprocess.run(["go", "test"] + tags + ["-json", "-vet=off", "-count=1", "-timeout", "25m", "./..."],
                   cwd=repo, env=env, stdout=subprocess.PIPE, stderr=subprocess.DEVNULL, text=True)
passed = set()
for line in p.stdout.split("\n"):
    try:
        e = json.loads(line)
    except Exception:
        continue
    if e.get("Action") == "pass" and e.get("Test"):
        passed.add("%s::%s" % (e["Package"], e["Test"]))
base = json.load(open("/root/.vp/BASELINE.json"))
want = set(base["stable_pass"])
missing = sorted(want - passed)
print("baseline: %d/%d stable tests pass; %d other passing" % (len(want & passed), len(want), len(passed - want)))
for m in missing:
    print("MISSING", m)
sys.exit(0 if not missing else 1)
