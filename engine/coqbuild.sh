#!/bin/bash
# Build the Coq development (full .vo build, no -vos). Usage: coqbuild.sh [make targets]
# VERIF_COQ_DIR (default /verif/coq) selects the tree.
set -e
cd "${VERIF_COQ_DIR:-$(dirname "$0")/../coq}"
{
  echo "-Q . GSP"
  echo "-arg -w -arg -notation-overridden,-deprecated-hint-without-locality,-deprecated-instance-without-locality"
  find . -name '*.v' -not -path './Cases/*' | sed 's|^\./||' | LC_ALL=C sort
} > _CoqProject.new
if ! cmp -s _CoqProject.new _CoqProject 2>/dev/null; then
  mv _CoqProject.new _CoqProject
  coq_makefile -f _CoqProject -o Makefile > /dev/null
else
  rm -f _CoqProject.new
  [ -f Makefile ] || coq_makefile -f _CoqProject -o Makefile > /dev/null
fi
ulimit -s unlimited 2>/dev/null || true
exec timeout ${COQ_BUILD_TIMEOUT:-3000} make -j${COQ_JOBS:-16} "$@"
