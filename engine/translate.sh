#!/bin/bash
# Regenerate coq/Generated/*.v from the repository's current Go source (translators registered in the harness).
# VERIF_REPO selects the tree (default /repo); VERIF_COQ_DIR the Coq tree; VERIF_HARNESS_BIN the harness binary.
set -e
cd "$(dirname "$0")/.."
COQ=${VERIF_COQ_DIR:-$PWD/coq}
mkdir -p "$COQ/Generated"
BIN=harness/vharness
[ -n "$VERIF_HARNESS_PKG" ] && [ "$VERIF_HARNESS_PKG" != "." ] && BIN=harness/bin/$(basename "$VERIF_HARNESS_PKG")
[ -n "$VERIF_HARNESS_BIN" ] && BIN=$VERIF_HARNESS_BIN
export VERIF_REPO=${VERIF_REPO:-/repo}
exec "$BIN" -prop TRANSLATE -out "$COQ/Generated"
