#!/bin/bash
# Regenerate coq/Generated/*.v from /repo's current Go source (translators registered in the harness).
set -e
cd "$(dirname "$0")/.."
mkdir -p coq/Generated
BIN=harness/vharness
[ -n "$VERIF_HARNESS_PKG" ] && [ "$VERIF_HARNESS_PKG" != "." ] && BIN=harness/bin/$(basename "$VERIF_HARNESS_PKG")
exec "$BIN" -prop TRANSLATE -out coq/Generated
