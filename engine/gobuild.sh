#!/bin/bash
# Build the harness against /repo's current working tree (hooks on, offline).
set -e
cd "$(dirname "$0")/../harness"
export GOFLAGS=-mod=mod GOPROXY=off GOSUMDB=off GOTOOLCHAIN=local CGO_ENABLED=${CGO_ENABLED:-0}
cp /repo/go.sum go.sum
exec go build -tags verif -o vharness .
