#!/bin/bash
# Build the harness against the repository's current working tree (hooks on, offline).
# VERIF_HARNESS_PKG selects a per-property development binary (./cmd/vh-c19);
# default: the aggregated binary with every registered driver.
# VERIF_REPO (default /repo) selects the tree; for any other tree a private go.mod with the
# replace directive rewritten is used (-modfile) and VERIF_HARNESS_OUT names the binary.
set -e
cd "$(dirname "$0")/../harness"
export GOFLAGS=-mod=mod GOPROXY=off GOSUMDB=off GOTOOLCHAIN=local CGO_ENABLED=${CGO_ENABLED:-0}
REPO=${VERIF_REPO:-/repo}
PKG=${VERIF_HARNESS_PKG:-.}
# VERIF_COVER=1: statement-coverage instrumentation of the library's packages (thorough tier; the evidence then says
# how much of the implementation the correspondence run executed)
COVER=""
[ -n "$VERIF_COVER" ] && COVER="-cover -coverpkg=vharness/...,github.com/iden3/go-schema-processor/v2/..."
if [ "$REPO" != "/repo" ]; then
  OUT=${VERIF_HARNESS_OUT:?VERIF_HARNESS_OUT must be set with VERIF_REPO}
  MD=$(dirname "$OUT")/gomod; mkdir -p "$MD"
  sed "s|=> /repo\$|=> $REPO|" go.mod > "$MD/go.mod"
  cat "$REPO/go.sum" go.sum.extra 2>/dev/null | sort -u > "$MD/go.sum"
  exec go build $COVER -modfile="$MD/go.mod" -tags verif -o "$OUT" "$PKG"
fi
cmp -s /repo/go.sum go.sum.base 2>/dev/null || { cp /repo/go.sum go.sum.base; cat /repo/go.sum go.sum.extra 2>/dev/null | sort -u > go.sum; }
[ -f go.sum ] || cat /repo/go.sum go.sum.extra 2>/dev/null | sort -u > go.sum
if [ -f go.sum.extra ] && ! grep -qxFf go.sum.extra go.sum 2>/dev/null; then cat /repo/go.sum go.sum.extra | sort -u > go.sum; fi
OUT=${VERIF_HARNESS_OUT:-vharness}
[ "$PKG" != "." ] && [ -z "$VERIF_HARNESS_OUT" ] && OUT=bin/$(basename "$PKG")
mkdir -p bin
exec go build $COVER -tags verif -o "$OUT" "$PKG"
