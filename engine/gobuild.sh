#!/bin/bash
# Build the harness against /repo's current working tree (hooks on, offline).
# VERIF_HARNESS_PKG selects a per-property development binary (./cmd/vh-c19);
# default: the aggregated binary with every registered driver.
set -e
cd "$(dirname "$0")/../harness"
export GOFLAGS=-mod=mod GOPROXY=off GOSUMDB=off GOTOOLCHAIN=local CGO_ENABLED=${CGO_ENABLED:-0}
cmp -s /repo/go.sum go.sum.base 2>/dev/null || { cp /repo/go.sum go.sum.base; cat /repo/go.sum go.sum.extra 2>/dev/null | sort -u > go.sum; }
[ -f go.sum ] || cat /repo/go.sum go.sum.extra 2>/dev/null | sort -u > go.sum
PKG=${VERIF_HARNESS_PKG:-.}
OUT=vharness
[ "$PKG" != "." ] && OUT=bin/$(basename "$PKG")
mkdir -p bin
exec go build -tags verif -o "$OUT" "$PKG"
