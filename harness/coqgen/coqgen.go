// Package coqgen writes per-run Coq case files: interned strings, limb-encoded
// big numbers, list literals.  See /verif/DESIGN.md section 2.3.
package coqgen

import (
	"fmt"
	"math/big"
	"os"
	"strings"
)

var mask62 = new(big.Int).Sub(new(big.Int).Lsh(big.NewInt(1), 62), big.NewInt(1))

// Limbs renders |z| as a little-endian list of 62-bit Uint63 literals.
func Limbs(z *big.Int) string {
	a := new(big.Int).Abs(z)
	if a.Sign() == 0 {
		return "[]"
	}
	var parts []string
	for a.Sign() > 0 {
		l := new(big.Int).And(a, mask62)
		parts = append(parts, l.String())
		a.Rsh(a, 62)
	}
	return "[" + strings.Join(parts, ";") + "]"
}

// SNum renders a signed number as (neg, limbs).
func SNum(z *big.Int) string {
	neg := "false"
	if z.Sign() < 0 {
		neg = "true"
	}
	return "(" + neg + "," + Limbs(z) + ")"
}

func SNumI(v int64) string { return SNum(big.NewInt(v)) }

// OptLimbs renders Some limbs / None.
func OptLimbs(z *big.Int) string {
	if z == nil {
		return "None"
	}
	return "(Some " + Limbs(z) + ")"
}

func Bool(b bool) string {
	if b {
		return "true"
	}
	return "false"
}

func Nat(n int) string { return fmt.Sprintf("%d%%nat", n) }

func List(items []string) string {
	return "[" + strings.Join(items, ";\n  ") + "]"
}

// StringLit renders a Go string (arbitrary bytes) as a Coq string term.
func StringLit(s string) string {
	printable := true
	for i := 0; i < len(s); i++ {
		if s[i] < 0x20 || s[i] > 0x7e {
			printable = false
			break
		}
	}
	if printable {
		return `"` + strings.ReplaceAll(s, `"`, `""`) + `"%string`
	}
	// mixed: build with explicit ascii codes
	var sb strings.Builder
	sb.WriteString("(")
	run := []byte{}
	flush := func() {
		if len(run) > 0 {
			sb.WriteString(`String.append "` + strings.ReplaceAll(string(run), `"`, `""`) + `"%string (`)
			run = run[:0]
		}
	}
	closers := 0
	for i := 0; i < len(s); i++ {
		c := s[i]
		if c >= 0x20 && c <= 0x7e {
			run = append(run, c)
			continue
		}
		if len(run) > 0 {
			flush()
			closers++
		}
		sb.WriteString(fmt.Sprintf(`String "%03d"%%char (`, c))
		closers++
	}
	if len(run) > 0 {
		sb.WriteString(`"` + strings.ReplaceAll(string(run), `"`, `""`) + `"%string`)
	} else {
		sb.WriteString("EmptyString")
	}
	sb.WriteString(strings.Repeat(")", closers))
	sb.WriteString(")")
	return sb.String()
}

// File accumulates one shard.
type File struct {
	header  []string
	strs    map[string]string
	strDefs []string
	body    []string
}

func NewFile(imports ...string) *File {
	f := &File{strs: map[string]string{}}
	f.header = append(f.header,
		"From Coq Require Import ZArith List String Ascii Uint63.",
		"From GSP Require Import Base.Prelude Base.Decode.")
	f.header = append(f.header, imports...)
	f.header = append(f.header, "Import ListNotations.", "Open Scope list_scope.", "Open Scope uint63_scope.")
	return f
}

// Str interns s and returns the Coq identifier naming it.
func (f *File) Str(s string) string {
	if n, ok := f.strs[s]; ok {
		return n
	}
	n := fmt.Sprintf("s%d", len(f.strs))
	f.strs[s] = n
	f.strDefs = append(f.strDefs, fmt.Sprintf("Definition %s := %s.", n, StringLit(s)))
	return n
}

func (f *File) Add(lines ...string) { f.body = append(f.body, lines...) }

func (f *File) Write(path string) error {
	var sb strings.Builder
	for _, l := range f.header {
		sb.WriteString(l + "\n")
	}
	for _, l := range f.strDefs {
		sb.WriteString(l + "\n")
	}
	for _, l := range f.body {
		sb.WriteString(l + "\n")
	}
	return os.WriteFile(path, []byte(sb.String()), 0o644)
}
