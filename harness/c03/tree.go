package c03

// Root-level correspondence: the Coq model merklize_tree (RDF/OrdTree.v) is
// evaluated on the dataset with tables of PRIMITIVE hash calls only and must give
// the implementation's root.
//
// Hasher primitives (Hash / HashBytes) are recorded by hashers.Recorder while the
// implementation runs.  The tree's node hashes are NOT read from the library's
// storage: the harness rebuilds the trie over the (key, value) pairs itself and
// calls Poseidon for every leaf and every middle node.

import (
	"context"
	"fmt"
	"math/big"
	"sort"
	"strings"
	"time"

	"github.com/iden3/go-iden3-crypto/constants"
	"github.com/iden3/go-iden3-crypto/poseidon"
	"github.com/iden3/go-schema-processor/v2/merklize"
	"github.com/piprate/json-gold/ld"

	"vharness/coqgen"
	"vharness/hashers"
	"vharness/mzrun"
)

type tcase struct {
	ds    *ld.RDFDataset
	order []string
	rec   *hashers.Recorder
	leaf  [][3]*big.Int
	mid   [][3]*big.Int
	class string // ok | err | panic | hang
	root  *big.Int
	failK int // > 0: MerklizeJSONLD with a provided tree whose failK-th Add fails
	input any
}

type kv struct{ k, v *big.Int }

// trie hashes the canonical sparse-Merkle-tree shape of the pairs (bit i of the key
// decides left/right at level i, a subtree holding one leaf IS that leaf), recording
// every primitive Poseidon call.
func (c *tcase) trie(items []kv, lvl int) (*big.Int, error) {
	switch len(items) {
	case 0:
		return big.NewInt(0), nil
	case 1:
		h, err := poseidon.Hash([]*big.Int{items[0].k, items[0].v, big.NewInt(1)})
		if err != nil {
			return nil, err
		}
		c.leaf = append(c.leaf, [3]*big.Int{items[0].k, items[0].v, h})
		return h, nil
	}
	if lvl > 300 {
		return nil, fmt.Errorf("equal keys")
	}
	var l, r []kv
	for _, it := range items {
		if it.k.Bit(lvl) == 0 {
			l = append(l, it)
		} else {
			r = append(r, it)
		}
	}
	hl, err := c.trie(l, lvl+1)
	if err != nil {
		return nil, err
	}
	hr, err := c.trie(r, lvl+1)
	if err != nil {
		return nil, err
	}
	h, err := poseidon.Hash([]*big.Int{hl, hr})
	if err != nil {
		return nil, err
	}
	c.mid = append(c.mid, [3]*big.Int{hl, hr, h})
	return h, nil
}

// treeCase runs the pipeline of MerklizeJSONLD from the dataset on (entries, key of every
// entry, AddEntriesToMerkleTree into a fresh 40-level tree) under a recording hasher.
// wantRoot (may be nil) is MerklizeJSONLD's root for the document the dataset came from.
// docObs (may be nil): what MerklizeJSONLD itself returned for the document the dataset came
// from; when given it is the observation the Coq model is compared with.
func (d *drv) treeCase(ds *ld.RDFDataset, hi int, in failInput, wantRoot string, nOrders int, docObs ...*obs) {
	d.frMu.Lock()
	for _, s := range mzrun.DoubleLexicals(ds) {
		d.fr.AddStr(s)
	}
	d.frMu.Unlock()
	rec := hashers.NewRecorder(d.hs[hi])
	c := &tcase{ds: ds, rec: rec}
	var pairs []kv
	o := mzrun.Guard(30*time.Second, func() error {
		es, err := merklize.EntriesFromRDFWithHasher(ds, rec)
		if err != nil {
			return err
		}
		for _, e := range es {
			if _, err := e.KeyMtEntry(); err != nil {
				return err
			}
		}
		mt, err := newTree()
		if err != nil {
			return err
		}
		if err := merklize.AddEntriesToMerkleTree(context.Background(), mt, es); err != nil {
			return err
		}
		c.root = mt.Root().BigInt()
		for _, e := range es {
			k, v, err := e.KeyValueMtEntries()
			if err != nil {
				return err
			}
			pairs = append(pairs, kv{k, v})
		}
		return nil
	})
	d.rep.Evaluations++
	c.class = o.Class
	d.rep.Count("tree:" + o.Class)
	if o.Class == "panic" || o.Class == "hang" {
		in.Class = "c03-" + o.Class
		d.fail("dataset -> tree pipeline: "+o.Msg, in)
		return
	}
	if o.Class == "ok" {
		if wantRoot != "" && c.root.String() != wantRoot {
			in.Class = "c03-pipeline"
			d.fail(fmt.Sprintf("MerklizeJSONLD's root %s differs from EntriesFromRDF + AddEntriesToMerkleTree on the normalised dataset: %s", wantRoot, c.root), in)
			return
		}
		own, err := c.trie(pairs, 0)
		if err != nil || own.Cmp(c.root) != 0 {
			// the library's root is not the canonical tree's root over recomputed hashes
			in.Class = "c03-tree-root"
			d.fail(fmt.Sprintf("root %s is not the root of the canonical tree over the entries (recomputed: %v, %v)", c.root, own, err), in)
			return
		}
	}
	if len(docObs) > 0 && docObs[0] != nil {
		switch docObs[0].Class {
		case "ok":
			c.class = "ok"
			c.root, _ = new(big.Int).SetString(docObs[0].Root, 10)
		case "err":
			c.class = "err"
		default:
			return
		}
	}
	names := mzrun.GraphOrder(ds, nil)
	orders := [][]string{names}
	for len(orders) < nOrders {
		orders = append(orders, mzrun.GraphOrder(ds, d.rng.Shuffle))
	}
	// the same document with a provided tree whose k-th Add fails (merklize_tree_ft)
	if in.Kind == "doc-dataset" && in.Doc != "" && o.Class == "ok" && len(pairs) > 0 {
		k := 1 + d.rng.Intn(len(pairs)+1) // len+1: no call fails
		inner, err := newTree()
		if err == nil {
			ft := &failTree{inner: merklize.MerkleTreeSQLAdapter(inner), k: k}
			mzf, mo := mzrun.Merklize([]byte(in.Doc), d.opts(hi, merklize.WithMerkleTree(ft))...)
			d.rep.Evaluations++
			fc := *c
			fc.failK, fc.order, fc.class = k, names, mo.Class
			if mo.Class == "ok" {
				fc.root = mzf.Root().BigInt()
			}
			ci := in
			ci.Order, ci.Repeats, ci.Note = names, k, "failing-add"
			fc.input = ci
			if mo.Class == "ok" || mo.Class == "err" {
				d.tcases = append(d.tcases, &fc)
			}
		}
	}
	for _, ord := range orders {
		cc := *c
		cc.order = ord
		ci := in
		ci.Order = ord
		cc.input = ci
		d.tcases = append(d.tcases, &cc)
	}
}

func tabCoq(t [][3]*big.Int) string {
	seen := map[string]bool{}
	var parts []string
	for _, e := range t {
		k := e[0].String() + "," + e[1].String()
		if seen[k] {
			continue
		}
		seen[k] = true
		parts = append(parts, "("+coqgen.Limbs(e[0])+","+coqgen.Limbs(e[1])+","+coqgen.Limbs(e[2])+")")
	}
	sort.Strings(parts)
	return "[" + strings.Join(parts, ";\n   ") + "]"
}

func (c *tcase) obsCoq() string {
	switch c.class {
	case "ok":
		return "TORoot " + coqgen.Limbs(c.root)
	case "err":
		return "TOErr"
	case "panic":
		return "TOPanic"
	default:
		return "TOHang"
	}
}

const treeShardSize = 16

func (sh *shared) writeTreeShards(rep interface {
	Case(shard string, id int, input any)
}, addShard func(string), cases []*tcase, outDir string) error {
	n := len(cases)
	for s := 0; s*treeShardSize < n; s++ {
		lo, hi := s*treeShardSize, (s+1)*treeShardSize
		if hi > n {
			hi = n
		}
		f := coqgen.NewFile("From GSP Require Import Value.Time Value.Model Value.Run RDF.Model RDF.Run RDF.OrdTree RDF.OrdFail SMT.Model SMT.Run RDF.OrdRun.")
		name := fmt.Sprintf("%s/cases_C03_t%03d.v", outDir, s)
		var cs []string
		for i := lo; i < hi; i++ {
			c := cases[i]
			id := 100000 + i
			f.Add(fmt.Sprintf("Definition h%d : raw_hasher := %s.", i, c.rec.Coq(f)))
			ctor := "mkt " + fmt.Sprint(id)
			if c.failK > 0 {
				ctor = fmt.Sprintf("mktf %d %d", id, c.failK)
			}
			cs = append(cs, fmt.Sprintf("%s h%d\n  %s\n  %s\n  %s\n  (%s)", ctor, i, tabCoq(c.leaf), tabCoq(c.mid),
				mzrun.DatasetCoq(f, c.ds, c.order), c.obsCoq()))
			rep.Case(name, id, c.input)
		}
		f.Add("Definition floats_ : raw_floats := " + sh.fr.Coq(f) + ".")
		f.Add("Definition cases_ : list tcase := " + coqgen.List(cs) + ".")
		f.Add("Definition M := Eval vm_compute in tmismatches " + coqgen.Limbs(constants.Q) + " floats_ cases_.")
		f.Add("Print M.")
		if err := f.Write(name); err != nil {
			return err
		}
		addShard(name)
	}
	return nil
}
