package c03

// Re-presentations of a JSON-LD document that must not change its meaning:
// key order, array permutation, whitespace (+ JSON string escapes), number
// spellings, blank-node relabelling, inline vs remote context.

import (
	"encoding/json"
	"fmt"
	"math"
	"math/rand"
	"sort"
	"strconv"
	"strings"
	"time"
)

var transformNames = []string{"keyorder", "arrayperm", "whitespace", "numspell", "blanklabel", "ctxplace"}

// ---- serializer with random key order / whitespace / escapes / number spellings ----

type ser struct {
	rng  *rand.Rand
	keys bool // random object key order (default: sorted, as encoding/json)
	ws   bool // random insignificant whitespace and \uXXXX escapes
	nums bool // alternative spellings of native JSON numbers
}

func (s *ser) sp(sb *strings.Builder) {
	if s.ws {
		sb.WriteString([]string{"", "", " ", "\n", "\t", "  ", "\r\n", " \n\t "}[s.rng.Intn(8)])
	}
}

func (s *ser) str(sb *strings.Builder, v string) {
	sb.WriteByte('"')
	for _, r := range v {
		if s.ws && r < 0x7f && (r >= 'a' && r <= 'z' || r >= 'A' && r <= 'Z' || r >= '0' && r <= '9' || r == '@' || r == ':') && s.rng.Intn(7) == 0 {
			fmt.Fprintf(sb, "\\u%04x", r)
			continue
		}
		if s.ws && r == '/' && s.rng.Intn(3) == 0 {
			sb.WriteString(`\/`)
			continue
		}
		b, _ := json.Marshal(string(r))
		sb.Write(b[1 : len(b)-1])
	}
	sb.WriteByte('"')
}

// SpellFloat returns an alternative JSON spelling of f denoting the same float64.
func SpellFloat(rng *rand.Rand, f float64) string {
	if f == 0 {
		// "00e-1" is not a JSON number and "0.0" is not negative zero: zero gets its own spellings
		sign := ""
		if math.Signbit(f) {
			sign = "-"
		}
		return sign + []string{"0.0", "0e0", "0.0e-1", "0.000", "0E+0"}[rng.Intn(5)]
	}
	if f == math.Trunc(f) && math.Abs(f) < 1e15 {
		i := int64(f)
		switch rng.Intn(5) {
		case 0:
			return fmt.Sprintf("%d.0", i)
		case 1:
			return fmt.Sprintf("%de0", i)
		case 2:
			return fmt.Sprintf("%d0e-1", i)
		case 3:
			return fmt.Sprintf("%d.000", i)
		default:
			return fmt.Sprintf("%dE+0", i)
		}
	}
	switch rng.Intn(4) {
	case 0:
		return strconv.FormatFloat(f, 'e', -1, 64)
	case 1:
		return strconv.FormatFloat(f, 'E', -1, 64)
	case 2:
		return strconv.FormatFloat(f, 'f', -1, 64) + "0"
	default:
		return strconv.FormatFloat(f, 'f', -1, 64) + "000e0"
	}
}

func (s *ser) write(sb *strings.Builder, v any) {
	switch x := v.(type) {
	case nil:
		sb.WriteString("null")
	case bool:
		sb.WriteString(strconv.FormatBool(x))
	case string:
		s.str(sb, x)
	case json.RawMessage:
		sb.Write(x)
	case float64:
		if s.nums && s.rng.Intn(3) != 0 {
			sb.WriteString(SpellFloat(s.rng, x))
		} else {
			b, _ := json.Marshal(x)
			sb.Write(b)
		}
	case int:
		sb.WriteString(strconv.Itoa(x))
	case []any:
		sb.WriteByte('[')
		for i, e := range x {
			if i > 0 {
				sb.WriteByte(',')
			}
			s.sp(sb)
			s.write(sb, e)
			s.sp(sb)
		}
		if len(x) == 0 {
			s.sp(sb)
		}
		sb.WriteByte(']')
	case map[string]any:
		ks := make([]string, 0, len(x))
		for k := range x {
			ks = append(ks, k)
		}
		sort.Strings(ks)
		if s.keys {
			s.rng.Shuffle(len(ks), func(i, j int) { ks[i], ks[j] = ks[j], ks[i] })
		}
		sb.WriteByte('{')
		for i, k := range ks {
			if i > 0 {
				sb.WriteByte(',')
			}
			s.sp(sb)
			s.str(sb, k)
			s.sp(sb)
			sb.WriteByte(':')
			s.sp(sb)
			s.write(sb, x[k])
			s.sp(sb)
		}
		if len(ks) == 0 {
			s.sp(sb)
		}
		sb.WriteByte('}')
	default:
		b, _ := json.Marshal(x)
		sb.Write(b)
	}
}

func (s *ser) bytes(v any) []byte {
	var sb strings.Builder
	s.sp(&sb)
	s.write(&sb, v)
	s.sp(&sb)
	return []byte(sb.String())
}

// ---- tree helpers ----

func deepCopy(v any) any {
	switch x := v.(type) {
	case map[string]any:
		m := make(map[string]any, len(x))
		for k, e := range x {
			m[k] = deepCopy(e)
		}
		return m
	case []any:
		a := make([]any, len(x))
		for i, e := range x {
			a[i] = deepCopy(e)
		}
		return a
	default:
		return v
	}
}

func parseDoc(b []byte) (map[string]any, error) {
	var m map[string]any
	err := json.Unmarshal(b, &m)
	return m, err
}

// permuteArrays shuffles every array that is a property value (RDF: a set);
// @context arrays (ordered) and @list values are left alone.
func permuteArrays(rng *rand.Rand, v any) {
	switch x := v.(type) {
	case map[string]any:
		for k, e := range x {
			if k == "@context" || k == "@list" {
				continue
			}
			permuteArrays(rng, e)
		}
	case []any:
		rng.Shuffle(len(x), func(i, j int) { x[i], x[j] = x[j], x[i] })
		for _, e := range x {
			permuteArrays(rng, e)
		}
	}
}

// relabelBlank gives every node object without an identifier an explicit,
// randomly chosen blank-node label (the document had implicit ones).
func relabelBlank(rng *rand.Rand, v any, idKey, typeKey string, n *int) {
	switch x := v.(type) {
	case map[string]any:
		_, hasType := x[typeKey]
		_, hasID := x[idKey]
		_, isVal := x["@value"]
		if hasType && !hasID && !isVal {
			*n++
			x[idKey] = fmt.Sprintf("_:%c%d%c", 'a'+rune(rng.Intn(26)), rng.Intn(1000)*100+*n, 'a'+rune(rng.Intn(26)))
		}
		for k, e := range x {
			if k == "@context" {
				continue
			}
			relabelBlank(rng, e, idKey, typeKey, n)
		}
	case []any:
		for _, e := range x {
			relabelBlank(rng, e, idKey, typeKey, n)
		}
	}
}

// ---- equivalent / different values of one leaf ----

// nav walks path (terms and decimal indices) from root and returns the
// container and key/index of the leaf so that it can be replaced.  A
// one-element array met where a term (or the end) is expected is entered.
type slot struct {
	m   map[string]any
	key string
	a   []any
	idx int
}

func (s slot) get() any {
	if s.m != nil {
		return s.m[s.key]
	}
	return s.a[s.idx]
}
func (s slot) set(v any) {
	if s.m != nil {
		s.m[s.key] = v
	} else {
		s.a[s.idx] = v
	}
}

// siblings = number of elements of the innermost array holding the leaf (1 if none).
func nav(root map[string]any, path []string) (slot, int, bool) {
	var cur any = root
	var sl slot
	sib := 1
	for _, step := range path {
		if a, ok := cur.([]any); ok {
			if i, err := strconv.Atoi(step); err == nil {
				if i < 0 || i >= len(a) {
					return sl, 0, false
				}
				sl = slot{a: a, idx: i}
				sib = len(a)
				cur = a[i]
				continue
			}
			if len(a) != 1 {
				return sl, 0, false
			}
			cur = a[0]
		}
		m, ok := cur.(map[string]any)
		if !ok {
			return sl, 0, false
		}
		nx, ok := m[step]
		if !ok {
			return sl, 0, false
		}
		sl = slot{m: m, key: step}
		sib = 1
		cur = nx
	}
	if a, ok := cur.([]any); ok {
		if len(a) != 1 {
			return sl, 0, false
		}
		sl = slot{a: a, idx: 0}
		sib = 1
	}
	return sl, sib, true
}

const xsd = "http://www.w3.org/2001/XMLSchema#"

func intOf(raw any) (int64, bool) {
	switch x := raw.(type) {
	case float64:
		if x == math.Trunc(x) {
			return int64(x), true
		}
	case string:
		if v, err := strconv.ParseInt(x, 10, 64); err == nil {
			return v, true
		}
	}
	return 0, false
}

// spelling returns an equivalent spelling of the leaf's value.  lexical = the
// RDF literal's lexical form changes (not only the JSON text).
func spelling(rng *rand.Rand, kind, dt string, raw any) (v any, lexical bool, ok bool) {
	switch kind {
	case "native-int", "native-double":
		f, isf := raw.(float64)
		if !isf {
			return nil, false, false
		}
		return json.RawMessage(SpellFloat(rng, f)), false, true
	case "int-native", "int-string":
		i, isi := intOf(raw)
		if !isi {
			return nil, false, false
		}
		forms := []any{fmt.Sprintf("0%d", i), fmt.Sprintf("%d.0", i), fmt.Sprintf("%de0", i), fmt.Sprintf("%d0/10", i),
			json.RawMessage(SpellFloat(rng, float64(i)))}
		if i < 0 {
			forms[0] = fmt.Sprintf("-0%d", -i)
		} else {
			forms = append(forms, fmt.Sprintf("+%d", i))
		}
		if kind == "int-native" {
			forms = append(forms, strconv.FormatInt(i, 10))
		} else {
			forms = append(forms, json.RawMessage(strconv.FormatInt(i, 10)))
		}
		c := forms[rng.Intn(len(forms))]
		cs, isStr := c.(string)
		return c, isStr && cs != strconv.FormatInt(i, 10), true
	case "bool-native", "bool-string":
		var b bool
		switch x := raw.(type) {
		case bool:
			b = x
		case string:
			b = x == "true"
		}
		var forms []any
		if b {
			forms = []any{"true", "1", "1.0E0", true}
		} else {
			forms = []any{"false", "0", "0.0E0", false}
		}
		for {
			c := forms[rng.Intn(len(forms))]
			if c != raw {
				cs, isStr := c.(string)
				return c, isStr && cs != strconv.FormatBool(b), true
			}
		}
	case "date":
		s, _ := raw.(string)
		return s + "T00:00:00Z", true, true
	case "datetime":
		s, _ := raw.(string)
		t, err := time.Parse(time.RFC3339Nano, s)
		if err != nil {
			return nil, false, false
		}
		for {
			off := []int{0, 3600, -7200, 19800, 45 * 60, -3600 * 11}[rng.Intn(6)]
			n := t.In(time.FixedZone("", off)).Format(time.RFC3339Nano)
			if off == 0 && rng.Intn(2) == 0 {
				n = strings.Replace(n, "Z", "+00:00", 1)
			}
			if n != s {
				return n, true, true
			}
		}
	case "double-native", "double-string":
		var f float64
		switch x := raw.(type) {
		case float64:
			f = x
		case string:
			var err error
			f, err = strconv.ParseFloat(x, 64)
			if err != nil {
				return nil, false, false
			}
		}
		if rng.Intn(2) == 0 {
			_, wasNat := raw.(float64)
			return json.RawMessage(SpellFloat(rng, f)), !wasNat, true
		}
		sp := doubleSpellings(f)
		for tries := 0; tries < 10; tries++ {
			c := sp[rng.Intn(len(sp))]
			if c != raw {
				return c, true, true
			}
		}
		return strconv.FormatFloat(f, 'E', 20, 64), true, true
	}
	return nil, false, false
}

// different returns a value of the same type whose canonical encoding differs
// from every value the generator can produce (so also from all siblings).
func different(rng *rand.Rand, kind, dt string, raw any, siblings int) (any, bool) {
	k := int64(rng.Intn(100000))
	asRaw := func(i int64) any {
		if _, isStr := raw.(string); isStr {
			return strconv.FormatInt(i, 10)
		}
		return float64(i)
	}
	switch kind {
	case "native-int":
		return float64(7_000_001 + k), true
	case "int-native", "int-string":
		switch dt {
		case xsd + "negativeInteger", xsd + "nonPositiveInteger":
			return asRaw(-7_000_001 - k), true
		default:
			return asRaw(7_000_001 + k), true
		}
	case "native-bool", "bool-native", "bool-string":
		if siblings != 1 {
			return nil, false // the flipped value may already be a sibling
		}
		switch x := raw.(type) {
		case bool:
			return !x, true
		case string:
			if x == "true" {
				return "false", true
			}
			return "true", true
		}
	case "native-double", "double-native":
		return 987654.015625 + float64(k)/64, true
	case "double-string":
		return strconv.FormatFloat(987654.015625+float64(k)/64, 'f', -1, 64), true
	case "native-string", "string", "custom":
		return fmt.Sprintf("fresh value %d", k), true
	case "date":
		return time.Unix(5_000_000_000+k*86400, 0).UTC().Format("2006-01-02"), true
	case "datetime":
		return time.Unix(5_000_000_000+k, 0).UTC().Format(time.RFC3339), true
	case "iri":
		return fmt.Sprintf("urn:v:fresh:%d", k), true
	}
	return nil, false
}

// ---- near misses: values that LOOK like the original but are different strings ----

type variant struct {
	Name string
	V    any
}

var lookAlike = map[rune]rune{'a': 'а', 'e': 'е', 'o': 'о', 'c': 'с', 'p': 'р', 'x': 'х', 'y': 'у',
	'A': 'А', 'B': 'В', 'E': 'Е', 'H': 'Н', 'O': 'О', 'T': 'Т', '0': 'О', '1': 'l', 'l': '1'}

// nearStrings: for string-like leaves (xsd:string, untyped, custom datatypes, IRIs): every
// variant is a DIFFERENT string (whiteSpace=preserve; no case folding, no Unicode
// normalisation is part of the encoding), so each must change the root.
func nearStrings(kind string, s string) []variant {
	var out []variant
	if kind != "iri" {
		out = append(out,
			variant{"trailing-space", s + " "}, variant{"leading-space", " " + s},
			variant{"leading-tab", "\t" + s}, variant{"trailing-newline", s + "\n"},
			variant{"trailing-nbsp", s + " "}, variant{"leading-nbsp", " " + s},
			variant{"trailing-crlf", s + "\r\n"}, variant{"inner-double-space", strings.Replace(s, " ", "  ", 1)})
	}
	out = append(out, variant{"trailing-dot", s + "."})
	sw := []rune(s)
	for i, r := range sw {
		if r >= 'a' && r <= 'z' {
			sw[i] = r - 32
			break
		}
		if r >= 'A' && r <= 'Z' {
			sw[i] = r + 32
			break
		}
	}
	out = append(out, variant{"case-change", string(sw)})
	la := []rune(s)
	start := 0
	if kind == "iri" {
		start = strings.LastIndex(s, ":") + 1 // keep the scheme
	}
	for i := start; i < len(la); i++ {
		if n, ok := lookAlike[la[i]]; ok {
			la[i] = n
			out = append(out, variant{"unicode-look-alike", string(la)})
			break
		}
	}
	var res []variant
	for _, v := range out {
		if v.V != s {
			res = append(res, v)
		}
	}
	return res
}

// paddedTyped: for integer / boolean / dateTime / double leaves written as strings: the value
// surrounded by whitespace.  Acceptable outcomes: an error, or the SAME value (the XSD types
// collapse whitespace); anything else is a silent collision / corruption.
func paddedTyped(s string) []variant {
	return []variant{{"trailing-space", s + " "}, {"leading-space", " " + s}, {"leading-tab", "\t" + s},
		{"trailing-newline", s + "\n"}, {"trailing-nbsp", s + " "}}
}
