package c03

// Inline vs remote context through the LIBRARY's loader (loaders.NewDocumentLoader) with
// a stub HTTP transport that sets realistic response headers: Content-Type variants x Link
// headers (rel=alternate type=application/ld+json -> another document; JSON-LD context link)
// x Cache-Control.  Expected (JSON-LD 1.1 API, "remote document and context retrieval"): the
// alternate link is followed only when the response's media type is neither
// application/json nor any +json type; in every other case the served body IS the context
// and the root must equal the root of the document with that context inline.

import (
	"bytes"
	"encoding/json"
	"fmt"
	"io"
	"net/http"
	"strings"
	"sync"

	"github.com/iden3/go-schema-processor/v2/loaders"
	"github.com/iden3/go-schema-processor/v2/merklize"

	"vharness/docgen"
	"vharness/mzrun"
)

type served struct {
	body   []byte
	header http.Header
}

type stubTransport struct {
	mu   sync.Mutex
	docs map[string]served
	hits map[string]int
}

func (t *stubTransport) RoundTrip(req *http.Request) (*http.Response, error) {
	t.mu.Lock()
	defer t.mu.Unlock()
	u := req.URL.String()
	t.hits[u]++
	s, ok := t.docs[u]
	if !ok {
		return &http.Response{StatusCode: 404, Status: "404 Not Found", Body: io.NopCloser(bytes.NewReader(nil)), Header: http.Header{}, Request: req}, nil
	}
	return &http.Response{StatusCode: 200, Status: "200 OK", Body: io.NopCloser(bytes.NewReader(s.body)), Header: s.header.Clone(), Request: req,
		ContentLength: int64(len(s.body))}, nil
}

var contentTypes = []string{"application/ld+json", "application/json", "application/json; charset=utf-8", "application/activity+json",
	"application/ld+json; charset=utf-8", "text/plain", "text/html; charset=utf-8", ""}
var cacheControls = []string{"", "max-age=3600", "no-cache", "no-store", "max-age=0", "public, max-age=60"}

// mediaType: the media type of a Content-Type header without its parameters.
func mediaType(ct string) string {
	if i := strings.IndexByte(ct, ';'); i >= 0 {
		ct = ct[:i]
	}
	return strings.ToLower(strings.TrimSpace(ct))
}

func isJSONType(mt string) bool {
	return mt == "application/json" || strings.HasPrefix(mt, "application/") && strings.HasSuffix(mt, "+json")
}

type ctxVariant struct {
	CT, Link, CC string
}

// remoteContext: the document with its context (a) inline, (b) by URL through the real loader.
func (d *drv) remoteContext(doc *docgen.Doc, hi int, base *obs) {
	if base.Class != "ok" {
		return
	}
	obj, err := parseDoc(doc.Bytes)
	if err != nil {
		return
	}
	// make the context inline first (documents generated with a remote context)
	if _, isObj := obj["@context"].(map[string]any); !isObj {
		if !d.swapContext(obj) {
			return
		}
		if _, isObj := obj["@context"].(map[string]any); !isObj {
			return
		}
	}
	ctx := obj["@context"]
	ctxBody, _ := json.Marshal(map[string]any{"@context": ctx})
	// another document with a DIFFERENT @context: same terms, other vocabulary
	altBody := bytes.ReplaceAll(ctxBody, []byte(docgen.Vocab), []byte("http://other.example/v#"))
	var altCtx map[string]any
	_ = json.Unmarshal(altBody, &altCtx)
	objAlt := deepCopy(obj).(map[string]any)
	objAlt["@context"] = altCtx["@context"]
	altInline, _ := json.Marshal(objAlt)
	var oAlt *obs
	n := d.cfg.Pick(3, 8)
	for j := 0; j < n; j++ {
		d.nCtx++
		u := fmt.Sprintf("https://ctxsrv.example/%d-%d/ctx", d.id, d.nCtx)
		ua := u + "-alt.jsonld"
		v := ctxVariant{CT: contentTypes[d.rng.Intn(len(contentTypes))], CC: cacheControls[d.rng.Intn(len(cacheControls))]}
		h := http.Header{}
		if v.CT != "" {
			h.Set("Content-Type", v.CT)
		}
		if v.CC != "" {
			h.Set("Cache-Control", v.CC)
		}
		switch d.rng.Intn(4) {
		case 0:
		case 1:
			v.Link = "alternate"
			h.Set("Link", fmt.Sprintf(`<%s>; rel="alternate"; type="application/ld+json"`, ua))
		case 2:
			v.Link = "alternate-relative"
			h.Set("Link", `<ctx-alt.jsonld>; rel="alternate"; type="application/ld+json"`)
		default:
			v.Link = "context"
			h.Set("Link", fmt.Sprintf(`<%s>; rel="http://www.w3.org/ns/json-ld#context"; type="application/ld+json"`, ua))
		}
		tr := &stubTransport{docs: map[string]served{
			u:  {body: ctxBody, header: h},
			ua: {body: altBody, header: http.Header{"Content-Type": []string{"application/ld+json"}}},
		}, hits: map[string]int{}}
		ldr := loaders.NewDocumentLoader(nil, "", loaders.WithHTTPClient(&http.Client{Transport: tr}))
		objURL := deepCopy(obj).(map[string]any)
		if d.rng.Intn(2) == 0 {
			objURL["@context"] = u
		} else {
			objURL["@context"] = []any{u}
		}
		byURL, _ := json.Marshal(objURL)
		d.rep.Count("ctx-url:ct=" + v.CT)
		d.rep.Count("ctx-url:link=" + v.Link)
		followAlt := strings.HasPrefix(v.Link, "alternate") && !isJSONType(mediaType(v.CT))
		want := base
		if followAlt {
			if oAlt == nil {
				oAlt, _, _ = d.observe(altInline, hi)
			}
			want = oAlt
			d.rep.Count("ctx-url:alternate-expected")
		}
		for round := 0; round < 2; round++ { // second round: the loader's cache
			mz, mo := mzrun.Merklize(byURL, merklize.WithHasher(d.hs[hi]), merklize.WithDocumentLoader(ldr))
			d.rep.Evaluations++
			got := "error: " + mo.Msg
			if mo.Class == "ok" {
				got = mz.Root().BigInt().String()
			}
			wantS := want.Root
			if want.Class != "ok" {
				wantS = "error"
			}
			if (mo.Class == "ok") != (want.Class == "ok") || mo.Class == "ok" && got != wantS {
				class := "c03-ctx-url"
				if strings.HasPrefix(v.Link, "alternate") && isJSONType(mediaType(v.CT)) && strings.Contains(v.CT, ";") && mo.Class == "ok" && oAltRoot(d, &oAlt, altInline, hi) == got {
					// media type parameters are not stripped before the +json test
					class = "c03-ctx-url-alternate-params"
				}
				what := fmt.Sprintf("context by URL through loaders.NewDocumentLoader (Content-Type %q, Link %s, Cache-Control %q, round %d): %s; with the served context inline: %s",
					v.CT, v.Link, v.CC, round+1, got, wantS)
				d.fail(what, failInput{Kind: "ctx-url", Class: class, Doc: string(byURL), Other: string(doc.Bytes), Hasher: hi,
					Note: jsonOf(map[string]any{"url": u, "alt": ua, "ctx": string(ctxBody), "altctx": string(altBody), "variant": v})})
				return
			}
		}
	}
}

func oAltRoot(d *drv, oAlt **obs, altInline []byte, hi int) string {
	if *oAlt == nil {
		*oAlt, _, _ = d.observe(altInline, hi)
	}
	return (*oAlt).Root
}

// ---- history independence of the loader's cache ----

type histStep struct {
	Doc  string `json:"doc"`
	Want string `json:"want"` // root with the served context inline
	URL  string `json:"url"`
}
type histNote struct {
	Served map[string]string `json:"served"` // normalised URL (no fragment, lower-case host) -> body
	Seq    []histStep        `json:"seq"`
	Family string            `json:"family"`
}

// histTransport: like a real server: fragments never reach it, host names are case-insensitive.
type histTransport struct {
	mu   sync.Mutex
	docs map[string]string
}

func histKey(req *http.Request) string {
	u := *req.URL
	u.Fragment, u.RawFragment = "", ""
	u.Host = strings.ToLower(u.Host)
	return u.String()
}

func (t *histTransport) RoundTrip(req *http.Request) (*http.Response, error) {
	t.mu.Lock()
	defer t.mu.Unlock()
	b, ok := t.docs[histKey(req)]
	if !ok {
		return &http.Response{StatusCode: 404, Status: "404 Not Found", Body: io.NopCloser(bytes.NewReader(nil)), Header: http.Header{}, Request: req}, nil
	}
	h := http.Header{}
	h.Set("Content-Type", "application/ld+json")
	h.Set("Cache-Control", "public, max-age=3600")
	return &http.Response{StatusCode: 200, Status: "200 OK", Body: io.NopCloser(strings.NewReader(b)), Header: h, Request: req, ContentLength: int64(len(b))}, nil
}

func (d *drv) runHistory(hi int, n histNote) (int, string) {
	tr := &histTransport{docs: n.Served}
	ldr := loaders.NewDocumentLoader(nil, "", loaders.WithHTTPClient(&http.Client{Transport: tr}))
	for i, st := range n.Seq {
		mz, mo := mzrun.Merklize([]byte(st.Doc), merklize.WithHasher(d.hs[hi]), merklize.WithDocumentLoader(ldr))
		d.rep.Evaluations++
		got := "error: " + mo.Msg
		if mo.Class == "ok" {
			got = mz.Root().BigInt().String()
		}
		if got != st.Want {
			return i, got
		}
	}
	return -1, ""
}

// ctxHistory: two context URLs that differ only in query string / trailing slash / path case /
// an escaped reserved character name DIFFERENT resources (different contents are served);
// URLs that differ only in fragment / host case name the SAME resource.  All are cacheable.
// Loaded one after the other through ONE loader: every document must get the root it has with
// the served context inline, whatever was loaded before.
func (d *drv) ctxHistory(doc *docgen.Doc, hi int, base *obs) {
	if base.Class != "ok" {
		return
	}
	obj, err := parseDoc(doc.Bytes)
	if err != nil {
		return
	}
	if _, isObj := obj["@context"].(map[string]any); !isObj {
		if !d.swapContext(obj) {
			return
		}
		if _, isObj := obj["@context"].(map[string]any); !isObj {
			return
		}
	}
	ctxBody, _ := json.Marshal(map[string]any{"@context": obj["@context"]})
	altBody := bytes.ReplaceAll(ctxBody, []byte(docgen.Vocab), []byte("http://other.example/v#"))
	var altCtx map[string]any
	_ = json.Unmarshal(altBody, &altCtx)
	objAlt := deepCopy(obj).(map[string]any)
	objAlt["@context"] = altCtx["@context"]
	altInline, _ := json.Marshal(objAlt)
	oAlt, _, _ := d.observe(altInline, hi)
	if oAlt.Class != "ok" || oAlt.Root == base.Root {
		return
	}
	d.nCtx++
	b := fmt.Sprintf("https://ctxsrv.example/h%d-%d", d.id, d.nCtx)
	type fam struct {
		name   string
		u1, u2 string
		same   bool // the two URLs name the same resource
	}
	fams := []fam{
		{"query", b + "/person.jsonld?v=1", b + "/person.jsonld?v=2", false},
		{"query-vs-none", b + "/person.jsonld", b + "/person.jsonld?lang=en", false},
		{"trailing-slash", b + "/ctx", b + "/ctx/", false},
		{"path-case", b + "/Person.jsonld", b + "/person.jsonld", false},
		{"escaped-slash", b + "/a%2Fb.jsonld", b + "/a/b.jsonld", false},
		{"query-order", b + "/c.jsonld?a=1&b=2", b + "/c.jsonld?b=2&a=1", false},
		{"fragment", b + "/f.jsonld#one", b + "/f.jsonld#two", true},
		{"host-case", b + "/hc.jsonld", strings.Replace(b, "ctxsrv.example", "CtxSrv.Example", 1) + "/hc.jsonld", true},
	}
	f := fams[d.rng.Intn(len(fams))]
	d.rep.Count("ctx-history:" + f.name)
	withCtx := func(u string) string {
		o := deepCopy(obj).(map[string]any)
		o["@context"] = u
		v, _ := json.Marshal(o)
		return string(v)
	}
	note := histNote{Served: map[string]string{}, Family: f.name}
	norm := func(u string) string {
		r, _ := http.NewRequest("GET", u, http.NoBody)
		return histKey(r)
	}
	note.Served[norm(f.u1)] = string(ctxBody)
	want2 := base.Root
	if !f.same {
		note.Served[norm(f.u2)] = string(altBody)
		want2 = oAlt.Root
	}
	note.Seq = []histStep{{withCtx(f.u1), base.Root, f.u1}, {withCtx(f.u2), want2, f.u2}, {withCtx(f.u1), base.Root, f.u1}, {withCtx(f.u2), want2, f.u2}}
	if d.rng.Intn(2) == 0 && !f.same { // the other one first
		note.Seq = []histStep{note.Seq[1], note.Seq[0], note.Seq[3], note.Seq[2]}
	}
	if i, got := d.runHistory(hi, note); i >= 0 {
		d.fail(fmt.Sprintf("contexts by URL through ONE loaders.NewDocumentLoader (family %s): step %d, context %s: %s; with the served context inline: %s",
			f.name, i+1, note.Seq[i].URL, got, note.Seq[i].Want),
			failInput{Kind: "ctx-history", Class: "c03-ctx-url-history", Doc: note.Seq[i].Doc, Hasher: hi, Note: jsonOf(note)})
	}
}
