// Package c03: the root is a canonical function of the document's meaning
// (property C03).
//
// Implementation-side oracles (search for a failing input):
//   - metamorphic: every generated document is re-presented k times (key order,
//     array permutation, whitespace/escapes, number spellings, blank-node
//     relabelling, inline<->remote context; composed at random) — roots and entry
//     lists must coincide;
//   - repeatability: every document is merklized N times in one process and N
//     times in parallel goroutines — identical roots / entries (Go map order and
//     scheduling are the only sources of nondeterminism);
//   - caller-provided tree: WithMerkleTree(empty) gives the default root AND the
//     provided tree is the one that was filled; a provided tree that already holds
//     a leaf gives the root of the union (independent of insertion order);
//   - single-value replacement: for every leaf, a value with a different canonical
//     encoding must change the root, an equivalent spelling must not;
//   - dataset level: EntriesFromRDF repeated on multi-graph datasets (hand-built
//     ones included) — identical outcome in every run.
//
// Correspondence: the Coq model entries_from_rdf (RDF/Model.v) is evaluated on
// the same datasets under several permutations of the graph list (sorted,
// reversed, random) and must return the entries the implementation returned.
package c03

import (
	"context"
	"encoding/json"
	"fmt"
	"math/big"
	"math/rand"
	"net/http"
	"path/filepath"
	"sort"
	"strconv"
	"strings"
	"sync"
	"time"

	"github.com/iden3/go-iden3-crypto/constants"
	"github.com/iden3/go-merkletree-sql/v2"
	"github.com/iden3/go-merkletree-sql/v2/db/memory"
	"github.com/iden3/go-schema-processor/v2/loaders"
	"github.com/iden3/go-schema-processor/v2/merklize"
	"github.com/piprate/json-gold/ld"

	"vharness/common"
	"vharness/coqgen"
	"vharness/ctxload"
	"vharness/docgen"
	"vharness/floats"
	"vharness/hashers"
	"vharness/mzrun"
)

func init() { common.Register("C03", Run) }

type rcase struct {
	ds    *ld.RDFDataset
	order []string
	prime *big.Int
	views []mzrun.EntryView
	out   mzrun.Outcome
	input any
}

// shared, read-only after construction except loader / fr (both locked)
type shared struct {
	cfg    *common.Config
	loader *ctxload.Loader
	frMu   sync.Mutex
	fr     *floats.Rec
	hs     []merklize.Hasher
}

// drv is the state of ONE task (a document or a dataset with all its oracles); tasks run
// in parallel, each with its own PRNG (seeded from cfg.Rng in task order) and its own
// accumulators, which are merged in task order, so a run is reproducible from the seed.
type drv struct {
	*shared
	id       int
	rng      *rand.Rand
	rep      *acc
	cases    []*rcase
	tcases   []*tcase
	nCtx     int
	distinct []string
}

type acc struct {
	notes       []string
	Evaluations int
	counts      map[string]int
	fails       []common.Failure
	samples     []any
}

func (a *acc) Count(k string) { a.counts[k]++ }
func (a *acc) Fail(class, what string, input any) {
	b, _ := json.Marshal(input)
	a.fails = append(a.fails, common.Failure{Class: class, What: what, Input: b})
}
func (a *acc) Sample(v any) { a.samples = append(a.samples, v) }

func (sh *shared) task(id int) *drv {
	return &drv{shared: sh, id: id, rng: rand.New(rand.NewSource(sh.cfg.Rng.Int63())), rep: &acc{counts: map[string]int{}}}
}

func hasherSet() []merklize.Hasher {
	return []merklize.Hasher{
		hashers.Default(),
		hashers.Mod{P: new(big.Int).Set(constants.Q), SaltBytes: []byte("salt:"), Name: "salted"},
	}
}

// ---- observation of one merklization ----

type obs struct {
	Class   string // ok | err | panic | hang | normalize-error
	Msg     string
	Root    string
	Entries []string // ordered entry list of EntriesFromRDFWithHasher on the normalised dataset
	MapKeys []string // sorted keys of the merklizer's entries map
}

func renderEntry(v mzrun.EntryView) string {
	var ps []string
	for _, p := range v.Parts {
		switch x := p.(type) {
		case string:
			ps = append(ps, x)
		case int:
			ps = append(ps, fmt.Sprintf("#%d", x))
		default:
			ps = append(ps, fmt.Sprintf("?%T", p))
		}
	}
	return strings.Join(ps, " / ") + " => " + docgen.RenderGoValue(v.Value) + " ^^" + v.Datatype
}

func renderEntries(vs []mzrun.EntryView) []string {
	out := make([]string, 0, len(vs))
	for _, v := range vs {
		out = append(out, renderEntry(v))
	}
	return out
}

// same compares two observations; ordered = the entry LISTS must coincide (same order),
// otherwise the entry multisets (a lexical respelling may reorder blank nodes).
func (o *obs) same(p *obs, ordered bool) string {
	if o.Class != p.Class {
		return fmt.Sprintf("outcome %s (%s) vs %s (%s)", o.Class, o.Msg, p.Class, p.Msg)
	}
	if o.Class != "ok" {
		return ""
	}
	if o.Root != p.Root {
		return fmt.Sprintf("root %s vs %s", o.Root, p.Root)
	}
	a, b := o.Entries, p.Entries
	if !ordered {
		a, b = append([]string{}, a...), append([]string{}, b...)
		sort.Strings(a)
		sort.Strings(b)
	}
	if strings.Join(a, "\n") != strings.Join(b, "\n") {
		return "same root but different entry lists"
	}
	if strings.Join(o.MapKeys, ",") != strings.Join(p.MapKeys, ",") {
		return "same root but different entry maps"
	}
	return ""
}

func (d *drv) opts(hi int, extra ...merklize.MerklizeOption) []merklize.MerklizeOption {
	return append([]merklize.MerklizeOption{merklize.WithHasher(d.hs[hi]), merklize.WithDocumentLoader(d.loader)}, extra...)
}

// observe = MerklizeJSONLD + (Normalize; EntriesFromRDFWithHasher), guarded.
func (d *drv) observe(doc []byte, hi int, extra ...merklize.MerklizeOption) (*obs, *merklize.Merklizer, *ld.RDFDataset) {
	d.rep.Evaluations++
	o := &obs{}
	mz, mo := mzrun.Merklize(doc, d.opts(hi, extra...)...)
	o.Class, o.Msg = mo.Class, mo.Msg
	if mo.Class != "ok" {
		return o, nil, nil
	}
	o.Root = mz.Root().BigInt().String()
	o.MapKeys = mapRender(mz)
	ds, err := mzrun.Normalize(doc, d.loader, true)
	if err != nil {
		o.Class, o.Msg = "normalize-error", err.Error()
		return o, mz, nil
	}
	vs, eo := mzrun.Entries(ds, d.hs[hi])
	if eo.Class != "ok" {
		o.Class, o.Msg = "entries-"+eo.Class, eo.Msg
		return o, mz, ds
	}
	o.Entries = renderEntries(vs)
	return o, mz, ds
}

// observeRoot = MerklizeJSONLD only (root and entry map); the entry list is taken over.
func (d *drv) observeRoot(doc []byte, hi int, base *obs) *obs {
	d.rep.Evaluations++
	o := &obs{}
	mz, mo := mzrun.Merklize(doc, d.opts(hi)...)
	o.Class, o.Msg = mo.Class, mo.Msg
	if mo.Class != "ok" {
		if base.Class != "ok" && strings.HasPrefix(base.Class, "entries-") {
			o.Class = base.Class
		}
		return o
	}
	o.Root = mz.Root().BigInt().String()
	o.MapKeys = mapRender(mz)
	o.Entries = base.Entries
	return o
}

// mapRender: the merklizer's entries map as a sorted list "key=entry".
func mapRender(mz *merklize.Merklizer) []string {
	var out []string
	for k, e := range mzrun.MapEntries(mz) {
		out = append(out, k+"="+renderEntry(e))
	}
	sort.Strings(out)
	return out
}

// ---- failure inputs (self-contained: replayable without the generator) ----

type failInput struct {
	Kind      string            `json:"kind"` // pair-same | pair-diff | repeat | tree | dataset | doc-dataset
	Class     string            `json:"class"`
	Doc       string            `json:"doc,omitempty"`
	Other     string            `json:"other,omitempty"`
	Hasher    int               `json:"hasher"`
	Contexts  map[string]string `json:"contexts,omitempty"`
	Note      string            `json:"note,omitempty"`
	Leaf      *docgen.Leaf      `json:"leaf,omitempty"`
	Siblings  int               `json:"siblings,omitempty"`
	Lexical   bool              `json:"lexical,omitempty"`
	Duplicate bool              `json:"duplicate,omitempty"`
	Repeats   int               `json:"repeats,omitempty"`
	Dataset   *jds              `json:"dataset,omitempty"`
	Order     []string          `json:"order,omitempty"`
}

// contextsOf collects the remote contexts the documents refer to.
func (d *drv) contextsOf(docs ...string) map[string]string {
	out := map[string]string{}
	for _, s := range docs {
		m, err := parseDoc([]byte(s))
		if err != nil {
			continue
		}
		var urls []string
		switch c := m["@context"].(type) {
		case string:
			urls = append(urls, c)
		case []any:
			for _, e := range c {
				if u, ok := e.(string); ok {
					urls = append(urls, u)
				}
			}
		}
		for _, u := range urls {
			if strings.HasPrefix(u, "https://ctx.example/") {
				if b := d.loader.Raw(u); b != nil {
					out[u] = string(b)
				}
			}
		}
	}
	return out
}

func (d *drv) fail(what string, in failInput) {
	in.Contexts = d.contextsOf(in.Doc, in.Other)
	d.rep.Fail(in.Class, what, in)
}

// ---- the six transformations ----

func (d *drv) registerCtx(ctx any) string {
	d.nCtx++
	url := fmt.Sprintf("https://ctx.example/c03-%d-%d.jsonld", d.id, d.nCtx)
	b, _ := json.Marshal(map[string]any{"@context": ctx})
	_ = d.loader.Add(url, b)
	return url
}

// swapContext: inline -> remote, remote -> inline.
func (d *drv) swapContext(obj map[string]any) bool {
	inline := func(u string) (any, bool) {
		raw := d.loader.Raw(u)
		if raw == nil {
			return nil, false
		}
		var m map[string]any
		if json.Unmarshal(raw, &m) != nil {
			return nil, false
		}
		c, ok := m["@context"]
		return c, ok
	}
	switch c := obj["@context"].(type) {
	case string:
		if v, ok := inline(c); ok {
			obj["@context"] = v
			return true
		}
	case []any:
		if len(c) == 1 {
			if u, ok := c[0].(string); ok {
				if v, ok := inline(u); ok {
					obj["@context"] = v
					return true
				}
			}
		}
		url := d.registerCtx(c)
		obj["@context"] = url
		return true
	case map[string]any:
		url := d.registerCtx(c)
		if d.rng.Intn(2) == 0 {
			obj["@context"] = url
		} else {
			obj["@context"] = []any{url}
		}
		return true
	}
	return false
}

// represent applies the transformations whose flag is set and serialises.
func (d *drv) represent(doc *docgen.Doc, flags [6]bool) []byte {
	rng := d.rng
	obj, err := parseDoc(doc.Bytes)
	if err != nil {
		return doc.Bytes
	}
	// flags[3] (number spellings) acts in the serializer only: native JSON numbers are
	// written as 5.0 / 5e0 / 50e-1 ...  LEXICAL respellings of typed strings ("5" -> "05")
	// are not part of the composition: a changed lexical form anywhere in a document
	// reshuffles URDNA2015's canonical blank-node labels (known finding D21); every leaf gets
	// its lexical respelling, with classification, in replaceLeaves.
	if flags[4] {
		idKey, typeKey := "@id", "@type"
		if doc.Features["alias"] {
			idKey, typeKey = "id", "type"
		}
		n := 0
		relabelBlank(rng, obj, idKey, typeKey, &n)
	}
	if flags[1] {
		permuteArrays(rng, obj)
	}
	if flags[5] {
		d.swapContext(obj)
	}
	s := &ser{rng: rng, keys: flags[0], ws: flags[2], nums: flags[3]}
	return s.bytes(obj)
}

func flagNames(f [6]bool) string {
	var ns []string
	for i, b := range f {
		if b {
			ns = append(ns, transformNames[i])
		}
	}
	return strings.Join(ns, "+")
}

func (d *drv) metamorphic(doc *docgen.Doc, hi int, base *obs) {
	k := d.cfg.Pick(4, 8)
	for j := 0; j < k; j++ {
		var flags [6]bool
		any := false
		for i := range flags {
			flags[i] = d.rng.Intn(2) == 0
			any = any || flags[i]
		}
		if !any {
			flags[d.rng.Intn(6)] = true
		}
		v := d.represent(doc, flags)
		o, _, _ := d.observe(v, hi)
		for i, b := range flags {
			if b {
				d.rep.Count("transform:" + transformNames[i])
			}
		}
		if diff := base.same(o, !flags[3]); diff != "" {
			// which single transformation is enough?
			class := "c03-repr-combo"
			for i := range flags {
				if !flags[i] {
					continue
				}
				var one [6]bool
				one[i] = true
				for t := 0; t < 3; t++ {
					v1 := d.represent(doc, one)
					o1, _, _ := d.observe(v1, hi)
					if base.same(o1, i != 3) != "" {
						class = "c03-repr-" + transformNames[i]
						v, flags, diff = v1, one, base.same(o1, i != 3)
						break
					}
				}
				if class != "c03-repr-combo" {
					break
				}
			}
			d.fail(fmt.Sprintf("re-presentation (%s) changed the result: %s", flagNames(flags), diff),
				failInput{Kind: "pair-same", Class: class, Doc: string(doc.Bytes), Other: string(v), Hasher: hi, Note: flagNames(flags)})
			return
		}
	}
}

// ---- repeatability ----

func (d *drv) repeat(doc []byte, hi int, base *obs, n int) {
	for i := 0; i < n; i++ {
		var o *obs
		if i%10 == 0 {
			o, _, _ = d.observe(doc, hi)
		} else {
			o = d.observeRoot(doc, hi, base)
		}
		if diff := base.same(o, true); diff != "" {
			d.fail(fmt.Sprintf("run %d of the same document in one process differs: %s", i+2, diff),
				failInput{Kind: "repeat", Class: "c03-nondeterministic", Doc: string(doc), Hasher: hi, Repeats: n})
			return
		}
	}
	// parallel goroutines sharing the loader
	const G = 8
	var wg sync.WaitGroup
	diffs := make([]string, G)
	per := (n + G - 1) / G
	for g := 0; g < G; g++ {
		wg.Add(1)
		go func(g int) {
			defer wg.Done()
			defer func() {
				if r := recover(); r != nil {
					diffs[g] = fmt.Sprint("panic: ", r)
				}
			}()
			for i := 0; i < per; i++ {
				mz, err := merklize.MerklizeJSONLD(context.Background(), strings.NewReader(string(doc)), d.opts(hi)...)
				if err != nil {
					if base.Class == "ok" {
						diffs[g] = "error: " + err.Error()
					}
					return
				}
				if base.Class != "ok" {
					diffs[g] = "succeeded, sequential run failed"
					return
				}
				if r := mz.Root().BigInt().String(); r != base.Root {
					diffs[g] = "root " + r + " vs " + base.Root
					return
				}
				ks := mapRender(mz)
				if strings.Join(ks, ",") != strings.Join(base.MapKeys, ",") {
					diffs[g] = "different entry maps"
					return
				}
			}
		}(g)
	}
	wg.Wait()
	d.rep.Evaluations += G * per
	for _, s := range diffs {
		if s != "" {
			d.fail("parallel merklization of the same document differs: "+s,
				failInput{Kind: "repeat", Class: "c03-nondeterministic-parallel", Doc: string(doc), Hasher: hi, Repeats: n})
			return
		}
	}
}

// ---- caller-provided tree ----

// failTree: a caller-provided tree whose k-th Add fails.
type failTree struct {
	inner merklize.MerkleTree
	k, n  int
}

func (t *failTree) Add(ctx context.Context, k, v *big.Int) error {
	t.n++
	if t.n == t.k {
		return fmt.Errorf("storage failure on write %d", t.n)
	}
	return t.inner.Add(ctx, k, v)
}
func (t *failTree) GenerateProof(ctx context.Context, k *big.Int) (*merkletree.Proof, error) {
	return t.inner.GenerateProof(ctx, k)
}
func (t *failTree) Root() *merkletree.Hash { return t.inner.Root() }

func newTree() (*merkletree.MerkleTree, error) {
	return merkletree.NewMerkleTree(context.Background(), memory.NewMemoryStorage(), 40)
}

func (d *drv) givenTree(doc []byte, hi int, base *obs) {
	if base.Class != "ok" {
		return
	}
	mt, err := newTree()
	if err != nil {
		return
	}
	o, _, _ := d.observe(doc, hi, merklize.WithMerkleTree(merklize.MerkleTreeSQLAdapter(mt)))
	if diff := base.same(o, true); diff != "" {
		d.fail("a caller-provided empty tree changes the result: "+diff,
			failInput{Kind: "tree", Class: "c03-given-tree", Doc: string(doc), Hasher: hi})
		return
	}
	if r := mt.Root().BigInt().String(); r != base.Root {
		d.fail(fmt.Sprintf("the caller-provided tree was not the tree that was filled: its root is %s, the merklizer's %s", r, base.Root),
			failInput{Kind: "tree", Class: "c03-given-tree-ignored", Doc: string(doc), Hasher: hi})
		return
	}
	// a provided tree whose Add fails on the k-th call: the error must surface (never a
	// merklizer over a partially filled tree)
	if n := len(base.Entries); n > 0 {
		ks := []int{1, n, 1 + d.rng.Intn(n)}
		if d.cfg.Thorough() {
			ks = nil
			for k := 1; k <= n && k <= 12; k++ {
				ks = append(ks, k)
			}
		}
		for _, k := range ks {
			inner, err := newTree()
			if err != nil {
				break
			}
			ft := &failTree{inner: merklize.MerkleTreeSQLAdapter(inner), k: k}
			mzf, mo := mzrun.Merklize(doc, d.opts(hi, merklize.WithMerkleTree(ft))...)
			d.rep.Evaluations++
			d.rep.Count("failing-add:" + mo.Class)
			if mo.Class == "ok" {
				r := ""
				if mzf != nil {
					r = mzf.Root().BigInt().String()
				}
				d.fail(fmt.Sprintf("the provided tree's Add failed on call %d of %d, MerklizeJSONLD returned no error and root %s (default tree: %s)", k, n, r, base.Root),
					failInput{Kind: "tree", Class: "c03-add-error-swallowed", Doc: string(doc), Hasher: hi, Repeats: k})
				return
			}
		}
	}
	// a provided empty tree of another depth: same root (Properties/C03.v C03_tree_depth)
	if deep, err := merkletree.NewMerkleTree(context.Background(), memory.NewMemoryStorage(), 64); err == nil {
		od, _, _ := d.observe(doc, hi, merklize.WithMerkleTree(merklize.MerkleTreeSQLAdapter(deep)))
		if diff := base.same(od, true); diff != "" {
			d.fail("a caller-provided empty tree with 64 levels changes the result: "+diff,
				failInput{Kind: "tree", Class: "c03-given-tree-depth", Doc: string(doc), Hasher: hi})
			return
		}
	}
	// a provided tree that already holds a leaf: root of the union, in any insertion order
	ek, ev := big.NewInt(int64(1+d.rng.Intn(1<<30))), big.NewInt(int64(d.rng.Intn(1<<30)))
	pre, _ := newTree()
	if pre.Add(context.Background(), ek, ev) != nil {
		return
	}
	mz2, mo := mzrun.Merklize(doc, d.opts(hi, merklize.WithMerkleTree(merklize.MerkleTreeSQLAdapter(pre)))...)
	d.rep.Evaluations++
	if mo.Class != "ok" {
		return // key clash with an entry: not a C03 matter
	}
	// reference: entries first (reverse order), extra leaf last
	ds, err := mzrun.Normalize(doc, d.loader, true)
	if err != nil {
		return
	}
	vs, eo := mzrun.Entries(ds, d.hs[hi])
	if eo.Class != "ok" {
		return
	}
	ref, _ := newTree()
	for i := len(vs) - 1; i >= 0; i-- {
		k, v, err := vs[i].Entry.KeyValueMtEntries()
		if err != nil || ref.Add(context.Background(), k, v) != nil {
			return
		}
	}
	if ref.Add(context.Background(), ek, ev) != nil {
		return
	}
	if mz2.Root().BigInt().Cmp(ref.Root().BigInt()) != 0 {
		d.fail("a provided tree holding one leaf does not yield the root of the union of that leaf and the entries",
			failInput{Kind: "tree", Class: "c03-given-tree-union", Doc: string(doc), Hasher: hi, Note: ek.String() + "," + ev.String()})
	}
}

// ---- single-value replacement ----

// unindexed renders the entries with every integer index dropped from the paths, sorted.
func unindexed(entries []string) []string {
	out := make([]string, 0, len(entries))
	for _, e := range entries {
		path := strings.SplitN(e, " => ", 2)
		var parts []string
		for _, p := range strings.Split(path[0], " / ") {
			if !strings.HasPrefix(p, "#") {
				parts = append(parts, p)
			}
		}
		out = append(out, strings.Join(parts, " / ")+" => "+path[1])
	}
	sort.Strings(out)
	return out
}

// classifySpelling: narrow classes for the ways in which an EQUIVALENT spelling of one
// typed value is known to change the root.  In all of them the two entry sets agree once
// the integer indices are dropped from the paths (so no value changed, nothing was lost:
// only siblings — the leaf's own, or blank nodes anywhere in the document, whose canonical
// labels URDNA2015 derives from hashes over the lexical forms — were renumbered).
//
//	c03-spelling-sibling-index   the RDF lexical form of the leaf changed ("5" -> "05"):
//	                             sibling numbering follows lexical forms (N-Quads order of the
//	                             literals, canonical labels of the blank nodes holding them)
//	c03-spelling-duplicate-value same, and the variant has exactly one more entry: a second
//	                             copy of a value that is already there (set semantics by
//	                             lexical form: ["5","05"] are two leaves)
//	c03-spelling-mixed-duplicate the RDF is the same (native 5 vs "5") but the value occurs
//	                             twice among its siblings and the respelling makes the two JSON
//	                             forms differ (or agree again): json-gold hands the duplicate
//	                             quad to URDNA2015, blank nodes are relabelled
//
// Everything else (a value changed, an entry lost, no array involved) is the generic
// c03-spelling.
func classifySpelling(base, o *obs, lf docgen.Leaf, siblings int, lexical, duplicate bool) string {
	if o.Class != "ok" || base.Class != "ok" {
		return "c03-spelling"
	}
	b, v := unindexed(base.Entries), unindexed(o.Entries)
	if strings.Join(b, "\n") == strings.Join(v, "\n") {
		if lexical {
			return "c03-spelling-sibling-index"
		}
		if duplicate && siblings >= 2 {
			return "c03-spelling-mixed-duplicate"
		}
		return "c03-spelling"
	}
	if lexical && len(v) == len(b)+1 && siblings >= 2 {
		seen := map[string]int{}
		for _, s := range b {
			seen[s]++
		}
		extra := ""
		for _, s := range v {
			if seen[s] > 0 {
				seen[s]--
			} else if extra == "" {
				extra = s
			} else {
				return "c03-spelling"
			}
		}
		for _, s := range b {
			if s == extra {
				return "c03-spelling-duplicate-value"
			}
		}
	}
	return "c03-spelling"
}

// duplicated: the leaf's VALUE occurs at least twice among its siblings (same array), in
// whatever JSON forms ("5" and 5, false and "false").
func duplicated(doc *docgen.Doc, lf docgen.Leaf) bool {
	n := 0
	for _, o := range doc.Leaves {
		if len(o.DocPath) != len(lf.DocPath) || o.Fact.Value != lf.Fact.Value || o.Fact.Datatype != lf.Fact.Datatype {
			continue
		}
		same := true
		for i := 0; i < len(lf.DocPath)-1; i++ {
			if o.DocPath[i] != lf.DocPath[i] {
				same = false
				break
			}
		}
		if same {
			n++
		}
	}
	return n >= 2
}

func (d *drv) replaceLeaves(doc *docgen.Doc, hi int, base *obs) {
	if base.Class != "ok" {
		return
	}
	rng := d.rng
	// machine-word boundaries on integer-typed leaves (one per document in quick, up to 3 in thorough)
	var ints []docgen.Leaf
	for _, lf := range doc.Leaves {
		if (lf.Kind == "int-string" || lf.Kind == "int-native") && !hasIndex(lf.DocPath) {
			ints = append(ints, lf)
		}
	}
	rng.Shuffle(len(ints), func(i, j int) { ints[i], ints[j] = ints[j], ints[i] })
	var times []docgen.Leaf
	for _, lf := range doc.Leaves {
		if lf.Kind == "datetime" && !hasIndex(lf.DocPath) {
			times = append(times, lf)
		}
	}
	if len(times) > 0 && (doc.Features["int-doc"] || d.rng.Intn(4) == 0) {
		d.timeSweep(doc, hi, times[d.rng.Intn(len(times))])
	}
	var dbls []docgen.Leaf
	for _, lf := range doc.Leaves {
		if (lf.Kind == "double-string" || lf.Kind == "double-native") && !hasIndex(lf.DocPath) {
			dbls = append(dbls, lf)
		}
	}
	if len(dbls) > 0 && (doc.Features["int-doc"] || d.rng.Intn(2) == 0) {
		d.doubleSweep(doc, hi, base, dbls[d.rng.Intn(len(dbls))])
	}
	nSweep := d.cfg.Pick(1, 3)
	if doc.Features["int-doc"] {
		nSweep = len(ints)
	}
	for i := 0; i < len(ints) && i < nSweep; i++ {
		d.boundarySweep(doc, hi, ints[i])
	}
	for _, lf := range doc.Leaves {
		lf := lf
		// (i) different canonical encoding -> different root
		obj, err := parseDoc(doc.Bytes)
		if err != nil {
			return
		}
		sl, sib, ok := nav(obj, lf.DocPath)
		if !ok {
			d.rep.Count("leaf:unlocated")
			continue
		}
		if nv, ok := different(rng, lf.Kind, lf.Fact.Datatype, sl.get(), sib); ok {
			sl.set(nv)
			v, _ := json.Marshal(obj)
			o, _, _ := d.observe(v, hi)
			d.rep.Count("replace-different:" + lf.Kind)
			if o.Class == "ok" && o.Root == base.Root {
				d.fail(fmt.Sprintf("replacing the value at %v by a different one (%v) does not change the root", lf.DocPath, nv),
					failInput{Kind: "pair-diff", Class: "c03-value-unbound", Doc: string(doc.Bytes), Other: string(v), Hasher: hi, Leaf: &lf, Siblings: sib})
			} else if o.Class != "ok" {
				d.rep.Count("replace-different-rejected")
			}
		}
		d.nearMisses(doc, hi, base, lf)
		// (ii) equivalent spelling -> same root
		obj, _ = parseDoc(doc.Bytes)
		sl, sib, ok = nav(obj, lf.DocPath)
		dup := ok && sib >= 2 && duplicated(doc, lf)
		if nv, lexical, ok := spelling(rng, lf.Kind, lf.Fact.Datatype, sl.get()); ok {
			sl.set(nv)
			v, _ := json.Marshal(obj)
			o, _, _ := d.observe(v, hi)
			multi := "single"
			if sib > 1 {
				multi = "multi"
			}
			d.rep.Count(fmt.Sprintf("replace-spelling:%s:%s:lexical=%v", lf.Kind, multi, lexical))
			if o.Class != "ok" || o.Root != base.Root {
				class := classifySpelling(base, o, lf, sib, lexical, dup)
				what := fmt.Sprintf("respelling the value at %v as %s changes the result: ", lf.DocPath, jsonOf(nv))
				if o.Class != "ok" {
					what += o.Class + " " + o.Msg
				} else {
					what += "root " + o.Root + " vs " + base.Root
				}
				d.fail(what, failInput{Kind: "pair-same", Class: class, Doc: string(doc.Bytes), Other: string(v), Hasher: hi, Leaf: &lf, Siblings: sib, Lexical: lexical, Duplicate: dup})
			}
		}
	}
}

// nearMisses: (i') values that look like the original.  String-like leaves: leading /
// trailing whitespace (space, tab, newline, NBSP), case change, trailing dot, Unicode
// look-alike are DIFFERENT strings and must change the root.  Typed leaves written as
// strings (integer, boolean, dateTime, double): a padded lexical form must be an error or
// denote the same value.  Some of the variant datasets also go to the Coq model.
func (d *drv) nearMisses(doc *docgen.Doc, hi int, base *obs, lf docgen.Leaf) {
	rng := d.rng
	obj, err := parseDoc(doc.Bytes)
	if err != nil {
		return
	}
	sl, sib, ok := nav(obj, lf.DocPath)
	if !ok {
		return
	}
	raw, isStr := sl.get().(string)
	if !isStr {
		return
	}
	switch lf.Kind {
	case "native-string", "string", "custom", "iri":
		vs := nearStrings(lf.Kind, raw)
		rng.Shuffle(len(vs), func(i, j int) { vs[i], vs[j] = vs[j], vs[i] })
		n := d.cfg.Pick(2, 5)
		for i := 0; i < len(vs) && i < n; i++ {
			sl.set(vs[i].V)
			v, _ := json.Marshal(obj)
			o, _, ds := d.observe(v, hi)
			d.rep.Count("near-string:" + vs[i].Name)
			if o.Class == "ok" && o.Root == base.Root {
				d.fail(fmt.Sprintf("replacing the string at %v by the different string %s (%s) does not change the root", lf.DocPath, jsonOf(vs[i].V), vs[i].Name),
					failInput{Kind: "pair-diff", Class: "c03-value-unbound", Doc: string(doc.Bytes), Other: string(v), Hasher: hi, Leaf: &lf, Siblings: sib, Note: vs[i].Name})
			} else if o.Class != "ok" {
				d.rep.Count("near-string-rejected:" + vs[i].Name)
			}
			if ds != nil && i == 0 && rng.Intn(3) == 0 {
				// model vs implementation on the variant's dataset (entries keep the exact string)
				d.datasetCase(ds, hi, failInput{Kind: "doc-dataset", Doc: string(v), Hasher: hi}, 1)
			}
		}
	case "int-string", "bool-string", "date", "datetime", "double-string":
		vs := paddedTyped(raw)
		pv := vs[rng.Intn(len(vs))]
		sl.set(pv.V)
		v, _ := json.Marshal(obj)
		o, _, ds := d.observe(v, hi)
		switch {
		case o.Class != "ok":
			d.rep.Count("near-typed-rejected:" + pv.Name)
		case o.Root == base.Root:
			d.rep.Count("near-typed-same-value:" + pv.Name)
		default:
			class := classifySpelling(base, o, lf, sib, true, false)
			d.rep.Count("near-typed-accepted:" + pv.Name)
			d.fail(fmt.Sprintf("padding the %s value at %v to %s (%s) is accepted and changes the result: root %s vs %s", lf.Kind, lf.DocPath, jsonOf(pv.V), pv.Name, o.Root, base.Root),
				failInput{Kind: "pair-same", Class: class, Doc: string(doc.Bytes), Other: string(v), Hasher: hi, Leaf: &lf, Siblings: sib, Lexical: true, Note: pv.Name})
		}
		if ds != nil && rng.Intn(4) == 0 {
			d.datasetCase(ds, hi, failInput{Kind: "doc-dataset", Doc: string(v), Hasher: hi}, 1)
		}
	}
}

// boundaryInts: integers around machine-word boundaries (and a few small ones), allowed
// by the XSD integer type dt.
func boundaryInts(dt string) []*big.Int {
	pow := func(n uint) *big.Int { return new(big.Int).Lsh(big.NewInt(1), n) }
	add := func(z *big.Int, d int64) *big.Int { return new(big.Int).Add(z, big.NewInt(d)) }
	pos := []*big.Int{big.NewInt(1), big.NewInt(2), big.NewInt(3), big.NewInt(5), big.NewInt(7), big.NewInt(15), pow(31), add(pow(31), -1), pow(32), add(pow(32), -1), pow(53), add(pow(53), 1),
		add(pow(63), -1), pow(63), add(pow(63), 1), add(pow(64), -1), pow(64), add(pow(64), 1), pow(65)}
	var out []*big.Int
	neg := dt != xsd+"positiveInteger" && dt != xsd+"nonNegativeInteger"
	po := dt != xsd+"negativeInteger" && dt != xsd+"nonPositiveInteger"
	if neg && po || dt == xsd+"nonNegativeInteger" || dt == xsd+"nonPositiveInteger" {
		out = append(out, big.NewInt(0))
	}
	for _, z := range pos {
		if po {
			out = append(out, z)
		}
		if neg {
			out = append(out, new(big.Int).Neg(z))
		}
	}
	return out
}

// intRange: the inclusive range of the XSD integer type dt under a field of prime p
// (Value/Theory.v lo/hi): integer [-(p-1)/2,(p-1)/2], positive [1,p-1], nonNegative [0,p-1],
// negative [-(p-1)/2,-1], nonPositive [-(p-1)/2,0].
func intRange(dt string, p *big.Int) (lo, hi *big.Int) {
	h := new(big.Int).Rsh(new(big.Int).Sub(p, big.NewInt(1)), 1)
	nh := new(big.Int).Neg(h)
	pm1 := new(big.Int).Sub(p, big.NewInt(1))
	switch dt {
	case xsd + "positiveInteger":
		return big.NewInt(1), pm1
	case xsd + "nonNegativeInteger":
		return big.NewInt(0), pm1
	case xsd + "negativeInteger":
		return nh, big.NewInt(-1)
	case xsd + "nonPositiveInteger":
		return nh, big.NewInt(0)
	default:
		return nh, h
	}
}

// rangeInts: the neighbours of the range ends on both sides, and -2..2, p-2..p+1, +-(p-1)/2 +- 1.
func rangeInts(dt string, p *big.Int) []*big.Int {
	lo, hi := intRange(dt, p)
	h := new(big.Int).Rsh(new(big.Int).Sub(p, big.NewInt(1)), 1)
	var out []*big.Int
	seen := map[string]bool{}
	add := func(z *big.Int, d int64) {
		v := new(big.Int).Add(z, big.NewInt(d))
		if !seen[v.String()] {
			seen[v.String()] = true
			out = append(out, v)
		}
	}
	for _, d := range []int64{-2, -1, 0, 1, 2} {
		add(lo, d)
		add(hi, d)
		add(big.NewInt(0), d)
		add(p, d)
		add(h, d)
		add(new(big.Int).Neg(h), d)
	}
	return out
}

// boundarySweep: one integer-typed leaf takes every boundary value in turn (written as a
// string; exactly representable ones also as JSON numbers): all accepted documents must have
// pairwise DIFFERENT roots (different integers have different encodings: C04 / C03_value_binding_int),
// and the string and number spellings of one value the same root.  Some of the variant
// datasets go to the Coq tree model, which computes the encoding exactly.
func (d *drv) boundarySweep(doc *docgen.Doc, hi int, lf docgen.Leaf) {
	if hasIndex(lf.DocPath) {
		return // keep D21 (sibling renumbering through lexical forms) out of this oracle
	}
	vals := boundaryInts(lf.Fact.Datatype)
	prime := d.hs[hi].Prime()
	lo, hiV := intRange(lf.Fact.Datatype, prime)
	if doc.Features["int-doc"] {
		// the ends of the type's range under this hasher's prime, and their outside neighbours
		vals = append(vals, rangeInts(lf.Fact.Datatype, prime)...)
	}
	{
		seen := map[string]bool{}
		var uniq []*big.Int
		for _, z := range vals {
			if !seen[z.String()] {
				seen[z.String()] = true
				uniq = append(uniq, z)
			}
		}
		vals = uniq
	}
	roots := map[string]string{} // root -> value
	docs := map[string]string{}
	nTree := 0
	if !doc.Features["int-doc"] && !d.cfg.Thorough() && len(vals) > 12 {
		// quick tier: a random third of the machine-word boundaries on generated documents
		// (the int documents sweep all of them)
		d.rng.Shuffle(len(vals), func(i, j int) { vals[i], vals[j] = vals[j], vals[i] })
		vals = vals[:12]
	}
	defer d.fractions(doc, hi, lf, roots, docs)
	for _, z := range vals {
		obj, err := parseDoc(doc.Bytes)
		if err != nil {
			return
		}
		sl, sib, ok := nav(obj, lf.DocPath)
		if !ok || sib != 1 {
			return
		}
		sl.set(z.String())
		v, _ := json.Marshal(obj)
		o, _, ds := d.observe(v, hi)
		d.rep.Count("boundary-int:" + o.Class)
		inRange := z.Cmp(lo) >= 0 && z.Cmp(hiV) <= 0
		if o.Class == "ok" && !inRange {
			d.fail(fmt.Sprintf("the %s field at %v accepts the out-of-range value %s (range %s..%s)", lf.Fact.Datatype, lf.DocPath, z, lo, hiV),
				failInput{Kind: "range", Class: "c03-out-of-range-accepted", Doc: string(v), Hasher: hi, Leaf: &lf, Siblings: 1, Note: "out"})
		}
		if o.Class != "ok" && inRange {
			d.fail(fmt.Sprintf("the %s field at %v rejects the in-range value %s: %s", lf.Fact.Datatype, lf.DocPath, z, o.Msg),
				failInput{Kind: "range", Class: "c03-in-range-rejected", Doc: string(v), Hasher: hi, Leaf: &lf, Siblings: 1, Note: "in"})
		}
		if doc.Features["int-doc"] && (!inRange || d.rng.Intn(8) == 0) {
			// the model decides acceptance (range ends of the type under this prime) and the root
			d.variantCase(v, hi, o, d.rng.Intn(3) == 0, "int-range")
		}
		if o.Class != "ok" {
			continue
		}
		if prev, dup := roots[o.Root]; dup {
			d.fail(fmt.Sprintf("the integer field at %v holding %s and holding %s gives the same root", lf.DocPath, prev, z),
				failInput{Kind: "pair-diff", Class: "c03-value-unbound", Doc: docs[prev], Other: string(v), Hasher: hi, Leaf: &lf, Siblings: 1, Note: "boundary " + prev + " vs " + z.String()})
			return
		}
		roots[o.Root] = z.String()
		docs[z.String()] = string(v)
		if z.IsInt64() && new(big.Int).Abs(z).BitLen() <= 53 {
			sl.set(json.RawMessage(z.String()))
			v2, _ := json.Marshal(obj)
			o2, _, _ := d.observe(v2, hi)
			if o2.Class != "ok" || o2.Root != o.Root {
				d.fail(fmt.Sprintf("the integer %s at %v written as a JSON number and as a string gives different results", z, lf.DocPath),
					failInput{Kind: "pair-same", Class: "c03-spelling", Doc: string(v), Other: string(v2), Hasher: hi, Leaf: &lf, Siblings: 1})
				return
			}
		}
		if ds != nil && z.BitLen() >= 63 && nTree < d.cfg.Pick(3, 8) && d.rng.Intn(3) == 0 {
			nTree++
			d.treeCase(ds, hi, failInput{Kind: "doc-dataset", Doc: string(v), Hasher: hi, Note: "boundary-int"}, o.Root, 1)
		}
	}
}

// doubleSpellings: equivalent lexical forms of one xsd:double: canonical, mantissa with
// trailing zeros, exponent with leading zeros / explicit sign, shifted mantissa, lower-case e,
// plain decimal.
func doubleSpellings(f float64) []string {
	c := ld.GetCanonicalDouble(f) // d.dddE<exp>
	i := strings.IndexByte(c, 'E')
	out := []string{c, strconv.FormatFloat(f, 'f', -1, 64), strconv.FormatFloat(f, 'e', -1, 64), strconv.FormatFloat(f, 'E', -1, 64)}
	if i < 0 {
		return out
	}
	mant, exps := c[:i], c[i+1:]
	e, err := strconv.Atoi(exps)
	if err != nil {
		return out
	}
	sign, abs := "", e
	if e < 0 {
		sign, abs = "-", -e
	}
	out = append(out, mant+"0E"+exps, mant+"00E"+exps, fmt.Sprintf("%sE%s0%d", mant, sign, abs), fmt.Sprintf("%sE%s00%d", mant, sign, abs),
		fmt.Sprintf("%s0E%s0%d", mant, sign, abs), strings.ToLower(c), mant+"e"+exps+"")
	if e >= 0 {
		out = append(out, mant+"E+"+exps, mant+"e+0"+exps)
	}
	neg := strings.HasPrefix(mant, "-")
	m := strings.TrimPrefix(mant, "-")
	digits := strings.Replace(m, ".", "", 1) // d ddd
	pre := ""
	if neg {
		pre = "-"
	}
	out = append(out, fmt.Sprintf("%s0.%sE%d", pre, digits, e+1), fmt.Sprintf("%s0.0%sE%d", pre, digits, e+2))
	if len(digits) >= 2 {
		out = append(out, fmt.Sprintf("%s%s.%sE%d", pre, digits[:2], digits[2:]+"0", e-1))
	}
	seen := map[string]bool{}
	var res []string
	for _, s := range out {
		if g, err := strconv.ParseFloat(s, 64); err == nil && g == f && !seen[s] {
			seen[s] = true
			res = append(res, s)
		}
	}
	return res
}

// doubleSweep: one xsd:double leaf (no array on the way, so no sibling renumbering) is
// written in every equivalent lexical form: all must give the base root.
func (d *drv) doubleSweep(doc *docgen.Doc, hi int, base *obs, lf docgen.Leaf) {
	obj, err := parseDoc(doc.Bytes)
	if err != nil {
		return
	}
	sl, sib, ok := nav(obj, lf.DocPath)
	if !ok || sib != 1 {
		return
	}
	var f float64
	switch x := sl.get().(type) {
	case float64:
		f = x
	case string:
		if f, err = strconv.ParseFloat(x, 64); err != nil {
			return
		}
	default:
		return
	}
	for _, sp := range doubleSpellings(f) {
		sl.set(sp)
		v, _ := json.Marshal(obj)
		o, _, _ := d.observe(v, hi)
		d.rep.Count("double-spelling:" + o.Class)
		if o.Class != "ok" || o.Root != base.Root {
			class := classifySpelling(base, o, lf, sib, true, false)
			got := o.Class + " " + o.Msg
			if o.Class == "ok" {
				got = "root " + o.Root
			}
			d.fail(fmt.Sprintf("the xsd:double at %v written as %q changes the result: %s vs root %s", lf.DocPath, sp, got, base.Root),
				failInput{Kind: "pair-same", Class: class, Doc: string(doc.Bytes), Other: string(v), Hasher: hi, Leaf: &lf, Siblings: sib, Lexical: true})
			return
		}
	}
}

// boundaryTimes: xsd:dateTime lexical forms around the limits of an int64 count of
// nanoseconds (1677-09-21T00:12:43.145224192Z .. 2262-04-11T23:47:16.854775807Z), around the
// years 1677/1678 and 2262/2263, the 2^31 / 2^32 second marks, the epoch, and for each of
// them the instants 2^63 and 2^64 ns earlier / later (wrap-around partners).
func boundaryTimes() []string {
	e9 := big.NewInt(1_000_000_000)
	p63 := new(big.Int).Lsh(big.NewInt(1), 63)
	p64 := new(big.Int).Lsh(big.NewInt(1), 64)
	var ns []*big.Int
	addNS := func(z *big.Int) { ns = append(ns, z) }
	for _, d := range []int64{-1, 0, 1} {
		addNS(new(big.Int).Add(p63, big.NewInt(d)))
		addNS(new(big.Int).Add(new(big.Int).Neg(p63), big.NewInt(d)))
		addNS(big.NewInt(d))
	}
	for _, t := range []string{"1677-01-01T00:00:00Z", "1677-12-31T23:59:59.999999999Z", "1678-01-01T00:00:00Z", "2262-01-01T00:00:00Z",
		"2262-04-12T00:00:00Z", "2262-06-01T00:00:00Z", "2262-12-31T23:59:59.999999999Z", "2263-01-01T00:00:00Z",
		"2038-01-19T03:14:07Z", "2038-01-19T03:14:08Z", "2106-02-07T06:28:16Z", "1901-12-13T20:45:52Z", "2020-02-29T12:00:00.5Z"} {
		tm, err := time.Parse(time.RFC3339Nano, t)
		if err != nil {
			continue
		}
		z := new(big.Int).Mul(big.NewInt(tm.Unix()), e9)
		addNS(z.Add(z, big.NewInt(int64(tm.Nanosecond()))))
	}
	base := append([]*big.Int{}, ns...)
	for _, z := range base {
		for _, d := range []*big.Int{p63, p64} {
			addNS(new(big.Int).Add(z, d))
			addNS(new(big.Int).Sub(z, d))
		}
	}
	seen := map[string]bool{}
	var out []string
	for _, z := range ns {
		sec, nano := new(big.Int).DivMod(z, e9, new(big.Int))
		if !sec.IsInt64() {
			continue
		}
		tm := time.Unix(sec.Int64(), nano.Int64()).UTC()
		if tm.Year() < 1 || tm.Year() > 9999 {
			continue
		}
		s := tm.Format(time.RFC3339Nano)
		if !seen[s] {
			seen[s] = true
			out = append(out, s)
		}
	}
	return out
}

// timeSweep: one xsd:dateTime leaf takes every boundary instant in turn: all accepted
// documents must have pairwise different roots (different instants within 2^69 ns have
// different encodings: C04_time_injective); some variants go to the Coq tree model.
func (d *drv) timeSweep(doc *docgen.Doc, hi int, lf docgen.Leaf) {
	roots := map[string]string{}
	docs := map[string]string{}
	nTree := 0
	for _, ts := range boundaryTimes() {
		obj, err := parseDoc(doc.Bytes)
		if err != nil {
			return
		}
		sl, sib, ok := nav(obj, lf.DocPath)
		if !ok || sib != 1 {
			return
		}
		sl.set(ts)
		v, _ := json.Marshal(obj)
		o, _, ds := d.observe(v, hi)
		d.rep.Count("boundary-time:" + o.Class)
		if o.Class != "ok" {
			continue
		}
		if prev, dup := roots[o.Root]; dup {
			d.fail(fmt.Sprintf("the dateTime field at %v holding %s and holding %s gives the same root", lf.DocPath, prev, ts),
				failInput{Kind: "pair-diff", Class: "c03-value-unbound", Doc: docs[prev], Other: string(v), Hasher: hi, Leaf: &lf, Siblings: 1, Note: "boundary " + prev + " vs " + ts})
			return
		}
		roots[o.Root] = ts
		docs[ts] = string(v)
		if ds != nil && nTree < d.cfg.Pick(4, 10) && d.rng.Intn(6) == 0 {
			nTree++
			d.treeCase(ds, hi, failInput{Kind: "doc-dataset", Doc: string(v), Hasher: hi, Note: "boundary-time"}, o.Root, 1)
		}
	}
}

// fractions: NON-integral values in an integer-typed field (strings "2.5", "-0.5", "0.25",
// "7/2", "1e-1", ... and the JSON number 1.5): must be rejected, and must never share a
// root with an integer value of the same field.
func (d *drv) fractions(doc *docgen.Doc, hi int, lf docgen.Leaf, roots, docs map[string]string) {
	fr := []any{"1.5", "2.5", "-0.5", "0.5", "0.25", "7/2", "-3/2", "1e-1", "15e-1", "2.000001", "-1.5", json.RawMessage("1.5"), json.RawMessage("-2.5"), json.RawMessage("0.5")}
	if !d.cfg.Thorough() && !doc.Features["int-doc"] {
		d.rng.Shuffle(len(fr), func(i, j int) { fr[i], fr[j] = fr[j], fr[i] })
		fr = fr[:4]
	}
	for _, f := range fr {
		obj, err := parseDoc(doc.Bytes)
		if err != nil {
			return
		}
		sl, sib, ok := nav(obj, lf.DocPath)
		if !ok || sib != 1 {
			return
		}
		sl.set(f)
		v, _ := json.Marshal(obj)
		o, _, _ := d.observe(v, hi)
		d.rep.Count("fraction:" + o.Class)
		if doc.Features["int-doc"] || d.rng.Intn(4) == 0 {
			d.variantCase(v, hi, o, d.rng.Intn(4) == 0, "fraction")
		}
		if o.Class != "ok" {
			continue
		}
		what := fmt.Sprintf("the %s field at %v accepts the non-integral value %s", lf.Fact.Datatype, lf.DocPath, jsonOf(f))
		if prev, dup := roots[o.Root]; dup {
			d.fail(what+fmt.Sprintf(" and gives the same root as the integer %s", prev),
				failInput{Kind: "pair-diff", Class: "c03-value-unbound", Doc: docs[prev], Other: string(v), Hasher: hi, Leaf: &lf, Siblings: 1, Note: "fraction " + jsonOf(f) + " vs " + prev})
			return
		}
		d.fail(what, failInput{Kind: "range", Class: "c03-fraction-accepted", Doc: string(v), Hasher: hi, Leaf: &lf, Siblings: 1, Note: "out"})
		return
	}
}

func hasIndex(path []string) bool {
	for _, s := range path {
		if len(s) > 0 && s[0] >= '0' && s[0] <= '9' {
			return true
		}
	}
	return false
}

func jsonOf(v any) string {
	b, _ := json.Marshal(v)
	return string(b)
}

// ---- documents ----

func (d *drv) docCase(doc *docgen.Doc, hi int, nRepeat int) {
	for f := range doc.Features {
		d.rep.Count("feature:" + f)
	}
	d.distinct = append(d.distinct, string(doc.Bytes)+fmt.Sprint(hi))
	base, _, ds := d.observe(doc.Bytes, hi)
	d.rep.Count("base:" + base.Class)
	if base.Class != "ok" && doc.Expect == "ok" {
		d.fail("generated valid document rejected: "+base.Msg, failInput{Kind: "repeat", Class: "c03-generator", Doc: string(doc.Bytes), Hasher: hi, Repeats: 1})
		return
	}
	if ds != nil {
		d.rep.Count(fmt.Sprintf("graphs:%d", len(ds.Graphs)))
		if len(ds.Graphs) > 1 || d.rng.Intn(3) == 0 {
			d.datasetCase(ds, hi, failInput{Kind: "doc-dataset", Doc: string(doc.Bytes), Hasher: hi}, 3)
		}
		if base.Class == "ok" && (len(ds.Graphs) > 1 || d.id%2 == 0) {
			d.treeCase(ds, hi, failInput{Kind: "doc-dataset", Doc: string(doc.Bytes), Hasher: hi}, base.Root, 2, base)
		}
	}
	d.metamorphic(doc, hi, base)
	d.repeat(doc.Bytes, hi, base, nRepeat)
	d.givenTree(doc.Bytes, hi, base)
	d.remoteContext(doc, hi, base)
	if d.cfg.Thorough() || d.rng.Intn(2) == 0 {
		d.ctxHistory(doc, hi, base)
	}
	d.replaceLeaves(doc, hi, base)
	if d.rng.Intn(10) == 0 {
		d.rep.Sample(map[string]any{"doc": string(doc.Bytes), "root": base.Root, "entries": len(base.Entries), "hasher": hi})
	}
}

// intDoc: one single-valued string-typed property per XSD integer type.
func (d *drv) intDoc() *docgen.Doc {
	V := docgen.Vocab
	ctx := map[string]any{"T": V + "T"}
	obj := map[string]any{"@type": "T", "@id": fmt.Sprintf("urn:int:%d", d.rng.Intn(100000))}
	var leaves []docgen.Leaf
	for i, t := range []string{"integer", "positiveInteger", "nonNegativeInteger", "negativeInteger", "nonPositiveInteger"} {
		term := fmt.Sprintf("i%d", i)
		dt := docgen.XSD + t
		ctx[term] = map[string]any{"@id": V + term, "@type": dt}
		v := int64(1 + d.rng.Intn(1000))
		if i >= 3 {
			v = -v
		}
		raw := fmt.Sprint(v)
		obj[term] = raw
		leaves = append(leaves, docgen.Leaf{DocPath: []string{term}, Raw: raw, Kind: "int-string",
			Fact: docgen.Fact{Pattern: V + term, Value: "int:" + raw, Datatype: dt}})
	}
	ctx["d0"] = map[string]any{"@id": V + "d0", "@type": docgen.XSD + "double"}
	f0 := []float64{1.5, 0.15, 360.734375, -2.5e-3, 170000, 1, 0, 123456789.125}[d.rng.Intn(8)]
	d0 := strconv.FormatFloat(f0, 'f', -1, 64)
	obj["d0"] = d0
	leaves = append(leaves, docgen.Leaf{DocPath: []string{"d0"}, Raw: d0, Kind: "double-string",
		Fact: docgen.Fact{Pattern: V + "d0", Value: "str:" + ld.GetCanonicalDouble(f0), Datatype: docgen.XSD + "double"}})
	ctx["t0"] = map[string]any{"@id": V + "t0", "@type": docgen.XSD + "dateTime"}
	t0 := time.Unix(int64(d.rng.Intn(2_000_000_000)), 0).UTC().Format(time.RFC3339)
	obj["t0"] = t0
	leaves = append(leaves, docgen.Leaf{DocPath: []string{"t0"}, Raw: t0, Kind: "datetime",
		Fact: docgen.Fact{Pattern: V + "t0", Value: "time:?", Datatype: docgen.XSD + "dateTime"}})
	obj["@context"] = ctx
	doc := &docgen.Doc{Obj: obj, Leaves: leaves, Features: map[string]bool{"int-doc": true}, Expect: "ok"}
	doc.Bytes, _ = json.Marshal(obj)
	return doc
}

// multiGraphDoc: several @graph containers whose members all hang under the same
// key, so that child numbering is decided by the order of the graph names.
func (d *drv) multiGraphDoc() *docgen.Doc {
	rng := d.rng
	V := docgen.Vocab
	ctx := map[string]any{
		"T":  V + "T",
		"g1": map[string]any{"@id": V + "g1", "@container": "@graph"},
		"g2": map[string]any{"@id": V + "g2", "@container": "@graph"},
		"q":  map[string]any{"@id": V + "q", "@type": docgen.XSD + "integer"},
		"r":  V + "r",
		"n":  V + "n",
	}
	obj := map[string]any{"@context": ctx, "@type": "T"}
	if rng.Intn(2) == 0 {
		obj["@id"] = fmt.Sprintf("urn:root:%d", rng.Intn(1000))
	}
	var leaves []docgen.Leaf
	mk := func(prop string, n int) {
		var arr []any
		for i := 0; i < n; i++ {
			m := map[string]any{"@type": "T", "q": float64(rng.Intn(1000))}
			if rng.Intn(2) == 0 {
				m["@id"] = fmt.Sprintf("urn:m:%d", rng.Intn(100000))
			}
			if rng.Intn(2) == 0 {
				m["r"] = fmt.Sprintf("s%d", rng.Intn(50))
			}
			if rng.Intn(3) == 0 {
				m["n"] = map[string]any{"@type": "T", "r": fmt.Sprintf("deep%d", rng.Intn(50))}
			}
			arr = append(arr, m)
		}
		obj[prop] = arr
	}
	mk("g1", 2+rng.Intn(3))
	if rng.Intn(2) == 0 {
		mk("g2", 1+rng.Intn(3))
	}
	doc := &docgen.Doc{Obj: obj, Leaves: leaves, Features: map[string]bool{"multi-graph": true, "named-graph": true}, Expect: "model"}
	doc.Bytes, _ = json.Marshal(obj)
	return doc
}

// ---- datasets ----

type jnode struct {
	T  string `json:"t"` // iri | blank | lit
	V  string `json:"v"`
	DT string `json:"dt,omitempty"`
}
type jquad struct {
	S jnode  `json:"s"`
	P jnode  `json:"p"`
	O jnode  `json:"o"`
	G *jnode `json:"g,omitempty"`
}
type jds struct {
	Graphs map[string][]jquad `json:"graphs"`
}

func toJNode(n ld.Node) jnode {
	switch x := n.(type) {
	case *ld.IRI:
		return jnode{T: "iri", V: x.Value}
	case *ld.BlankNode:
		return jnode{T: "blank", V: x.Attribute}
	case *ld.Literal:
		return jnode{T: "lit", V: x.Value, DT: x.Datatype}
	}
	return jnode{T: "?"}
}

func fromJNode(j jnode) ld.Node {
	switch j.T {
	case "iri":
		return ld.NewIRI(j.V)
	case "blank":
		return ld.NewBlankNode(j.V)
	default:
		return ld.NewLiteral(j.V, j.DT, "")
	}
}

func dumpDS(ds *ld.RDFDataset) *jds {
	out := &jds{Graphs: map[string][]jquad{}}
	for g, qs := range ds.Graphs {
		out.Graphs[g] = []jquad{}
		for _, q := range qs {
			jq := jquad{S: toJNode(q.Subject), P: toJNode(q.Predicate), O: toJNode(q.Object)}
			if q.Graph != nil {
				n := toJNode(q.Graph)
				jq.G = &n
			}
			out.Graphs[g] = append(out.Graphs[g], jq)
		}
	}
	return out
}

func buildDS(j *jds) *ld.RDFDataset {
	ds := ld.NewRDFDataset()
	delete(ds.Graphs, "@default")
	for g, qs := range j.Graphs {
		ds.Graphs[g] = []*ld.Quad{}
		for _, jq := range qs {
			q := &ld.Quad{Subject: fromJNode(jq.S), Predicate: fromJNode(jq.P), Object: fromJNode(jq.O)}
			if jq.G != nil {
				q.Graph = fromJNode(*jq.G)
			}
			ds.Graphs[g] = append(ds.Graphs[g], q)
		}
	}
	return ds
}

func renderOutcome(vs []mzrun.EntryView, o mzrun.Outcome) string {
	if o.Class != "ok" {
		return o.Class
	}
	return "ok\n" + strings.Join(renderEntries(vs), "\n")
}

// datasetCase: EntriesFromRDFWithHasher repeated (Go re-randomises the map order on
// every range statement) + the Coq model under nOrders graph orders.
func (d *drv) datasetCase(ds *ld.RDFDataset, hi int, in failInput, nOrders int) {
	d.frMu.Lock()
	for _, s := range mzrun.DoubleLexicals(ds) {
		d.fr.AddStr(s)
	}
	d.frMu.Unlock()
	h := d.hs[hi]
	views, out := mzrun.Entries(ds, h)
	d.rep.Evaluations++
	d.rep.Count("dataset:" + out.Class)
	if in.Kind == "dataset" {
		in.Dataset = dumpDS(ds)
	}
	if out.Class == "panic" || out.Class == "hang" {
		in.Class = "c03-" + out.Class
		d.fail("EntriesFromRDFWithHasher: "+out.Msg, in)
	}
	ref := renderOutcome(views, out)
	msgs := map[string]bool{out.Msg: true}
	n := d.cfg.Pick(20, 100)
	for i := 0; i < n; i++ {
		v2, o2 := mzrun.Entries(ds, h)
		d.rep.Evaluations++
		msgs[o2.Msg] = true
		if r := renderOutcome(v2, o2); r != ref {
			in.Class = "c03-dataset-nondeterministic"
			in.Repeats = n
			d.fail(fmt.Sprintf("EntriesFromRDF on the same dataset, run %d: %q vs %q", i+2, r, ref), in)
			break
		}
	}
	if len(msgs) > 1 {
		// observation, not a violation: only the message of the error depends on map order
		d.rep.Count("observation:error-message-depends-on-map-order")
	}
	if nOrders > 1 && d.rng.Intn(2) == 0 {
		d.labelsCase(ds, hi, ref)
	}
	names := mzrun.GraphOrder(ds, nil)
	orders := [][]string{names}
	if nOrders > 1 {
		rev := make([]string, len(names))
		for i, s := range names {
			rev[len(names)-1-i] = s
		}
		orders = append(orders, rev)
	}
	for len(orders) < nOrders {
		orders = append(orders, mzrun.GraphOrder(ds, d.rng.Shuffle))
	}
	for _, ord := range orders {
		ci := in
		ci.Order = ord
		d.cases = append(d.cases, &rcase{ds: ds, order: ord, prime: h.Prime(), views: views, out: out, input: ci})
	}
}

// renameDS renames the blank-node labels of a dataset by a random injective map that is
// monotone (byte-wise order) on the labels used as GRAPH NAMES and arbitrary on all other
// labels; "@default" and "" are fixed; IRIs, literals and quad positions are untouched
// (Properties/C03.v C03_labels).
func renameDS(rng *rand.Rand, ds *ld.RDFDataset) *ld.RDFDataset {
	var gnames []string
	for g := range ds.Graphs {
		if g != "@default" && g != "" && strings.HasPrefix(g, "_:") {
			gnames = append(gnames, g)
		}
	}
	sort.Strings(gnames)
	m := map[string]string{}
	acc := 0
	for _, g := range gnames {
		acc += 1 + rng.Intn(1000)
		m[g] = fmt.Sprintf("_:g%08d%c", acc, 'a'+rune(rng.Intn(26)))
	}
	n := 0
	lab := func(s string) string {
		if r, ok := m[s]; ok {
			return r
		}
		n++
		r := fmt.Sprintf("_:n%d_%d", rng.Intn(100000), n)
		m[s] = r
		return r
	}
	node := func(x ld.Node) ld.Node {
		if b, ok := x.(*ld.BlankNode); ok && b != nil {
			return ld.NewBlankNode(lab(b.Attribute))
		}
		return x
	}
	out := ld.NewRDFDataset()
	delete(out.Graphs, "@default")
	for g := range ds.Graphs {
		ng := g
		if r, ok := m[g]; ok {
			ng = r
		}
		out.Graphs[ng] = []*ld.Quad{}
	}
	// deterministic traversal (sorted keys) so that the PRNG use is reproducible
	keys := mzrun.GraphOrder(ds, nil)
	for _, g := range keys {
		ng := g
		if r, ok := m[g]; ok {
			ng = r
		}
		for _, q := range ds.Graphs[g] {
			nq := &ld.Quad{Subject: node(q.Subject), Predicate: node(q.Predicate), Object: node(q.Object)}
			if q.Graph != nil {
				nq.Graph = node(q.Graph)
			}
			out.Graphs[ng] = append(out.Graphs[ng], nq)
		}
	}
	return out
}

// variantCase: the dataset of a variant document goes to the Coq model (entries, one graph
// order); with tree = true also to the root-level model, compared with what MerklizeJSONLD
// itself returned (o).
func (d *drv) variantCase(v []byte, hi int, o *obs, tree bool, note string) {
	ds, err := mzrun.Normalize(v, d.loader, true)
	if err != nil {
		return
	}
	d.frMu.Lock()
	for _, s := range mzrun.DoubleLexicals(ds) {
		d.fr.AddStr(s)
	}
	d.frMu.Unlock()
	h := d.hs[hi]
	views, out := mzrun.Entries(ds, h)
	d.rep.Evaluations++
	in := failInput{Kind: "doc-dataset", Doc: string(v), Hasher: hi, Note: note}
	d.cases = append(d.cases, &rcase{ds: ds, order: mzrun.GraphOrder(ds, nil), prime: h.Prime(), views: views, out: out, input: in})
	if tree {
		d.treeCase(ds, hi, in, "", 1, o)
	}
}

// labelsCase: blank-node labels renamed (monotone on graph names only): same outcome, and
// the model agrees with the implementation on the renamed dataset as well.
func (d *drv) labelsCase(ds *ld.RDFDataset, hi int, ref string) {
	h := d.hs[hi]
	rds := renameDS(d.rng, ds)
	rv, ro := mzrun.Entries(rds, h)
	d.rep.Evaluations++
	d.rep.Count("labels-renamed:" + ro.Class)
	if r := renderOutcome(rv, ro); r != ref {
		ri := failInput{Kind: "dataset", Class: "c03-labels", Hasher: hi, Dataset: dumpDS(ds), Note: "renamed: " + jsonOf(dumpDS(rds))}
		d.fail(fmt.Sprintf("renaming the blank-node labels (monotone on graph names) changes the outcome of EntriesFromRDF: %q vs %q", r, ref), ri)
	}
	d.cases = append(d.cases, &rcase{ds: rds, order: mzrun.GraphOrder(rds, d.rng.Shuffle), prime: h.Prime(), views: rv, out: ro,
		input: failInput{Kind: "dataset", Hasher: hi, Dataset: dumpDS(rds), Note: "labels-renamed"}})
}

// dupPath: two nodes at the top level (@graph) stating the same property: both entries
// have the path [p], the second insertion fails.  Changing either value must change the
// outcome: an error in both documents, or different roots — never the same root.
func (d *drv) dupPath(hi int) {
	V := docgen.Vocab
	names := []string{"Bob", "Barbara", "Alice", "Carol", "Dave"}
	d.rng.Shuffle(len(names), func(i, j int) { names[i], names[j] = names[j], names[i] })
	mk := func(a, b string) []byte {
		nodes := []any{map[string]any{"@id": "urn:dup:a", V + "name": a}, map[string]any{"@id": "urn:dup:b", V + "name": b}}
		if d.rng.Intn(2) == 0 {
			nodes[0], nodes[1] = nodes[1], nodes[0]
		}
		v, _ := json.Marshal(map[string]any{"@graph": nodes})
		return v
	}
	docA := mk(names[0], names[1])
	oa, _, _ := d.observe(docA, hi)
	d.rep.Count("dup-path:" + oa.Class)
	d.variantCase(docA, hi, oa, true, "duplicate-path")
	for _, docB := range [][]byte{mk(names[0], names[2]), mk(names[3], names[1])} {
		ob, _, _ := d.observe(docB, hi)
		if oa.Class == "ok" && ob.Class == "ok" && oa.Root == ob.Root {
			d.fail("two documents with two top-level nodes stating the same property, differing in one value, give the same root "+oa.Root,
				failInput{Kind: "pair-diff", Class: "c03-value-unbound", Doc: string(docA), Other: string(docB), Hasher: hi, Note: "duplicate-path"})
			return
		}
		if oa.Class != ob.Class {
			d.fail(fmt.Sprintf("duplicate-path documents differing in one value: outcome %s vs %s", oa.Class, ob.Class),
				failInput{Kind: "pair-diff", Class: "c03-duplicate-path-class", Doc: string(docA), Other: string(docB), Hasher: hi, Note: "duplicate-path"})
			return
		}
	}
}

// witness replays RDF.Order.bad_ds (the refutation witness of "literally the same outcome
// for every map order", Properties/C03.v C03_graph_order_same_error_refuted) on the real
// code: graph "" with one quad, @default with a blank-node predicate.  Expected: an error in
// every run (class is order independent), with a message that depends on the map order.
func (d *drv) witness() {
	ds := ld.NewRDFDataset()
	ds.Graphs[""] = []*ld.Quad{{Subject: ld.NewIRI("urn:a"), Predicate: ld.NewIRI("urn:p"), Object: ld.NewLiteral("x", ld.XSDString, "")}}
	ds.Graphs["@default"] = []*ld.Quad{{Subject: ld.NewIRI("urn:a"), Predicate: ld.NewBlankNode("_:p"), Object: ld.NewLiteral("x", ld.XSDString, "")}}
	n := d.cfg.Pick(300, 3000)
	msgs := map[string]int{}
	for i := 0; i < n; i++ {
		_, o := mzrun.Entries(ds, d.hs[0])
		d.rep.Evaluations++
		if o.Class != "err" {
			d.fail("inconsistent dataset not rejected in run "+fmt.Sprint(i+1)+": "+o.Class,
				failInput{Kind: "dataset", Class: "c03-dataset-nondeterministic", Dataset: dumpDS(ds), Repeats: n})
			return
		}
		msgs[o.Msg]++
	}
	var ks []string
	for k, c := range msgs {
		ks = append(ks, fmt.Sprintf("%q x %d", k, c))
	}
	sort.Strings(ks)
	d.rep.notes = append(d.rep.notes, fmt.Sprintf("witness bad_ds (two different inconsistencies in two graphs) run %d times on the implementation: always an error; messages: %s — only the MESSAGE depends on Go's map order (observation, not a violation; error strings are not observables)", n, strings.Join(ks, "; ")))
	d.datasetCase(ds, 0, failInput{Kind: "dataset", Note: "witness-bad_ds"}, 2)
}

// rawDataset: hand-built datasets with several graphs (shapes json-gold emits and
// shapes it never emits), aimed at the places where Go ranges over ds.Graphs.
func (d *drv) rawDataset() (*ld.RDFDataset, string) {
	r := d.rng
	V := docgen.Vocab
	ds := ld.NewRDFDataset()
	ds.Graphs["@default"] = []*ld.Quad{}
	add := func(g string, s, p, o ld.Node) {
		q := &ld.Quad{Subject: s, Predicate: p, Object: o}
		if g != "@default" {
			q.Graph = ld.NewBlankNode(g)
		}
		ds.Graphs[g] = append(ds.Graphs[g], q)
	}
	iri := func(s string) ld.Node { return ld.NewIRI(s) }
	bl := func(s string) ld.Node { return ld.NewBlankNode(s) }
	lit := func(v string) ld.Node { return ld.NewLiteral(v, ld.XSDString, "") }
	num := func(v int) ld.Node { return ld.NewLiteral(fmt.Sprint(v), ld.XSDInteger, "") }
	gname := func() string { return fmt.Sprintf("_:g%c%d", 'a'+rune(r.Intn(26)), r.Intn(100)) }
	kinds := []string{"children-same-key", "children-same-key", "nested-graphs", "graph-two-parents", "graph-parent-elsewhere",
		"two-inconsistencies", "orphan-graph", "cross-graph-object", "random"}
	kind := kinds[r.Intn(len(kinds))]
	root := iri("urn:root")
	switch kind {
	case "children-same-key":
		// several named graphs referenced under ONE key: indices follow the sorted graph names
		k := 2 + r.Intn(4)
		for i := 0; i < k; i++ {
			g := gname()
			if _, dup := ds.Graphs[g]; dup {
				continue
			}
			add("@default", root, iri(V+"p"), bl(g))
			s := iri(fmt.Sprintf("urn:c:%d", r.Intn(1000)))
			if r.Intn(2) == 0 {
				s = bl(fmt.Sprintf("_:b%d", r.Intn(1000)))
			}
			add(g, s, iri(V+"q"), num(r.Intn(100)))
			if r.Intn(2) == 0 {
				add(g, s, iri(V+"r"), lit(fmt.Sprintf("s%d", r.Intn(9))))
			}
		}
	case "nested-graphs":
		g1, g2 := gname(), gname()+"x"
		add("@default", root, iri(V+"p"), bl(g1))
		add(g1, iri("urn:a"), iri(V+"p"), bl(g2))
		add(g1, iri("urn:a"), iri(V+"q"), num(1))
		add(g2, iri("urn:b"), iri(V+"q"), num(2))
	case "graph-two-parents":
		// the graph's blank node is referenced from two different graphs: error in every
		// order.  Both referencing keys also have another (legitimate) child graph, so that a
		// search that kept the first / the last hit would succeed with an order-dependent path.
		g1, g2, g3, g4 := gname(), gname()+"y", gname()+"z", gname()+"w"
		add("@default", root, iri(V+"p"), bl(g1))
		add("@default", root, iri(V+"r"), bl(g2))
		add(g2, iri("urn:a"), iri(V+"p"), bl(g1))
		add(g1, iri("urn:b"), iri(V+"q"), num(3))
		if r.Intn(4) != 0 {
			add("@default", root, iri(V+"p"), bl(g3))
			add(g3, iri("urn:c"), iri(V+"q"), num(1))
			add(g2, iri("urn:a"), iri(V+"p"), bl(g4))
			add(g4, iri("urn:d"), iri(V+"q"), num(2))
		}
	case "graph-parent-elsewhere":
		// the only reference to graph g1 sits in another named graph
		g1, g2 := gname(), gname()+"z"
		add("@default", root, iri(V+"p"), bl(g2))
		add(g2, iri("urn:a"), iri(V+"p"), bl(g1))
		add(g1, iri("urn:b"), iri(V+"q"), num(4))
		add("@default", root, iri(V+"q"), num(5))
	case "two-inconsistencies":
		// two different violations of assertDatasetConsistency in two graphs
		g1 := gname()
		add("@default", root, bl("_:pred"), lit("x"))
		ds.Graphs[g1] = []*ld.Quad{{Subject: iri("urn:a"), Predicate: iri(V + "q"), Object: lit("y")}} // nil graph in a named graph
	case "orphan-graph":
		g1 := gname()
		add("@default", root, iri(V+"q"), num(6))
		add(g1, iri("urn:a"), iri(V+"q"), num(7))
		add(g1, iri("urn:a"), iri(V+"r"), lit("o"))
	case "cross-graph-object":
		// same subject appears as object in two graphs: parent search inside the graph only
		g1 := gname()
		add("@default", root, iri(V+"p"), iri("urn:a"))
		add("@default", root, iri(V+"s"), bl(g1))
		add(g1, iri("urn:x"), iri(V+"p"), iri("urn:a"))
		add(g1, iri("urn:a"), iri(V+"q"), num(8))
		add("@default", iri("urn:a"), iri(V+"q"), num(9))
	default:
		nodes := []ld.Node{root, iri("urn:a"), iri("urn:b"), bl("_:b0"), bl("_:b1")}
		graphs := []string{"@default", "@default", gname(), gname()}
		for _, g := range graphs[2:] {
			add("@default", root, iri(V+[]string{"p", "s"}[r.Intn(2)]), bl(g))
		}
		n := 2 + r.Intn(6)
		for i := 0; i < n; i++ {
			var o ld.Node
			switch r.Intn(3) {
			case 0:
				o = nodes[r.Intn(len(nodes))]
			case 1:
				o = num(r.Intn(50))
			default:
				o = lit(fmt.Sprintf("s%d", r.Intn(5)))
			}
			add(graphs[r.Intn(len(graphs))], nodes[r.Intn(len(nodes))], iri(V+[]string{"p", "q", "r"}[r.Intn(3)]), o)
		}
	}
	return ds, kind
}

// ---- shards ----

const shardSize = 60

func (sh *shared) writeShards(rep *common.Report, cases []*rcase) error {
	n := len(cases)
	for s := 0; s*shardSize < n; s++ {
		lo, hi := s*shardSize, (s+1)*shardSize
		if hi > n {
			hi = n
		}
		f := coqgen.NewFile("From GSP Require Import Value.Time Value.Model Value.Run RDF.Model RDF.Run.")
		name := filepath.Join(sh.cfg.OutDir, fmt.Sprintf("cases_C03_%03d.v", s))
		var cs []string
		for i := lo; i < hi; i++ {
			c := cases[i]
			cs = append(cs, fmt.Sprintf("mkr %d %s\n  %s\n  (%s)", i, coqgen.Limbs(c.prime), mzrun.DatasetCoq(f, c.ds, c.order), mzrun.EntriesObsCoq(f, c.views, c.out)))
			rep.Case(name, i, c.input)
		}
		f.Add("Definition floats_ : raw_floats := " + sh.fr.Coq(f) + ".")
		f.Add("Definition cases_ : list rcase := " + coqgen.List(cs) + ".")
		f.Add("Definition M := Eval vm_compute in rmismatches floats_ cases_.")
		f.Add("Print M.")
		if err := f.Write(name); err != nil {
			return err
		}
		rep.Shards = append(rep.Shards, name)
	}
	return nil
}

// merge folds the accumulators of the tasks (in task order) into the report.
func merge(rep *common.Report, tasks []*drv) ([]*rcase, []*tcase) {
	var cases []*rcase
	var tcases []*tcase
	for _, t := range tasks {
		rep.Evaluations += t.rep.Evaluations
		for k, n := range t.rep.counts {
			rep.Distribution[k] += n
		}
		rep.Failures = append(rep.Failures, t.rep.fails...)
		for _, s := range t.rep.samples {
			rep.Sample(s)
		}
		for _, c := range t.distinct {
			rep.Distinct(c)
		}
		rep.Notes = append(rep.Notes, t.rep.notes...)
		cases = append(cases, t.cases...)
		tcases = append(tcases, t.tcases...)
	}
	return cases, tcases
}

func (sh *shared) writeAll(rep *common.Report, tasks []*drv) error {
	cases, tcases := merge(rep, tasks)
	if err := sh.writeShards(rep, cases); err != nil {
		return err
	}
	return sh.writeTreeShards(rep, func(n string) { rep.Shards = append(rep.Shards, n) }, tcases, sh.cfg.OutDir)
}

// ---- replay ----

func (d *drv) replay(path string) error {
	var rf struct {
		Input failInput `json:"input"`
	}
	if err := common.ReadJSON(path, &rf); err != nil {
		return err
	}
	in := rf.Input
	for u, b := range in.Contexts {
		_ = d.loader.Add(u, []byte(b))
	}
	if in.Hasher < 0 || in.Hasher >= len(d.hs) {
		in.Hasher = 0
	}
	show := func(tag string, o *obs) {
		fmt.Printf("replay: %s: %s %s root=%s\n", tag, o.Class, o.Msg, o.Root)
		for _, e := range o.Entries {
			fmt.Println("   ", e)
		}
	}
	switch in.Kind {
	case "pair-same":
		a, _, _ := d.observe([]byte(in.Doc), in.Hasher)
		b, _, _ := d.observe([]byte(in.Other), in.Hasher)
		show("document", a)
		show("re-presentation", b)
		if diff := a.same(b, false); diff != "" {
			class := in.Class
			if in.Leaf != nil {
				class = classifySpelling(a, b, *in.Leaf, in.Siblings, in.Lexical, in.Duplicate)
			}
			in.Class = class
			d.fail("equivalent documents give different results: "+diff, in)
		}
	case "ctx-history":
		var hn histNote
		if err := json.Unmarshal([]byte(in.Note), &hn); err != nil {
			return err
		}
		if i, got := d.runHistory(in.Hasher, hn); i >= 0 {
			fmt.Printf("replay: step %d (%s): %s, expected %s\n", i+1, hn.Seq[i].URL, got, hn.Seq[i].Want)
			d.fail(fmt.Sprintf("family %s, step %d: %s vs %s with the context inline", hn.Family, i+1, got, hn.Seq[i].Want), in)
		}
	case "range":
		a, _, _ := d.observe([]byte(in.Doc), in.Hasher)
		show("document", a)
		if (a.Class == "ok") != (in.Note == "in") {
			d.fail("acceptance of the integer value does not match the range of its type: "+a.Class+" "+a.Msg, in)
		}
	case "ctx-url":
		var nt struct {
			URL, Alt, Ctx, Altctx string
			Variant               ctxVariant
		}
		if err := json.Unmarshal([]byte(in.Note), &nt); err != nil {
			return err
		}
		h := http.Header{}
		if nt.Variant.CT != "" {
			h.Set("Content-Type", nt.Variant.CT)
		}
		if nt.Variant.CC != "" {
			h.Set("Cache-Control", nt.Variant.CC)
		}
		switch nt.Variant.Link {
		case "alternate":
			h.Set("Link", fmt.Sprintf(`<%s>; rel="alternate"; type="application/ld+json"`, nt.Alt))
		case "alternate-relative":
			h.Set("Link", `<ctx-alt.jsonld>; rel="alternate"; type="application/ld+json"`)
		case "context":
			h.Set("Link", fmt.Sprintf(`<%s>; rel="http://www.w3.org/ns/json-ld#context"; type="application/ld+json"`, nt.Alt))
		}
		tr := &stubTransport{docs: map[string]served{
			nt.URL: {body: []byte(nt.Ctx), header: h},
			nt.Alt: {body: []byte(nt.Altctx), header: http.Header{"Content-Type": []string{"application/ld+json"}}},
		}, hits: map[string]int{}}
		ldr := loaders.NewDocumentLoader(nil, "", loaders.WithHTTPClient(&http.Client{Transport: tr}))
		a, _, _ := d.observe([]byte(in.Other), in.Hasher)
		show("document (context as generated)", a)
		mz, mo := mzrun.Merklize([]byte(in.Doc), merklize.WithHasher(d.hs[in.Hasher]), merklize.WithDocumentLoader(ldr))
		got := "error: " + mo.Msg
		if mo.Class == "ok" {
			got = mz.Root().BigInt().String()
		}
		fmt.Printf("replay: context by URL (Content-Type %q, Link %s): %s\n", nt.Variant.CT, nt.Variant.Link, got)
		followAlt := strings.HasPrefix(nt.Variant.Link, "alternate") && !isJSONType(mediaType(nt.Variant.CT))
		if !followAlt && (mo.Class != "ok" || got != a.Root) {
			d.fail("context by URL through the library's loader differs from the same context inline: "+got+" vs "+a.Root, in)
		}
	case "pair-diff":
		a, _, _ := d.observe([]byte(in.Doc), in.Hasher)
		b, _, _ := d.observe([]byte(in.Other), in.Hasher)
		show("document", a)
		show("with one value replaced", b)
		if a.Class == "ok" && b.Class == "ok" && a.Root == b.Root {
			d.fail("a different value does not change the root", in)
		}
		if in.Class == "c03-duplicate-path-class" && a.Class != b.Class {
			d.fail("outcome classes differ: "+a.Class+" vs "+b.Class, in)
		}
	case "repeat":
		a, _, _ := d.observe([]byte(in.Doc), in.Hasher)
		show("document", a)
		if in.Class == "c03-generator" {
			if a.Class != "ok" {
				d.fail("document rejected: "+a.Msg, in)
			}
			break
		}
		n := in.Repeats
		if n < 50 {
			n = 50
		}
		d.repeat([]byte(in.Doc), in.Hasher, a, n)
	case "tree":
		a, _, _ := d.observe([]byte(in.Doc), in.Hasher)
		show("document", a)
		for i := 0; i < 20 && len(d.rep.fails) == 0; i++ {
			d.givenTree([]byte(in.Doc), in.Hasher, a)
		}
	case "dataset":
		if in.Dataset == nil {
			return fmt.Errorf("replay: no dataset")
		}
		ds := buildDS(in.Dataset)
		d.datasetCase(ds, in.Hasher, failInput{Kind: "dataset", Hasher: in.Hasher}, 4)
		d.treeCase(ds, in.Hasher, failInput{Kind: "dataset", Hasher: in.Hasher, Dataset: dumpDS(ds)}, "", 3)
		vs, o := mzrun.Entries(ds, d.hs[in.Hasher])
		for i := 0; i < 5 && len(d.rep.fails) == 0; i++ {
			d.labelsCase(ds, in.Hasher, renderOutcome(vs, o))
		}
		fmt.Printf("replay: dataset: %s\n", renderOutcome(vs, o))
	case "doc-dataset":
		ds, err := mzrun.Normalize([]byte(in.Doc), d.loader, true)
		if err != nil {
			return err
		}
		d.datasetCase(ds, in.Hasher, failInput{Kind: "doc-dataset", Doc: in.Doc, Hasher: in.Hasher}, 4)
		root := ""
		if mz, mo := mzrun.Merklize([]byte(in.Doc), d.opts(in.Hasher)...); mo.Class == "ok" {
			root = mz.Root().BigInt().String()
		}
		d.treeCase(ds, in.Hasher, failInput{Kind: "doc-dataset", Doc: in.Doc, Hasher: in.Hasher}, root, 3)
		vs, o := mzrun.Entries(ds, d.hs[in.Hasher])
		fmt.Printf("replay: dataset of the document: %s\n", renderOutcome(vs, o))
	default:
		return fmt.Errorf("replay: unknown kind %q", in.Kind)
	}
	return nil
}

func Run(cfg *common.Config) (*common.Report, error) {
	rep := common.NewReport("C03")
	rep.Correspondence = "RDF.Run.rmismatches: entries_from_rdf (RDF/Model.v) evaluated under the sorted, the reversed and a random order of the graph list vs merklize.EntriesFromRDFWithHasher on the same dataset (json-gold output of generated documents, and hand-built multi-graph datasets); RDF.OrdRun.tmismatches: root of merklize_tree (RDF/OrdTree.v; hasher and Poseidon node hashes as tables of primitive calls) under the sorted and a random graph order vs the root of EntriesFromRDFWithHasher + AddEntriesToMerkleTree (= MerklizeJSONLD's root)"
	rep.Rule = "documents from docgen.Valid (depth 1..3) and multi-@graph-container documents x 2 hashers, each with k re-presentations, N repeated + N parallel merklizations, provided-tree runs and two replacements per leaf; hand-built datasets with 2..6 graphs (children under one key, nested graphs, graph referenced twice, reference from another graph, two inconsistencies, orphan graph, cross-graph objects, random). distinct = distinct (document bytes, hasher) pairs and distinct datasets; all have >= 1 quad, so all are non-trivial."
	sh := &shared{cfg: cfg, loader: ctxload.New(), fr: floats.New(), hs: hasherSet()}
	if cfg.Replay != "" {
		t := sh.task(0)
		if err := t.replay(cfg.Replay); err != nil {
			return nil, err
		}
		return rep, sh.writeAll(rep, []*drv{t})
	}
	// generation is sequential (one PRNG), evaluation parallel (one PRNG per task)
	var tasks []*drv
	var jobs []func(t *drv)
	add := func(job func(t *drv)) {
		tasks = append(tasks, sh.task(len(tasks)))
		jobs = append(jobs, job)
	}
	g := docgen.New(cfg.Rng)
	nDocs := cfg.Pick(36, 400)
	for i := 0; i < nDocs; i++ {
		doc := g.Valid(1 + cfg.Rng.Intn(3))
		for u, b := range g.CtxURLs {
			if sh.loader.Raw(u) == nil {
				_ = sh.loader.Add(u, b)
			}
		}
		hi := 0
		if i%3 == 2 {
			hi = 1
		}
		n := 50
		if cfg.Thorough() && i < 80 {
			n = 1000
		}
		add(func(t *drv) { t.docCase(doc, hi, n) })
	}
	// small documents with one single-valued property of every XSD integer type (boundary sweeps)
	for i := 0; i < cfg.Pick(4, 30); i++ {
		hi := i % 2
		add(func(t *drv) { t.docCase(t.intDoc(), hi, 50) })
	}
	// documents that must be rejected / odd shapes: the OUTCOME must be as stable as a root
	for i := 0; i < cfg.Pick(6, 60); i++ {
		for _, doc := range []*docgen.Doc{g.Shared(), g.Cycle(), g.Odd()} {
			doc := doc
			hi := i % 2
			add(func(t *drv) { t.docCase(doc, hi, 50) })
		}
	}
	for i := 0; i < cfg.Pick(16, 150); i++ {
		n := 50
		if cfg.Thorough() && i < 30 {
			n = 1000
		}
		hi := i % 2
		add(func(t *drv) { t.docCase(t.multiGraphDoc(), hi, n) })
	}
	for i := 0; i < cfg.Pick(60, 800); i++ {
		add(func(t *drv) {
			ds, kind := t.rawDataset()
			t.rep.Count("raw:" + kind)
			b, _ := json.Marshal(dumpDS(ds))
			t.distinct = append(t.distinct, string(b))
			hi := t.rng.Intn(len(t.hs))
			t.datasetCase(ds, hi, failInput{Kind: "dataset", Note: kind}, 3)
			if t.id%2 == 0 {
				t.treeCase(ds, hi, failInput{Kind: "dataset", Note: kind, Dataset: dumpDS(ds)}, "", 2)
			}
		})
	}
	add(func(t *drv) { t.witness() })
	for i := 0; i < cfg.Pick(4, 40); i++ {
		hi := i % 2
		add(func(t *drv) { t.dupPath(hi) })
	}
	const workers = 8
	var wg sync.WaitGroup
	next := make(chan int)
	for w := 0; w < workers; w++ {
		wg.Add(1)
		go func() {
			defer wg.Done()
			for i := range next {
				jobs[i](tasks[i])
			}
		}()
	}
	for i := range jobs {
		next <- i
	}
	close(next)
	wg.Wait()
	return rep, sh.writeAll(rep, tasks)
}
