package main

import (
	_ "vharness/c18"
)
