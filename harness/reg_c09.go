package main

import (
	_ "vharness/c09"
)
