package c01

// Additional implementation-side oracles and streams of C01:
//   * treeCheck      the Merkle tree given to MerklizeJSONLD holds exactly one leaf per entry,
//                    every leaf is an entry's (key, value) pair, no leaf is extra
//   * expectedProofs every fact the generator expects is provable under a path and a value hash
//                    derived from the GENERATOR's account (not from the entry)
//   * determinism    EntriesFromRDFWithHasher on the same dataset returns the same list again
//   * multi-graph documents / raw datasets (child numbering across named graphs depends on the
//                    byte-wise order of graph names, not on Go's map order)
//   * structured raw-dataset inputs so that every case can be replayed

import (
	"context"
	"encoding/json"
	"fmt"
	"math/big"
	"sort"
	"strconv"
	"strings"
	"time"

	"github.com/iden3/go-iden3-crypto/constants"
	"github.com/iden3/go-iden3-crypto/poseidon"
	"github.com/iden3/go-merkletree-sql/v2"
	"github.com/iden3/go-merkletree-sql/v2/db/memory"
	"github.com/iden3/go-schema-processor/v2/merklize"
	"github.com/piprate/json-gold/ld"

	"vharness/docgen"
	"vharness/mzrun"
)

// ---- the tree ----

// newTree returns a fresh in-memory tree (the same construction MerklizeJSONLD uses by default).
func newTree() (*merkletree.MerkleTree, error) {
	return merkletree.NewMerkleTree(context.Background(), memory.NewMemoryStorage(), 40)
}

type leafKV struct{ k, v string }

// treeLeaves walks the tree and returns its leaves as decimal (key, value) pairs.
func treeLeaves(mt *merkletree.MerkleTree) ([]leafKV, error) {
	var out []leafKV
	err := mt.Walk(context.Background(), nil, func(n *merkletree.Node) {
		if n.Type == merkletree.NodeTypeLeaf {
			out = append(out, leafKV{n.Entry[0].BigInt().String(), n.Entry[1].BigInt().String()})
		}
	})
	return out, err
}

// treeCheck: leaves of the tree = (key, value) pairs of the entries, one for one.
func treeCheck(mt *merkletree.MerkleTree, views []mzrun.EntryView) string {
	leaves, err := treeLeaves(mt)
	if err != nil {
		return "walking the tree failed: " + err.Error()
	}
	if len(leaves) != len(views) {
		return fmt.Sprintf("%d entries but %d leaves in the tree", len(views), len(leaves))
	}
	want := map[leafKV]int{}
	for _, v := range views {
		k, err1 := v.Entry.KeyMtEntry()
		val, err2 := v.Entry.ValueMtEntry()
		if err1 != nil || err2 != nil {
			return fmt.Sprintf("entry %v does not hash", v.Parts)
		}
		want[leafKV{k.String(), val.String()}]++
	}
	for kv, n := range want {
		if n != 1 {
			return fmt.Sprintf("%d entries share the leaf key %s", n, kv.k)
		}
	}
	for _, l := range leaves {
		if want[l] != 1 {
			return fmt.Sprintf("leaf (%s, %s) of the tree is not an entry", l.k, l.v)
		}
		want[l]--
	}
	return ""
}

// ---- expected facts, proved from the generator's side ----

// goValueOfFact turns the canonical rendering of docgen.Fact.Value back into the Go value an
// entry is expected to hold.
func goValueOfFact(s string) (any, error) {
	switch {
	case strings.HasPrefix(s, "int:"):
		z, ok := new(big.Int).SetString(s[4:], 10)
		if !ok {
			return nil, fmt.Errorf("bad int %q", s)
		}
		return z, nil
	case strings.HasPrefix(s, "bool:"):
		return s[5:] == "true", nil
	case strings.HasPrefix(s, "str:"):
		return s[4:], nil
	case strings.HasPrefix(s, "time:"):
		n, err := strconv.ParseInt(s[5:], 10, 64)
		if err != nil {
			return nil, err
		}
		return time.Unix(0, n).UTC(), nil
	}
	return nil, fmt.Errorf("unknown rendering %q", s)
}

// expectedProofs: each expected fact must be provable in mz. The path comes from the generator's
// pattern; where the pattern has "*" the indices are taken from an entry with the same pattern and
// value (each entry is used once), everything else (property IRIs, value, hasher) is the generator's.
func expectedProofs(mz *merklize.Merklizer, h merklize.Hasher, facts []docgen.Fact, views []mzrun.EntryView) string {
	used := make([]bool, len(views))
	for _, f := range facts {
		pat := strings.Split(f.Pattern, " / ")
		var parts []any
		found := false
		for i, v := range views {
			if used[i] || docgen.PatternOf(v.Parts) != f.Pattern || docgen.RenderGoValue(v.Value) != f.Value || v.Datatype != f.Datatype {
				continue
			}
			used[i] = true
			found = true
			for j, p := range v.Parts {
				if idx, ok := p.(int); ok {
					parts = append(parts, idx)
				} else {
					parts = append(parts, pat[j]) // the generator's IRI, not the entry's
				}
			}
			break
		}
		if !found {
			return fmt.Sprintf("expected fact %+v has no entry", f)
		}
		p, err := merklize.Options{Hasher: h}.NewPath(parts...)
		if err != nil {
			return "expected path does not build: " + err.Error()
		}
		gv, err := goValueOfFact(f.Value)
		if err != nil {
			return err.Error()
		}
		mv, err := mz.MkValue(gv)
		if err != nil {
			return fmt.Sprintf("expected value %s is not a merklizer value: %v", f.Value, err)
		}
		vh, err := mv.MtEntry()
		if err != nil {
			return fmt.Sprintf("expected value %s does not hash: %v", f.Value, err)
		}
		kh, err := p.MtEntry()
		if err != nil {
			return "expected path does not hash: " + err.Error()
		}
		proof, _, err := mz.Proof(context.Background(), p)
		if err != nil {
			return fmt.Sprintf("no proof for the expected path %v: %v", parts, err)
		}
		if !proof.Existence {
			return fmt.Sprintf("expected fact %+v: non-existence proof under %v", f, parts)
		}
		if !merkletree.VerifyProof(mz.Root(), proof, kh, vh) {
			return fmt.Sprintf("expected fact %+v: the leaf under %v does not hold the expected value", f, parts)
		}
	}
	return ""
}

// ---- determinism ----

func renderViews(vs []mzrun.EntryView, o mzrun.Outcome) string {
	var sb strings.Builder
	sb.WriteString(o.Class)
	for _, v := range vs {
		fmt.Fprintf(&sb, "|%v=%s^%s", v.Parts, docgen.RenderGoValue(v.Value), v.Datatype)
	}
	return sb.String()
}

// ---- structured raw datasets (replayable) ----

type rawNode struct {
	T  string `json:"t"` // iri | blank | lit
	V  string `json:"v"`
	DT string `json:"dt,omitempty"`
}
type rawQuad struct {
	S rawNode  `json:"s"`
	P rawNode  `json:"p"`
	O rawNode  `json:"o"`
	G *rawNode `json:"g"`
}
type rawGraph struct {
	Name  string    `json:"name"`
	Quads []rawQuad `json:"quads"`
}

func rawOfNode(n ld.Node) rawNode {
	switch x := n.(type) {
	case *ld.IRI:
		return rawNode{T: "iri", V: x.Value}
	case *ld.BlankNode:
		return rawNode{T: "blank", V: x.Attribute}
	case *ld.Literal:
		return rawNode{T: "lit", V: x.Value, DT: x.Datatype}
	}
	return rawNode{T: "iri", V: fmt.Sprintf("<?%T>", n)}
}

func nodeOfRaw(r rawNode) ld.Node {
	switch r.T {
	case "blank":
		return ld.NewBlankNode(r.V)
	case "lit":
		return ld.NewLiteral(r.V, r.DT, "")
	}
	return ld.NewIRI(r.V)
}

func rawOfDataset(ds *ld.RDFDataset) []rawGraph {
	var names []string
	for g := range ds.Graphs {
		names = append(names, g)
	}
	sort.Strings(names)
	out := []rawGraph{}
	for _, g := range names {
		rg := rawGraph{Name: g, Quads: []rawQuad{}}
		for _, q := range ds.Graphs[g] {
			rq := rawQuad{S: rawOfNode(q.Subject), P: rawOfNode(q.Predicate), O: rawOfNode(q.Object)}
			if q.Graph != nil {
				n := rawOfNode(q.Graph)
				rq.G = &n
			}
			rg.Quads = append(rg.Quads, rq)
		}
		out = append(out, rg)
	}
	return out
}

func datasetOfRaw(gs []rawGraph) *ld.RDFDataset {
	ds := ld.NewRDFDataset()
	delete(ds.Graphs, "@default")
	for _, g := range gs {
		ds.Graphs[g.Name] = []*ld.Quad{}
		for _, rq := range g.Quads {
			q := ld.NewQuad(nodeOfRaw(rq.S), nodeOfRaw(rq.P), nodeOfRaw(rq.O), "")
			q.Graph = nil
			if rq.G != nil {
				q.Graph = nodeOfRaw(*rq.G)
			}
			ds.Graphs[g.Name] = append(ds.Graphs[g.Name], q)
		}
	}
	return ds
}

// ---- multi-graph documents (own generator: docgen is shared and not edited here) ----

const mgCtx = `{"@version":1.1,"ex":"http://ex.org/v#","xsd":"http://www.w3.org/2001/XMLSchema#","id":"@id",
 "g":{"@id":"ex:g","@container":"@graph"},"h":{"@id":"ex:h","@container":"@graph"},
 "name":{"@id":"ex:name","@type":"xsd:string"},"n":{"@id":"ex:n","@type":"xsd:integer"},
 "sub":{"@id":"ex:sub"},"tag":{"@id":"ex:tag","@type":"xsd:string"}}`

// multiGraphDoc builds a document with several named graphs under one or two @graph-container
// properties; every graph holds one node (IRI-identified or blank) with literals, an optional
// literal array and an optional nested node. Expected facts are computed here, independently.
func (d *drv) multiGraphDoc() *docgen.Doc {
	r := d.cfg.Rng
	ex := docgen.Vocab
	xs, xi := docgen.XSD+"string", docgen.XSD+"integer"
	var facts []docgen.Fact
	uid := 0
	mkNode := func(prefix []string) map[string]any {
		uid++
		n := map[string]any{}
		if r.Intn(3) != 0 {
			n["id"] = fmt.Sprintf("urn:mg:%d:%d", r.Intn(1000), uid)
		}
		name := fmt.Sprintf("v%d", r.Intn(30))
		n["name"] = name
		facts = append(facts, docgen.Fact{Pattern: strings.Join(append(append([]string{}, prefix...), ex+"name"), " / "), Value: "str:" + name, Datatype: xs})
		if r.Intn(2) == 0 {
			k := 2 + r.Intn(3)
			seen := map[int]bool{}
			var arr []any
			for len(arr) < k {
				v := r.Intn(100)
				if seen[v] {
					continue
				}
				seen[v] = true
				arr = append(arr, v)
				facts = append(facts, docgen.Fact{Pattern: strings.Join(append(append([]string{}, prefix...), ex+"n", "*"), " / "), Value: "int:" + strconv.Itoa(v), Datatype: xi})
			}
			n["n"] = arr
		}
		return n
	}
	doc := map[string]any{"id": "urn:mg:root"}
	var ctx any
	_ = json.Unmarshal([]byte(mgCtx), &ctx)
	doc["@context"] = ctx
	for _, prop := range []string{"g", "h"} {
		if prop == "h" && r.Intn(2) == 0 {
			continue
		}
		k := 1 + r.Intn(5)
		pfx := []string{ex + prop}
		if k > 1 {
			pfx = append(pfx, "*")
		}
		var arr []any
		for i := 0; i < k; i++ {
			n := mkNode(pfx)
			if r.Intn(3) == 0 {
				sub := mkNode(append(append([]string{}, pfx...), ex+"sub"))
				delete(sub, "id")
				n["sub"] = sub
			}
			arr = append(arr, n)
		}
		if k == 1 && r.Intn(2) == 0 {
			doc[prop] = arr[0]
		} else {
			doc[prop] = arr
		}
	}
	tag := fmt.Sprintf("t%d", r.Intn(10))
	doc["tag"] = tag
	facts = append(facts, docgen.Fact{Pattern: ex + "tag", Value: "str:" + tag, Datatype: xs})
	b, _ := json.Marshal(doc)
	return &docgen.Doc{Bytes: b, Obj: doc, Facts: facts, Features: map[string]bool{"multi-graph": true}, Expect: "ok", Why: "multi-graph"}
}

// multiGraphRaw: a default graph whose root refers to k named graphs through one predicate
// (children numbered across graphs), graph labels chosen so that byte-wise order, numeric
// order and insertion order all differ.
func (d *drv) multiGraphRaw() *ld.RDFDataset {
	r := d.cfg.Rng
	ds := ld.NewRDFDataset()
	labels := []string{"_:b10", "_:b9", "_:b2", "_:c14n1", "_:B0", "_:b100", "_:a"}
	r.Shuffle(len(labels), func(i, j int) { labels[i], labels[j] = labels[j], labels[i] })
	k := 2 + r.Intn(4)
	p := ld.NewIRI(docgen.Vocab + "g")
	q := ld.NewIRI(docgen.Vocab + "q")
	root := ld.NewIRI("urn:root")
	for i := 0; i < k; i++ {
		ds.Graphs["@default"] = append(ds.Graphs["@default"], ld.NewQuad(root, p, ld.NewBlankNode(labels[i]), ""))
	}
	for i := 0; i < k; i++ {
		g := labels[i]
		subj := ld.Node(ld.NewIRI(fmt.Sprintf("urn:n%d", i)))
		if r.Intn(3) == 0 {
			subj = ld.NewBlankNode(fmt.Sprintf("_:s%d", i))
		}
		add := func(s, pr, o ld.Node) {
			qd := ld.NewQuad(s, pr, o, "")
			qd.Graph = ld.NewBlankNode(g)
			ds.Graphs[g] = append(ds.Graphs[g], qd)
		}
		add(subj, q, ld.NewLiteral(fmt.Sprintf("in-%s", g), ld.XSDString, ""))
		if r.Intn(2) == 0 {
			add(subj, q, ld.NewLiteral(fmt.Sprintf("second-%d", i), ld.XSDString, ""))
		}
		if r.Intn(3) == 0 { // a second top-level node in the same graph
			add(ld.NewIRI(fmt.Sprintf("urn:m%d", i)), q, ld.NewLiteral("other", ld.XSDString, ""))
		}
		if r.Intn(4) == 0 { // nested blank child inside the graph
			c := ld.NewBlankNode(fmt.Sprintf("_:k%d", i))
			add(subj, p, c)
			add(c, q, ld.NewLiteral("deep", ld.XSDString, ""))
		}
	}
	if r.Intn(5) == 0 { // a second reference to one graph node: must be rejected
		ds.Graphs["@default"] = append(ds.Graphs["@default"], ld.NewQuad(root, q, ld.NewBlankNode(labels[0]), ""))
	}
	return ds
}

// regressionDocs: minimal inputs of the defects this property found or touches; run first on
// every invocation (D1 two-node cycle, D25 self-reference in three shapes, shared node, D10
// empty string). All must be rejected with an error.
func regressionDocs() []*docgen.Doc {
	v := docgen.Vocab
	mk := func(why string, obj map[string]any) *docgen.Doc {
		b, _ := json.Marshal(obj)
		return &docgen.Doc{Bytes: b, Obj: obj, Expect: "error", Why: why, Features: map[string]bool{"regression:" + why: true}}
	}
	return []*docgen.Doc{
		mk("cycle-2", map[string]any{"@id": "urn:a", v + "p": map[string]any{"@id": "urn:b", v + "q": map[string]any{"@id": "urn:a"}}}),
		mk("cycle-1", map[string]any{"@id": "urn:c0", v + "name": "n0", v + "next": map[string]any{"@id": "urn:c0"}}),
		mk("cycle-1", map[string]any{"@id": "urn:c0", v + "next": map[string]any{"@id": "urn:c0"}}),
		mk("cycle-1", map[string]any{"@id": "urn:c0", v + "next": []any{map[string]any{"@id": "urn:c0"}, map[string]any{"@id": "urn:v1"}}}),
		mk("cycle-1", map[string]any{"@id": "_:b", v + "name": "n0", v + "next": map[string]any{"@id": "_:b"}}),
		mk("shared-node", map[string]any{"@id": "urn:r", v + "a": map[string]any{"@id": "urn:s", v + "name": "x"}, v + "b": map[string]any{"@id": "urn:s"}}),
		// a BLANK node with an explicit identifier referenced from two places of one graph; the second
		// reference shares subject+predicate with another nested object (seed C01-g)
		mk("shared-blank-array", map[string]any{"@id": "urn:r", v + "a": map[string]any{"@id": "_:x", v + "v": 1},
			v + "b": []any{map[string]any{"@id": "_:x"}, map[string]any{v + "w": 2}}}),
		mk("shared-blank-array", map[string]any{"@id": "urn:r", v + "b": []any{map[string]any{v + "w": 2}, map[string]any{"@id": "_:x"}},
			v + "a": map[string]any{"@id": "_:x", v + "v": 1}}),
		mk("shared-blank-two-fields", map[string]any{"@id": "urn:r", v + "a": map[string]any{"@id": "_:x", v + "v": 1}, v + "b": map[string]any{"@id": "_:x"}}),
		mk("shared-blank-nested", map[string]any{"@id": "urn:r", v + "c": map[string]any{"@id": "urn:n", v + "a": map[string]any{"@id": "_:x", v + "v": 1},
			v + "b": []any{map[string]any{"@id": "_:x"}, map[string]any{v + "w": 2}, map[string]any{v + "w": 3}}}}),
		mk("shared-blank-in-graph", map[string]any{"@context": map[string]any{"vc": map[string]any{"@id": v + "vc", "@container": "@graph"}}, "@id": "urn:vp",
			"vc": []any{map[string]any{"@id": "urn:c1", v + "a": map[string]any{"@id": "_:x", v + "v": 1}, v + "b": []any{map[string]any{"@id": "_:x"}, map[string]any{v + "w": 2}}},
				map[string]any{"@id": "urn:c2", v + "name": "fine"}}}),
		mk("shared-blank-same-property", map[string]any{"@id": "urn:r", v + "b": []any{map[string]any{"@id": "_:x", v + "v": 1}, map[string]any{v + "w": 2}},
			v + "c": map[string]any{"@id": "urn:m", v + "b": []any{map[string]any{"@id": "_:x"}, map[string]any{v + "w": 3}}}}),
		mk("empty-string", map[string]any{"@id": "urn:r", v + "name": ""}),
	}
}

// fixIntegralNativeDoubles corrects one expectation of the shared generator (docgen.literal, untyped
// native double): f = (k+1)/64 is integral for 1 in 64 draws, JSON then writes "1110" and JSON-LD
// rightly makes it an xsd:integer, while the generator recorded an xsd:double fact.
func fixIntegralNativeDoubles(doc *docgen.Doc) {
	for _, l := range doc.Leaves {
		f, ok := l.Raw.(float64)
		if l.Kind != "native-double" || !ok || f != float64(int64(f)) {
			continue
		}
		for i := range doc.Facts {
			if doc.Facts[i] == l.Fact {
				doc.Facts[i].Value = "int:" + strconv.FormatInt(int64(f), 10)
				doc.Facts[i].Datatype = docgen.XSD + "integer"
				break
			}
		}
	}
}

const ngCtx = `{"@version":1.1,"ex":"http://ex.org/v#","xsd":"http://www.w3.org/2001/XMLSchema#","id":"@id",
 "g":{"@id":"ex:g","@container":"@graph"},"h":{"@id":"ex:h","@container":"@graph"},
 "name":{"@id":"ex:name","@type":"xsd:string"},"sub":{"@id":"ex:sub"},"ref":{"@id":"ex:ref"},"other":{"@id":"ex:other"}}`

// namedGraphBadDoc: documents with named graphs (@graph containers, like a presentation's
// verifiableCredential) in which, INSIDE one named graph, a node is referenced from two places
// (must be rejected), sits on a reference cycle (must be rejected), or is shared ACROSS graphs /
// between the default graph and a named graph (decided by the model: per-graph references).
func (d *drv) namedGraphBadDoc() *docgen.Doc {
	r := d.cfg.Rng
	var ctx any
	_ = json.Unmarshal([]byte(ngCtx), &ctx)
	uid := r.Intn(1000)
	id := func(s string) string { return fmt.Sprintf("urn:ng:%d:%s", uid, s) }
	sid := id("s")
	if r.Intn(3) == 0 {
		sid = "_:shared"
	}
	good := func(i int) map[string]any {
		return map[string]any{"id": id(fmt.Sprintf("ok%d", i)), "name": fmt.Sprintf("fine%d", i)}
	}
	var bad map[string]any
	var extra map[string]any // second graph element for the across-graph shapes
	expect, why := "error", ""
	switch r.Intn(8) {
	case 0: // two properties of one node point at the same node
		bad = map[string]any{"id": id("n1"), "sub": map[string]any{"id": sid, "name": "x"}, "ref": map[string]any{"id": sid}}
		why = "shared-in-graph"
	case 1: // two different nodes of the graph point at the same node
		bad = map[string]any{"id": id("n1"), "sub": map[string]any{"id": sid, "name": "x"},
			"other": map[string]any{"id": id("m"), "ref": map[string]any{"id": sid}}}
		why = "shared-in-graph"
	case 2: // the same node twice under one property, once with content
		bad = map[string]any{"id": id("n1"), "sub": []any{map[string]any{"id": id("a"), "ref": map[string]any{"id": sid, "name": "x"}},
			map[string]any{"id": id("b"), "ref": map[string]any{"id": sid}}}}
		why = "shared-in-graph"
	case 3: // the graph's top node is referenced from inside the graph twice
		bad = map[string]any{"id": id("n1"), "name": "top", "sub": map[string]any{"id": id("m"), "ref": map[string]any{"id": id("n1")}},
			"other": map[string]any{"id": id("k"), "ref": map[string]any{"id": id("n1")}}}
		why = "shared-in-graph"
	case 4: // cycle of length two inside the graph
		bad = map[string]any{"id": id("n1"), "name": "a", "sub": map[string]any{"id": id("m"), "name": "b", "ref": map[string]any{"id": id("n1")}}}
		why = "cycle-in-graph"
	case 5: // self-reference inside the graph
		bad = map[string]any{"id": id("n1"), "name": "a", "ref": map[string]any{"id": id("n1")}}
		why = "cycle-1"
	case 6: // shared across two named graphs
		bad = map[string]any{"id": id("n1"), "sub": map[string]any{"id": sid, "name": "x"}}
		extra = map[string]any{"id": id("n2"), "ref": map[string]any{"id": sid}}
		expect, why = "model", "shared-across-graphs"
	default: // described inside a graph, referenced from the default graph
		bad = map[string]any{"id": id("n1"), "sub": map[string]any{"id": sid, "name": "x"}}
		expect, why = "model", "shared-default-and-graph"
	}
	k := r.Intn(3)
	var arr []any
	for i := 0; i < k; i++ {
		arr = append(arr, good(i))
	}
	arr = append(arr, bad)
	if extra != nil {
		arr = append(arr, extra)
	}
	r.Shuffle(len(arr), func(i, j int) { arr[i], arr[j] = arr[j], arr[i] })
	doc := map[string]any{"@context": ctx, "id": id("root"), "name": "root"}
	if len(arr) == 1 && r.Intn(2) == 0 {
		doc["g"] = arr[0]
	} else {
		doc["g"] = arr
	}
	if why == "shared-default-and-graph" {
		doc["ref"] = map[string]any{"id": sid}
	}
	if r.Intn(3) == 0 {
		doc["h"] = good(99)
	}
	b, _ := json.Marshal(doc)
	return &docgen.Doc{Bytes: b, Obj: doc, Features: map[string]bool{"named-graph:" + why: true}, Expect: expect, Why: why}
}

// namedGraphBadRaw: the same situations as hand-built datasets. Returns the dataset, its kind and
// whether it must be rejected.
func (d *drv) namedGraphBadRaw() (*ld.RDFDataset, string, bool) {
	r := d.cfg.Rng
	ds := ld.NewRDFDataset()
	v := docgen.Vocab
	p, q, nm := ld.NewIRI(v+"p"), ld.NewIRI(v+"q"), ld.NewIRI(v+"name")
	root := ld.NewIRI("urn:root")
	g1, g2 := "_:g1", "_:g2"
	if r.Intn(2) == 0 {
		g1, g2 = "_:c14n9", "_:c14n10"
	}
	add := func(g string, s, pr, o ld.Node) {
		qd := ld.NewQuad(s, pr, o, "")
		if g != "@default" {
			qd.Graph = ld.NewBlankNode(g)
		}
		ds.Graphs[g] = append(ds.Graphs[g], qd)
	}
	node := func(s string) ld.Node {
		if r.Intn(3) == 0 {
			return ld.NewBlankNode("_:" + s)
		}
		return ld.NewIRI("urn:" + s)
	}
	lit := func(s string) ld.Node { return ld.NewLiteral(s, ld.XSDString, "") }
	add("@default", root, nm, lit("root"))
	add("@default", root, p, ld.NewBlankNode(g1))
	n1, m, s := node("n1"), node("m"), node("s")
	kind, reject := "", true
	switch r.Intn(7) {
	case 0:
		add(g1, n1, p, s)
		add(g1, n1, q, s)
		add(g1, s, nm, lit("x"))
		kind = "named-shared-same-subject"
	case 1:
		add(g1, n1, p, s)
		add(g1, n1, q, m)
		add(g1, m, p, s)
		add(g1, s, nm, lit("x"))
		kind = "named-shared-two-subjects"
	case 2: // top node of the graph referenced twice from inside
		add(g1, n1, nm, lit("top"))
		add(g1, n1, p, m)
		add(g1, m, p, n1)
		add(g1, m, q, n1)
		kind = "named-shared-top"
	case 3:
		add(g1, n1, nm, lit("a"))
		add(g1, n1, p, m)
		add(g1, m, nm, lit("b"))
		add(g1, m, q, n1)
		kind = "named-cycle-2"
	case 4:
		add(g1, n1, nm, lit("a"))
		add(g1, n1, p, n1)
		kind = "named-self-reference"
	case 5: // shared across graphs: per-graph references, the model decides
		add("@default", root, q, ld.NewBlankNode(g2))
		add(g1, n1, p, s)
		add(g1, s, nm, lit("x"))
		add(g2, m, p, s)
		kind, reject = "named-shared-across", false
	default: // a shared node in the default graph next to a clean named graph
		add(g1, n1, nm, lit("fine"))
		add("@default", root, q, s)
		add("@default", root, nm, s)
		add("@default", s, nm, lit("x"))
		kind = "default-shared-with-named"
	}
	if r.Intn(2) == 0 { // unrelated clean content
		add(g1, ld.NewIRI("urn:extra"), nm, lit("e"))
	}
	return ds, kind, reject
}

// ---- leaf accounting on whatever MerklizeJSONLD returned ----

func countValueQuads(ds *ld.RDFDataset) int {
	n := 0
	for _, qs := range ds.Graphs {
		for _, q := range qs {
			if _, isBlank := q.Object.(*ld.BlankNode); !isBlank {
				n++
			}
		}
	}
	return n
}

// leafAccounting: #leaves = #literal/IRI quads of the dataset = #entries listed = #entries stored,
// the leaves are exactly the entries' (key, value) pairs, and every entry has an existence proof
// holding its value. Independent of what the generator expected of the document.
func (d *drv) leafAccounting(mt *merkletree.MerkleTree, mz *merklize.Merklizer, ds *ld.RDFDataset, c *rcase) string {
	leaves, err := treeLeaves(mt)
	if err != nil {
		return "walking the tree failed: " + err.Error()
	}
	c.leaves = len(leaves)
	if c.out.Class != "ok" {
		return "MerklizeJSONLD succeeded although EntriesFromRDFWithHasher fails on the normalised dataset: " + c.out.Msg
	}
	if n := countValueQuads(ds); n != len(leaves) {
		return fmt.Sprintf("the dataset has %d literal/IRI quads but the tree has %d leaves (a statement was dropped, merged or overwritten)", n, len(leaves))
	}
	if msg := treeCheck(mt, c.views); msg != "" {
		return msg
	}
	if m := mzrun.MapEntries(mz); len(m) != len(c.views) {
		return fmt.Sprintf("%d entries listed, %d stored in the merklizer", len(c.views), len(m))
	}
	for _, v := range c.views {
		k, err1 := v.Entry.KeyMtEntry()
		val, err2 := v.Entry.ValueMtEntry()
		if err1 != nil || err2 != nil {
			return fmt.Sprintf("entry %v does not hash", v.Parts)
		}
		p, err := merklize.Options{Hasher: mz.Hasher()}.NewPath(v.Parts...)
		if err != nil {
			return err.Error()
		}
		proof, _, err := mz.Proof(context.Background(), p)
		if err != nil || !proof.Existence {
			return fmt.Sprintf("statement %v has no existence proof", v.Parts)
		}
		if !merkletree.VerifyProof(mz.Root(), proof, k, val) {
			return fmt.Sprintf("the leaf of %v does not hold the statement's value", v.Parts)
		}
	}
	return ""
}

// rawTree: the tail of MerklizeJSONLD on a hand-built dataset: AddEntriesToMerkleTree into a
// fresh tree through the repository's adapter; same accounting.
func (d *drv) rawTree(ds *ld.RDFDataset, c *rcase, input any) {
	mt, err := newTree()
	if err != nil {
		return
	}
	var es []merklize.RDFEntry
	for _, v := range c.views {
		es = append(es, v.Entry)
	}
	o := mzrun.Guard(20*time.Second, func() error {
		return merklize.AddEntriesToMerkleTree(context.Background(), merklize.MerkleTreeSQLAdapter(mt), es)
	})
	d.rep.Count("raw-tree:" + o.Class)
	switch o.Class {
	case "panic", "hang":
		d.rep.Fail("c01-"+o.Class, "AddEntriesToMerkleTree: "+o.Msg, input)
	case "err":
		c.mz = "err"
	case "ok":
		c.mz = "ok"
		leaves, err := treeLeaves(mt)
		if err != nil {
			d.rep.Fail("c01-tree-leaves", "walking the tree failed: "+err.Error(), input)
			return
		}
		c.leaves = len(leaves)
		if n := countValueQuads(ds); n != len(leaves) {
			d.rep.Fail("c01-tree-leaves", fmt.Sprintf("the dataset has %d literal/IRI quads but the tree has %d leaves (a statement was dropped, merged or overwritten)", n, len(leaves)), input)
		} else if msg := treeCheck(mt, c.views); msg != "" {
			d.rep.Fail("c01-tree-leaves", msg, input)
		}
	}
}

// dupPathDoc: two DIFFERENT statements end up under the SAME path (several top-level nodes sharing
// a property; named graphs whose top nodes share @id and a property; an orphan node next to the
// root). The tree refuses the second leaf, so these documents must be rejected; merklizing them
// would silently drop or overwrite a fact.
func (d *drv) dupPathDoc() *docgen.Doc {
	r := d.cfg.Rng
	v := docgen.Vocab
	uid := r.Intn(1000)
	id := func(s string) string { return fmt.Sprintf("urn:dp:%d:%s", uid, s) }
	var obj map[string]any
	why := ""
	switch r.Intn(6) {
	case 0: // two roots sharing a property, different values
		obj = map[string]any{"@graph": []any{
			map[string]any{"@id": id("a"), v + "name": "alice", v + "age": 5},
			map[string]any{"@id": id("b"), v + "name": "bob"}}}
		why = "duplicate-path-two-roots"
	case 1: // same, same value (still two statements)
		obj = map[string]any{"@graph": []any{
			map[string]any{"@id": id("a"), v + "name": "same"},
			map[string]any{"@id": id("b"), v + "name": "same"}}}
		why = "duplicate-path-two-roots-same-value"
	case 2: // an orphan node next to a proper root
		obj = map[string]any{"@graph": []any{
			map[string]any{"@id": id("root"), v + "name": "r", v + "child": map[string]any{"@id": id("c"), v + "name": "c"}},
			map[string]any{"@id": id("orphan"), v + "name": "o"}}}
		why = "duplicate-path-orphan"
	case 3: // blank roots
		obj = map[string]any{"@graph": []any{
			map[string]any{v + "q": true, v + "name": "x"},
			map[string]any{v + "q": false}}}
		why = "duplicate-path-blank-roots"
	case 4: // two named graphs whose top nodes share @id and a property
		var ctx any
		_ = json.Unmarshal([]byte(ngCtx), &ctx)
		obj = map[string]any{"@context": ctx, "id": id("root"), "g": []any{
			map[string]any{"id": id("x"), "name": "a"},
			map[string]any{"id": id("x"), "name": "b"}}}
		why = "duplicate-path-named-graphs"
	default: // nested: two children with the same @id under different array slots are one node; two
		// different nodes reached through a one-child property from two roots
		obj = map[string]any{"@graph": []any{
			map[string]any{"@id": id("a"), v + "p": map[string]any{"@id": id("c1"), v + "name": "n1"}},
			map[string]any{"@id": id("b"), v + "p": map[string]any{"@id": id("c2"), v + "name": "n2"}}}}
		why = "duplicate-path-nested"
	}
	b, _ := json.Marshal(obj)
	return &docgen.Doc{Bytes: b, Obj: obj, Features: map[string]bool{"dup-path:" + why: true}, Expect: "error", Why: why}
}

// ---- hashers that give no usable hash for the empty message ----

// emptyNilHasher is Poseidon, except that HashBytes of an empty message returns (nil, nil), like
// plain poseidon.HashBytesX and the repository's own testHasher do. Fix 58805e9 guards only
// PoseidonHasher.HashBytes, so with this hasher a nil hash travels on.
type emptyNilHasher struct{}

func (emptyNilHasher) Hash(in []*big.Int) (*big.Int, error) { return poseidon.Hash(in) }
func (emptyNilHasher) HashBytes(msg []byte) (*big.Int, error) {
	if len(msg) == 0 {
		return nil, nil
	}
	return poseidon.HashBytes(msg)
}
func (emptyNilHasher) Prime() *big.Int { return new(big.Int).Set(constants.Q) }

// emptyBigHasher returns a value outside the field (Q + 5) for the empty message.
type emptyBigHasher struct{}

func (emptyBigHasher) Hash(in []*big.Int) (*big.Int, error) { return poseidon.Hash(in) }
func (emptyBigHasher) HashBytes(msg []byte) (*big.Int, error) {
	if len(msg) == 0 {
		return new(big.Int).Add(constants.Q, big.NewInt(5)), nil
	}
	return poseidon.HashBytes(msg)
}
func (emptyBigHasher) Prime() *big.Int { return new(big.Int).Set(constants.Q) }

const (
	hiEmptyNil = 3 // index of emptyNilHasher in drv.hs
	hiEmptyBig = 4
)

// emptyStringDoc: an empty string literal in every position (top-level value, nested node, array
// member first/middle/last, typed through the context, inside a named graph). No hasher gives the
// empty message a usable hash, so the document must be rejected with an error: never a panic,
// never a merklizer with a leaf missing.
func (d *drv) emptyStringDoc() *docgen.Doc {
	r := d.cfg.Rng
	v := docgen.Vocab
	var obj map[string]any
	why := ""
	switch r.Intn(8) {
	case 0:
		obj = map[string]any{"@id": "urn:e:root", v + "name": "", v + "other": "x"}
		why = "empty-value"
	case 1:
		obj = map[string]any{"@id": "urn:e:root", v + "a": map[string]any{v + "b": map[string]any{"@id": "urn:e:n", v + "name": ""}}, v + "other": "x"}
		why = "empty-nested"
	case 2:
		obj = map[string]any{"@id": "urn:e:root", v + "tags": []any{"", "x", "y"}}
		why = "empty-array-first"
	case 3:
		obj = map[string]any{"@id": "urn:e:root", v + "tags": []any{"x", "", "y"}}
		why = "empty-array-middle"
	case 4:
		obj = map[string]any{"@id": "urn:e:root", v + "tags": []any{"x", "y", ""}, v + "n": 5}
		why = "empty-array-last"
	case 5:
		obj = map[string]any{"@context": map[string]any{"name": map[string]any{"@id": v + "name", "@type": docgen.XSD + "string"}},
			"@id": "urn:e:root", "name": "", v + "k": true}
		why = "empty-typed"
	case 6:
		var ctx any
		_ = json.Unmarshal([]byte(ngCtx), &ctx)
		obj = map[string]any{"@context": ctx, "id": "urn:e:root", "name": "r",
			"g": []any{map[string]any{"id": "urn:e:v1", "name": "ok"}, map[string]any{"id": "urn:e:v2", "name": ""}}}
		why = "empty-in-named-graph"
	default:
		obj = map[string]any{"@id": "urn:e:root", v + "only": ""}
		why = "empty-only"
	}
	b, _ := json.Marshal(obj)
	return &docgen.Doc{Bytes: b, Obj: obj, Features: map[string]bool{"empty-string:" + why: true}, Expect: "error", Why: why}
}

// ---- strings with leading / trailing whitespace ----

var wsPieces = []string{" ", "\t", "\n", " ", "  ", " \t\n", "\r\n"}

// wsString: a string that starts and/or ends with whitespace (space, tab, newline, NBSP), or
// consists of whitespace only. The document states exactly these characters; the entry must too.
func (d *drv) wsString() string {
	r := d.cfg.Rng
	core := []string{"A-17", "x", "trailing newline", "a b", "42", "true", "2020-01-01"}[r.Intn(7)]
	w := func() string { return wsPieces[r.Intn(len(wsPieces))] }
	switch r.Intn(5) {
	case 0:
		return w() + core
	case 1:
		return core + w()
	case 2:
		return w() + core + w()
	case 3:
		return w() // whitespace only
	default:
		return w() + w() + core
	}
}

// whitespaceDoc: string literals (untyped, xsd:string through the context, language-tagged, a
// custom datatype) whose lexical form starts or ends with whitespace, alone, nested, and as
// DISTINCT array members that differ only by surrounding whitespace ("x" / " x" / "x ").
func (d *drv) whitespaceDoc() *docgen.Doc {
	r := d.cfg.Rng
	v := docgen.Vocab
	xs := docgen.XSD + "string"
	langString := "http://www.w3.org/1999/02/22-rdf-syntax-ns#langString"
	var facts []docgen.Fact
	fact := func(pattern, val, dt string) {
		facts = append(facts, docgen.Fact{Pattern: pattern, Value: "str:" + val, Datatype: dt})
	}
	ctx := map[string]any{
		"typed":  map[string]any{"@id": v + "typed", "@type": xs},
		"custom": map[string]any{"@id": v + "custom", "@type": v + "customType"},
	}
	obj := map[string]any{"@context": ctx, "@id": fmt.Sprintf("urn:ws:%d", r.Intn(1000))}
	s1 := d.wsString()
	obj[v+"plain"] = s1
	fact(v+"plain", s1, xs)
	if r.Intn(2) == 0 {
		s := d.wsString()
		obj["typed"] = s
		fact(v+"typed", s, xs)
	}
	if r.Intn(2) == 0 {
		s := d.wsString()
		obj["custom"] = s
		fact(v+"custom", s, v+"customType")
	}
	if r.Intn(2) == 0 {
		s := d.wsString()
		obj[v+"lang"] = map[string]any{"@value": s, "@language": "en"}
		fact(v+"lang", s, langString)
	}
	if r.Intn(2) == 0 { // members that differ only by surrounding whitespace are different statements
		core := []string{"x", "A-17", "v"}[r.Intn(3)]
		set := []string{core, " " + core, core + " ", "\t" + core, core + "\n", " " + core, " " + core + " "}
		r.Shuffle(len(set), func(i, j int) { set[i], set[j] = set[j], set[i] })
		k := 2 + r.Intn(4)
		var arr []any
		for _, s := range set[:k] {
			arr = append(arr, s)
			fact(v+"arr / *", s, xs)
		}
		obj[v+"arr"] = arr
	}
	if r.Intn(2) == 0 {
		s := d.wsString()
		obj[v+"sub"] = map[string]any{v + "name": s}
		fact(v+"sub / "+v+"name", s, xs)
	}
	b, _ := json.Marshal(obj)
	return &docgen.Doc{Bytes: b, Obj: obj, Facts: facts, Features: map[string]bool{"whitespace-string": true}, Expect: "ok", Why: "whitespace"}
}

// whitespaceRaw: the same literals in a hand-built dataset (incl. typed non-string datatypes whose
// lexical form carries whitespace: decided by the model, which keeps every lexical form verbatim).
func (d *drv) whitespaceRaw() *ld.RDFDataset {
	r := d.cfg.Rng
	ds := ld.NewRDFDataset()
	v := docgen.Vocab
	root := ld.NewIRI("urn:ws:root")
	add := func(s ld.Node, p string, o ld.Node) {
		ds.Graphs["@default"] = append(ds.Graphs["@default"], ld.NewQuad(s, ld.NewIRI(v+p), o, ""))
	}
	core := []string{"x", "A-17"}[r.Intn(2)]
	for _, s := range []string{core, " " + core, core + " ", core + "\n", " " + core}[:2+r.Intn(4)] {
		add(root, "arr", ld.NewLiteral(s, ld.XSDString, ""))
	}
	add(root, "only", ld.NewLiteral(wsPieces[r.Intn(len(wsPieces))], ld.XSDString, ""))
	add(root, "custom", ld.NewLiteral(d.wsString(), v+"customType", ""))
	add(root, "lang", ld.NewLiteral(d.wsString(), "http://www.w3.org/1999/02/22-rdf-syntax-ns#langString", "en"))
	if r.Intn(2) == 0 {
		c := ld.NewBlankNode("_:c")
		add(root, "sub", c)
		add(c, "name", ld.NewLiteral(d.wsString(), ld.XSDString, ""))
	}
	switch r.Intn(4) { // typed lexical forms with whitespace: whatever the code does, the model must agree
	case 0:
		add(root, "int", ld.NewLiteral(" 42", ld.XSDInteger, ""))
	case 1:
		add(root, "bool", ld.NewLiteral("true ", ld.XSDBoolean, ""))
	case 2:
		add(root, "time", ld.NewLiteral("\n2020-01-01T00:00:00Z", docgen.XSD+"dateTime", ""))
	}
	return ds
}

// ---- wave 6 shapes ----

const w6Ctx = `{"@version":1.1,"ex":"http://ex.org/v#","xsd":"http://www.w3.org/2001/XMLSchema#","id":"@id",
 "vc":{"@id":"ex:vc","@container":"@graph"},"subject":{"@id":"ex:subject"},"address":{"@id":"ex:address"},
 "street":{"@id":"ex:street","@type":"xsd:string"},"geo":{"@id":"ex:geo"},"name":{"@id":"ex:name","@type":"xsd:string"},
 "count":{"@id":"ex:count","@type":"xsd:integer"},"pos":{"@id":"ex:pos","@type":"xsd:positiveInteger"},
 "nneg":{"@id":"ex:nneg","@type":"xsd:nonNegativeInteger"},"neg":{"@id":"ex:neg","@type":"xsd:negativeInteger"},
 "child":{"@id":"ex:child"},"items":{"@id":"ex:items"},"friend":{"@id":"ex:friend"},"spouse":{"@id":"ex:spouse"},
 "age":{"@id":"ex:age","@type":"xsd:integer"}}`

// sameNodeInGraphsDoc: the SAME IRI-identified node, with the same property pointing to a nested
// object, inside 2..4 different named graphs (a presentation with several credentials about one
// subject). The (subject, predicate, GRAPH) key keeps the graphs apart: each nested object is the
// only child of its key, so no index appears below `address`.
func (d *drv) sameNodeInGraphsDoc() *docgen.Doc {
	r := d.cfg.Rng
	ex := docgen.Vocab
	xs := docgen.XSD + "string"
	var ctx any
	_ = json.Unmarshal([]byte(w6Ctx), &ctx)
	uid := r.Intn(1000)
	alice := fmt.Sprintf("urn:w6:%d:alice", uid)
	k := 2 + r.Intn(3)
	var facts []docgen.Fact
	var arr []any
	deep := r.Intn(2) == 0
	for i := 0; i < k; i++ {
		street := fmt.Sprintf("street %d", i)
		addr := map[string]any{"street": street}
		facts = append(facts, docgen.Fact{Pattern: strings.Join([]string{ex + "vc", "*", ex + "subject", ex + "address", ex + "street"}, " / "), Value: "str:" + street, Datatype: xs})
		if deep {
			addr["geo"] = map[string]any{"name": fmt.Sprintf("geo %d", i)}
			facts = append(facts, docgen.Fact{Pattern: strings.Join([]string{ex + "vc", "*", ex + "subject", ex + "address", ex + "geo", ex + "name"}, " / "), Value: fmt.Sprintf("str:geo %d", i), Datatype: xs})
		}
		if r.Intn(3) == 0 { // an IRI-identified nested object, different per graph
			aid := fmt.Sprintf("urn:w6:%d:addr%d", uid, i)
			addr["id"] = aid
			facts = append(facts, docgen.Fact{Pattern: strings.Join([]string{ex + "vc", "*", ex + "subject", ex + "address"}, " / "), Value: "str:" + aid})
		}
		// the reference to an IRI-identified node is itself an IRI-valued statement
		facts = append(facts, docgen.Fact{Pattern: strings.Join([]string{ex + "vc", "*", ex + "subject"}, " / "), Value: "str:" + alice})
		arr = append(arr, map[string]any{"id": fmt.Sprintf("urn:w6:%d:cred%d", uid, i), "subject": map[string]any{"id": alice, "address": addr}})
	}
	doc := map[string]any{"@context": ctx, "id": fmt.Sprintf("urn:w6:%d:vp", uid), "vc": arr}
	b, _ := json.Marshal(doc)
	return &docgen.Doc{Bytes: b, Obj: doc, Facts: facts, Features: map[string]bool{"same-node-in-graphs": true}, Expect: "ok", Why: "same-node-in-graphs"}
}

// sameNodeInGraphsRaw: the dataset form: (alice address _:aN) in every named graph.
func (d *drv) sameNodeInGraphsRaw() *ld.RDFDataset {
	r := d.cfg.Rng
	ds := ld.NewRDFDataset()
	v := docgen.Vocab
	vc, addr, street := ld.NewIRI(v+"vc"), ld.NewIRI(v+"address"), ld.NewIRI(v+"street")
	root, alice := ld.NewIRI("urn:vp"), ld.NewIRI("urn:alice")
	k := 2 + r.Intn(3)
	for i := 0; i < k; i++ {
		g := fmt.Sprintf("_:c14n%d", []int{10, 9, 2, 30}[i])
		ds.Graphs["@default"] = append(ds.Graphs["@default"], ld.NewQuad(root, vc, ld.NewBlankNode(g), ""))
		a := ld.NewBlankNode(fmt.Sprintf("_:a%d", i))
		q1 := ld.NewQuad(alice, addr, a, "")
		q1.Graph = ld.NewBlankNode(g)
		q2 := ld.NewQuad(a, street, ld.NewLiteral(fmt.Sprintf("street %d", i), ld.XSDString, ""), "")
		q2.Graph = ld.NewBlankNode(g)
		ds.Graphs[g] = append(ds.Graphs[g], q1, q2)
	}
	return ds
}

// fractionalIntegerDoc: a non-integral lexical form under an XSD integer datatype (as a string,
// as a JSON number, as a fraction, with an exponent) must be rejected, never stored as some integer.
func (d *drv) fractionalIntegerDoc() *docgen.Doc {
	r := d.cfg.Rng
	var ctx any
	_ = json.Unmarshal([]byte(w6Ctx), &ctx)
	vals := []any{"1.5", 1.5, "2.5", "-0.25", "7/2", "1e-1", 0.5, "3.000001", "1.5E0", "-7/2", 2.25, "10/4"}
	val := vals[r.Intn(len(vals))]
	term := []string{"count", "pos", "nneg", "neg", "age"}[r.Intn(5)]
	node := map[string]any{term: val, "name": "n"}
	if r.Intn(3) == 0 {
		node[term] = []any{3, val}
	}
	doc := map[string]any{"@context": ctx, "id": "urn:w6:frac"}
	switch r.Intn(3) {
	case 0:
		for k, v := range node {
			doc[k] = v
		}
	case 1:
		doc["child"] = node
	default:
		doc["vc"] = []any{map[string]any{"id": "urn:w6:c1", "subject": node}}
	}
	b, _ := json.Marshal(doc)
	return &docgen.Doc{Bytes: b, Obj: doc, Features: map[string]bool{"fractional-integer": true}, Expect: "error", Why: "fractional-integer"}
}

func (d *drv) fractionalIntegerRaw() *ld.RDFDataset {
	r := d.cfg.Rng
	ds := ld.NewRDFDataset()
	v := docgen.Vocab
	root := ld.NewIRI("urn:w6:root")
	lex := []string{"1.5", "1.5E0", "2.5", "-0.25", "7/2", "1e-1", "5.0E-1", "-7/2", "10/4", "0.1e1x"}[r.Intn(10)]
	dt := []string{"integer", "positiveInteger", "nonNegativeInteger", "negativeInteger", "nonPositiveInteger"}[r.Intn(5)]
	ds.Graphs["@default"] = append(ds.Graphs["@default"],
		ld.NewQuad(root, ld.NewIRI(v+"name"), ld.NewLiteral("n", ld.XSDString, ""), ""),
		ld.NewQuad(root, ld.NewIRI(v+"count"), ld.NewLiteral(lex, docgen.XSD+dt, ""), ""))
	return ds
}

// emptyNodeDoc: a property whose value is a node with no content of its own. The blank node has no
// path of its own and states nothing; the code rejects it ("BlankNode is not supported yet"); it
// must not be dropped silently.
func (d *drv) emptyNodeDoc() *docgen.Doc {
	r := d.cfg.Rng
	var ctx any
	_ = json.Unmarshal([]byte(w6Ctx), &ctx)
	doc := map[string]any{"@context": ctx, "id": "urn:w6:en", "name": "n"}
	why := ""
	switch r.Intn(5) {
	case 0:
		doc["child"] = map[string]any{}
		why = "blank-empty-child"
	case 1:
		doc["items"] = []any{map[string]any{}, map[string]any{}}
		why = "blank-empty-items"
	case 2:
		doc["child"] = map[string]any{"name": "c", "child": map[string]any{}}
		why = "blank-empty-nested"
	case 3:
		doc["vc"] = []any{map[string]any{"id": "urn:w6:c1", "subject": map[string]any{"id": "urn:w6:s", "address": map[string]any{}}}}
		why = "blank-empty-in-graph"
	default:
		doc["items"] = []any{map[string]any{}}
		doc["child"] = map[string]any{"items": []any{map[string]any{}, map[string]any{}, map[string]any{}}}
		why = "blank-empty-several"
	}
	b, _ := json.Marshal(doc)
	return &docgen.Doc{Bytes: b, Obj: doc, Features: map[string]bool{"empty-node": true}, Expect: "error", Why: why}
}

// twoFieldsOneNodeDoc: one @id node referenced from two fields of the same node / graph.
func (d *drv) twoFieldsOneNodeDoc() *docgen.Doc {
	r := d.cfg.Rng
	var ctx any
	_ = json.Unmarshal([]byte(w6Ctx), &ctx)
	x := fmt.Sprintf("urn:w6:x%d", r.Intn(100))
	person := map[string]any{"id": "urn:w6:p", "friend": map[string]any{"id": x, "age": 30}, "spouse": map[string]any{"id": x}}
	doc := map[string]any{"@context": ctx}
	switch r.Intn(3) {
	case 0:
		doc = person
		doc["@context"] = ctx
	case 1:
		doc["id"] = "urn:w6:root"
		doc["child"] = person
	default:
		doc["id"] = "urn:w6:root"
		doc["vc"] = []any{map[string]any{"id": "urn:w6:c1", "subject": person}, map[string]any{"id": "urn:w6:c2", "name": "fine"}}
	}
	b, _ := json.Marshal(doc)
	return &docgen.Doc{Bytes: b, Obj: doc, Features: map[string]bool{"two-fields-one-node": true}, Expect: "error", Why: "shared-two-fields"}
}

// regressionRaws: fixed hand-built datasets that must be rejected (no RNG involved). A blank node
// referenced from two places of one graph, where the second reference shares subject+predicate with
// another nested object (so the referencing key has registered children either way).
func regressionRaws() []*ld.RDFDataset {
	v := docgen.Vocab
	mk := func(named bool) *ld.RDFDataset {
		ds := ld.NewRDFDataset()
		g := "@default"
		if named {
			g = "_:g1"
			ds.Graphs["@default"] = append(ds.Graphs["@default"], ld.NewQuad(ld.NewIRI("urn:vp"), ld.NewIRI(v+"vc"), ld.NewBlankNode(g), ""))
		}
		add := func(s ld.Node, p string, o ld.Node) {
			q := ld.NewQuad(s, ld.NewIRI(v+p), o, "")
			if named {
				q.Graph = ld.NewBlankNode(g)
			}
			ds.Graphs[g] = append(ds.Graphs[g], q)
		}
		r, x, y := ld.NewIRI("urn:r"), ld.NewBlankNode("_:x"), ld.NewBlankNode("_:y")
		add(r, "a", x)
		add(r, "b", x)
		add(r, "b", y)
		add(x, "v", ld.NewLiteral("1", ld.XSDInteger, ""))
		add(y, "w", ld.NewLiteral("2", ld.XSDInteger, ""))
		return ds
	}
	return []*ld.RDFDataset{mk(false), mk(true)}
}

// ---- integer lexical forms: leading zeros, signs, exponents (read in base ten) ----

var intLexForms = []struct {
	lex string
	val int64
}{{"010", 10}, {"-0012", -12}, {"0777", 777}, {"+5", 5}, {"00", 0}, {"1e1", 10}, {"010.0", 10}, {"0010", 10},
	{"-010", -10}, {"+0099", 99}, {"000", 0}, {"0123456789", 123456789}, {"-0", 0}, {"08", 8}, {"1E2", 100}, {"0017", 17}}

var intTypes = []struct {
	term, dt string
	lo, hi   int64 // acceptance range for small values
}{{"count", "integer", -1 << 29, 1 << 29}, {"pos", "positiveInteger", 1, 1 << 30}, {"nneg", "nonNegativeInteger", 0, 1 << 30},
	{"neg", "negativeInteger", -1 << 29, -1}, {"npos", "nonPositiveInteger", -1 << 29, 0}}

const intCtx = `{"@version":1.1,"ex":"http://ex.org/v#","xsd":"http://www.w3.org/2001/XMLSchema#","id":"@id",
 "count":{"@id":"ex:count","@type":"xsd:integer"},"pos":{"@id":"ex:pos","@type":"xsd:positiveInteger"},
 "nneg":{"@id":"ex:nneg","@type":"xsd:nonNegativeInteger"},"neg":{"@id":"ex:neg","@type":"xsd:negativeInteger"},
 "npos":{"@id":"ex:npos","@type":"xsd:nonPositiveInteger"},"child":{"@id":"ex:child"},"name":{"@id":"ex:name","@type":"xsd:string"}}`

// intLexDoc: the i-th (form, datatype) pair, deterministic. Inside the datatype's range the
// document is valid and states the DECIMAL value ("010" is ten, not eight); outside it is an error.
func intLexDoc(i int) *docgen.Doc {
	f := intLexForms[i%len(intLexForms)]
	t := intTypes[(i/len(intLexForms))%len(intTypes)]
	var ctx any
	_ = json.Unmarshal([]byte(intCtx), &ctx)
	ex := docgen.Vocab
	doc := map[string]any{"@context": ctx, "id": "urn:il:root", "name": "n"}
	prefix := ""
	if i%3 == 1 {
		doc["child"] = map[string]any{t.term: f.lex}
		prefix = ex + "child / "
	} else {
		doc[t.term] = f.lex
	}
	d := &docgen.Doc{Features: map[string]bool{"int-lexical": true}, Why: "int-lexical-out-of-range", Expect: "error"}
	if f.val >= t.lo && f.val <= t.hi {
		d.Expect, d.Why = "ok", "int-lexical"
		d.Facts = []docgen.Fact{
			{Pattern: ex + "name", Value: "str:n", Datatype: docgen.XSD + "string"},
			{Pattern: prefix + ex + t.term, Value: "int:" + strconv.FormatInt(f.val, 10), Datatype: docgen.XSD + t.dt}}
	}
	d.Obj = doc
	d.Bytes, _ = json.Marshal(doc)
	return d
}

// intLexRaw: all forms under one datatype in one hand-built dataset (the model decides).
func intLexRaw(i int) (*ld.RDFDataset, bool) {
	t := intTypes[i%len(intTypes)]
	ds := ld.NewRDFDataset()
	v := docgen.Vocab
	root := ld.NewIRI("urn:il:root")
	reject := false
	for j, f := range intLexForms {
		if (i/len(intTypes)+j)%3 != 0 {
			continue
		}
		if f.val < t.lo || f.val > t.hi {
			reject = true
		}
		ds.Graphs["@default"] = append(ds.Graphs["@default"],
			ld.NewQuad(root, ld.NewIRI(fmt.Sprintf("%sp%d", v, j)), ld.NewLiteral(f.lex, docgen.XSD+t.dt, ""), ""))
	}
	return ds, reject
}
