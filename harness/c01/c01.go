// Package c01: merklized entries are exactly the document's facts (property C01).
// Streams: generated valid documents (expected facts known to the generator),
// shared-node / cycle / empty-string documents (must be rejected), odd shapes
// (decided by the model), hand-built raw datasets json-gold would never emit.
// Every stream under the default hasher and two configured hashers.
package c01

import (
	"encoding/json"
	"fmt"
	"math/big"
	"path/filepath"
	"sort"
	"strings"

	"github.com/iden3/go-iden3-crypto/constants"
	"github.com/iden3/go-merkletree-sql/v2"
	"github.com/iden3/go-schema-processor/v2/merklize"
	"github.com/piprate/json-gold/ld"

	"vharness/common"
	"vharness/coqgen"
	"vharness/ctxload"
	"vharness/docgen"
	"vharness/floats"
	"vharness/hashers"
	"vharness/mzrun"
)

func init() { common.Register("C01", Run) }

type rcase struct {
	ds     *ld.RDFDataset
	order  []string
	prime  *big.Int
	views  []mzrun.EntryView
	out    mzrun.Outcome
	input  any
	mz     string // tree leg: "" (not run) | "err" | "ok"
	leaves int    // number of leaves found by walking the tree (mz == "ok")
}

type drv struct {
	cfg    *common.Config
	rep    *common.Report
	loader *ctxload.Loader
	fr     *floats.Rec
	cases  []*rcase
	hs     []merklize.Hasher
}

func hasherSet() []merklize.Hasher {
	return []merklize.Hasher{
		hashers.Default(),
		hashers.Mod{P: new(big.Int).Set(constants.Q), SaltBytes: []byte("salt:"), Name: "salted"},
		hashers.Mod{P: big.NewInt(2147483647), Name: "mod2^31-1"},
		emptyNilHasher{}, // hiEmptyNil: HashBytes("") = (nil, nil)
		emptyBigHasher{}, // hiEmptyBig: HashBytes("") = Q + 5
	}
}

func (d *drv) addDataset(ds *ld.RDFDataset, h merklize.Hasher, input any) *rcase {
	for _, s := range mzrun.DoubleLexicals(ds) {
		d.fr.AddStr(s)
	}
	views, out := mzrun.Entries(ds, h)
	c := &rcase{ds: ds, order: mzrun.GraphOrder(ds, d.cfg.Rng.Shuffle), prime: h.Prime(), views: views, out: out, input: input}
	d.cases = append(d.cases, c)
	d.rep.Evaluations++
	d.rep.Count("entries:" + out.Class)
	if out.Class == "panic" || out.Class == "hang" {
		d.rep.Fail("c01-"+out.Class, "EntriesFromRDFWithHasher: "+out.Msg, input)
	}
	// determinism: Go's map order over ds.Graphs differs between calls; the result must not
	if len(ds.Graphs) > 1 && (out.Class == "ok" || out.Class == "err") {
		first := renderViews(views, out)
		for rep := 0; rep < 3; rep++ {
			v2, o2 := mzrun.Entries(ds, h)
			if renderViews(v2, o2) != first {
				d.rep.Fail("c01-nondeterministic", "EntriesFromRDFWithHasher returned a different result for the same dataset", input)
				break
			}
		}
		d.rep.Count("determinism-checked")
	}
	return c
}

// checkIndices: among entries sharing a path up to one integer position, the
// integers at that position are exactly 0..n-1.
func checkIndices(views []mzrun.EntryView) string {
	groups := map[string]map[int]bool{}
	for _, v := range views {
		for i, p := range v.Parts {
			idx, ok := p.(int)
			if !ok {
				continue
			}
			// key = prefix before i (exact) — siblings share the exact prefix
			var sb strings.Builder
			for _, q := range v.Parts[:i] {
				sb.WriteString(fmt.Sprint(q) + "\x00")
			}
			k := sb.String()
			if groups[k] == nil {
				groups[k] = map[int]bool{}
			}
			groups[k][idx] = true
		}
	}
	for k, set := range groups {
		for i := 0; i < len(set); i++ {
			if !set[i] {
				return fmt.Sprintf("sibling indices under %q are not 0..%d: %v", strings.ReplaceAll(k, "\x00", " / "), len(set)-1, keys(set))
			}
		}
	}
	return ""
}

func keys(m map[int]bool) []int {
	var ks []int
	for k := range m {
		ks = append(ks, k)
	}
	sort.Ints(ks)
	return ks
}

func (d *drv) docCase(doc *docgen.Doc, hi int) {
	h := d.hs[hi]
	fixIntegralNativeDoubles(doc)
	input := map[string]any{"doc": json.RawMessage(doc.Bytes), "hasher": hi, "expect": doc.Expect, "why": doc.Why, "facts": doc.Facts}
	for f := range doc.Features {
		d.rep.Count("feature:" + f)
	}
	d.rep.Distinct(string(doc.Bytes) + fmt.Sprint(hi))
	ds, err := mzrun.Normalize(doc.Bytes, d.loader, true)
	if err != nil {
		d.rep.Count("normalize-error")
		if doc.Expect == "ok" {
			d.rep.Fail("c01-generator", "json-gold rejected a generated valid document: "+err.Error(), input)
		}
		return
	}
	c := d.addDataset(ds, h, input)
	// full pipeline
	mt, terr := newTree()
	if terr != nil {
		d.rep.Fail("c01-harness", "cannot create a tree: "+terr.Error(), input)
		return
	}
	mz, mo := mzrun.Merklize(doc.Bytes, merklize.WithHasher(h), merklize.WithDocumentLoader(d.loader),
		merklize.WithMerkleTree(merklize.MerkleTreeSQLAdapter(mt)))
	d.rep.Count("merklize:" + mo.Class)
	if mo.Class == "panic" || mo.Class == "hang" {
		class := "c01-" + mo.Class
		if mo.Class == "panic" && hi == hiEmptyNil && strings.HasPrefix(doc.Why, "empty") {
			// defect candidate: a custom hasher whose HashBytes("") is (nil, nil) makes tree insertion
			// dereference a nil value hash (fix 58805e9 guards only PoseidonHasher)
			class = "c01-nil-hash-panic"
		}
		d.rep.Fail(class, "MerklizeJSONLD: "+mo.Msg, input)
		return
	}
	// whatever the document: a merklizer that was returned accounts for every literal/IRI quad
	// of the normalised dataset with exactly one leaf (nothing dropped, merged or overwritten)
	c.mz = mo.Class
	if mo.Class == "ok" {
		if msg := d.leafAccounting(mt, mz, ds, c); msg != "" {
			d.rep.Fail("c01-tree-leaves", msg, input)
		}
	}
	switch doc.Expect {
	case "error":
		if mo.Class == "ok" {
			class := "c01-accepted-" + strings.SplitN(doc.Why, "-", 2)[0]
			if selfReference(ds) != "" {
				// defect candidate found in round 2 (see coq/RDF/README.md): a node whose own quad
				// refers to it is not seen by the cycle guard when it is the root
				class = "c01-accepted-self-reference"
			}
			d.rep.Fail(class, "document without a unique path / unhashable value was merklized: "+doc.Why, input)
		}
		return
	case "model":
		return
	}
	if c.out.Class != "ok" || mo.Class != "ok" {
		d.rep.Fail("c01-valid-rejected", fmt.Sprintf("valid document rejected: entries=%s %s; merklize=%s %s", c.out.Class, c.out.Msg, mo.Class, mo.Msg), input)
		return
	}
	// facts: nothing dropped, duplicated, merged or invented
	var got []docgen.Fact
	for _, v := range c.views {
		got = append(got, docgen.Fact{Pattern: docgen.PatternOf(v.Parts), Value: docgen.RenderGoValue(v.Value), Datatype: v.Datatype})
	}
	want := append([]docgen.Fact{}, doc.Facts...)
	docgen.SortFacts(got)
	docgen.SortFacts(want)
	if len(got) != len(want) {
		d.rep.Fail("c01-fact-count", fmt.Sprintf("document states %d facts, %d entries produced", len(want), len(got)), input)
	} else {
		for i := range got {
			if got[i] != want[i] {
				d.rep.Fail("c01-fact-mismatch", fmt.Sprintf("expected %+v, got %+v", want[i], got[i]), input)
				break
			}
		}
	}
	if msg := checkIndices(c.views); msg != "" {
		d.rep.Fail("c01-indices", msg, input)
	}
	// merklizer: entries map and tree agree with the entry list
	m := mzrun.MapEntries(mz)
	if len(m) != len(c.views) {
		d.rep.Fail("c01-entry-map", fmt.Sprintf("%d entries listed, %d stored", len(c.views), len(m)), input)
	}
	// number of leaves = number of entries, each entry provable (existence) — leaves counted through proofs
	for _, v := range c.views {
		k, err1 := v.Entry.KeyMtEntry()
		val, err2 := v.Entry.ValueMtEntry()
		if err1 != nil || err2 != nil {
			d.rep.Fail("c01-entry-hash", "entry of an accepted document does not hash", input)
			break
		}
		if _, ok := m[k.String()]; !ok {
			d.rep.Fail("c01-entry-map", "listed entry missing from the merklizer's map", input)
			break
		}
		p, _ := merklize.Options{Hasher: h}.NewPath(v.Parts...)
		proof, pv, err := mz.Proof(nil, p) //nolint:staticcheck // context unused by the in-memory tree
		if err != nil || !proof.Existence || pv == nil {
			d.rep.Fail("c01-leaf-missing", fmt.Sprintf("entry %v has no existence proof", v.Parts), input)
			break
		}
		if !merkletree.VerifyProof(mz.Root(), proof, k, val) {
			d.rep.Fail("c01-leaf-value", fmt.Sprintf("leaf of %v does not hold the entry's value", v.Parts), input)
			break
		}
	}
	// the tree itself: one leaf per entry, no other leaf
	if msg := treeCheck(mt, c.views); msg != "" {
		d.rep.Fail("c01-tree-leaves", msg, input)
	}
	// every fact the generator expects is provable under the generator's path and value
	if msg := expectedProofs(mz, h, doc.Facts, c.views); msg != "" {
		d.rep.Fail("c01-expected-proof", msg, input)
	}
	if d.rep.Evaluations%37 == 0 {
		d.rep.Sample(map[string]any{"doc": string(doc.Bytes), "entries": len(c.views), "hasher": hi})
	}
}

// ---- hand-built datasets ----
func iri(s string) ld.Node   { return ld.NewIRI(s) }
func blank(s string) ld.Node { return ld.NewBlankNode(s) }
func lit(v, dt string) ld.Node {
	return ld.NewLiteral(v, dt, "")
}

func (d *drv) rawDataset() (*ld.RDFDataset, string) {
	r := d.cfg.Rng
	ds := ld.NewRDFDataset()
	nodes := []ld.Node{iri("urn:a"), iri("urn:b"), iri("urn:c"), blank("_:b0"), blank("_:b1"), blank("_:b2")}
	preds := []string{docgen.Vocab + "p", docgen.Vocab + "q", docgen.Vocab + "r"}
	graphs := []string{"@default", "@default", "@default", "_:g1", "_:g2"}
	kind := []string{"random", "random", "cycle", "shared", "blank-leaf", "dup-quads", "iri-graph", "no-default", "bad-predicate", "literal-subject", "named-graphs"}[r.Intn(11)]
	add := func(g string, s, p, o ld.Node) {
		var gn ld.Node
		if g != "@default" {
			gn = blank(g)
		}
		ds.Graphs[g] = append(ds.Graphs[g], ld.NewQuad(s, p, o, ""))
		q := ds.Graphs[g][len(ds.Graphs[g])-1]
		q.Graph = gn
	}
	ds.Graphs["@default"] = []*ld.Quad{}
	randObj := func() ld.Node {
		switch r.Intn(4) {
		case 0:
			return nodes[r.Intn(len(nodes))]
		case 1:
			return lit(fmt.Sprint(r.Intn(50)), ld.XSDInteger)
		case 2:
			return lit(fmt.Sprintf("s%d", r.Intn(5)), ld.XSDString)
		default:
			return iri(fmt.Sprintf("urn:v:%d", r.Intn(4)))
		}
	}
	n := 1 + r.Intn(7)
	for i := 0; i < n; i++ {
		g := graphs[r.Intn(len(graphs))]
		if kind != "named-graphs" && kind != "random" {
			g = "@default"
		}
		add(g, nodes[r.Intn(len(nodes))], iri(preds[r.Intn(len(preds))]), randObj())
	}
	switch kind {
	case "cycle":
		k := 1 + r.Intn(4)
		for i := 0; i < k; i++ {
			add("@default", nodes[i%len(nodes)], iri(preds[0]), nodes[(i+1)%k])
		}
		add("@default", nodes[0], iri(preds[1]), lit("x", ld.XSDString))
	case "shared":
		add("@default", nodes[0], iri(preds[0]), nodes[3])
		add("@default", nodes[1], iri(preds[1]), nodes[3])
		add("@default", nodes[3], iri(preds[2]), lit("x", ld.XSDString))
	case "blank-leaf":
		add("@default", nodes[0], iri(preds[0]), blank("_:leaf"))
	case "dup-quads":
		add("@default", nodes[0], iri(preds[0]), lit("d", ld.XSDString))
		add("@default", nodes[0], iri(preds[0]), lit("d", ld.XSDString))
	case "iri-graph":
		ds.Graphs["urn:g"] = []*ld.Quad{ld.NewQuad(nodes[0], iri(preds[0]), lit("x", ld.XSDString), "urn:g")}
	case "no-default":
		delete(ds.Graphs, "@default")
		ds.Graphs["_:g1"] = []*ld.Quad{ld.NewQuad(nodes[0], iri(preds[0]), lit("x", ld.XSDString), "_:g1")}
	case "bad-predicate":
		add("@default", nodes[0], blank("_:pred"), lit("x", ld.XSDString))
	case "literal-subject":
		add("@default", lit("subj", ld.XSDString), iri(preds[0]), lit("x", ld.XSDString))
	case "named-graphs":
		add("@default", nodes[0], iri(preds[0]), blank("_:g1"))
		add("_:g1", nodes[1], iri(preds[1]), lit("in-g1", ld.XSDString))
		if r.Intn(2) == 0 {
			add("@default", nodes[0], iri(preds[2]), blank("_:g2"))
			add("_:g2", nodes[2], iri(preds[1]), lit("in-g2", ld.XSDString))
		}
	}
	return ds, kind
}

// rawCase: a hand-built dataset straight into EntriesFromRDFWithHasher. Besides the correspondence
// with the model, oracles that need no model: indices, distinct keys, rejection of shared nodes.
func (d *drv) rawCase(ds *ld.RDFDataset, kind string, hi int, mustReject bool) {
	d.rep.Count("raw:" + kind)
	input := map[string]any{"raw": rawOfDataset(ds), "kind": kind, "hasher": hi, "must_reject": mustReject}
	b, _ := json.Marshal(input)
	d.rep.Distinct(string(b))
	c := d.addDataset(ds, d.hs[hi], input)
	if c.out.Class != "ok" {
		return
	}
	d.rawTree(ds, c, input)
	if msg := selfReference(ds); msg != "" {
		d.rep.Fail("c01-accepted-self-reference", "dataset accepted although "+msg, input)
		return
	}
	if msg := sharedInDataset(ds); msg != "" {
		d.rep.Fail("c01-accepted-shared", "dataset accepted although "+msg, input)
		return
	}
	if mustReject {
		d.rep.Fail("c01-accepted-"+strings.SplitN(strings.TrimPrefix(kind, "named-"), "-", 2)[0], "dataset built to have no unique path ("+kind+") was accepted", input)
		return
	}
	if msg := checkIndices(c.views); msg != "" {
		d.rep.Fail("c01-indices", msg, input)
	}
	// one entry per literal/IRI quad
	n := 0
	for _, qs := range ds.Graphs {
		for _, q := range qs {
			if _, isBlank := q.Object.(*ld.BlankNode); !isBlank {
				n++
			}
		}
	}
	if n != len(c.views) {
		d.rep.Fail("c01-fact-count", fmt.Sprintf("dataset has %d literal/IRI quads, %d entries produced", n, len(c.views)), input)
	}
}

// selfReference reports a node that refers to itself (a quad whose object is its own subject)
// and states something: a literal/IRI-valued quad with the same subject in the same graph (the
// self-referencing quad itself when its object is an IRI). Such a statement has no finite path
// (Properties/C01.v C01_self_reference_rejected); regression oracle for finding D25 (fix b73a54e).
func selfReference(ds *ld.RDFDataset) string {
	key := func(n ld.Node) string {
		switch x := n.(type) {
		case *ld.IRI:
			return "I" + x.Value
		case *ld.BlankNode:
			return "B" + x.Attribute
		}
		return ""
	}
	for g, qs := range ds.Graphs {
		for _, q := range qs {
			sk := key(q.Subject)
			if sk == "" || key(q.Object) != sk {
				continue
			}
			for _, v := range qs {
				if _, isBlank := v.Object.(*ld.BlankNode); !isBlank && key(v.Subject) == sk {
					return fmt.Sprintf("node %s of graph %s refers to itself", sk[1:], g)
				}
			}
		}
	}
	return ""
}

// sharedInDataset reports a subject that is the object of two different quads of its own graph,
// the situation the property says must be rejected.
func sharedInDataset(ds *ld.RDFDataset) string {
	key := func(n ld.Node) string {
		switch x := n.(type) {
		case *ld.IRI:
			return "I" + x.Value
		case *ld.BlankNode:
			return "B" + x.Attribute
		}
		return ""
	}
	for g, qs := range ds.Graphs {
		for _, q := range qs {
			sk := key(q.Subject)
			if sk == "" {
				continue
			}
			refs := 0
			for _, o := range qs { // the asking quad counts too (fix b73a54e)
				if key(o.Object) == sk {
					refs++
				}
			}
			if refs > 1 {
				return fmt.Sprintf("node %s of graph %s has %d referrers", sk[1:], g, refs)
			}
		}
	}
	return ""
}

const shardSize = 60

func (d *drv) writeShards() error {
	n := len(d.cases)
	for s := 0; s*shardSize < n; s++ {
		lo, hi := s*shardSize, (s+1)*shardSize
		if hi > n {
			hi = n
		}
		f := coqgen.NewFile("From GSP Require Import Value.Time Value.Model Value.Run RDF.Model RDF.Run RDF.RunMz.")
		name := filepath.Join(d.cfg.OutDir, fmt.Sprintf("cases_C01_%03d.v", s))
		var cs []string
		for i := lo; i < hi; i++ {
			c := d.cases[i]
			mzo := "MZSkip"
			switch c.mz {
			case "err":
				mzo = "MZErr"
			case "ok":
				mzo = fmt.Sprintf("(MZOk %d)", c.leaves)
			}
			cs = append(cs, fmt.Sprintf("mkrm %d %s\n  %s\n  (%s) %s", i, coqgen.Limbs(c.prime), mzrun.DatasetCoq(f, c.ds, c.order), mzrun.EntriesObsCoq(f, c.views, c.out), mzo))
			d.rep.Case(name, i, c.input)
		}
		f.Add("Definition floats_ : raw_floats := " + d.fr.Coq(f) + ".")
		f.Add("Definition cases_ : list mcase := " + coqgen.List(cs) + ".")
		f.Add("Definition M := Eval vm_compute in rmmismatches floats_ cases_.")
		f.Add("Print M.")
		if err := f.Write(name); err != nil {
			return err
		}
		d.rep.Shards = append(d.rep.Shards, name)
	}
	return nil
}

func Run(cfg *common.Config) (*common.Report, error) {
	rep := common.NewReport("C01")
	rep.Correspondence = "RDF.RunMz.rmmismatches: entries_from_rdf (RDF/Model.v) vs merklize.EntriesFromRDFWithHasher on the dataset json-gold produced (and on hand-built datasets): error class or the full entry list; plus the tree leg: when MerklizeJSONLD / AddEntriesToMerkleTree succeeded, the number of leaves of the tree = number of model entries and the model's entry paths are pairwise distinct"
	rep.Rule = "documents generated from random schema trees (depth<=3; type-/property-scoped contexts, prefixes, aliases, typed/untyped literals, arrays, IRI/blank objects, named graphs, repeated values, inline or remote contexts) x 3 hashers; shared-node, cycle(1..4), empty-string documents; odd shapes; hand-built datasets (cycles, shared nodes, blank leaves, duplicate quads, IRI graph names, missing default graph, bad predicates, literal subjects, cross-graph references); multi-graph documents (1..5 graphs under @graph-container properties) and multi-graph raw datasets (2..5 named graphs, labels whose byte-wise, numeric and insertion orders differ). distinct = distinct (document bytes, hasher) pairs; all are non-trivial (>= 1 quad)."
	d := &drv{cfg: cfg, rep: rep, loader: ctxload.New(), fr: floats.New(), hs: hasherSet()}
	g := docgen.New(cfg.Rng)
	if cfg.Replay != "" {
		var rf struct {
			Input struct {
				Doc        json.RawMessage `json:"doc"`
				Hasher     int             `json:"hasher"`
				Expect     string          `json:"expect"`
				Why        string          `json:"why"`
				Facts      []docgen.Fact   `json:"facts"`
				Raw        []rawGraph      `json:"raw"`
				Kind       string          `json:"kind"`
				MustReject bool            `json:"must_reject"`
			} `json:"input"`
		}
		if err := common.ReadJSON(cfg.Replay, &rf); err != nil {
			return nil, err
		}
		if rf.Input.Hasher < 0 || rf.Input.Hasher >= len(d.hs) {
			rf.Input.Hasher = 0
		}
		if rf.Input.Raw != nil {
			d.rawCase(datasetOfRaw(rf.Input.Raw), rf.Input.Kind, rf.Input.Hasher, rf.Input.MustReject)
		} else {
			expect := rf.Input.Expect
			if expect == "" || (expect == "ok" && rf.Input.Facts == nil) {
				expect = "model"
			}
			doc := &docgen.Doc{Bytes: rf.Input.Doc, Expect: expect, Why: rf.Input.Why, Facts: rf.Input.Facts, Features: map[string]bool{}}
			d.docCase(doc, rf.Input.Hasher)
		}
		for _, c := range d.cases {
			fmt.Printf("replay: entries outcome=%s %s; %d entries\n", c.out.Class, c.out.Msg, len(c.views))
			for _, v := range c.views {
				fmt.Printf("  %v -> %s (%s)\n", v.Parts, docgen.RenderGoValue(v.Value), v.Datatype)
			}
		}
		for _, f := range rep.Failures {
			fmt.Printf("replay: FAIL [%s] %s\n", f.Class, f.What)
		}
		return rep, d.writeShards()
	}
	for i, doc := range regressionDocs() {
		d.docCase(doc, []int{0, 2}[i%2]) // hashers under which the empty string has no hash
	}
	for _, ds := range regressionRaws() {
		d.rawCase(ds, "shared-blank-array", 0, true)
	}
	// integer lexical forms x integer datatypes: deterministic, every pair in every run
	for i := 0; i < len(intLexForms)*len(intTypes); i++ {
		d.docCase(intLexDoc(i), []int{0, 2, 1}[i%3])
	}
	for i := 0; i < 3*len(intTypes); i++ {
		ds, reject := intLexRaw(i)
		d.rawCase(ds, "int-lexical", []int{0, 2, 1}[i%3], false)
		_ = reject
	}
	nValid := cfg.Pick(150, 4000)
	for i := 0; i < nValid; i++ {
		doc := g.Valid(1 + cfg.Rng.Intn(3))
		for u, b := range g.CtxURLs {
			if d.loader.Raw(u) == nil {
				_ = d.loader.Add(u, b)
			}
		}
		hi := 0
		if i%3 != 0 {
			hi = cfg.Rng.Intn(len(d.hs))
		}
		d.docCase(doc, hi)
	}
	for i := 0; i < cfg.Pick(12, 200); i++ {
		d.docCase(g.Shared(), cfg.Rng.Intn(len(d.hs)))
		d.docCase(g.Cycle(), cfg.Rng.Intn(len(d.hs)))
		d.docCase(g.EmptyString(), 0)
		d.docCase(g.Odd(), cfg.Rng.Intn(len(d.hs)))
	}
	for i := 0; i < cfg.Pick(30, 800); i++ {
		d.docCase(d.multiGraphDoc(), cfg.Rng.Intn(len(d.hs)))
	}
	for i := 0; i < cfg.Pick(40, 1000); i++ {
		d.docCase(d.namedGraphBadDoc(), cfg.Rng.Intn(len(d.hs)))
	}
	for i := 0; i < cfg.Pick(30, 800); i++ {
		d.docCase(d.dupPathDoc(), cfg.Rng.Intn(len(d.hs)))
	}
	for i := 0; i < cfg.Pick(40, 1000); i++ {
		d.docCase(d.whitespaceDoc(), []int{0, 1, 2, 0}[i%4])
	}
	for i := 0; i < cfg.Pick(20, 500); i++ {
		d.rawCase(d.whitespaceRaw(), "whitespace", cfg.Rng.Intn(3), false)
	}
	for i := 0; i < cfg.Pick(20, 500); i++ {
		d.docCase(d.sameNodeInGraphsDoc(), cfg.Rng.Intn(3))
		d.rawCase(d.sameNodeInGraphsRaw(), "same-node-in-graphs", cfg.Rng.Intn(3), false)
		d.docCase(d.fractionalIntegerDoc(), cfg.Rng.Intn(3))
		d.rawCase(d.fractionalIntegerRaw(), "fractional-integer", cfg.Rng.Intn(3), true)
		d.docCase(d.emptyNodeDoc(), cfg.Rng.Intn(3))
		d.docCase(d.twoFieldsOneNodeDoc(), cfg.Rng.Intn(3))
	}
	for i := 0; i < cfg.Pick(36, 900); i++ {
		d.docCase(d.emptyStringDoc(), []int{0, hiEmptyNil, hiEmptyBig, 2}[i%4]) // not 1: the salted hasher hashes "salt:"
	}
	for i := 0; i < cfg.Pick(120, 3000); i++ {
		ds, kind := d.rawDataset()
		d.rawCase(ds, kind, cfg.Rng.Intn(len(d.hs)), false)
	}
	for i := 0; i < cfg.Pick(30, 800); i++ {
		d.rawCase(d.multiGraphRaw(), "multi-graph", cfg.Rng.Intn(len(d.hs)), false)
	}
	for i := 0; i < cfg.Pick(40, 1000); i++ {
		ds, kind, reject := d.namedGraphBadRaw()
		d.rawCase(ds, kind, cfg.Rng.Intn(len(d.hs)), reject)
	}
	return rep, d.writeShards()
}
