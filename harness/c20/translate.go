// Translator of property C20 (registered as "cache-skeleton").
//
// It parses the repository's Go source with go/parser (no type checker, no build) and writes
// coq/Generated/CacheSkeleton.v containing
//
//   - for EVERY method of loaders.memoryCacheEngine the skeleton of shared-state events
//     (ReadImmutable / RLock / RUnlock / Lock / Unlock / Defer / MapRead / MapWrite / If / Return)
//     as a term of type Conc.Sem.skeleton;
//   - whether `embedDocs` is assigned only in constructor options / the constructor;
//   - for the packages loaders and merklize: every package-level variable with the functions that
//     write it, every method of *Merklizer and *documentLoader with the receiver fields it writes.
//
// Anything the walker does not know aborts with "skeleton not extractable: ..." (the engine
// reports this as a broken tie between model and source).
package c20

import (
	"fmt"
	"go/ast"
	"go/build/constraint"
	"go/parser"
	"go/token"
	"os"
	"path/filepath"
	"sort"
	"strings"

	"vharness/common"
)

func init() { common.RegisterTranslator("cache-skeleton", Translate) }

// ---------------------------------------------------------------------------------------------
// skeleton terms
// ---------------------------------------------------------------------------------------------

// Stmt mirrors Conc.Sem.stmt.
type Stmt struct {
	Op    string // ReadImmutable RLock RUnlock Lock Unlock Defer MapRead MapWrite If Call(Then) Return
	Field string
	Sub   *Stmt
	Then  []Stmt
	Else  []Stmt
}

func coqStr(s string) string { return `"` + strings.ReplaceAll(s, `"`, `""`) + `"` }

func (s Stmt) Coq() string {
	switch s.Op {
	case "ReadImmutable", "MapRead", "MapWrite":
		return s.Op + " " + coqStr(s.Field)
	case "Defer":
		return "Defer " + s.Sub.Coq()
	case "If":
		return "If " + coqBlock(s.Then) + " " + coqBlock(s.Else)
	case "Call":
		return "Call " + coqBlock(s.Then)
	default:
		return s.Op
	}
}

func coqBlock(b []Stmt) string {
	parts := make([]string, len(b))
	for i, s := range b {
		p := s.Coq()
		parts[i] = p
	}
	return "[" + strings.Join(parts, "; ") + "]"
}

// Method is one translated method.
type Method struct {
	Name string
	Body []Stmt
}

// Skeletons is everything the translator extracts.
type Skeletons struct {
	Methods        []Method
	EmbedImmutable bool
	PkgVars        []PkgVar
	MerklizerMeths []MethodWrites
	LoaderMeths    []MethodWrites
	LoaderShared   []MethodWrites // writes through possibly shared (cached) document pointers
	MethodCallsOn  []string       // "pkg.var.Method" calls on package variables (not judged; listed)
	Skipped        []string       // files left out because of their build constraint (verification hooks)
	Helpers        []string       // unexported methods only called by other methods of the engine (checked inlined)
}

type PkgVar struct {
	Pkg, Name string
	Writers   []string
}

type MethodWrites struct {
	Name   string
	Fields []string
}

type notExtractable struct{ msg string }

func (e notExtractable) Error() string { return "skeleton not extractable: " + e.msg }

// ---------------------------------------------------------------------------------------------
// package scan
// ---------------------------------------------------------------------------------------------

type pkgInfo struct {
	name    string
	fset    *token.FileSet
	files   []*ast.File
	vars    map[string]*ast.ValueSpec // package-level variables
	consts  map[string]bool
	funcs   map[string]bool
	types   map[string]*ast.TypeSpec
	writers map[string]map[string]bool // var -> functions writing it
	calls   map[string]bool            // var.Method calls on package variables
	skipped []string                   // files excluded by their build constraint
}

// inProductionBuild evaluates the file's //go:build line for a plain linux/amd64 build
// without custom tags (in particular without the tag "verif").
func inProductionBuild(src []byte) bool {
	for _, line := range strings.Split(string(src), "\n") {
		t := strings.TrimSpace(line)
		if strings.HasPrefix(t, "package ") {
			break
		}
		if constraint.IsGoBuild(t) {
			x, err := constraint.Parse(t)
			if err != nil {
				return true
			}
			return x.Eval(func(tag string) bool {
				return tag == "linux" || tag == "amd64" || tag == "unix" || tag == "cgo" || strings.HasPrefix(tag, "go1.")
			})
		}
	}
	return true
}

func parsePkg(dir, name string) (*pkgInfo, error) {
	p := &pkgInfo{name: name, fset: token.NewFileSet(), vars: map[string]*ast.ValueSpec{}, consts: map[string]bool{},
		funcs: map[string]bool{}, types: map[string]*ast.TypeSpec{}, writers: map[string]map[string]bool{}, calls: map[string]bool{}}
	ents, err := os.ReadDir(dir)
	if err != nil {
		return nil, err
	}
	for _, e := range ents {
		n := e.Name()
		if e.IsDir() || !strings.HasSuffix(n, ".go") || strings.HasSuffix(n, "_test.go") {
			continue
		}
		src, err := os.ReadFile(filepath.Join(dir, n))
		if err != nil {
			return nil, err
		}
		if !inProductionBuild(src) {
			// verification hooks (//go:build verif) are not part of the library as shipped
			p.skipped = append(p.skipped, n)
			continue
		}
		f, err := parser.ParseFile(p.fset, filepath.Join(dir, n), src, 0)
		if err != nil {
			return nil, notExtractable{fmt.Sprintf("%s does not parse: %v", n, err)}
		}
		p.files = append(p.files, f)
		for _, d := range f.Decls {
			switch d := d.(type) {
			case *ast.GenDecl:
				for _, s := range d.Specs {
					switch s := s.(type) {
					case *ast.ValueSpec:
						for _, id := range s.Names {
							if d.Tok == token.VAR {
								p.vars[id.Name] = s
							} else {
								p.consts[id.Name] = true
							}
						}
					case *ast.TypeSpec:
						p.types[s.Name.Name] = s
					}
				}
			case *ast.FuncDecl:
				if d.Recv == nil {
					p.funcs[d.Name.Name] = true
				}
			}
		}
	}
	if len(p.files) == 0 {
		return nil, notExtractable{"no Go files in " + dir}
	}
	return p, nil
}

// isPkgVar: does this identifier denote the package-level variable of that name?  The parser
// resolves identifiers declared in the same file (locals and file-level declarations); an
// identifier it could not resolve is package-level (another file) or predeclared.
func (p *pkgInfo) isPkgVar(id *ast.Ident) bool {
	spec, ok := p.vars[id.Name]
	if !ok {
		return false
	}
	if id.Obj == nil {
		return true
	}
	return id.Obj.Decl == spec
}

func isLocal(id *ast.Ident) bool {
	if id.Obj == nil || id.Obj.Kind != ast.Var {
		return false
	}
	switch id.Obj.Decl.(type) {
	case *ast.AssignStmt, *ast.Field:
		return true
	case *ast.ValueSpec:
		return true // refined by callers with isPkgVar first
	}
	return false
}

// rootIdent of an assignable expression: x, x.f, x[i], *x, (x)
func rootIdent(e ast.Expr) *ast.Ident {
	for {
		switch x := e.(type) {
		case *ast.Ident:
			return x
		case *ast.SelectorExpr:
			e = x.X
		case *ast.IndexExpr:
			e = x.X
		case *ast.StarExpr:
			e = x.X
		case *ast.ParenExpr:
			e = x.X
		case *ast.SliceExpr:
			e = x.X
		default:
			return nil
		}
	}
}

func funcName(d *ast.FuncDecl) string {
	if d.Recv != nil && len(d.Recv.List) == 1 {
		return recvTypeName(d.Recv.List[0].Type) + "." + d.Name.Name
	}
	return d.Name.Name
}

func recvTypeName(t ast.Expr) string {
	switch x := t.(type) {
	case *ast.StarExpr:
		return recvTypeName(x.X)
	case *ast.Ident:
		return x.Name
	case *ast.IndexExpr:
		return recvTypeName(x.X)
	}
	return "?"
}

// writeTargets lists the expressions a statement/expression node writes (assignment targets,
// ++/--, delete(x, ..), &x).
func writeTargets(n ast.Node) []ast.Expr {
	switch x := n.(type) {
	case *ast.AssignStmt:
		if x.Tok == token.DEFINE {
			var r []ast.Expr
			for _, l := range x.Lhs { // a := may still re-assign an existing variable; keep non-identifiers only
				if _, ok := l.(*ast.Ident); !ok {
					r = append(r, l)
				}
			}
			return r
		}
		return x.Lhs
	case *ast.IncDecStmt:
		return []ast.Expr{x.X}
	case *ast.RangeStmt:
		if x.Tok == token.ASSIGN {
			var r []ast.Expr
			if x.Key != nil {
				r = append(r, x.Key)
			}
			if x.Value != nil {
				r = append(r, x.Value)
			}
			return r
		}
	case *ast.CallExpr:
		if id, ok := x.Fun.(*ast.Ident); ok && id.Obj == nil && (id.Name == "delete" || id.Name == "clear" || id.Name == "copy") && len(x.Args) > 0 {
			return []ast.Expr{x.Args[0]}
		}
	case *ast.UnaryExpr:
		if x.Op == token.AND {
			if _, isLit := x.X.(*ast.CompositeLit); !isLit {
				return []ast.Expr{x.X}
			}
		}
	}
	return nil
}

// scanWrites records, for every function of the package, the package variables it writes and
// the method calls made on package variables.
func (p *pkgInfo) scanWrites() {
	for _, f := range p.files {
		for _, d := range f.Decls {
			fd, ok := d.(*ast.FuncDecl)
			if !ok || fd.Body == nil {
				continue
			}
			fn := funcName(fd)
			ast.Inspect(fd.Body, func(n ast.Node) bool {
				for _, t := range writeTargets(n) {
					if id := rootIdent(t); id != nil && p.isPkgVar(id) {
						if p.writers[id.Name] == nil {
							p.writers[id.Name] = map[string]bool{}
						}
						p.writers[id.Name][fn] = true
					}
				}
				if c, ok := n.(*ast.CallExpr); ok {
					if s, ok := c.Fun.(*ast.SelectorExpr); ok {
						if id, ok := s.X.(*ast.Ident); ok && p.isPkgVar(id) {
							p.calls[p.name+"."+id.Name+"."+s.Sel.Name] = true
						}
					}
				}
				return true
			})
		}
	}
}

func sortedKeys(m map[string]bool) []string {
	var r []string
	for k := range m {
		r = append(r, k)
	}
	sort.Strings(r)
	return r
}

func (p *pkgInfo) pkgVars() []PkgVar {
	var names []string
	for n := range p.vars {
		if n != "_" {
			names = append(names, n)
		}
	}
	sort.Strings(names)
	var r []PkgVar
	for _, n := range names {
		r = append(r, PkgVar{Pkg: p.name, Name: n, Writers: sortedKeys(p.writers[n])})
	}
	return r
}

// methodFieldWrites: for every method of the named struct type, the receiver fields it writes
// (m.f = .., m.f[k] = .., m.f++, delete(m.f, ..), &m.f).
func (p *pkgInfo) methodFieldWrites(typ string) []MethodWrites {
	var r []MethodWrites
	for _, f := range p.files {
		for _, d := range f.Decls {
			fd, ok := d.(*ast.FuncDecl)
			if !ok || fd.Recv == nil || fd.Body == nil || len(fd.Recv.List) != 1 || recvTypeName(fd.Recv.List[0].Type) != typ {
				continue
			}
			var recv *ast.Object
			if len(fd.Recv.List[0].Names) == 1 {
				recv = fd.Recv.List[0].Names[0].Obj
			}
			ws := map[string]bool{}
			ast.Inspect(fd.Body, func(n ast.Node) bool {
				for _, t := range writeTargets(n) {
					id := rootIdent(t)
					if id == nil || recv == nil || id.Obj != recv {
						continue
					}
					ws[firstField(t)] = true
				}
				return true
			})
			r = append(r, MethodWrites{Name: fd.Name.Name, Fields: sortedKeys(ws)})
		}
	}
	sort.Slice(r, func(i, j int) bool { return r[i].Name < r[j].Name })
	return r
}

// sharedPointerWrites lists, for every method of the named struct type, assignments through a
// local variable whose textually latest assignment came from a call that may hand out a shared
// (cached) document: <recv>.<cacheField>.Get(...) or a method of the same type whose first
// result is a pointer (*ld.RemoteDocument).  Heuristic, flow-insensitive across branches: the
// "latest assignment" is the last one before the write in source order.
func (p *pkgInfo) sharedPointerWrites(typ, cacheField string) []MethodWrites {
	ptrMethods := map[string]bool{}
	var decls []*ast.FuncDecl
	for _, f := range p.files {
		for _, d := range f.Decls {
			fd, ok := d.(*ast.FuncDecl)
			if !ok || fd.Recv == nil || fd.Body == nil || len(fd.Recv.List) != 1 || recvTypeName(fd.Recv.List[0].Type) != typ {
				continue
			}
			decls = append(decls, fd)
			if fd.Type.Results != nil && len(fd.Type.Results.List) > 0 {
				if _, isPtr := fd.Type.Results.List[0].Type.(*ast.StarExpr); isPtr {
					ptrMethods[fd.Name.Name] = true
				}
			}
		}
	}
	sharedCall := func(e ast.Expr) bool {
		c, ok := e.(*ast.CallExpr)
		if !ok {
			return false
		}
		sel, ok := c.Fun.(*ast.SelectorExpr)
		if !ok {
			return false
		}
		if in, ok := sel.X.(*ast.SelectorExpr); ok && in.Sel.Name == cacheField && sel.Sel.Name == "Get" {
			return true
		}
		if _, ok := sel.X.(*ast.Ident); ok && ptrMethods[sel.Sel.Name] {
			return true
		}
		return false
	}
	var out []MethodWrites
	for _, fd := range decls {
		shared := map[*ast.Object]bool{}
		ws := map[string]bool{}
		ast.Inspect(fd.Body, func(n ast.Node) bool {
			as, ok := n.(*ast.AssignStmt)
			if !ok {
				if id, ok := n.(*ast.IncDecStmt); ok {
					if r := rootIdent(id.X); r != nil && r.Obj != nil && shared[r.Obj] {
						if _, plain := id.X.(*ast.Ident); !plain {
							ws[r.Name+"."+firstField(id.X)] = true
						}
					}
				}
				return true
			}
			// writes through variables, judged with the state before this statement
			for _, l := range as.Lhs {
				if _, plain := l.(*ast.Ident); plain {
					continue
				}
				if r := rootIdent(l); r != nil && r.Obj != nil && shared[r.Obj] {
					ws[r.Name+"."+firstField(l)] = true
				}
			}
			// then the new state of plainly assigned variables
			for i, l := range as.Lhs {
				id, plain := l.(*ast.Ident)
				if !plain || id.Obj == nil {
					continue
				}
				switch {
				case len(as.Rhs) == 1 && len(as.Lhs) > 1:
					shared[id.Obj] = i == 0 && sharedCall(as.Rhs[0])
				case i < len(as.Rhs):
					if rid, ok := as.Rhs[i].(*ast.Ident); ok && rid.Obj != nil {
						shared[id.Obj] = shared[rid.Obj] // alias
					} else {
						shared[id.Obj] = sharedCall(as.Rhs[i])
					}
				}
			}
			return true
		})
		out = append(out, MethodWrites{Name: fd.Name.Name, Fields: sortedKeys(ws)})
	}
	sort.Slice(out, func(i, j int) bool { return out[i].Name < out[j].Name })
	return out
}

// firstField of recv.f.g[k] is "f"; of recv itself "*".
func firstField(e ast.Expr) string {
	name := "*"
	for {
		switch x := e.(type) {
		case *ast.Ident:
			return name
		case *ast.SelectorExpr:
			name = x.Sel.Name
			e = x.X
		case *ast.IndexExpr:
			e = x.X
		case *ast.StarExpr:
			e = x.X
		case *ast.ParenExpr:
			e = x.X
		case *ast.SliceExpr:
			e = x.X
		default:
			return name
		}
	}
}

// ---------------------------------------------------------------------------------------------
// memoryCacheEngine: field classification and method walker
// ---------------------------------------------------------------------------------------------

const engineType = "memoryCacheEngine"
const entryType = "cachedRemoteDocument"
const optionType = "MemoryCacheEngineOption"
const ctorName = "NewMemoryCacheEngine"

type engine struct {
	p          *pkgInfo
	mutex      string          // name of the sync.RWMutex / sync.Mutex field
	fields     map[string]bool // all field names of the engine struct
	immutable  map[string]bool // fields written only by constructor options / the constructor
	entryField map[string]bool // fields of cachedRemoteDocument
	entryMut   map[string]bool // ... that are assigned somewhere after construction
	recv       *ast.Object     // receiver of the method being walked
	method     string
	methods    map[string]*ast.FuncDecl // all methods of the engine type, by name
	stack      []string                 // methods being inlined (recursion guard)
	inlined    map[string]bool          // methods that are called by another method of the engine
}

func (e *engine) fail(n ast.Node, format string, a ...any) {
	pos := ""
	if n != nil {
		pos = e.p.fset.Position(n.Pos()).String() + ": "
	}
	panic(notExtractable{pos + "method " + e.method + ": " + fmt.Sprintf(format, a...)})
}

func structFields(ts *ast.TypeSpec) ([]*ast.Field, bool) {
	st, ok := ts.Type.(*ast.StructType)
	if !ok {
		return nil, false
	}
	return st.Fields.List, true
}

func isSyncType(t ast.Expr, names ...string) bool {
	s, ok := t.(*ast.SelectorExpr)
	if !ok {
		return false
	}
	id, ok := s.X.(*ast.Ident)
	if !ok || id.Name != "sync" {
		return false
	}
	for _, n := range names {
		if s.Sel.Name == n {
			return true
		}
	}
	return false
}

func newEngine(p *pkgInfo) (*engine, error) {
	e := &engine{p: p, fields: map[string]bool{}, immutable: map[string]bool{}, entryField: map[string]bool{}, entryMut: map[string]bool{}}
	ts, ok := p.types[engineType]
	if !ok {
		return nil, notExtractable{"type " + engineType + " not found"}
	}
	fl, ok := structFields(ts)
	if !ok {
		return nil, notExtractable{engineType + " is not a struct"}
	}
	for _, f := range fl {
		if len(f.Names) == 0 {
			return nil, notExtractable{engineType + " has an embedded field"}
		}
		for _, n := range f.Names {
			e.fields[n.Name] = true
			if isSyncType(f.Type, "RWMutex", "Mutex") {
				if e.mutex != "" {
					return nil, notExtractable{engineType + " has more than one mutex (the model has one lock)"}
				}
				e.mutex = n.Name
			} else if s, ok := f.Type.(*ast.SelectorExpr); ok {
				if id, ok := s.X.(*ast.Ident); ok && (id.Name == "sync" || id.Name == "atomic") {
					return nil, notExtractable{"field " + n.Name + " of type " + id.Name + "." + s.Sel.Name + " is not modelled"}
				}
			}
		}
	}
	if ets, ok := p.types[entryType]; ok {
		if efl, ok := structFields(ets); ok {
			for _, f := range efl {
				for _, n := range f.Names {
					e.entryField[n.Name] = true
				}
			}
		}
	}
	// classify every write to a selector named like an engine field / entry field, package-wide
	writtenInMethod := map[string]bool{}
	writtenInCtor := map[string]bool{}
	for _, f := range p.files {
		for _, d := range f.Decls {
			fd, ok := d.(*ast.FuncDecl)
			if !ok || fd.Body == nil {
				continue
			}
			isMethod := fd.Recv != nil && len(fd.Recv.List) == 1 && recvTypeName(fd.Recv.List[0].Type) == engineType
			isCtor := fd.Recv == nil && (fd.Name.Name == ctorName || returnsType(fd, optionType))
			var bad error
			ast.Inspect(fd.Body, func(n ast.Node) bool {
				// any mention of the engine's fields outside methods/constructor/options is unknown territory
				if s, ok := n.(*ast.SelectorExpr); ok && !isMethod && !isCtor && e.fields[s.Sel.Name] && s.Sel.Name != "" {
					if id, ok := s.X.(*ast.Ident); !ok || !isPackageName(f, id) {
						if looksLikeEngineField(e, s) {
							bad = notExtractable{fmt.Sprintf("%s: field %s of %s used in %s (neither a method, the constructor nor a constructor option)",
								p.fset.Position(s.Pos()), s.Sel.Name, engineType, funcName(fd))}
						}
					}
				}
				for _, t := range writeTargets(n) {
					sel := outerSelector(t)
					if sel == nil {
						continue
					}
					name := sel.Sel.Name
					if e.entryField[name] && !e.fields[name] {
						e.entryMut[name] = true
					}
					if e.fields[name] {
						if isMethod {
							writtenInMethod[name] = true
						} else if isCtor {
							writtenInCtor[name] = true
						}
					}
				}
				return true
			})
			if bad != nil {
				return nil, bad
			}
		}
	}
	for f := range e.fields {
		if f != e.mutex && !writtenInMethod[f] {
			e.immutable[f] = true
		}
	}
	_ = writtenInCtor
	return e, nil
}

// looksLikeEngineField: document_loader.go has its own struct with other field names; a
// selector with an engine field name on something that is not a package is treated as the engine's.
func looksLikeEngineField(e *engine, s *ast.SelectorExpr) bool {
	// `cache`, `embedDocs`, `m` are the engine's field names; other structs of the package
	// (documentLoader) use different names, so a name match outside the engine's code is suspicious.
	return e.fields[s.Sel.Name]
}

func isPackageName(f *ast.File, id *ast.Ident) bool {
	if id.Obj != nil {
		return false
	}
	for _, im := range f.Imports {
		path := strings.Trim(im.Path.Value, `"`)
		name := path[strings.LastIndex(path, "/")+1:]
		if im.Name != nil {
			name = im.Name.Name
		}
		if name == id.Name {
			return true
		}
	}
	return false
}

func returnsType(fd *ast.FuncDecl, typ string) bool {
	if fd.Type.Results == nil {
		return false
	}
	for _, r := range fd.Type.Results.List {
		if id, ok := r.Type.(*ast.Ident); ok && id.Name == typ {
			return true
		}
	}
	return false
}

// outerSelector of x.f, x.f[k], *x.f, x.f.g (-> first selector from the root): the selector
// applied directly to the root identifier.
func outerSelector(ex ast.Expr) *ast.SelectorExpr {
	var last *ast.SelectorExpr
	for {
		switch x := ex.(type) {
		case *ast.Ident:
			return last
		case *ast.SelectorExpr:
			last = x
			ex = x.X
		case *ast.IndexExpr:
			ex = x.X
		case *ast.StarExpr:
			ex = x.X
		case *ast.ParenExpr:
			ex = x.X
		case *ast.SliceExpr:
			ex = x.X
		default:
			return nil
		}
	}
}

var pureTimeMethods = map[string]bool{"Add": true, "After": true, "Before": true, "Equal": true, "IsZero": true,
	"Sub": true, "Unix": true, "UnixNano": true, "UTC": true, "Compare": true}
var pureTimeFuncs = map[string]bool{"Now": true, "Since": true, "Until": true, "Unix": true, "Duration": true}
var builtinTypes = map[string]bool{"string": true, "int": true, "int64": true, "int32": true, "uint": true, "uint64": true,
	"uint32": true, "float64": true, "bool": true, "byte": true, "rune": true, "any": true, "error": true}
var predeclared = map[string]bool{"nil": true, "true": true, "false": true, "iota": true}

func (e *engine) isRecv(x ast.Expr) bool {
	id, ok := x.(*ast.Ident)
	return ok && e.recv != nil && id.Obj == e.recv
}

func (e *engine) fieldRead(f string) []Stmt {
	if e.immutable[f] {
		return []Stmt{{Op: "ReadImmutable", Field: f}}
	}
	return []Stmt{{Op: "MapRead", Field: f}}
}

// lockCall recognises m.<mutex>.RLock() etc.
func (e *engine) lockCall(c *ast.CallExpr) (string, bool) {
	s, ok := c.Fun.(*ast.SelectorExpr)
	if !ok {
		return "", false
	}
	in, ok := s.X.(*ast.SelectorExpr)
	if !ok || !e.isRecv(in.X) || in.Sel.Name != e.mutex || e.mutex == "" {
		return "", false
	}
	switch s.Sel.Name {
	case "RLock", "RUnlock", "Lock", "Unlock":
		if len(c.Args) != 0 {
			e.fail(c, "lock call with arguments")
		}
		return s.Sel.Name, true
	}
	e.fail(c, "mutex method %s is not modelled", s.Sel.Name)
	return "", false
}

// expr returns the shared-state events of evaluating x, in evaluation order.
func (e *engine) expr(x ast.Expr) []Stmt {
	switch x := x.(type) {
	case nil:
		return nil
	case *ast.BasicLit:
		return nil
	case *ast.ParenExpr:
		return e.expr(x.X)
	case *ast.Ident:
		if x.Name == "_" || (x.Obj == nil && (predeclared[x.Name] || builtinTypes[x.Name])) {
			return nil
		}
		if e.isRecv(x) {
			e.fail(x, "the receiver is used as a value (escapes the method)")
		}
		if e.p.isPkgVar(x) {
			if len(e.p.writers[x.Name]) == 0 {
				return []Stmt{{Op: "ReadImmutable", Field: e.p.name + "." + x.Name}}
			}
			return []Stmt{{Op: "MapRead", Field: e.p.name + "." + x.Name}}
		}
		if isLocal(x) {
			return nil
		}
		if x.Obj == nil && (e.p.consts[x.Name] || e.p.funcs[x.Name] || e.p.types[x.Name] != nil) {
			return nil
		}
		if x.Obj != nil && (x.Obj.Kind == ast.Con || x.Obj.Kind == ast.Typ || x.Obj.Kind == ast.Fun) {
			return nil
		}
		e.fail(x, "identifier %s not understood", x.Name)
	case *ast.SelectorExpr:
		if e.isRecv(x.X) {
			if x.Sel.Name == e.mutex {
				e.fail(x, "the mutex is used other than by RLock/RUnlock/Lock/Unlock")
			}
			if !e.fields[x.Sel.Name] {
				e.fail(x, "unknown receiver member %s (method value / method call on the engine)", x.Sel.Name)
			}
			return e.fieldRead(x.Sel.Name)
		}
		if id, ok := x.X.(*ast.Ident); ok && id.Obj == nil && !e.p.isPkgVar(id) {
			if id.Name == "time" {
				return nil // time.Hour, time.Time
			}
			e.fail(x, "qualified identifier %s.%s is not on the whitelist (package time)", id.Name, x.Sel.Name)
		}
		// field of a local value: only fields of cachedRemoteDocument are understood
		ev := e.expr(x.X)
		if !e.entryField[x.Sel.Name] {
			e.fail(x, "selector .%s on a local value is not understood", x.Sel.Name)
		}
		name := entryType + "." + x.Sel.Name
		if e.entryMut[x.Sel.Name] {
			return append(ev, Stmt{Op: "MapRead", Field: name})
		}
		return append(ev, Stmt{Op: "ReadImmutable", Field: name})
	case *ast.IndexExpr:
		s, ok := x.X.(*ast.SelectorExpr)
		if !ok || !e.isRecv(s.X) {
			e.fail(x, "index expression whose base is not a field of the receiver (possible alias of shared state)")
		}
		return append(e.expr(x.X), e.expr(x.Index)...)
	case *ast.UnaryExpr:
		if x.Op == token.AND {
			if cl, ok := x.X.(*ast.CompositeLit); ok {
				return e.expr(cl)
			}
			e.fail(x, "address-of is not modelled")
		}
		if x.Op == token.ARROW {
			e.fail(x, "channel receive is not modelled")
		}
		return e.expr(x.X)
	case *ast.BinaryExpr:
		l, r := e.expr(x.X), e.expr(x.Y)
		if (x.Op == token.LAND || x.Op == token.LOR) && len(r) > 0 {
			return append(l, Stmt{Op: "If", Then: r, Else: nil})
		}
		return append(l, r...)
	case *ast.CompositeLit:
		var ev []Stmt
		for _, el := range x.Elts {
			if kv, ok := el.(*ast.KeyValueExpr); ok {
				if _, isField := kv.Key.(*ast.Ident); !isField {
					ev = append(ev, e.expr(kv.Key)...)
				}
				ev = append(ev, e.expr(kv.Value)...)
			} else {
				ev = append(ev, e.expr(el)...)
			}
		}
		return ev
	case *ast.CallExpr:
		if _, ok := e.lockCall(x); ok {
			e.fail(x, "lock call inside an expression")
		}
		var args []Stmt
		for _, a := range x.Args {
			args = append(args, e.expr(a)...)
		}
		switch f := x.Fun.(type) {
		case *ast.Ident:
			if f.Obj == nil {
				switch f.Name {
				case "len", "cap", "min", "max":
					return args
				case "make", "new":
					var ev []Stmt
					for _, a := range x.Args[1:] {
						ev = append(ev, e.expr(a)...)
					}
					return ev
				}
				if builtinTypes[f.Name] {
					return args
				}
			}
			e.fail(x, "call of %s is not on the whitelist", f.Name)
		case *ast.SelectorExpr:
			if id, ok := f.X.(*ast.Ident); ok && id.Obj == nil && id.Name == "time" && !e.p.isPkgVar(id) {
				if pureTimeFuncs[f.Sel.Name] {
					return args
				}
				e.fail(x, "call of time.%s is not on the whitelist", f.Sel.Name)
			}
			if e.isRecv(f.X) {
				callee, ok := e.methods[f.Sel.Name]
				if !ok {
					e.fail(x, "call of %s on the receiver: no such method of %s in this package (interface / function value?)", f.Sel.Name, engineType)
				}
				return append(args, Stmt{Op: "Call", Then: e.inline(x, callee)})
			}
			if pureTimeMethods[f.Sel.Name] && !e.isRecv(f.X) {
				// value method of time.Time / time.Duration on a local value or on a whitelisted call
				if id, ok := f.X.(*ast.Ident); ok && !isLocal(id) {
					e.fail(x, "method call %s.%s on a non-local", id.Name, f.Sel.Name)
				}
				return append(e.expr(f.X), args...)
			}
			e.fail(x, "call of method/function .%s is not on the whitelist", f.Sel.Name)
		}
		e.fail(x, "call expression not understood")
	case *ast.StarExpr, *ast.TypeAssertExpr, *ast.FuncLit, *ast.SliceExpr, *ast.KeyValueExpr:
		e.fail(x, "expression form %T is not modelled", x)
	}
	e.fail(x, "expression form %T is not modelled", x)
	return nil
}

// write returns the events of assigning to target t (operands first, then the write).
func (e *engine) write(t ast.Expr) []Stmt {
	switch x := t.(type) {
	case *ast.Ident:
		if x.Name == "_" {
			return nil
		}
		if e.p.isPkgVar(x) {
			return []Stmt{{Op: "MapWrite", Field: e.p.name + "." + x.Name}}
		}
		if e.isRecv(x) {
			e.fail(x, "assignment to the receiver")
		}
		if isLocal(x) {
			return nil
		}
		e.fail(x, "assignment target %s not understood", x.Name)
	case *ast.ParenExpr:
		return e.write(x.X)
	case *ast.SelectorExpr:
		if e.isRecv(x.X) {
			if x.Sel.Name == e.mutex || !e.fields[x.Sel.Name] {
				e.fail(x, "assignment to receiver member %s", x.Sel.Name)
			}
			return []Stmt{{Op: "MapWrite", Field: x.Sel.Name}}
		}
		if e.entryField[x.Sel.Name] {
			// in-place mutation of a (possibly cached, shared) entry
			ev := e.expr(x.X)
			return append(ev, Stmt{Op: "MapWrite", Field: entryType + "." + x.Sel.Name})
		}
		e.fail(x, "assignment through selector .%s is not understood", x.Sel.Name)
	case *ast.IndexExpr:
		s, ok := x.X.(*ast.SelectorExpr)
		if !ok || !e.isRecv(s.X) || !e.fields[s.Sel.Name] || s.Sel.Name == e.mutex {
			e.fail(x, "indexed assignment whose base is not a field of the receiver")
		}
		return append(e.expr(x.Index), Stmt{Op: "MapWrite", Field: s.Sel.Name})
	}
	e.fail(t, "assignment target form %T is not modelled", t)
	return nil
}

func (e *engine) block(l []ast.Stmt) []Stmt {
	var out []Stmt
	for _, s := range l {
		out = append(out, e.stmt(s)...)
	}
	return out
}

func (e *engine) stmt(s ast.Stmt) []Stmt {
	switch s := s.(type) {
	case *ast.EmptyStmt:
		return nil
	case *ast.BlockStmt:
		return e.block(s.List)
	case *ast.ExprStmt:
		c, ok := s.X.(*ast.CallExpr)
		if !ok {
			e.fail(s, "expression statement that is not a call")
		}
		if op, ok := e.lockCall(c); ok {
			return []Stmt{{Op: op}}
		}
		if id, ok := c.Fun.(*ast.Ident); ok && id.Obj == nil {
			switch id.Name {
			case "panic":
				var ev []Stmt
				for _, a := range c.Args {
					ev = append(ev, e.expr(a)...)
				}
				return append(ev, Stmt{Op: "Return"})
			case "delete", "clear":
				if len(c.Args) == 0 {
					e.fail(c, "delete without arguments")
				}
				sel, ok := c.Args[0].(*ast.SelectorExpr)
				if !ok || !e.isRecv(sel.X) || !e.fields[sel.Sel.Name] || sel.Sel.Name == e.mutex {
					e.fail(c, "%s on something that is not a field of the receiver", id.Name)
				}
				var ev []Stmt
				for _, a := range c.Args[1:] {
					ev = append(ev, e.expr(a)...)
				}
				return append(ev, Stmt{Op: "MapWrite", Field: sel.Sel.Name})
			}
		}
		return e.expr(c)
	case *ast.AssignStmt:
		var ev []Stmt
		if s.Tok != token.ASSIGN && s.Tok != token.DEFINE { // op=
			for _, l := range s.Lhs {
				ev = append(ev, e.expr(l)...)
			}
		}
		for _, r := range s.Rhs {
			ev = append(ev, e.expr(r)...)
		}
		for _, l := range s.Lhs {
			if s.Tok == token.DEFINE {
				if _, ok := l.(*ast.Ident); ok {
					continue
				}
			}
			ev = append(ev, e.write(l)...)
		}
		return ev
	case *ast.IncDecStmt:
		return append(e.expr(s.X), e.write(s.X)...)
	case *ast.DeclStmt:
		gd, ok := s.Decl.(*ast.GenDecl)
		if !ok || (gd.Tok != token.VAR && gd.Tok != token.CONST) {
			e.fail(s, "local declaration form is not modelled")
		}
		var ev []Stmt
		for _, sp := range gd.Specs {
			if vs, ok := sp.(*ast.ValueSpec); ok {
				for _, v := range vs.Values {
					ev = append(ev, e.expr(v)...)
				}
			}
		}
		return ev
	case *ast.IfStmt:
		var ev []Stmt
		if s.Init != nil {
			ev = append(ev, e.stmt(s.Init)...)
		}
		ev = append(ev, e.expr(s.Cond)...)
		th := e.block(s.Body.List)
		var el []Stmt
		if s.Else != nil {
			el = e.stmt(s.Else)
		}
		return append(ev, Stmt{Op: "If", Then: th, Else: el})
	case *ast.ReturnStmt:
		var ev []Stmt
		for _, r := range s.Results {
			ev = append(ev, e.expr(r)...)
		}
		return append(ev, Stmt{Op: "Return"})
	case *ast.DeferStmt:
		op, ok := e.lockCall(s.Call)
		if !ok || (op != "RUnlock" && op != "Unlock") {
			e.fail(s, "defer of anything but m.%s.RUnlock() / m.%s.Unlock() is not modelled", e.mutex, e.mutex)
		}
		return []Stmt{{Op: "Defer", Sub: &Stmt{Op: op}}}
	}
	e.fail(s, "statement form %T is not modelled (loops, switch, select, go, goto, labels, closures)", s)
	return nil
}

// body translates the body of a method of the engine with that method's receiver in scope.
func (e *engine) body(fd *ast.FuncDecl) []Stmt {
	savedRecv, savedMethod := e.recv, e.method
	defer func() { e.recv, e.method = savedRecv, savedMethod }()
	e.method = fd.Name.Name
	e.recv = nil
	if len(fd.Recv.List[0].Names) == 1 {
		e.recv = fd.Recv.List[0].Names[0].Obj
	}
	if fd.Body == nil {
		e.fail(fd, "method without body")
	}
	if fd.Type.Results != nil {
		for _, r := range fd.Type.Results.List {
			if len(r.Names) > 0 {
				e.fail(fd, "named results are not modelled")
			}
		}
	}
	if fd.Type.TypeParams != nil {
		e.fail(fd, "generic methods are not modelled")
	}
	return e.block(fd.Body.List)
}

// inline returns the event skeleton of a call of another method of the same engine (the
// callee's returns and deferred calls end the callee only: Sem.Call).  Recursion aborts.
func (e *engine) inline(at ast.Node, callee *ast.FuncDecl) []Stmt {
	name := callee.Name.Name
	for _, s := range e.stack {
		if s == name {
			e.fail(at, "recursive call of %s (call chain %s)", name, strings.Join(append(e.stack, name), " -> "))
		}
	}
	if len(e.stack) > 16 {
		e.fail(at, "call chain too deep")
	}
	e.inlined[name] = true
	e.stack = append(e.stack, name)
	defer func() { e.stack = e.stack[:len(e.stack)-1] }()
	return e.body(callee)
}

func (e *engine) translateMethod(fd *ast.FuncDecl) (m Method, err error) {
	defer func() {
		if r := recover(); r != nil {
			if ne, ok := r.(notExtractable); ok {
				err = ne
				return
			}
			panic(r)
		}
	}()
	e.stack = []string{fd.Name.Name}
	body := e.body(fd)
	return Method{Name: fd.Name.Name, Body: body}, nil
}

// Extract runs the whole translation on a repository tree.
func Extract(repo string) (*Skeletons, error) {
	lp, err := parsePkg(filepath.Join(repo, "loaders"), "loaders")
	if err != nil {
		return nil, err
	}
	mp, err := parsePkg(filepath.Join(repo, "merklize"), "merklize")
	if err != nil {
		return nil, err
	}
	lp.scanWrites()
	mp.scanWrites()
	eng, err := newEngine(lp)
	if err != nil {
		return nil, err
	}
	out := &Skeletons{}
	eng.methods = map[string]*ast.FuncDecl{}
	eng.inlined = map[string]bool{}
	var decls []*ast.FuncDecl
	for _, f := range lp.files {
		for _, d := range f.Decls {
			fd, ok := d.(*ast.FuncDecl)
			if !ok || fd.Recv == nil || len(fd.Recv.List) != 1 || recvTypeName(fd.Recv.List[0].Type) != engineType {
				continue
			}
			if fd.Body == nil {
				return nil, notExtractable{"method " + fd.Name.Name + " has no body"}
			}
			eng.methods[fd.Name.Name] = fd
			decls = append(decls, fd)
		}
	}
	var all []Method
	for _, fd := range decls {
		m, err := eng.translateMethod(fd)
		if err != nil {
			return nil, err
		}
		all = append(all, m)
	}
	// helper methods called from code of the package that is not a method of the engine are entry points too
	calledOutside := map[string]bool{}
	for _, f := range lp.files {
		for _, d := range f.Decls {
			fd, ok := d.(*ast.FuncDecl)
			if !ok || fd.Body == nil || (fd.Recv != nil && len(fd.Recv.List) == 1 && recvTypeName(fd.Recv.List[0].Type) == engineType) {
				continue
			}
			ast.Inspect(fd.Body, func(n ast.Node) bool {
				if sel, ok := n.(*ast.SelectorExpr); ok && eng.methods[sel.Sel.Name] != nil {
					if id, ok := sel.X.(*ast.Ident); !ok || !isPackageName(f, id) {
						calledOutside[sel.Sel.Name] = true
					}
				}
				return true
			})
		}
	}
	// entry points: exported methods, methods no other engine method calls, methods used outside the engine
	for _, m := range all {
		if ast.IsExported(m.Name) || !eng.inlined[m.Name] || calledOutside[m.Name] {
			out.Methods = append(out.Methods, m)
		} else {
			out.Helpers = append(out.Helpers, m.Name)
		}
	}
	sort.Strings(out.Helpers)
	sort.Slice(out.Methods, func(i, j int) bool { return out.Methods[i].Name < out.Methods[j].Name })
	have := map[string]bool{}
	for _, m := range out.Methods {
		have[m.Name] = true
	}
	if !have["Get"] || !have["Set"] {
		return nil, notExtractable{"memoryCacheEngine has no Get or no Set method"}
	}
	if !eng.fields["embedDocs"] {
		return nil, notExtractable{"memoryCacheEngine has no field embedDocs"}
	}
	out.EmbedImmutable = eng.immutable["embedDocs"]
	out.PkgVars = append(lp.pkgVars(), mp.pkgVars()...)
	out.MerklizerMeths = mp.methodFieldWrites("Merklizer")
	out.LoaderMeths = lp.methodFieldWrites("documentLoader")
	out.LoaderShared = lp.sharedPointerWrites("documentLoader", "cacheEngine")
	calls := map[string]bool{}
	for k := range lp.calls {
		calls[k] = true
	}
	for k := range mp.calls {
		calls[k] = true
	}
	out.MethodCallsOn = sortedKeys(calls)
	for _, n := range lp.skipped {
		out.Skipped = append(out.Skipped, "loaders/"+n)
	}
	for _, n := range mp.skipped {
		out.Skipped = append(out.Skipped, "merklize/"+n)
	}
	return out, nil
}

func strList(l []string) string {
	q := make([]string, len(l))
	for i, s := range l {
		q[i] = coqStr(s)
	}
	return "[" + strings.Join(q, "; ") + "]"
}

// Render produces coq/Generated/CacheSkeleton.v.
func Render(sk *Skeletons) string {
	var b strings.Builder
	b.WriteString("(* GENERATED by the harness translator \"cache-skeleton\" (harness/c20/translate.go) from\n")
	b.WriteString("   loaders/memory_cache.go, loaders/document_loader.go and merklize/*.go of the repository's\n")
	b.WriteString("   working tree.  Rewritten on every run; do not edit, do not commit. *)\n")
	b.WriteString("From Coq Require Import List String.\nFrom GSP Require Import Conc.Sem.\nImport ListNotations.\nOpen Scope string_scope.\n\n")
	for _, m := range sk.Methods {
		if m.Name == "Get" || m.Name == "Set" {
			fmt.Fprintf(&b, "Definition generated_%s : skeleton :=\n  %s.\n\n", strings.ToLower(m.Name), coqBlock(m.Body))
		}
	}
	b.WriteString("(* every entry-point method of memoryCacheEngine, by name (calls of other methods of the engine are inlined\n   as Call [...]; unexported methods that are only called by other methods of the engine are checked inlined:\n   " + strings.Join(sk.Helpers, ", ") + ") *)\nDefinition generated_methods : list (string * skeleton) :=\n  [")
	for i, m := range sk.Methods {
		if i > 0 {
			b.WriteString(";\n   ")
		}
		fmt.Fprintf(&b, "(%s, %s)", coqStr(m.Name), coqBlock(m.Body))
	}
	b.WriteString("].\n\n")
	fmt.Fprintf(&b, "(* embedDocs is written only by constructor options / the constructor (never by a method) *)\nDefinition generated_embedDocs_immutable : bool := %v.\n\n", sk.EmbedImmutable)
	b.WriteString("(* package-level variables of loaders and merklize: (package, variable, functions that write it after\n   initialisation: assignment, op=, ++/--, element/field assignment, delete, address-of) *)\n")
	b.WriteString("Definition generated_pkg_vars : list (string * string * list string) :=\n  [")
	for i, v := range sk.PkgVars {
		if i > 0 {
			b.WriteString(";\n   ")
		}
		fmt.Fprintf(&b, "(%s, %s, %s)", coqStr(v.Pkg), coqStr(v.Name), strList(v.Writers))
	}
	b.WriteString("].\n\n")
	wr := func(name string, ms []MethodWrites) {
		fmt.Fprintf(&b, "Definition %s : list (string * list string) :=\n  [", name)
		for i, m := range ms {
			if i > 0 {
				b.WriteString(";\n   ")
			}
			fmt.Fprintf(&b, "(%s, %s)", coqStr(m.Name), strList(m.Fields))
		}
		b.WriteString("].\n\n")
	}
	b.WriteString("(* methods of *merklize.Merklizer with the receiver fields they write *)\n")
	wr("generated_merklizer_methods", sk.MerklizerMeths)
	b.WriteString("(* methods of *loaders.documentLoader with the receiver fields they write *)\n")
	wr("generated_loader_methods", sk.LoaderMeths)
	b.WriteString("(* methods of *loaders.documentLoader with the assignments they make through a local variable whose latest\n   assignment (in source order) came from cacheEngine.Get or from a method of documentLoader returning a\n   pointer, i.e. through a document that may be the shared cache entry: \"variable.field\" *)\n")
	wr("generated_loader_shared_writes", sk.LoaderShared)
	b.WriteString("(* method calls made on package variables (listed, not judged by the translator) *)\n")
	fmt.Fprintf(&b, "Definition generated_calls_on_pkg_vars : list string :=\n  %s.\n\n", strList(sk.MethodCallsOn))
	b.WriteString("(* files not analysed because their build constraint excludes them from a build without custom tags\n   (verification hooks, //go:build verif) *)\n")
	fmt.Fprintf(&b, "Definition generated_skipped_files : list string :=\n  %s.\n", strList(sk.Skipped))
	return b.String()
}

// Translate is the registered translator.  When the skeleton cannot be extracted the generated
// file is replaced by one that does not type-check (so that a stale skeleton can never be used
// by the proofs) and the error is returned (non-zero exit of the translation step).
func Translate(outDir string) error {
	path := filepath.Join(outDir, "CacheSkeleton.v")
	sk, err := Extract(common.RepoDir())
	if err != nil {
		msg := strings.ReplaceAll(err.Error(), "*)", "* )")
		broken := "(* GENERATED: the translator \"cache-skeleton\" could not extract the model from the Go source:\n   " + msg +
			"\n   This file deliberately does not type-check. *)\nFrom Coq Require Import String.\n" +
			"Definition skeleton_not_extractable : True := " + coqStr(err.Error()) + "%string.\n"
		_ = common.WriteIfChanged(path, []byte(broken))
		return err
	}
	return common.WriteIfChanged(path, []byte(Render(sk)))
}
