package main

import (
	"errors"
	"fmt"
	"strconv"
	"strings"
	"time"

	"github.com/iden3/go-schema-processor/v2/loaders"
	"github.com/piprate/json-gold/ld"
)

// Mode "handoff": small programs of Get/Set calls on ONE memoryCacheEngine, every thread in its
// own goroutine, executed one call at a time in the order of the call-level schedule (hand-over
// by channels).  The observations go to the Coq model Conc/Run.v (correspondence) and to the
// driver's abstract-map oracle.  Runs in this child process because a broken lock discipline can
// make the Go runtime abort (unlock of an unlocked mutex, concurrent map writes).

type hop struct {
	Set bool `json:"set,omitempty"`
	Key int  `json:"key"`
	Val int  `json:"val,omitempty"`
}

type handoffCase struct {
	Emb   []int   `json:"embedded"`
	Prog  [][]hop `json:"threads"`
	Sched []int   `json:"schedule"`
}

const (
	resSet  = 0
	resMiss = 1
	resEmb  = 2
	resHit  = 10
	resBad  = 997
)

func keyURL(k int) string { return fmt.Sprintf("https://example.com/c20/k%d", k) }

func doHop(eng loaders.CacheEngine, op hop) (res int) {
	defer func() {
		if r := recover(); r != nil {
			res = resBad + 1
		}
	}()
	if op.Set {
		err := eng.Set(keyURL(op.Key), &ld.RemoteDocument{DocumentURL: fmt.Sprintf("v%d", op.Val)}, time.Unix(1_000_000_000+int64(op.Val), 0))
		if err != nil {
			return resBad
		}
		return resSet
	}
	doc, exp, err := eng.Get(keyURL(op.Key))
	switch {
	case errors.Is(err, loaders.ErrCacheMiss):
		return resMiss
	case err != nil || doc == nil:
		return resBad
	case doc.DocumentURL == keyURL(op.Key):
		return resEmb
	}
	v, perr := strconv.Atoi(strings.TrimPrefix(doc.DocumentURL, "v"))
	if perr != nil || !exp.Equal(time.Unix(1_000_000_000+int64(v), 0)) {
		return resBad // document and expiry of different Sets
	}
	return resHit + v
}

func runOneHandoff(hc *handoffCase) ([]int, error) {
	var opts []loaders.MemoryCacheEngineOption
	for _, k := range hc.Emb {
		opts = append(opts, loaders.WithEmbeddedDocumentBytes(keyURL(k), []byte(fmt.Sprintf(`{"@context":{"k":%d}}`, k))))
	}
	eng, err := loaders.NewMemoryCacheEngine(opts...)
	if err != nil {
		return nil, err
	}
	n := len(hc.Prog)
	reqs := make([]chan hop, n)
	resp := make(chan int)
	for t := 0; t < n; t++ {
		reqs[t] = make(chan hop)
		go func(ch chan hop) {
			for op := range ch {
				resp <- doHop(eng, op)
			}
		}(reqs[t])
	}
	defer func() {
		for _, ch := range reqs {
			close(ch)
		}
	}()
	ptr := make([]int, n)
	obs := []int{}
	for _, t := range hc.Sched {
		if t < 0 || t >= n || ptr[t] >= len(hc.Prog[t]) {
			return nil, fmt.Errorf("schedule names thread %d which has no call left", t)
		}
		reqs[t] <- hc.Prog[t][ptr[t]]
		ptr[t]++
		select {
		case r := <-resp:
			obs = append(obs, r)
		case <-time.After(20 * time.Second):
			return nil, fmt.Errorf("call %d of thread %d did not return (lock never released?)", ptr[t]-1, t)
		}
	}
	return obs, nil
}

func runHandoff(cfg *config, out *output) error {
	out.Observations = make([][]int, 0, len(cfg.Cases))
	for i := range cfg.Cases {
		obs, err := runOneHandoff(&cfg.Cases[i])
		if err != nil {
			out.addMismatch(mismatch{Goroutine: -1, Op: i, Kind: "handoff-error", What: err.Error()})
			obs = []int{}
		}
		out.Evaluations += len(obs)
		out.Observations = append(out.Observations, obs)
	}
	return nil
}
