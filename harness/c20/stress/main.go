// Command c20stress is the concurrency stress test for property C20: many
// goroutines concurrently merklize documents, generate proofs from one shared
// merklizer, hash values and load contexts through one shared document loader
// and cache. It is meant to be built with -race (it also works without) and
// compares every concurrent result with a sequential oracle.
//
//	c20stress -cfg FILE
//
// FILE: {"mode":"mix"|"cache"|"replay"|"handoff" ("cases":[...], see handoff.go),"seed":S,"goroutines":N,"ops":K,
// "ttl_ms":T,"rounds":R,"threads":[[{"method":"Get"|"Set","key":"k"}]],
// "clock":"atomic"|"mono" (optional, cache/replay only),
// "fault":"lost-set"|"torn"|"stale" (optional self-test of the cache checker)}
//
// Exactly one JSON object is written to stdout; diagnostics go to stderr.
// Exit 0 normally (also with mismatches), 3 on setup/internal errors; the race
// detector turns the exit code into GORACE's exitcode when it saw a race.
package main

import (
	"encoding/json"
	"flag"
	"fmt"
	"os"
	"sort"
	"time"
)

type call struct {
	Method string `json:"method"`
	Key    string `json:"key"`
}

type config struct {
	Mode       string        `json:"mode"`
	Seed       int64         `json:"seed"`
	Goroutines int           `json:"goroutines"`
	Ops        int           `json:"ops"`
	TTLms      int           `json:"ttl_ms"`
	Rounds     int           `json:"rounds"`
	Threads    [][]call      `json:"threads"`
	Clock      string        `json:"clock"`
	Quiet      bool          `json:"quiet"` // mix: cache wrapper without counters
	Fault      string        `json:"fault"` // self-test of the cache checker only
	Cases      []handoffCase `json:"cases"` // mode "handoff"
}

type mismatch struct {
	Goroutine int    `json:"goroutine"`
	Op        int    `json:"op"`
	Kind      string `json:"kind"`
	What      string `json:"what"`
	Want      string `json:"want"`
	Got       string `json:"got"`
}

type output struct {
	Mode          string           `json:"mode"`
	Evaluations   int              `json:"evaluations"`
	Mismatches    []mismatch       `json:"mismatches"`
	MismatchCount int              `json:"mismatch_count"`
	Distribution  map[string]int64 `json:"distribution"`
	Samples       []map[string]any `json:"samples"`
	Distinct      int              `json:"distinct"`
	Panics        []string         `json:"panics"`
	ElapsedMs     int64            `json:"elapsed_ms"`
	Notes         []string         `json:"notes,omitempty"`
	LoaderLogs    []loaderLog      `json:"loader_logs,omitempty"`  // mix: logs of the versioned urls for the Coq loader model
	Observations  [][]int          `json:"observations,omitempty"` // mode "handoff": one list per case
}

const maxMismatches = 20
const maxPanics = 20

func (o *output) addMismatch(m mismatch) {
	o.MismatchCount++
	if len(o.Mismatches) < maxMismatches {
		m.Want = clip(m.Want, 300)
		m.Got = clip(m.Got, 300)
		m.What = clip(m.What, 300)
		o.Mismatches = append(o.Mismatches, m)
	}
}

func (o *output) addPanic(s string) {
	if len(o.Panics) < maxPanics {
		o.Panics = append(o.Panics, clip(s, 600))
	}
}

func clip(s string, n int) string {
	if len(s) <= n {
		return s
	}
	return s[:n] + fmt.Sprintf("...(+%d bytes)", len(s)-n)
}

func fatal(format string, a ...any) {
	fmt.Fprintf(os.Stderr, "c20stress: "+format+"\n", a...)
	os.Exit(3)
}

func main() {
	cfgPath := flag.String("cfg", "", "JSON configuration file")
	flag.Parse()
	if *cfgPath == "" {
		fatal("missing -cfg FILE")
	}
	b, err := os.ReadFile(*cfgPath)
	if err != nil {
		fatal("read cfg: %v", err)
	}
	var cfg config
	if err := json.Unmarshal(b, &cfg); err != nil {
		fatal("parse cfg: %v", err)
	}
	if cfg.Mode != "replay" && cfg.Mode != "handoff" {
		if cfg.Goroutines < 2 || cfg.Goroutines > 64 {
			fatal("goroutines must be in 2..64, got %d", cfg.Goroutines)
		}
		if cfg.Ops < 1 {
			fatal("ops must be >= 1, got %d", cfg.Ops)
		}
	}
	if cfg.TTLms < 0 || cfg.Rounds < 0 {
		fatal("ttl_ms and rounds must be >= 0")
	}
	switch cfg.Clock {
	case "", "atomic", "mono":
	default:
		fatal("clock must be \"atomic\" or \"mono\"")
	}

	out := &output{
		Mode:         cfg.Mode,
		Mismatches:   []mismatch{},
		Distribution: map[string]int64{},
		Samples:      []map[string]any{},
		Panics:       []string{},
	}
	start := time.Now()
	switch cfg.Mode {
	case "mix":
		err = runMix(&cfg, out)
	case "cache":
		err = runCache(&cfg, out)
	case "replay":
		err = runReplay(&cfg, out)
	case "handoff":
		err = runHandoff(&cfg, out)
	default:
		fatal("unknown mode %q", cfg.Mode)
	}
	if err != nil {
		fatal("%s: %v", cfg.Mode, err)
	}
	out.ElapsedMs = time.Since(start).Milliseconds()
	sort.Strings(out.Notes)
	enc := json.NewEncoder(os.Stdout)
	if err := enc.Encode(out); err != nil {
		fatal("encode output: %v", err)
	}
	fmt.Fprintf(os.Stderr, "c20stress: mode=%s evaluations=%d mismatches=%d panics=%d distinct=%d elapsed=%dms\n",
		out.Mode, out.Evaluations, out.MismatchCount, len(out.Panics), out.Distinct, out.ElapsedMs)
}
