package main

import (
	"bytes"
	"errors"
	"fmt"
	"io"
	"net/http"
	"sync/atomic"
	"time"

	"github.com/iden3/go-schema-processor/v2/loaders"
	"github.com/piprate/json-gold/ld"

	"vharness/ctxload"
)

// ---- offline HTTP stub ----------------------------------------------------

type stubEntry struct {
	body         []byte
	cacheControl string
	fetches      int64 // atomic
}

// stubTransport serves the ctxload context bytes for known URLs and 404 for
// everything else. The map is built before any goroutine starts and is
// read-only afterwards; only the atomic counters change.
type stubTransport struct {
	known    map[string]*stubEntry
	total    int64 // atomic: all round trips
	notFound int64 // atomic: 404 answers
}

// knownURLs in a fixed order (pool construction must be deterministic).
var knownURLs = []string{
	ctxload.URLCredentialsV1,
	ctxload.URLIden3Proofs,
	ctxload.URLKYCv3,
	ctxload.URLKYCv101,
	ctxload.URLIden3CredV2,
	ctxload.URLCitizenship,
	ctxload.URLDeliveryAddress,
}

// embeddedURL is the one context that lives in the memory cache engine as an
// embedded document (never fetched, never overwritten).
const embeddedURL = ctxload.URLIden3CredV2

func cacheControlFor(u string) string {
	switch u {
	case ctxload.URLKYCv101:
		return "no-store" // never cached: every load is a fetch
	case ctxload.URLDeliveryAddress:
		return "max-age=0" // cached with an expiry of "now": Set on every load, always stale
	default:
		return "max-age=3600"
	}
}

func newStub(raw *ctxload.Loader) (*stubTransport, error) {
	s := &stubTransport{known: map[string]*stubEntry{}}
	for _, u := range knownURLs {
		b := raw.Raw(u)
		if len(b) == 0 {
			return nil, fmt.Errorf("ctxload has no bytes for %s", u)
		}
		s.known[u] = &stubEntry{body: b, cacheControl: cacheControlFor(u)}
	}
	return s, nil
}

func (s *stubTransport) RoundTrip(req *http.Request) (*http.Response, error) {
	atomic.AddInt64(&s.total, 1)
	u := req.URL.String()
	e, ok := s.known[u]
	if !ok {
		atomic.AddInt64(&s.notFound, 1)
		body := []byte("not found")
		return &http.Response{
			Status: "404 Not Found", StatusCode: http.StatusNotFound,
			Proto: "HTTP/1.1", ProtoMajor: 1, ProtoMinor: 1,
			Header:        http.Header{"Content-Type": []string{"text/plain"}},
			Body:          io.NopCloser(bytes.NewReader(body)),
			ContentLength: int64(len(body)), Request: req,
		}, nil
	}
	atomic.AddInt64(&e.fetches, 1)
	h := http.Header{}
	h.Set("Content-Type", "application/ld+json")
	h.Set("Cache-Control", e.cacheControl)
	return &http.Response{
		Status: "200 OK", StatusCode: http.StatusOK,
		Proto: "HTTP/1.1", ProtoMajor: 1, ProtoMinor: 1,
		Header:        h,
		Body:          io.NopCloser(bytes.NewReader(e.body)),
		ContentLength: int64(len(e.body)), Request: req,
	}, nil
}

func (s *stubTransport) okFetches() int64 {
	return atomic.LoadInt64(&s.total) - atomic.LoadInt64(&s.notFound)
}

// ---- cache engine wrapper ---------------------------------------------------

// ttlEngine forwards to the engine under test. With ttl > 0 it clips the expiry
// passed to Set to now+ttl so that entries expire during the run. It has no
// state except atomic counters.
//
// Placement of the atomics is deliberate: the Go race detector treats atomic
// operations as synchronisation, so a counter update between two forwarded
// calls would order them and could hide a race of the engine. Set counts
// BEFORE forwarding and Get counts AFTER forwarding, hence the forwarded map
// write of one goroutine and the forwarded map read/write of another are never
// ordered by these counters.
type ttlEngine struct {
	inner loaders.CacheEngine
	ttl   time.Duration

	gets, hits, misses, expiredHits, getErrs int64
	sets, clipped                            int64
}

func (t *ttlEngine) Get(key string) (*ld.RemoteDocument, time.Time, error) {
	doc, exp, err := t.inner.Get(key)
	atomic.AddInt64(&t.gets, 1)
	switch {
	case err == nil:
		atomic.AddInt64(&t.hits, 1)
		if !exp.After(time.Now()) {
			atomic.AddInt64(&t.expiredHits, 1)
		}
	case errors.Is(err, loaders.ErrCacheMiss):
		atomic.AddInt64(&t.misses, 1)
	default:
		atomic.AddInt64(&t.getErrs, 1)
	}
	return doc, exp, err
}

func (t *ttlEngine) Set(key string, doc *ld.RemoteDocument, exp time.Time) error {
	atomic.AddInt64(&t.sets, 1)
	if t.ttl > 0 {
		if lim := time.Now().Add(t.ttl); exp.After(lim) {
			exp = lim
			atomic.AddInt64(&t.clipped, 1)
		}
	}
	return t.inner.Set(key, doc, exp)
}

// ---- loader construction ------------------------------------------------------

type loaderEnv struct {
	stub   *stubTransport
	engine *ttlEngine
	loader ld.DocumentLoader
}

// newLoaderEnv builds stub + memory cache engine (one embedded document) +
// wrapper + document loader. It is called twice: once for the sequential oracle
// and once for the shared loader of the concurrent phase.
func newLoaderEnv(raw *ctxload.Loader, ttl time.Duration) (*loaderEnv, error) {
	stub, err := newStub(raw)
	if err != nil {
		return nil, err
	}
	inner, err := loaders.NewMemoryCacheEngine(
		loaders.WithEmbeddedDocumentBytes(embeddedURL, raw.Raw(embeddedURL)))
	if err != nil {
		return nil, err
	}
	eng := &ttlEngine{inner: inner, ttl: ttl}
	l := loaders.NewDocumentLoader(nil, "",
		loaders.WithCacheEngine(eng),
		loaders.WithHTTPClient(&http.Client{Transport: stub}))
	return &loaderEnv{stub: stub, engine: eng, loader: l}, nil
}
