package main

import (
	"bytes"
	"crypto/sha256"
	"encoding/hex"
	"encoding/json"
	"errors"
	"fmt"
	"io"
	"net/http"
	"strings"
	"sync"
	"sync/atomic"
	"time"

	"github.com/iden3/go-schema-processor/v2/loaders"
	"github.com/piprate/json-gold/ld"

	"vharness/ctxload"
)

// ---- offline HTTP stub ----------------------------------------------------

type stubEntry struct {
	body         []byte
	cacheControl string        // "" = no Cache-Control header at all
	delay        time.Duration // artificial latency, so that loads of one URL overlap
	fetches      int64         // atomic

	// versioned origin: the body carries the number of the fetch that produced it; every failEvery-th
	// fetch (k % failEvery == 1) answers 503.  served is the origin's own log.
	versioned bool
	failEvery int64
	mu        sync.Mutex
	served    []servedRec
}

type servedRec struct {
	k          int64
	start, end int64 // nanoseconds since processStart
	status     int
}

var processStart = time.Now()

func sinceStart() int64 { return int64(time.Since(processStart)) }

const verPrefix = "https://example.org/c20/ver#"

func versionedBody(k int64) []byte {
	return []byte(fmt.Sprintf(`{"@context":{"ver":"%s%d"}}`, verPrefix, k))
}

// docVersion extracts the version from a document served by a versioned origin (0 if none).
func docVersion(d *ld.RemoteDocument) int64 {
	if d == nil {
		return 0
	}
	m, _ := d.Document.(map[string]any)
	c, _ := m["@context"].(map[string]any)
	v, _ := c["ver"].(string)
	if !strings.HasPrefix(v, verPrefix) {
		return 0
	}
	var k int64
	fmt.Sscanf(v[len(verPrefix):], "%d", &k)
	return k
}

// versionedURLs: origins whose content changes with every fetch.
var versionedURLs = []struct {
	url, cc   string
	failEvery int64
}{
	{"https://origin.example.org/c20/versioned-max-age-0.jsonld", "max-age=0", 0},
	{"https://origin.example.org/c20/versioned-cacheable.jsonld", "max-age=3600", 0}, // expires through the TTL knob only
	{"https://origin.example.org/c20/versioned-flaky.jsonld", "max-age=0", 4},        // 503, 200, 200, 200, 503, ...
}

func isVersionedURL(u string) bool {
	for _, v := range versionedURLs {
		if v.url == u {
			return true
		}
	}
	return false
}

// stubTransport serves the ctxload context bytes for known URLs and 404 for
// everything else. The map is built before any goroutine starts and is
// read-only afterwards; only the atomic counters change.
type stubTransport struct {
	known    map[string]*stubEntry
	total    int64 // atomic: all round trips
	notFound int64 // atomic: 404 answers
}

// knownURLs in a fixed order (pool construction must be deterministic).
var knownURLs = []string{
	ctxload.URLCredentialsV1,
	ctxload.URLIden3Proofs,
	ctxload.URLKYCv3,
	ctxload.URLKYCv101,
	ctxload.URLIden3CredV2,
	ctxload.URLCitizenship,
	ctxload.URLDeliveryAddress,
}

// embeddedURL is the one context that lives in the memory cache engine as an
// embedded document (never fetched, never overwritten).
const embeddedURL = ctxload.URLIden3CredV2

// ---- IPFS: a gateway served by the HTTP stub, and a node client stub ----

const gwBase = "https://ipfs-gw.example.org"

// ipfsDoc: a resource available under ipfs://<cid>/<path> (path may be empty).
type ipfsDoc struct {
	cid, path, src string // src: ctxload URL whose bytes are served
}

var ipfsDocs = []ipfsDoc{
	{"QmC20StressCredentialsV1aaaaaaaaaaaaaaaaaaaaaaaaaa", "ctx/credentials.jsonld", ctxload.URLCredentialsV1},
	{"QmC20StressKycV3bbbbbbbbbbbbbbbbbbbbbbbbbbbbbbbbbb", "kyc-v3.json-ld", ctxload.URLKYCv3},
	{"QmC20StressCitizenshipcccccccccccccccccccccccccccc", "", ctxload.URLCitizenship},
}

func (d ipfsDoc) rel() string {
	if d.path == "" {
		return d.cid
	}
	return d.cid + "/" + d.path
}

// gatewayURL is where the loader fetches the resource when it is configured with a gateway.
func (d ipfsDoc) gatewayURL() string { return gwBase + "/ipfs/" + d.rel() }

// aliases: names under which the same resource can be requested through a loader with a gateway.
func (d ipfsDoc) aliases() []string {
	return []string{"ipfs://" + d.rel(), "ipfs:///" + d.rel(), d.gatewayURL()}
}

// ipfsCliStub implements loaders.IPFSClient from a read-only table.
type ipfsCliStub struct {
	docs map[string][]byte
	cats int64 // atomic
}

func newIPFSCli(raw *ctxload.Loader) *ipfsCliStub {
	c := &ipfsCliStub{docs: map[string][]byte{}}
	for _, d := range ipfsDocs {
		c.docs[d.rel()] = raw.Raw(d.src)
	}
	return c
}

func (c *ipfsCliStub) Cat(u string) (io.ReadCloser, error) {
	atomic.AddInt64(&c.cats, 1)
	b, ok := c.docs[strings.TrimLeft(u, "/")]
	if !ok {
		return nil, errors.New("ipfs stub: no such object")
	}
	return io.NopCloser(bytes.NewReader(b)), nil
}

// slowURLs: origins whose responses are not cacheable or short-lived, served with a small latency
// so that many goroutines have a load of the same URL in flight at the same time.  Every load of
// a healthy origin must succeed and return the origin's document, exactly as a sequential load.
var slowURLs = []struct{ url, cc string }{
	{"https://origin.example.org/c20/no-store.jsonld", "no-store"},
	{"https://origin.example.org/c20/no-cache.jsonld", "no-cache"},
	{"https://origin.example.org/c20/private.jsonld", "private, max-age=0"},
	{"https://origin.example.org/c20/no-freshness.jsonld", ""},
	{"https://origin.example.org/c20/max-age-1.jsonld", "max-age=1"},
}

func cacheControlFor(u string) string {
	switch u {
	case ctxload.URLKYCv101:
		return "no-store" // never cached: every load is a fetch
	case ctxload.URLDeliveryAddress:
		return "max-age=0" // cached with an expiry of "now": Set on every load, always stale
	default:
		return "max-age=3600"
	}
}

func newStub(raw *ctxload.Loader) (*stubTransport, error) {
	s := &stubTransport{known: map[string]*stubEntry{}}
	for _, u := range knownURLs {
		b := raw.Raw(u)
		if len(b) == 0 {
			return nil, fmt.Errorf("ctxload has no bytes for %s", u)
		}
		s.known[u] = &stubEntry{body: b, cacheControl: cacheControlFor(u)}
	}
	for _, d := range ipfsDocs {
		s.known[d.gatewayURL()] = &stubEntry{body: raw.Raw(d.src), cacheControl: "max-age=3600"}
	}
	for i, su := range slowURLs {
		s.known[su.url] = &stubEntry{body: raw.Raw(knownURLs[i%len(knownURLs)]), cacheControl: su.cc,
			delay: time.Duration(6+3*i) * time.Millisecond}
	}
	for i, v := range versionedURLs {
		s.known[v.url] = &stubEntry{cacheControl: v.cc, delay: time.Duration(6+2*i) * time.Millisecond,
			versioned: true, failEvery: v.failEvery}
	}
	s.known[ctxload.URLKYCv101].delay = 8 * time.Millisecond         // no-store
	s.known[ctxload.URLDeliveryAddress].delay = 5 * time.Millisecond // max-age=0
	return s, nil
}

func (s *stubTransport) RoundTrip(req *http.Request) (*http.Response, error) {
	atomic.AddInt64(&s.total, 1)
	u := req.URL.String()
	e, ok := s.known[u]
	if !ok {
		atomic.AddInt64(&s.notFound, 1)
		body := []byte("not found")
		return &http.Response{
			Status: "404 Not Found", StatusCode: http.StatusNotFound,
			Proto: "HTTP/1.1", ProtoMajor: 1, ProtoMinor: 1,
			Header:        http.Header{"Content-Type": []string{"text/plain"}},
			Body:          io.NopCloser(bytes.NewReader(body)),
			ContentLength: int64(len(body)), Request: req,
		}, nil
	}
	k := atomic.AddInt64(&e.fetches, 1)
	start := sinceStart()
	if e.delay > 0 {
		time.Sleep(e.delay)
	}
	body := e.body
	if e.versioned {
		status := http.StatusOK
		if e.failEvery > 0 && k%e.failEvery == 1 {
			status = http.StatusServiceUnavailable
		}
		body = versionedBody(k)
		e.mu.Lock()
		e.served = append(e.served, servedRec{k: k, start: start, end: sinceStart(), status: status})
		e.mu.Unlock()
		if status != http.StatusOK {
			msg := []byte("temporarily unavailable")
			return &http.Response{
				Status: "503 Service Unavailable", StatusCode: status,
				Proto: "HTTP/1.1", ProtoMajor: 1, ProtoMinor: 1,
				Header:        http.Header{"Content-Type": []string{"text/plain"}},
				Body:          io.NopCloser(bytes.NewReader(msg)),
				ContentLength: int64(len(msg)), Request: req,
			}, nil
		}
	}
	h := http.Header{}
	h.Set("Content-Type", "application/ld+json")
	if e.cacheControl != "" {
		h.Set("Cache-Control", e.cacheControl)
	}
	return &http.Response{
		Status: "200 OK", StatusCode: http.StatusOK,
		Proto: "HTTP/1.1", ProtoMajor: 1, ProtoMinor: 1,
		Header:        h,
		Body:          io.NopCloser(bytes.NewReader(body)),
		ContentLength: int64(len(body)), Request: req,
	}, nil
}

func (s *stubTransport) okFetches() int64 {
	return atomic.LoadInt64(&s.total) - atomic.LoadInt64(&s.notFound)
}

// ---- cache engine wrapper ---------------------------------------------------

// ttlEngine forwards to the engine under test. With ttl > 0 it clips the expiry
// passed to Set to now+ttl so that entries expire during the run. It has no
// state except atomic counters.
//
// Placement of the atomics is deliberate: the Go race detector treats atomic
// operations as synchronisation, so a counter update between two forwarded
// calls would order them and could hide a race of the engine. Set counts
// BEFORE forwarding and Get counts AFTER forwarding, hence the forwarded map
// write of one goroutine and the forwarded map read/write of another are never
// ordered by these counters.
type ttlEngine struct {
	inner loaders.CacheEngine
	ttl   time.Duration
	quiet bool // no counters at all: atomics are synchronisation for the race detector and can hide races

	gets, hits, misses, expiredHits, getErrs int64
	sets, clipped                            int64

	// every document handed to Set with a digest of a deep copy taken at that moment; compared
	// after the run (cached documents are shared by pointer and must never be modified).  The
	// mutex only orders Sets among themselves, which the engine's own write lock does anyway.
	snapMu sync.Mutex
	snaps  []docSnap
}

type docSnap struct {
	key    string
	doc    *ld.RemoteDocument
	digest string
	exp    int64 // expiry handed to the engine, nanoseconds since processStart
}

func docDigest(d *ld.RemoteDocument) string {
	if d == nil {
		return "nil"
	}
	b, err := json.Marshal(d.Document)
	if err != nil {
		return "marshal-error:" + err.Error()
	}
	sum := sha256.Sum256(b)
	return "url=" + d.DocumentURL + ";ctx=" + d.ContextURL + ";sha256=" + hex.EncodeToString(sum[:])
}

// mutated returns a description of every stored document that no longer equals the copy taken
// when it was stored.  Call only when no goroutine uses the loader any more.
func (t *ttlEngine) mutated() []string {
	t.snapMu.Lock()
	defer t.snapMu.Unlock()
	var bad []string
	for _, s := range t.snaps {
		if now := docDigest(s.doc); now != s.digest {
			bad = append(bad, fmt.Sprintf("cache entry %s: stored {%s}, now {%s}", s.key, s.digest, now))
		}
	}
	return bad
}

func (t *ttlEngine) Get(key string) (*ld.RemoteDocument, time.Time, error) {
	doc, exp, err := t.inner.Get(key)
	if t.quiet {
		return doc, exp, err
	}
	atomic.AddInt64(&t.gets, 1)
	switch {
	case err == nil:
		atomic.AddInt64(&t.hits, 1)
		if !exp.After(time.Now()) {
			atomic.AddInt64(&t.expiredHits, 1)
		}
	case errors.Is(err, loaders.ErrCacheMiss):
		atomic.AddInt64(&t.misses, 1)
	default:
		atomic.AddInt64(&t.getErrs, 1)
	}
	return doc, exp, err
}

func (t *ttlEngine) Set(key string, doc *ld.RemoteDocument, exp time.Time) error {
	if !t.quiet {
		atomic.AddInt64(&t.sets, 1)
	}
	dg := docDigest(doc)
	if t.ttl > 0 {
		if lim := time.Now().Add(t.ttl); exp.After(lim) {
			exp = lim
			if !t.quiet {
				atomic.AddInt64(&t.clipped, 1)
			}
		}
	}
	t.snapMu.Lock()
	t.snaps = append(t.snaps, docSnap{key: key, doc: doc, digest: dg, exp: int64(exp.Sub(processStart))})
	t.snapMu.Unlock()
	return t.inner.Set(key, doc, exp)
}

// firstExpiry: for every version of a versioned URL, the expiry given when it was FIRST stored.
func (t *ttlEngine) firstExpiry(u string) map[int64]int64 {
	t.snapMu.Lock()
	defer t.snapMu.Unlock()
	m := map[int64]int64{}
	for _, s := range t.snaps {
		if s.key != u {
			continue
		}
		v := docVersion(s.doc)
		if _, seen := m[v]; !seen {
			m[v] = s.exp
		}
	}
	return m
}

// versionedRec is one load of a versioned URL: when it started and ended and what it returned.
type versionedRec struct {
	url     string
	ts, te  int64
	version int64  // 0 = the load failed
	detail  string // error class for failures
	who     string
}

// loaderLog is the log of one versioned url in one environment, for the Coq model
// (Conc/LoaderModel.v): stores in the order they happened, origin answers, loads.
type loaderLog struct {
	Env    string     `json:"env"`
	URL    string     `json:"url"`
	Stores [][2]int64 `json:"stores"` // version, expiry (ns since process start, clamped at 0)
	Serves [][4]int64 `json:"serves"` // version, start, end, ok
	Loads  [][3]int64 `json:"loads"`  // start, end, version (0 = failed)
}

func (env *loaderEnv) exportLogs(name string, recs []versionedRec) []loaderLog {
	var out []loaderLog
	for _, v := range versionedURLs {
		e := env.stub.known[v.url]
		if e == nil {
			continue
		}
		lg := loaderLog{Env: name, URL: v.url, Stores: [][2]int64{}, Serves: [][4]int64{}, Loads: [][3]int64{}}
		env.engine.snapMu.Lock()
		for _, s := range env.engine.snaps {
			if s.key == v.url {
				x := s.exp
				if x < 0 {
					x = 0
				}
				lg.Stores = append(lg.Stores, [2]int64{docVersion(s.doc), x})
			}
		}
		env.engine.snapMu.Unlock()
		e.mu.Lock()
		for _, s := range e.served {
			ok := int64(0)
			if s.status == http.StatusOK {
				ok = 1
			}
			lg.Serves = append(lg.Serves, [4]int64{s.k, s.start, s.end, ok})
		}
		e.mu.Unlock()
		for _, r := range recs {
			if r.url == v.url {
				lg.Loads = append(lg.Loads, [3]int64{r.ts, r.te, r.version})
			}
		}
		if len(lg.Loads) > 0 {
			out = append(out, lg)
		}
	}
	return out
}

// checkVersioned: every result must be explainable.  A version returned is either the one this
// very load fetched (the origin served it inside the load's interval) or a cached one, and a
// cached one can only be handed out if the load started before the expiry under which that
// version was stored.  A failed load needs an origin failure inside its interval.
func (env *loaderEnv) checkVersioned(recs []versionedRec) []mismatch {
	var bad []mismatch
	exp := map[string]map[int64]int64{}
	for _, r := range recs {
		e := env.stub.known[r.url]
		if e == nil {
			continue
		}
		if exp[r.url] == nil {
			exp[r.url] = env.engine.firstExpiry(r.url)
		}
		e.mu.Lock()
		served := append([]servedRec(nil), e.served...)
		e.mu.Unlock()
		own := func(status int, k int64) bool {
			for _, s := range served {
				if s.start >= r.ts && s.end <= r.te && s.status == status && (k == 0 || s.k == k) {
					return true
				}
			}
			return false
		}
		if r.version == 0 {
			if !own(http.StatusServiceUnavailable, 0) {
				bad = append(bad, mismatch{Goroutine: -1, Op: -1, Kind: "load-failed-on-healthy-origin",
					What: r.who + " load(" + r.url + ") failed (" + r.detail + ") although the origin answered no request of this load with an error",
					Want: "a document", Got: r.detail})
			}
			continue
		}
		if own(http.StatusOK, r.version) {
			continue
		}
		if x, ok := exp[r.url][r.version]; ok && r.ts < x {
			continue
		}
		x, stored := exp[r.url][r.version]
		bad = append(bad, mismatch{Goroutine: -1, Op: -1, Kind: "stale-version",
			What: fmt.Sprintf("%s load(%s) started at %dus and returned version %d, which this load did not fetch and which had expired (stored=%v, expiry %dus)",
				r.who, r.url, r.ts/1000, r.version, stored, x/1000),
			Want: "a version fetched by this load, or a cached version that had not expired when the load started", Got: fmt.Sprintf("version %d", r.version)})
	}
	return bad
}

// ---- loader construction ------------------------------------------------------

type loaderEnv struct {
	stub    *stubTransport
	cli     *ipfsCliStub
	engine  *ttlEngine // of loader
	engines []*ttlEngine
	loader  ld.DocumentLoader // HTTP + IPFS gateway (the main shared loader)
	cliLd   ld.DocumentLoader // HTTP + IPFS node client
	bothLd  ld.DocumentLoader // HTTP + IPFS node client + gateway (the client wins)
}

// newLoaderEnv builds stub + memory cache engines (one embedded document each) + wrappers +
// three document loaders that differ in their IPFS configuration.  It is called twice: once for
// the sequential oracle and once for the shared loaders of the concurrent phase.
func newLoaderEnv(raw *ctxload.Loader, ttl time.Duration, quiet bool) (*loaderEnv, error) {
	stub, err := newStub(raw)
	if err != nil {
		return nil, err
	}
	env := &loaderEnv{stub: stub, cli: newIPFSCli(raw)}
	mk := func() (*ttlEngine, error) {
		inner, err := loaders.NewMemoryCacheEngine(
			loaders.WithEmbeddedDocumentBytes(embeddedURL, raw.Raw(embeddedURL)))
		if err != nil {
			return nil, err
		}
		e := &ttlEngine{inner: inner, ttl: ttl, quiet: quiet}
		env.engines = append(env.engines, e)
		return e, nil
	}
	hc := &http.Client{Transport: stub}
	e1, err := mk()
	if err != nil {
		return nil, err
	}
	e2, err := mk()
	if err != nil {
		return nil, err
	}
	e3, err := mk()
	if err != nil {
		return nil, err
	}
	env.engine = e1
	env.loader = loaders.NewDocumentLoader(nil, gwBase+"/", loaders.WithCacheEngine(e1), loaders.WithHTTPClient(hc))
	env.cliLd = loaders.NewDocumentLoader(env.cli, "", loaders.WithCacheEngine(e2), loaders.WithHTTPClient(hc))
	env.bothLd = loaders.NewDocumentLoader(env.cli, gwBase, loaders.WithCacheEngine(e3), loaders.WithHTTPClient(hc))
	return env, nil
}
