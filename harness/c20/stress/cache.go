package main

import (
	"crypto/sha256"
	"encoding/hex"
	"encoding/json"
	"errors"
	"fmt"
	"math/rand"
	"sort"
	"sync"
	"sync/atomic"
	"time"

	"github.com/iden3/go-schema-processor/v2/loaders"
	"github.com/piprate/json-gold/ld"

	"vharness/ctxload"
)

// One recorded call on the cache engine.
type rec struct {
	g, i    int
	round   int
	set     bool
	key     string
	inv     int64              // logical invocation stamp
	resp    int64              // logical response stamp
	doc     *ld.RemoteDocument // Set: stored document; Get: returned document
	exp     time.Time          // Set: stored expiry; Get: returned expiry
	err     error
	docName string    // Set: DocumentURL given to the unique document
	wall    time.Time // Get: wall clock before the call (for the embedded expiry check)
}

// stamper yields logical time stamps.
//
// "atomic": one global atomic counter, as in the specification. Note that the
// race detector treats the atomic add as synchronisation, therefore two calls
// that do NOT overlap in real time become ordered (happens-before) and only
// genuinely overlapping calls can be reported as racing.
//
// "mono": the monotonic clock (time.Since(base), nanoseconds). It creates no
// happens-before edge at all, so every unsynchronised pair of calls in
// different goroutines is visible to the race detector. CLOCK_MONOTONIC is
// consistent across CPUs; equal stamps are treated as "overlapping" by the
// checker (all comparisons are strict), which keeps the conditions necessary.
type stamper struct {
	mono bool
	ctr  int64
	base time.Time
}

func (s *stamper) now() int64 {
	if s.mono {
		return int64(time.Since(s.base))
	}
	return atomic.AddInt64(&s.ctr, 1)
}

type cacheRig struct {
	engine  loaders.CacheEngine
	emb     *ld.RemoteDocument
	embHash string
	embURL  string
	st      *stamper
}

func docHash(d *ld.RemoteDocument) string {
	b, err := json.Marshal(d.Document)
	if err != nil {
		return "marshal-error"
	}
	s := sha256.Sum256(b)
	return hex.EncodeToString(s[:])
}

// faultyEngine is a deliberately broken engine used only to demonstrate that
// checkRecords is not vacuous (cfg "fault": "lost-set" | "torn" | "stale").
type faultyEngine struct {
	inner loaders.CacheEngine
	fault string
	n     int64
	mu    sync.Mutex
	first map[string]*ld.RemoteDocument
	fexp  map[string]time.Time
}

func (f *faultyEngine) Get(key string) (*ld.RemoteDocument, time.Time, error) {
	doc, exp, err := f.inner.Get(key)
	if err != nil {
		return doc, exp, err
	}
	switch f.fault {
	case "torn":
		if atomic.AddInt64(&f.n, 1)%50 == 0 {
			exp = exp.Add(time.Nanosecond)
		}
	case "stale":
		// remembers the first value seen per key and keeps serving it
		f.mu.Lock()
		defer f.mu.Unlock()
		if d, ok := f.first[key]; ok {
			return d, f.fexp[key], nil
		}
		f.first[key], f.fexp[key] = doc, exp
	}
	return doc, exp, err
}

func (f *faultyEngine) Set(key string, doc *ld.RemoteDocument, exp time.Time) error {
	if f.fault == "lost-set" && atomic.AddInt64(&f.n, 1)%50 == 0 {
		return nil
	}
	return f.inner.Set(key, doc, exp)
}

func newCacheRig(clock, fault string) (*cacheRig, error) {
	raw := ctxload.New()
	embURL := ctxload.URLCredentialsV1
	eng, err := loaders.NewMemoryCacheEngine(loaders.WithEmbeddedDocumentBytes(embURL, raw.Raw(embURL)))
	if err != nil {
		return nil, err
	}
	switch fault {
	case "":
	case "lost-set", "torn", "stale":
		eng = &faultyEngine{inner: eng, fault: fault, first: map[string]*ld.RemoteDocument{}, fexp: map[string]time.Time{}}
	default:
		return nil, fmt.Errorf("unknown fault %q", fault)
	}
	emb, _, err := eng.Get(embURL)
	if err != nil || emb == nil {
		return nil, fmt.Errorf("initial Get of the embedded document: doc=%v err=%v", emb, err)
	}
	return &cacheRig{engine: eng, emb: emb, embHash: docHash(emb), embURL: embURL,
		st: &stamper{mono: clock == "mono", base: time.Now()}}, nil
}

var expBase = time.Date(2030, 1, 1, 0, 0, 0, 0, time.UTC)

// doCall performs one engine call and returns its record.
func (c *cacheRig) doCall(g, i, round int, set bool, key string, uniq int64) (r rec) {
	r = rec{g: g, i: i, round: round, set: set, key: key}
	defer func() {
		if p := recover(); p != nil {
			r.resp = c.st.now()
			r.err = fmt.Errorf("panic: %v", p)
		}
	}()
	if set {
		r.docName = fmt.Sprintf("w%d-%d", g, uniq)
		r.doc = &ld.RemoteDocument{DocumentURL: r.docName, Document: map[string]any{"n": r.docName}}
		// unique expiry; some in the past, some in the future: the engine must not care
		r.exp = expBase.Add(time.Duration(int64(g)*10_000_000+uniq) * time.Microsecond)
		r.inv = c.st.now()
		r.err = c.engine.Set(key, r.doc, r.exp)
		r.resp = c.st.now()
		return r
	}
	r.wall = time.Now()
	r.inv = c.st.now()
	r.doc, r.exp, r.err = c.engine.Get(key)
	r.resp = c.st.now()
	return r
}

// keySets: the Sets on one key, sorted by invocation stamp, with
// sufMinResp[j] = min resp over sets[j:].
type keySets struct {
	sets       []*rec
	byDoc      map[*ld.RemoteDocument]*rec
	sufMinResp []int64
	minResp    int64
}

// checkRecords verifies necessary conditions of linearizability to an
// abstract map with one immutable embedded entry.
func (c *cacheRig) checkRecords(recs []rec, out *output) {
	byKey := map[string]*keySets{}
	for i := range recs {
		r := &recs[i]
		if !r.set || r.key == c.embURL {
			continue
		}
		ks := byKey[r.key]
		if ks == nil {
			ks = &keySets{byDoc: map[*ld.RemoteDocument]*rec{}}
			byKey[r.key] = ks
		}
		ks.sets = append(ks.sets, r)
		ks.byDoc[r.doc] = r
	}
	const inf = int64(1<<63 - 1)
	for _, ks := range byKey {
		sort.Slice(ks.sets, func(a, b int) bool { return ks.sets[a].inv < ks.sets[b].inv })
		ks.sufMinResp = make([]int64, len(ks.sets)+1)
		ks.sufMinResp[len(ks.sets)] = inf
		for j := len(ks.sets) - 1; j >= 0; j-- {
			m := ks.sufMinResp[j+1]
			if ks.sets[j].resp < m {
				m = ks.sets[j].resp
			}
			ks.sufMinResp[j] = m
		}
		ks.minResp = ks.sufMinResp[0]
	}
	bad := func(r *rec, what, want, got string) {
		out.addMismatch(mismatch{Goroutine: r.g, Op: r.i, Kind: "cache-linearizability",
			What: fmt.Sprintf("round %d %s(%q): %s", r.round, method(r), r.key, what), Want: want, Got: got})
	}
	for i := range recs {
		r := &recs[i]
		out.Evaluations++
		if r.set {
			out.Distribution["Set"]++
			if r.err != nil {
				bad(r, "Set returned an error", "nil", r.err.Error())
			}
			if r.key == c.embURL {
				out.Distribution["set_embedded"]++
			}
			if r.doc.DocumentURL != r.docName {
				bad(r, "stored document was modified", r.docName, r.doc.DocumentURL)
			}
			continue
		}
		out.Distribution["Get"]++
		if r.key == c.embURL {
			out.Distribution["get_embedded"]++
			switch {
			case r.err != nil:
				bad(r, "Get of the embedded key failed", "embedded document", r.err.Error())
			case r.doc != c.emb:
				bad(r, "Get of the embedded key returned another document", "embedded document", describe(r.doc))
			case !r.exp.After(r.wall.Add(59 * time.Minute)):
				bad(r, "embedded document reported as (nearly) expired", "expiry about one hour ahead", r.exp.Sub(r.wall).String())
			}
			continue
		}
		ks := byKey[r.key]
		switch {
		case errors.Is(r.err, loaders.ErrCacheMiss):
			out.Distribution["get_miss"]++
			if r.doc != nil {
				bad(r, "miss with a non-nil document", "nil", describe(r.doc))
			}
			if ks != nil && ks.minResp < r.inv {
				bad(r, "miss although a Set on the key had completed before the Get started",
					"hit", fmt.Sprintf("ErrCacheMiss (a Set responded at %d, Get invoked at %d)", ks.minResp, r.inv))
			}
		case r.err != nil:
			bad(r, "Get returned an error other than ErrCacheMiss", "nil or ErrCacheMiss", r.err.Error())
		default:
			out.Distribution["get_hit"]++
			if r.doc == nil {
				bad(r, "hit with a nil document", "document", "nil")
				continue
			}
			var w *rec
			if ks != nil {
				w = ks.byDoc[r.doc]
			}
			if w == nil {
				bad(r, "hit returned a document that no Set stored under this key", "a stored document", describe(r.doc))
				continue
			}
			if !r.exp.Equal(w.exp) {
				bad(r, "hit returned document and expiry of different Sets (torn pair)",
					w.exp.Format(time.RFC3339Nano), r.exp.Format(time.RFC3339Nano))
			}
			if r.doc.DocumentURL != w.docName {
				bad(r, "returned document was modified", w.docName, r.doc.DocumentURL)
			}
			if w.inv > r.resp {
				bad(r, "hit returned a value whose Set started after the Get responded",
					fmt.Sprintf("Set.inv < Get.resp=%d", r.resp), fmt.Sprintf("Set.inv=%d", w.inv))
			}
			// another Set on the key entirely between w and the Get: w.resp < w2.inv && w2.resp < r.inv
			j := sort.Search(len(ks.sets), func(j int) bool { return ks.sets[j].inv > w.resp })
			if ks.sufMinResp[j] < r.inv {
				bad(r, "stale read: another Set on the key lies entirely between the returned Set and the Get",
					"value of a later Set", fmt.Sprintf("%s (Set %d..%d, Get %d..%d, later Set responded at %d)",
						w.docName, w.inv, w.resp, r.inv, r.resp, ks.sufMinResp[j]))
			}
		}
	}
	// the embedded document itself must be untouched
	out.Evaluations++
	d, _, err := c.engine.Get(c.embURL)
	if err != nil || d != c.emb || d.DocumentURL != c.embURL || docHash(d) != c.embHash {
		out.addMismatch(mismatch{Goroutine: -1, Op: -1, Kind: "cache-linearizability",
			What: "embedded document changed during the run", Want: c.embURL + " " + c.embHash,
			Got: fmt.Sprintf("%s err=%v", describe(d), err)})
	}
}

func method(r *rec) string {
	if r.set {
		return "Set"
	}
	return "Get"
}

func describe(d *ld.RemoteDocument) string {
	if d == nil {
		return "nil"
	}
	return fmt.Sprintf("doc(%p,%s)", d, d.DocumentURL)
}

func collectPanics(recs []rec, out *output) {
	for i := range recs {
		if recs[i].err != nil && len(recs[i].err.Error()) > 6 && recs[i].err.Error()[:6] == "panic:" {
			out.addPanic(fmt.Sprintf("round %d goroutine %d op %d %s(%q): %v",
				recs[i].round, recs[i].g, recs[i].i, method(&recs[i]), recs[i].key, recs[i].err))
		}
	}
}

func addSamples(recs []rec, out *output) {
	seen := map[string]bool{}
	for i := range recs {
		r := &recs[i]
		if len(out.Samples) >= 5 {
			return
		}
		res := "ok"
		switch {
		case r.set:
			res = "stored " + r.docName
		case errors.Is(r.err, loaders.ErrCacheMiss):
			res = "miss"
		case r.err != nil:
			res = "error"
		default:
			res = "hit " + r.doc.DocumentURL
		}
		class := method(r) + res[:2]
		if r.key == "" || seen[class+r.key] {
			continue
		}
		seen[class+r.key] = true
		out.Samples = append(out.Samples, map[string]any{"goroutine": r.g, "op": r.i, "round": r.round,
			"method": method(r), "key": r.key, "inv": r.inv, "resp": r.resp, "result": clip(res, 100)})
	}
}

func countDistinct(recs []rec) int {
	d := map[string]bool{}
	for i := range recs {
		d[method(&recs[i])+"\x00"+recs[i].key] = true
	}
	return len(d)
}

// ---- mode "cache" -----------------------------------------------------------

func runCache(cfg *config, out *output) error {
	rounds := cfg.Rounds
	if rounds == 0 {
		rounds = 1
	}
	rig, err := newCacheRig(cfg.Clock, cfg.Fault)
	if err != nil {
		return err
	}
	krng := rand.New(rand.NewSource(cfg.Seed))
	nk := 4 + krng.Intn(3)
	keys := []string{rig.embURL}
	for i := 0; i < nk; i++ {
		keys = append(keys, fmt.Sprintf("https://example.org/k%d-%d", i, krng.Intn(1000)))
	}
	n, k := cfg.Goroutines, cfg.Ops
	rngs := make([]*rand.Rand, n)
	for g := range rngs {
		rngs[g] = rand.New(rand.NewSource(cfg.Seed*1000 + int64(g)))
	}
	var all []rec
	for r := 0; r < rounds; r++ {
		results := make([][]rec, n)
		start := make(chan struct{})
		var wg sync.WaitGroup
		for g := 0; g < n; g++ {
			wg.Add(1)
			go func(g int) {
				defer wg.Done()
				rng := rngs[g]
				mine := make([]rec, 0, k)
				<-start
				for i := 0; i < k; i++ {
					key := keys[rng.Intn(len(keys))]
					set := rng.Intn(100) < 40
					mine = append(mine, rig.doCall(g, i, r+1, set, key, int64(r)*int64(k)+int64(i)))
				}
				results[g] = mine
			}(g)
		}
		close(start)
		wg.Wait()
		for g := 0; g < n; g++ {
			all = append(all, results[g]...)
		}
	}
	rig.checkRecords(all, out)
	collectPanics(all, out)
	addSamples(all, out)
	out.Distinct = countDistinct(all)
	out.Distribution["keys"] = int64(len(keys))
	out.Notes = append(out.Notes, "clock="+clockName(cfg.Clock), "embedded key: "+rig.embURL)
	if cfg.Fault != "" {
		out.Notes = append(out.Notes, "SELF-TEST: deliberately faulty engine wrapper \""+cfg.Fault+"\"")
	}
	return nil
}

func clockName(c string) string {
	if c == "" {
		return "atomic"
	}
	return c
}

// ---- mode "replay" ----------------------------------------------------------

func runReplay(cfg *config, out *output) error {
	if len(cfg.Threads) < 1 || len(cfg.Threads) > 64 {
		return fmt.Errorf("replay needs 1..64 threads, got %d", len(cfg.Threads))
	}
	rounds := cfg.Rounds
	if rounds == 0 {
		rounds = 2000
	}
	clock := cfg.Clock
	if clock == "" {
		// default for replay: stamps that do not synchronise, so that every
		// cross-thread pair of calls stays visible to the race detector
		clock = "mono"
	}
	rig, err := newCacheRig(clock, cfg.Fault)
	if err != nil {
		return err
	}
	for t, th := range cfg.Threads {
		for j, c := range th {
			if c.Method != "Get" && c.Method != "Set" {
				return fmt.Errorf("threads[%d][%d]: method must be Get or Set, got %q", t, j, c.Method)
			}
		}
	}
	key := func(k string) string {
		if k == "@emb" || k == "emb" {
			return rig.embURL
		}
		return k
	}
	n := len(cfg.Threads)
	var all []rec
	for r := 0; r < rounds; r++ {
		results := make([][]rec, n)
		start := make(chan struct{})
		var wg sync.WaitGroup
		for g := 0; g < n; g++ {
			wg.Add(1)
			go func(g int) {
				defer wg.Done()
				th := cfg.Threads[g]
				mine := make([]rec, 0, len(th))
				<-start
				for i, c := range th {
					mine = append(mine, rig.doCall(g, i, r+1, c.Method == "Set", key(c.Key), int64(r)*int64(len(th))+int64(i)))
				}
				results[g] = mine
			}(g)
		}
		close(start)
		wg.Wait()
		for g := 0; g < n; g++ {
			all = append(all, results[g]...)
		}
	}
	rig.checkRecords(all, out)
	collectPanics(all, out)
	addSamples(all, out)
	out.Distinct = countDistinct(all)
	out.Distribution["rounds"] = int64(rounds)
	out.Distribution["threads"] = int64(n)
	out.Notes = append(out.Notes, "clock="+clock, "embedded key: "+rig.embURL+" (alias \"@emb\")")
	if cfg.Fault != "" {
		out.Notes = append(out.Notes, "SELF-TEST: deliberately faulty engine wrapper \""+cfg.Fault+"\"")
	}
	return nil
}
