package main

import (
	"context"
	"crypto/sha256"
	"encoding/hex"
	"encoding/json"
	"errors"
	"fmt"
	"math/big"
	"math/rand"
	"runtime"
	"strings"
	"sync"
	"time"

	"github.com/iden3/go-merkletree-sql/v2"
	"github.com/iden3/go-schema-processor/v2/merklize"
	"github.com/piprate/json-gold/ld"

	"vharness/ctxload"
)

const xsd = "http://www.w3.org/2001/XMLSchema#"

// mixEnv is what an operation runs against: a document loader and the shared
// merklizer. The oracle uses (oracleLoader, sharedMz), the concurrent phase
// (sharedLoader, a second merklizer built from the same document).
type mixEnv struct {
	loader ld.DocumentLoader // HTTP + IPFS gateway
	cliLd  ld.DocumentLoader // HTTP + IPFS node client
	bothLd ld.DocumentLoader // both
	mz     *merklize.Merklizer
	mzDoc  []byte
	paths  []merklize.Path // shared paths with spare capacity in their parts (see sharedPaths)
}

type op struct {
	kind string // merklize | merklize-default | proof | proof-resolve | hash | load
	arg  string // canonical argument (for "distinct" and reports)
	run  func(e *mixEnv) string
}

// errClass projects an error to a stable class (never the message).
func errClass(err error) string {
	var le *ld.JsonLdError
	if errors.As(err, &le) {
		return "error:jsonld:" + string(le.Code)
	}
	if errors.Is(err, merklize.ErrorEntryNotFound) {
		return "error:entry-not-found"
	}
	if errors.Is(err, merklize.ErrorUnsupportedType) {
		return "error:unsupported-type"
	}
	return "error"
}

func opMerklize(d testDoc, withOption bool) op {
	kind := "merklize"
	if !withOption {
		kind = "merklize-default"
	}
	return op{kind: kind, arg: d.Name, run: func(e *mixEnv) string {
		var opts []merklize.MerklizeOption
		if withOption {
			opts = append(opts, merklize.WithDocumentLoader(e.loader))
		}
		mz, err := merklize.MerklizeJSONLD(context.Background(), strings.NewReader(d.JSON), opts...)
		if err != nil {
			return errClass(err)
		}
		return "root:" + mz.Root().BigInt().String()
	}}
}

func renderValue(v merklize.Value) string {
	if v == nil {
		return "nil"
	}
	var s string
	switch {
	case v.IsString():
		x, _ := v.AsString()
		s = "string:" + x
	case v.IsInt64():
		x, _ := v.AsInt64()
		s = fmt.Sprintf("int64:%d", x)
	case v.IsBool():
		x, _ := v.AsBool()
		s = fmt.Sprintf("bool:%v", x)
	case v.IsTime():
		x, _ := v.AsTime()
		s = "time:" + x.UTC().Format(time.RFC3339Nano)
	case v.IsBigInt():
		x, _ := v.AsBigInt()
		s = "bigint:" + x.String()
	default:
		s = "unknown"
	}
	h, err := v.MtEntry()
	if err != nil {
		return s + "#error"
	}
	return s + "#" + h.String()
}

func proofObs(mz *merklize.Merklizer, p merklize.Path) string {
	proof, val, err := mz.Proof(context.Background(), p)
	if err != nil {
		return errClass(err)
	}
	var sb strings.Builder
	fmt.Fprintf(&sb, "ex=%v;val=%s;sib=[", proof.Existence, renderValue(val))
	for i, s := range proof.AllSiblings() {
		if i > 0 {
			sb.WriteByte(',')
		}
		sb.WriteString(s.BigInt().String())
	}
	sb.WriteString("]")
	if proof.NodeAux != nil {
		fmt.Fprintf(&sb, ";aux=%s/%s", proof.NodeAux.Key.BigInt().String(), proof.NodeAux.Value.BigInt().String())
	}
	// the proof must verify against the merklizer's root
	k, err := p.MtEntry()
	if err != nil {
		return sb.String() + ";vfy=keyerror"
	}
	v := big.NewInt(0)
	if proof.Existence && val != nil {
		if v, err = val.MtEntry(); err != nil {
			return sb.String() + ";vfy=valerror"
		}
	}
	fmt.Fprintf(&sb, ";vfy=%v", merkletree.VerifyProof(mz.Root(), proof, k, v))
	return sb.String()
}

// opProof uses a Path value built once at pool construction (read-only shared).
func opProof(arg string, p merklize.Path) op {
	return op{kind: "proof", arg: arg, run: func(e *mixEnv) string { return proofObs(e.mz, p) }}
}

// opProofResolve resolves the dotted path inside the goroutine through the
// loader of the environment, then asks the shared merklizer for the proof.
func opProofResolve(dotted string) op {
	return op{kind: "proof-resolve", arg: dotted, run: func(e *mixEnv) string {
		p, err := merklize.Options{DocumentLoader: e.loader}.NewPathFromDocument(e.mzDoc, dotted)
		if err != nil {
			return "resolve-" + errClass(err)
		}
		return proofObs(e.mz, p)
	}}
}

func opHash(datatype string, value any) op {
	arg := fmt.Sprintf("%s|%T|%v", strings.TrimPrefix(datatype, xsd), value, value)
	return op{kind: "hash", arg: arg, run: func(e *mixEnv) string {
		h, err := merklize.HashValue(datatype, value)
		if err != nil {
			return errClass(err)
		}
		return h.String()
	}}
}

// opProofMz resolves the dotted path with the shared merklizer itself (ResolveDocPath uses the
// merklizer's source document and loader) and also exercises its other read paths.
func opProofMz(dotted string) op {
	return op{kind: "proof-resolve", arg: "mz:" + dotted, run: func(e *mixEnv) string {
		p, err := e.mz.ResolveDocPath(dotted)
		if err != nil {
			return "resolve-" + errClass(err)
		}
		obs := proofObs(e.mz, p)
		if t, err := e.mz.JSONLDType(p); err != nil {
			obs += ";type=" + errClass(err)
		} else {
			obs += ";type=" + t
		}
		if rv, err := e.mz.RawValue(p); err != nil {
			obs += ";raw=" + errClass(err)
		} else {
			obs += fmt.Sprintf(";raw=%v", rv)
		}
		if _, err := e.mz.Entry(p); err != nil {
			obs += ";entry=" + errClass(err)
		} else {
			obs += ";entry=ok"
		}
		return obs
	}}
}

// probeIsolation: a Merklizer's answers must not change when other documents are merklized
// afterwards (no buffer or other state shared between merklizers).  Sequential and repeated a few
// times, because whether a recycled buffer is handed out again is up to the runtime.
func probeIsolation(valid []testDoc, loader ld.DocumentLoader, out *output) {
	if len(valid) < 2 {
		return
	}
	big := 0
	for i := range valid {
		if len(valid[i].JSON) > len(valid[big].JSON) && len(valid[i].Paths) > 0 {
			big = i
		}
	}
	obsOf := func(mz *merklize.Merklizer) string {
		var sb strings.Builder
		for _, d := range valid[big].Paths {
			p, err := mz.ResolveDocPath(d)
			if err != nil {
				sb.WriteString(d + "=resolve-" + errClass(err) + ";")
				continue
			}
			sb.WriteString(d + "=" + proofObs(mz, p) + ";")
		}
		return sb.String()
	}
	for attempt := 0; attempt < 6; attempt++ {
		mz, err := merklize.MerklizeJSONLD(context.Background(), strings.NewReader(valid[big].JSON), merklize.WithDocumentLoader(loader))
		if err != nil {
			return
		}
		before := obsOf(mz)
		for i := range valid {
			if i == big {
				continue
			}
			_, _ = merklize.MerklizeJSONLD(context.Background(), strings.NewReader(valid[i].JSON), merklize.WithDocumentLoader(loader))
			if after := obsOf(mz); after != before {
				out.addMismatch(mismatch{Goroutine: -1, Op: -1, Kind: "merklizer-changed-by-other-merklizations",
					What: "sequential: Merklizer of " + valid[big].Name + " answers differently after " + valid[i].Name + " was merklized (attempt " + fmt.Sprint(attempt+1) + ")",
					Want: before, Got: after})
				return
			}
		}
	}
}

// sharedPaths builds the paths every goroutine copies and extends.  Each has spare capacity in
// its slice of parts (it was grown by one Append), so an Append that wrote into the capacity
// shared by all copies would make the copies of different goroutines overwrite each other.
func sharedPaths(doc []byte, loader ld.DocumentLoader, dotted []string) ([]merklize.Path, int, error) {
	var out []merklize.Path
	p, err := merklize.NewPath("https://www.w3.org/2018/credentials#credentialSubject",
		"https://example.org/vocab#a", "https://example.org/vocab#b")
	if err != nil {
		return nil, 0, err
	}
	out = append(out, p)
	for _, d := range dotted {
		if rp, err := (merklize.Options{DocumentLoader: loader}).NewPathFromDocument(doc, d); err == nil {
			out = append(out, rp)
			break
		}
	}
	spare := 0
	for i := range out {
		if err := out[i].Append("https://example.org/vocab#list"); err != nil {
			return nil, 0, err
		}
		parts := out[i].Parts()
		spare += cap(parts) - len(parts)
	}
	return out, spare, nil
}

// opPathAppend copies a shared path, appends an index of its own and hashes the result (and asks
// the shared merklizer for a proof of that key).
func opPathAppend(j, idx int) op {
	return op{kind: "hash", arg: fmt.Sprintf("append|path%d|%d", j, idx), run: func(e *mixEnv) string {
		if j >= len(e.paths) {
			return "no-such-shared-path"
		}
		c := e.paths[j] // a copy of the Path value: shares the backing array of parts
		if err := c.Append(idx); err != nil {
			return errClass(err)
		}
		runtime.Gosched()
		h, err := c.MtEntry()
		if err != nil {
			return errClass(err)
		}
		return fmt.Sprintf("parts=%v;key=%s;%s", c.Parts(), h.String(), proofObs(e.mz, c))
	}}
}

// saltHasher is a third hasher: Poseidon with one more field element appended to every input of
// Hash.  Results that only depend on Hash (booleans, integers) differ from the default hasher's.
type saltHasher struct{ merklize.PoseidonHasher }

func (s saltHasher) Hash(in []*big.Int) (*big.Int, error) {
	return s.PoseidonHasher.Hash(append(append([]*big.Int{}, in...), big.NewInt(7)))
}

// opBool hashes a boolean under a given hasher through two library paths and checks the result
// against the hasher's own Hash([0|1]) computed directly: with several hashers in one process every
// hasher must get its own answer, whatever was hashed before by whom.
func opBool(name string, h merklize.Hasher, val bool) op {
	return op{kind: "hash", arg: fmt.Sprintf("bool|%s|%v", name, val), run: func(e *mixEnv) string {
		in := int64(0)
		if val {
			in = 1
		}
		want, err := h.Hash([]*big.Int{big.NewInt(in)})
		if err != nil {
			return errClass(err)
		}
		v, err := merklize.NewValue(h, val)
		if err != nil {
			return errClass(err)
		}
		got1, err := v.MtEntry()
		if err != nil {
			return errClass(err)
		}
		got2, err := merklize.HashValueWithHasher(h, xsd+"boolean", val)
		if err != nil {
			return errClass(err)
		}
		obs := fmt.Sprintf("value=%s;hashvalue=%s", got1, got2)
		if got1.Cmp(want) != 0 || got2.Cmp(want) != 0 {
			return selfCheck + fmt.Sprintf(" boolean %v under hasher %s: the hasher's own Hash gives %s, the library %s", val, name, want, obs)
		}
		return obs
	}}
}

// altHasher is a second hasher (Poseidon over the message with a marker byte in front).  Ops
// that configure it through merklize.Options run next to ops that use the package default, so a
// code path that lets a per-call option leak into the package-level default shows up as a data
// race and as a differing result.
type altHasher struct{ merklize.PoseidonHasher }

func (a altHasher) HashBytes(msg []byte) (*big.Int, error) {
	return a.PoseidonHasher.HashBytes(append([]byte{0x5a}, msg...))
}

func opPath(alt bool, parts ...any) op {
	arg := fmt.Sprintf("path|alt=%v|%v", alt, parts)
	return op{kind: "hash", arg: arg, run: func(e *mixEnv) string {
		var p merklize.Path
		var err error
		if alt {
			p, err = merklize.Options{Hasher: altHasher{}}.NewPath(parts...)
		} else {
			p, err = merklize.NewPath(parts...)
		}
		if err != nil {
			return errClass(err)
		}
		h, err := p.MtEntry()
		if err != nil {
			return errClass(err)
		}
		return h.String()
	}}
}

// versionedTag marks the observation of a load of a versioned URL: "<tag>url|ts|te|version|detail".
const versionedTag = "versioned:"

func parseVersioned(obs, who string) (versionedRec, bool) {
	if !strings.HasPrefix(obs, versionedTag) {
		return versionedRec{}, false
	}
	f := strings.SplitN(obs[len(versionedTag):], "|", 5)
	if len(f) != 5 {
		return versionedRec{}, false
	}
	r := versionedRec{url: f[0], detail: f[4], who: who}
	fmt.Sscanf(f[1], "%d", &r.ts)
	fmt.Sscanf(f[2], "%d", &r.te)
	fmt.Sscanf(f[3], "%d", &r.version)
	return r, true
}

// selfCheck marks an observation that violates the property by itself (whatever the oracle says).
const selfCheck = "SELF-CHECK-FAILED:"

// opLoad loads u through one of the shared loaders ("gw", "cli", "both").  The document handed
// back must carry the URL that was asked for (no redirects in the stub): a DocumentURL that
// belongs to another name of the same resource means that a shared cached document was modified
// or handed out under the wrong name.
func opLoad(which, u string) op {
	arg := u
	if which != "gw" {
		arg = which + ":" + u
	}
	return op{kind: "load", arg: arg, run: func(e *mixEnv) string {
		l := e.loader
		switch which {
		case "cli":
			l = e.cliLd
		case "both":
			l = e.bothLd
		}
		if isVersionedURL(u) {
			// content changes with every fetch: the result is judged afterwards (checkVersioned)
			ts := sinceStart()
			doc, err := l.LoadDocument(u)
			te := sinceStart()
			if err != nil {
				return fmt.Sprintf("%s%s|%d|%d|0|%s", versionedTag, u, ts, te, errClass(err))
			}
			return fmt.Sprintf("%s%s|%d|%d|%d|url=%s", versionedTag, u, ts, te, docVersion(doc), doc.DocumentURL)
		}
		doc, err := l.LoadDocument(u)
		if err != nil {
			return errClass(err)
		}
		if doc == nil {
			return "nil-document"
		}
		url := doc.DocumentURL
		b, err := json.Marshal(doc.Document)
		if err != nil {
			return "marshal-error"
		}
		sum := sha256.Sum256(b)
		obs := "sha256=" + hex.EncodeToString(sum[:]) + ";url=" + url + ";ctx=" + doc.ContextURL
		if url != u {
			return selfCheck + " LoadDocument(" + u + ") returned a document whose DocumentURL is " + url + "; " + obs
		}
		return obs
	}}
}

// buildPool builds the operation pool deterministically from the seed.
func buildPool(seed int64, sharedDoc testDoc, resolve func(dotted string) (merklize.Path, error)) ([]op, map[string][]int, error) {
	rng := rand.New(rand.NewSource(seed))
	var pool []op
	add := func(o op) { pool = append(pool, o) }

	// (a) merklize, with the loader option and through the default loader
	for _, d := range testDocs {
		add(opMerklize(d, true))
		add(opMerklize(d, false))
	}

	// (b) proofs from the shared merklizer
	for _, dotted := range sharedDoc.Paths {
		p, err := resolve(dotted)
		if err == nil {
			add(opProof("doc:"+dotted, p))
		}
		add(opProofResolve(dotted))
		add(opProofMz(dotted))
	}
	absent := [][]any{
		{"https://www.w3.org/2018/credentials#credentialSubject", "https://example.com/absent#field"},
		{"urn:absent"},
		{"https://www.w3.org/2018/credentials#credentialSubject", 7, "https://example.com/absent#x"},
	}
	for i := 0; i < 5; i++ {
		absent = append(absent, []any{fmt.Sprintf("https://example.com/vocab#r%d", rng.Intn(1_000_000)), rng.Intn(4)})
	}
	for _, parts := range absent {
		p, err := merklize.NewPath(parts...)
		if err != nil {
			return nil, nil, fmt.Errorf("NewPath(%v): %v", parts, err)
		}
		add(opProof(fmt.Sprintf("parts:%v", parts), p))
	}

	// (c) standalone value hashing
	words := []string{"", "abc", "hello world", "ünï", "did:example:b34ca6cd37bbf23", "1234", "true"}
	for _, w := range words {
		add(opHash(xsd+"string", w))
	}
	add(opHash(xsd+"string", fmt.Sprintf("rnd-%d", rng.Int63())))
	add(opHash("", "no datatype"))
	for _, v := range []any{int64(0), int64(19960424), int64(-5), int(42), "123", "-77", "abc", float64(5),
		"21888242871839275222246405745257275088548364400416034343698204186575808495617"} {
		add(opHash(xsd+"integer", v))
	}
	add(opHash(xsd+"integer", rng.Int63()))
	add(opHash(xsd+"integer", -rng.Int63()))
	add(opHash(xsd+"positiveInteger", int64(7)))
	add(opHash(xsd+"positiveInteger", int64(-7)))
	add(opHash(xsd+"nonNegativeInteger", "0"))
	for _, v := range []any{true, false, "true", "false", "1", "0", "maybe"} {
		add(opHash(xsd+"boolean", v))
	}
	for _, v := range []any{"2019-12-03T12:19:52Z", "2261-03-21T21:14:48+02:00", "2031-05-06T07:08:09.123Z", "1958-07-17", "not a date"} {
		add(opHash(xsd+"dateTime", v))
	}
	add(opHash(xsd+"dateTime", time.Unix(rng.Int63n(4_000_000_000), 0).UTC().Format(time.RFC3339)))
	for _, v := range []any{float64(170000), "1.7E5", int64(3), uint32(9), "x", float64(0.1)} {
		add(opHash(xsd+"double", v))
	}
	add(opHash(xsd+"double", float64(rng.Intn(1_000_000))/8))
	add(opHash(xsd+"string", []byte("unsupported go type")))
	for _, val := range []bool{true, false} {
		add(opBool("poseidon", merklize.PoseidonHasher{}, val))
		add(opBool("salted", saltHasher{}, val))
		add(opBool("alt", altHasher{}, val))
	}
	for j := 0; j < 2; j++ {
		for idx := 0; idx < 16; idx++ {
			add(opPathAppend(j, idx))
		}
	}
	for _, alt := range []bool{false, true} {
		add(opPath(alt, "https://www.w3.org/2018/credentials#credentialSubject", "https://example.org/vocab#name"))
		add(opPath(alt, "https://example.org/vocab#list", 3, "https://example.org/vocab#item"))
		add(opPath(alt, "https://example.org/vocab#"+fmt.Sprint(rng.Intn(1000))))
	}

	// (d) loading through the loader
	for _, u := range knownURLs {
		add(opLoad("gw", u))
	}
	add(opLoad("gw", urlUnknown))
	for _, su := range slowURLs {
		add(opLoad("gw", su.url))
	}
	for _, v := range versionedURLs {
		add(opLoad("gw", v.url))
	}
	add(opLoad("gw", "ftp://example.org/unsupported-scheme"))
	add(opLoad("gw", "ipfs://QmeMevwUeD7o6hjfmdaeFD1q4L84hSDiRjeXZLi1bZK1My"))
	// the same IPFS resources under all their names, through a gateway, a node client, and both
	for _, d := range ipfsDocs {
		for _, a := range d.aliases() {
			add(opLoad("gw", a))
			add(opLoad("both", a))
			if strings.HasPrefix(a, "ipfs:") {
				add(opLoad("cli", a))
			}
		}
	}
	add(opLoad("cli", "ipfs://QmeMevwUeD7o6hjfmdaeFD1q4L84hSDiRjeXZLi1bZK1My"))
	add(opLoad("cli", knownURLs[0]))

	byKind := map[string][]int{}
	for i, o := range pool {
		byKind[o.kind] = append(byKind[o.kind], i)
	}
	return pool, byKind, nil
}

// kind weights for drawing an operation (percent).
var kindWeights = []struct {
	kind string
	w    int
}{
	{"merklize", 20}, {"merklize-default", 10},
	{"proof", 15}, {"proof-resolve", 10},
	{"hash", 20}, {"load", 25},
}

func draw(rng *rand.Rand, byKind map[string][]int) int {
	x := rng.Intn(100)
	for _, kw := range kindWeights {
		if x < kw.w {
			l := byKind[kw.kind]
			return l[rng.Intn(len(l))]
		}
		x -= kw.w
	}
	l := byKind["hash"]
	return l[rng.Intn(len(l))]
}

type opResult struct {
	op    int
	obs   string
	panic string
	durUs int64
}

func safeRun(o *op, e *mixEnv) (obs string, pan string) {
	defer func() {
		if r := recover(); r != nil {
			pan = fmt.Sprintf("%s(%s): %v", o.kind, o.arg, r)
			obs = "panic"
		}
	}()
	return o.run(e), ""
}

func runMix(cfg *config, out *output) error {
	rounds := cfg.Rounds
	if rounds == 0 {
		rounds = 1
	}
	ttl := time.Duration(cfg.TTLms) * time.Millisecond
	raw := ctxload.New()

	// ---- oracle environment (fresh loader/cache of the same configuration) ----
	oenv, err := newLoaderEnv(raw, ttl, cfg.Quiet)
	if err != nil {
		return err
	}

	// the ONE shared merklizer, created once, with the oracle's loader so that
	// the shared cache stays cold. Proof() never touches the loader.
	var valid []testDoc
	for _, d := range testDocs {
		if d.Valid {
			valid = append(valid, d)
		}
	}
	sharedDoc := valid[int(uint64(cfg.Seed)%uint64(len(valid)))]
	sharedMz, err := merklize.MerklizeJSONLD(context.Background(), strings.NewReader(sharedDoc.JSON),
		merklize.WithDocumentLoader(oenv.loader))
	if err != nil {
		return fmt.Errorf("shared merklizer (%s): %v", sharedDoc.Name, err)
	}

	pool, byKind, err := buildPool(cfg.Seed, sharedDoc, func(dotted string) (merklize.Path, error) {
		return merklize.Options{DocumentLoader: oenv.loader}.NewPathFromDocument([]byte(sharedDoc.JSON), dotted)
	})
	if err != nil {
		return err
	}
	for _, kw := range kindWeights {
		if len(byKind[kw.kind]) == 0 {
			return fmt.Errorf("empty op kind %s", kw.kind)
		}
	}

	// ---- sequential oracle: every op of the pool, one goroutine ----
	merklize.SetDocumentLoader(oenv.loader) // default-loader ops of the oracle use the oracle's loader
	probeIsolation(valid, oenv.loader, out)
	oPaths, spare, err := sharedPaths([]byte(sharedDoc.JSON), oenv.loader, sharedDoc.Paths)
	if err != nil {
		return fmt.Errorf("shared paths: %v", err)
	}
	out.Distribution["shared_paths"] = int64(len(oPaths))
	out.Distribution["shared_paths_spare_capacity"] = int64(spare)
	oracleEnv := &mixEnv{loader: oenv.loader, cliLd: oenv.cliLd, bothLd: oenv.bothLd, mz: sharedMz, mzDoc: []byte(sharedDoc.JSON), paths: oPaths}
	want := make([]string, len(pool))
	var oracleRecs, sharedRecs []versionedRec
	t0 := time.Now()
	var mzDur time.Duration
	var mzCnt int
	// the answers of the shared merklizer before any other document is merklized: merklizing other
	// documents afterwards must not change them (buffers or state shared between merklizers)
	pristine := map[int]string{}
	for i := range pool {
		if pool[i].kind == "proof" || pool[i].kind == "proof-resolve" {
			pristine[i], _ = safeRun(&pool[i], oracleEnv)
		}
	}
	for i := range pool {
		ts := time.Now()
		obs, pan := safeRun(&pool[i], oracleEnv)
		if pan != "" {
			out.addPanic("oracle: " + pan)
		}
		if vr, ok := parseVersioned(obs, "sequential oracle:"); ok {
			oracleRecs = append(oracleRecs, vr)
			obs = versionedTag
		}
		want[i] = obs
		if strings.HasPrefix(obs, selfCheck) {
			out.addMismatch(mismatch{Goroutine: -1, Op: i, Kind: "self-check",
				What: "sequential oracle: " + pool[i].kind + "(" + pool[i].arg + ")", Want: "the operation's own expectation (see got)", Got: obs})
		}
		if strings.HasPrefix(pool[i].kind, "merklize") {
			mzDur += time.Since(ts)
			mzCnt++
		}
	}
	for i, p0 := range pristine {
		if want[i] != p0 {
			out.addMismatch(mismatch{Goroutine: -1, Op: i, Kind: "merklizer-changed-by-other-merklizations",
				What: "sequential oracle: " + pool[i].kind + "(" + pool[i].arg + ") on the shared merklizer before and after other documents were merklized",
				Want: p0, Got: want[i]})
		}
	}
	// run the oracle a second time: the expected values themselves must be
	// deterministic (warm oracle cache vs cold oracle cache)
	for i := range pool {
		obs, _ := safeRun(&pool[i], oracleEnv)
		if vr, ok := parseVersioned(obs, "sequential oracle (second pass):"); ok {
			oracleRecs = append(oracleRecs, vr)
			obs = versionedTag
		}
		if strings.HasPrefix(obs, selfCheck) && obs != want[i] {
			out.addMismatch(mismatch{Goroutine: -1, Op: i, Kind: "self-check",
				What: "sequential oracle (second pass): " + pool[i].kind + "(" + pool[i].arg + ")", Want: "the operation's own expectation (see got)", Got: obs})
		}
		if obs != want[i] {
			out.addMismatch(mismatch{Goroutine: -1, Op: i, Kind: "oracle-nondeterministic",
				What: pool[i].kind + "(" + pool[i].arg + ")", Want: want[i], Got: obs})
		}
	}
	out.Distribution["oracle_ms"] = time.Since(t0).Milliseconds()
	if mzCnt > 0 {
		out.Distribution["oracle_merklize_avg_us"] = (mzDur / time.Duration(mzCnt)).Microseconds()
	}
	out.Distribution["pool_size"] = int64(len(pool))
	out.Distribution["oracle_http_fetches"] = oenv.stub.okFetches()

	// ---- concurrent phase ----
	senv, err := newLoaderEnv(raw, ttl, cfg.Quiet)
	if err != nil {
		return err
	}
	merklize.SetDocumentLoader(senv.loader) // once, before any goroutine starts
	// the merklizer shared by the goroutines is a second one built from the same document and
	// untouched until they start (the oracle used sharedMz), so that lazily initialised state
	// inside a Merklizer is first written during the concurrent phase
	concMz, err := merklize.MerklizeJSONLD(context.Background(), strings.NewReader(sharedDoc.JSON),
		merklize.WithDocumentLoader(oenv.loader))
	if err != nil {
		return fmt.Errorf("shared merklizer (%s): %v", sharedDoc.Name, err)
	}
	sPaths, _, err := sharedPaths([]byte(sharedDoc.JSON), oenv.loader, sharedDoc.Paths)
	if err != nil {
		return fmt.Errorf("shared paths: %v", err)
	}
	sharedEnv := &mixEnv{loader: senv.loader, cliLd: senv.cliLd, bothLd: senv.bothLd, mz: concMz, mzDoc: []byte(sharedDoc.JSON), paths: sPaths}

	n, k := cfg.Goroutines, cfg.Ops
	rngs := make([]*rand.Rand, n)
	for g := range rngs {
		rngs[g] = rand.New(rand.NewSource(cfg.Seed*1000 + int64(g)))
	}
	distinct := map[string]bool{}
	var prevFetches int64
	var mzOps []int // read-path operations on the shared merklizer
	for _, i := range byKind["proof-resolve"] {
		if strings.HasPrefix(pool[i].arg, "mz:") {
			mzOps = append(mzOps, i)
		}
	}
	var ipfsOps []int // loads of IPFS resources (all aliases) through the loader with a gateway
	for _, i := range byKind["load"] {
		if strings.HasPrefix(pool[i].arg, "ipfs://") && strings.Contains(pool[i].arg, "QmC20Stress") || strings.HasPrefix(pool[i].arg, gwBase) {
			ipfsOps = append(ipfsOps, i)
		}
	}
	var versionedOps []int // loads of origins whose content changes with every fetch
	for _, i := range byKind["load"] {
		if isVersionedURL(pool[i].arg) {
			versionedOps = append(versionedOps, i)
		}
	}
	var appendIdx []int // copy-and-Append operations on the shared paths
	for _, i := range byKind["hash"] {
		if strings.HasPrefix(pool[i].arg, "append|") {
			appendIdx = append(appendIdx, i)
		}
	}
	var slowOps []int // loads of slow origins whose responses are not cacheable / short-lived
	for _, i := range byKind["load"] {
		a := pool[i].arg
		if strings.HasPrefix(a, "https://origin.example.org/c20/") || a == ctxload.URLKYCv101 || a == ctxload.URLDeliveryAddress {
			slowOps = append(slowOps, i)
		}
	}
	for r := 0; r < rounds; r++ {
		results := make([][]opResult, n)
		start := make(chan struct{})
		var wg sync.WaitGroup
		tr := time.Now()
		for g := 0; g < n; g++ {
			wg.Add(1)
			results[g] = make([]opResult, 0, k)
			go func(g int) {
				defer wg.Done()
				rng := rngs[g]
				mine := results[g]
				<-start
				for i := 0; i < k; i++ {
					idx := draw(rng, byKind)
					if i == 0 && r == 0 && len(mzOps) > 0 {
						// everybody starts on the untouched shared merklizer at the same moment
						idx = mzOps[rng.Intn(len(mzOps))]
					}
					if i == k-1 && k > 5 && len(mzOps) > 0 {
						// the last operation reads the shared merklizer again, after everybody has
						// merklized other documents (buffers or state shared between merklizers)
						idx = mzOps[rng.Intn(len(mzOps))]
					}
					if i == 7 && k > 8 && len(appendIdx) > 0 {
						// everybody extends a copy of the same shared path by an index of its own
						idx = appendIdx[(g+16*rng.Intn(2))%len(appendIdx)]
					}
					if (i == 3 || (i == 0 && r > 0)) && len(versionedOps) > 0 {
						// thundering herd on an origin whose content changes: right after the start of
						// a later round (entries of the previous round have expired) and once more
						idx = versionedOps[rng.Intn(len(versionedOps))]
					} else if i == 4 && len(slowOps) > 0 {
						// ... and then everybody loads one of the few slow, uncacheable origins: many
						// loads of one URL are in flight together
						idx = slowOps[rng.Intn(len(slowOps))]
					}
					if (i == 2 || i == 6) && len(byKind["merklize"]) > 0 {
						// everybody merklizes some document while the others do
						idx = byKind["merklize"][rng.Intn(len(byKind["merklize"]))]
					}
					if (i == 1 || i == 5) && len(ipfsOps) > 0 {
						// ... and then loads the same few IPFS resources under their different names
						// (first cold, then from the warm cache) together with everybody else
						idx = ipfsOps[rng.Intn(len(ipfsOps))]
					}
					ts := time.Now()
					obs, pan := safeRun(&pool[idx], sharedEnv)
					mine = append(mine, opResult{op: idx, obs: obs, panic: pan, durUs: time.Since(ts).Microseconds()})
				}
				results[g] = mine
			}(g)
		}
		close(start)
		wg.Wait()
		out.Distribution[fmt.Sprintf("round%d_ms", r+1)] = time.Since(tr).Milliseconds()
		f := senv.stub.okFetches()
		out.Distribution[fmt.Sprintf("round%d_http_fetches", r+1)] = f - prevFetches
		prevFetches = f

		// merge (single goroutine, after wg.Wait)
		var mzUs, mzN int64
		for g := 0; g < n; g++ {
			for i, res := range results[g] {
				o := &pool[res.op]
				out.Evaluations++
				out.Distribution[o.kind]++
				distinct[o.kind+"\x00"+o.arg] = true
				if strings.HasPrefix(o.kind, "merklize") {
					mzUs += res.durUs
					mzN++
				}
				if res.panic != "" {
					out.addPanic(fmt.Sprintf("round %d goroutine %d op %d: %s", r+1, g, i, res.panic))
				}
				if vr, ok := parseVersioned(res.obs, fmt.Sprintf("round %d goroutine %d op %d:", r+1, g, i)); ok {
					sharedRecs = append(sharedRecs, vr)
					res.obs = versionedTag
					out.Distribution["load_versioned"]++
				}
				if res.obs != want[res.op] {
					out.addMismatch(mismatch{Goroutine: g, Op: i, Kind: o.kind,
						What: fmt.Sprintf("round %d %s(%s)", r+1, o.kind, o.arg), Want: want[res.op], Got: res.obs})
				}
				if strings.HasPrefix(res.obs, "error") || strings.HasPrefix(res.obs, "resolve-error") {
					out.Distribution["results_error"]++
				} else {
					out.Distribution["results_ok"]++
				}
				if len(out.Samples) < 5 && g == 0 && r == 0 && sampleWanted(out.Samples, o.kind) {
					out.Samples = append(out.Samples, map[string]any{
						"goroutine": g, "op": i, "kind": o.kind, "arg": o.arg,
						"result": clip(res.obs, 160), "micros": res.durUs})
				}
			}
		}
		if mzN > 0 {
			out.Distribution[fmt.Sprintf("round%d_merklize_avg_us", r+1)] = mzUs / mzN
		}
	}
	out.Distinct = len(distinct)
	e := senv.engine
	out.Distribution["cache_gets"] = e.gets
	out.Distribution["cache_hits"] = e.hits
	out.Distribution["cache_misses"] = e.misses
	out.Distribution["cache_get_errors"] = e.getErrs
	out.Distribution["cache_sets"] = e.sets
	out.Distribution["cache_sets_clipped"] = e.clipped
	out.Distribution["expired_refetches"] = e.expiredHits
	out.Distribution["http_fetches"] = senv.stub.okFetches()
	out.Distribution["http_404"] = senv.stub.notFound
	out.Distribution["http_fetches_embedded_url"] = senv.stub.known[embeddedURL].fetches
	out.Notes = append(out.Notes,
		"shared merklizer: document "+sharedDoc.Name+", built once with the oracle's loader; oracle proofs use the same merklizer",
		"embedded document: "+embeddedURL)
	out.Distribution["ipfs_cats"] = senv.cli.cats
	out.LoaderLogs = append(oenv.exportLogs("sequential", oracleRecs), senv.exportLogs("concurrent", sharedRecs)...)
	for _, m := range oenv.checkVersioned(oracleRecs) {
		out.addMismatch(m)
	}
	for _, m := range senv.checkVersioned(sharedRecs) {
		out.addMismatch(m)
	}
	// cached documents are shared by pointer: none may differ from the copy taken when it was stored
	for _, env := range []*loaderEnv{oenv, senv} {
		for _, eng := range env.engines {
			for _, m := range eng.mutated() {
				out.addMismatch(mismatch{Goroutine: -1, Op: -1, Kind: "cached-document-mutated", What: m,
					Want: "unchanged since Set", Got: "modified"})
			}
		}
	}
	if e.getErrs != 0 {
		out.addMismatch(mismatch{Goroutine: -1, Op: -1, Kind: "cache-get-error", What: "cache engine Get returned an error other than ErrCacheMiss",
			Want: "0", Got: fmt.Sprint(e.getErrs)})
	}
	if f := senv.stub.known[embeddedURL].fetches; f != 0 {
		out.addMismatch(mismatch{Goroutine: -1, Op: -1, Kind: "embedded-fetched", What: "embedded context was fetched over HTTP",
			Want: "0", Got: fmt.Sprint(f)})
	}
	return nil
}

// sampleWanted: take at most one sample per kind family so that the five
// samples show different operation kinds.
func sampleWanted(have []map[string]any, kind string) bool {
	for _, s := range have {
		if s["kind"] == kind {
			return false
		}
	}
	return true
}
