package main

import "vharness/ctxload"

// testDoc is one JSON-LD document of the pool together with dotted document
// paths (merklize.NewPathFromDocument syntax) that are tried for proofs.
type testDoc struct {
	Name  string
	JSON  string
	Paths []string // dotted paths; some exist, some do not resolve (deterministic error)
	Valid bool     // expected to merklize without error (only used to pick the shared merklizer)
}

// Only contexts available in vharness/ctxload are referenced (plus one
// deliberately unknown URL in docUnknownCtx).
var testDocs = []testDoc{
	{
		Name:  "kyc-age",
		Valid: true,
		JSON: `{
    "@context": [
        "` + ctxload.URLCredentialsV1 + `",
        "` + ctxload.URLIden3CredV2 + `",
        "` + ctxload.URLKYCv3 + `"
    ],
    "@type": ["VerifiableCredential", "KYCAgeCredential"],
    "id": "http://myid.com",
    "expirationDate": "2261-03-21T21:14:48+02:00",
    "credentialSubject": {
        "type": "KYCAgeCredential",
        "id": "did:iden3:polygon:mumbai:wyFiV4w71QgWPn6bYLsZoysFay66gKtVa9kfu6yMZ",
        "documentType": 1,
        "birthday": 19960424
    },
    "credentialStatus": {
        "type": "SparseMerkleTreeProof",
        "id": "http://localhost:8001/api/v1/identities/1195DjqzhZ9zpHbezahSevDMcxN41vs3Y6gb4noRW/claims/revocation/status/127366661"
    },
    "credentialSchema": {
        "type": "JsonSchemaValidator2018",
        "id": "http://json1.com"
    }
}`,
		Paths: []string{
			"credentialSubject.birthday", "credentialSubject.documentType", "credentialSubject.id",
			"credentialSubject.type", "expirationDate", "id", "credentialStatus.id", "credentialStatus.type",
			"credentialSchema.id", "credentialSchema.type", "credentialSubject.nosuchfield", "issuer",
		},
	},
	{
		Name:  "kyc-country",
		Valid: true,
		JSON: `{
    "@context": [
        "` + ctxload.URLCredentialsV1 + `",
        "` + ctxload.URLKYCv3 + `"
    ],
    "id": "urn:uuid:6a2b1b1c-0d0e-4f7a-9a55-3f1b2c3d4e5f",
    "type": ["VerifiableCredential", "KYCCountryOfResidenceCredential"],
    "issuer": "did:example:489398593",
    "issuanceDate": "2021-05-06T07:08:09Z",
    "expirationDate": "2031-05-06T07:08:09.123Z",
    "credentialSubject": {
        "id": "did:example:b34ca6cd37bbf23",
        "type": "KYCCountryOfResidenceCredential",
        "countryCode": 980,
        "documentType": 2
    }
}`,
		Paths: []string{
			"credentialSubject.countryCode", "credentialSubject.documentType", "credentialSubject.id",
			"issuer", "issuanceDate", "expirationDate", "id", "credentialSubject.birthday",
		},
	},
	{
		Name:  "citizenship-1",
		Valid: true,
		JSON: `{
  "@context": [
    "` + ctxload.URLCredentialsV1 + `",
    "` + ctxload.URLCitizenship + `"
  ],
  "id": "https://issuer.oidp.uscis.gov/credentials/83627465",
  "type": ["VerifiableCredential", "PermanentResidentCard"],
  "issuer": "did:example:489398593",
  "identifier": 83627465,
  "name": "Permanent Resident Card",
  "description": "Government of Example Permanent Resident Card.",
  "issuanceDate": "2019-12-03T12:19:52Z",
  "expirationDate": "2029-12-03T12:19:52Z",
  "credentialSubject": {
    "id": "did:example:b34ca6cd37bbf23",
    "type": ["PermanentResident", "Person"],
    "givenName": "JOHN",
    "familyName": "SMITH",
    "gender": "Male",
    "image": "data:image/png;base64,iVBORw0KGgokJggg==",
    "residentSince": "2015-01-01",
    "lprCategory": "C09",
    "lprNumber": "999-999-999",
    "commuterClassification": "C1",
    "birthCountry": "Bahamas",
    "birthDate": "1958-07-17"
  }
}`,
		Paths: []string{
			"credentialSubject.givenName", "credentialSubject.birthDate", "credentialSubject.residentSince",
			"identifier", "name", "issuanceDate", "credentialSubject.lprNumber", "credentialSubject.unknown",
		},
	},
	{
		Name:  "citizenship-2",
		Valid: true,
		JSON: `{
  "@context": [
    "` + ctxload.URLCredentialsV1 + `",
    "` + ctxload.URLCitizenship + `"
  ],
  "id": "https://issuer.oidp.uscis.gov/credentials/83627466",
  "type": ["VerifiableCredential", "PermanentResidentCard"],
  "issuer": "did:example:489398593",
  "identifier": 83627466,
  "name": "Permanent Resident Card",
  "issuanceDate": "2019-12-03T12:19:52Z",
  "expirationDate": "2029-12-03T12:19:52Z",
  "credentialSubject": [
    {
      "id": "did:example:b34ca6cd37bbf23",
      "type": ["PermanentResident", "Person"],
      "givenName": "JOHN",
      "familyName": "SMITH",
      "birthCountry": "Bahamas",
      "birthDate": "1958-07-17"
    },
    {
      "id": "did:example:b34ca6cd37bbf24",
      "type": ["PermanentResident", "Person"],
      "givenName": "JANE",
      "familyName": "SMITH",
      "birthCountry": "Bahamas",
      "birthDate": "1958-07-18"
    }
  ]
}`,
		Paths: []string{
			"credentialSubject.0.givenName", "credentialSubject.1.givenName", "credentialSubject.1.birthDate",
			"credentialSubject.0.type.0", "identifier", "credentialSubject.2.givenName",
		},
	},
	{
		Name:  "presentation",
		Valid: true,
		JSON: `{
  "@context":[
    "` + ctxload.URLCredentialsV1 + `",
    "` + ctxload.URLKYCv3 + `",
    "` + ctxload.URLIden3CredV2 + `"
  ],
  "@type":"VerifiablePresentation",
  "holder": ["http://example.com/holder1", "http://example.com/holder2"],
  "verifiableCredential":[
    {
      "@id": "http://example.com/vc1",
      "@type":"KYCAgeCredential",
      "birthday":19960424
    },
    {
      "@id": "http://example.com/vc3",
      "@type": "Iden3SparseMerkleTreeProof",
      "issuerData": {
        "state": {
          "blockTimestamp": 123
        }
      }
    }
  ]
}`,
		Paths: []string{
			"verifiableCredential.0.birthday", "verifiableCredential.1.issuerData.state.blockTimestamp",
			"holder.0", "holder.1", "verifiableCredential.2.birthday",
		},
	},
	{
		Name:  "employee-double",
		Valid: true,
		JSON: `{
  "verifiableCredential": {
    "@context": [
      "` + ctxload.URLCredentialsV1 + `",
      "` + ctxload.URLKYCv101 + `"
    ],
    "@type": ["VerifiableCredential", "KYCEmployee"],
    "credentialSubject": {
      "@type": "KYCEmployee",
      "salary": 170000
    }
  },
  "@type": "VerifiablePresentation",
  "@context": [
    "` + ctxload.URLCredentialsV1 + `"
  ]
}`,
		Paths: []string{"verifiableCredential.credentialSubject.salary", "verifiableCredential.credentialSubject.position"},
	},
	{
		Name:  "nested-inline",
		Valid: true,
		JSON: `{
  "@context": [
    {
      "@version": 1.1,
      "@protected": true,
      "id": "@id",
      "type": "@type",
      "CustomType": {
        "@id": "urn:uuid:79f824ba-fee3-11ed-be56-0242ac120002",
        "@context": {
          "@version": 1.1,
          "@protected": true,
          "@propagate": true,
          "id": "@id",
          "type": "@type",
          "xsd": "http://www.w3.org/2001/XMLSchema#",
          "customField": {"@id": "polygon-vocab:customField", "@type": "xsd:string"},
          "polygon-vocab": "urn:uuid:87caf7a2-fee3-11ed-be56-0242ac120001#",
          "objectField": {
            "@id": "polygon-vocab:objectField",
            "@context": {
              "@version": 1.1,
              "@protected": true,
              "id": "@id",
              "type": "@type",
              "customNestedField": {"@id": "polygon-vocab:customNestedField", "@type": "xsd:integer"}
            }
          }
        }
      }
    }
  ],
  "id": "urn:urn:e27a921e-fee5-11ed-be56-0242ac100000",
  "type": ["CustomType"],
  "customField": "1234",
  "objectField": {"customNestedField": 1}
}`,
		Paths: []string{"customField", "objectField.customNestedField", "objectField.other"},
	},
	{
		// context URL that the HTTP stub answers with 404: loading error
		Name: "unknown-context",
		JSON: `{
  "@context": ["` + ctxload.URLCredentialsV1 + `", "` + urlUnknown + `"],
  "id": "urn:uuid:00000000-0000-0000-0000-000000000001",
  "type": ["VerifiableCredential"],
  "issuer": "did:example:1",
  "issuanceDate": "2020-01-01T00:00:00Z",
  "credentialSubject": {"id": "did:example:2"}
}`,
		Paths: []string{"issuer"},
	},
	{
		// property that does not expand to an IRI: safe mode error after the contexts were loaded
		Name: "unknown-field",
		JSON: `{
  "@context": ["` + ctxload.URLCredentialsV1 + `", "` + ctxload.URLKYCv3 + `"],
  "id": "urn:uuid:00000000-0000-0000-0000-000000000002",
  "type": ["VerifiableCredential", "KYCAgeCredential"],
  "issuer": "did:example:1",
  "issuanceDate": "2020-01-01T00:00:00Z",
  "notInAnyContext": 5,
  "credentialSubject": {"id": "did:example:2", "type": "KYCAgeCredential", "birthday": 19990101, "documentType": 3}
}`,
		Paths: []string{"issuer"},
	},
}

const urlUnknown = "https://example.org/c20stress/unknown-context.jsonld"
