// Package c20: property C20 (concurrent use of shared loaders and merklizers is safe and
// deterministic).
//
//   - translate.go: the go/ast translator that writes coq/Generated/CacheSkeleton.v;
//   - this file: the driver.  It (1) re-extracts the skeleton and asks the Coq model
//     (Conc/Sem.v, evaluated by coqc) whether the discipline check passes and, if not, for a racy
//     schedule of 2-3 calls, which is then replayed on the implementation under the race detector;
//     (2) builds harness/c20/stress with `go build -race` against the repository tree and runs
//     randomized mixes of MerklizeJSONLD / Proof / HashValue / LoadDocument on 2..64 goroutines
//     sharing ONE loader + cache (cold, warm, expiring entries), and Get/Set hammering of one
//     cache engine, every result compared with a sequential oracle; a race report, a runtime
//     fatal error, a panic or a differing result is a failure; (3) executes small Get/Set
//     programs call by call on the real engine (goroutine hand-over) and writes them as a case
//     file for the Coq model Conc/Run.v (correspondence).
package c20

import (
	"bytes"
	"context"
	"encoding/json"
	"errors"
	"fmt"
	"os"
	"os/exec"
	"path/filepath"
	"regexp"
	"sort"
	"strconv"
	"strings"
	"time"

	"vharness/common"
)

func init() { common.Register("C20", Run) }

// ---------------------------------------------------------------------------------------------
// inputs (what rep.Fail / rep.Case store and -replay re-runs)
// ---------------------------------------------------------------------------------------------

type StressCall struct {
	Method string `json:"method"`
	Key    string `json:"key"`
}

// StressCfg is the configuration file of harness/c20/stress.
type StressCfg struct {
	Mode       string         `json:"mode"`
	Seed       int64          `json:"seed"`
	Goroutines int            `json:"goroutines,omitempty"`
	Ops        int            `json:"ops,omitempty"`
	TTLms      int            `json:"ttl_ms,omitempty"`
	Rounds     int            `json:"rounds,omitempty"`
	Threads    [][]StressCall `json:"threads,omitempty"`
	Clock      string         `json:"clock,omitempty"`
	Quiet      bool           `json:"quiet,omitempty"` // mix: cache wrapper without counters (atomics can hide races)
	Cases      []*HandoffCase `json:"cases,omitempty"` // mode "handoff"
}

// Op is one call of a hand-over case: Get key / Set key value.
type Op struct {
	Set bool `json:"set,omitempty"`
	Key int  `json:"key"`
	Val int  `json:"val,omitempty"`
}

// HandoffCase: threads of calls on one engine, executed call by call in the order of Sched.
type HandoffCase struct {
	Emb   []int  `json:"embedded"`
	Prog  [][]Op `json:"threads"`
	Sched []int  `json:"schedule"`
}

type Input struct {
	Kind    string       `json:"kind"` // stress | handoff
	Stress  *StressCfg   `json:"stress,omitempty"`
	Handoff *HandoffCase `json:"handoff,omitempty"`
	Note    string       `json:"note,omitempty"`
}

// ---------------------------------------------------------------------------------------------
// locating the framework, building the stress binary
// ---------------------------------------------------------------------------------------------

func verifRoot() (string, error) {
	if d := os.Getenv("VERIF_ROOT"); d != "" {
		return d, nil
	}
	var starts []string
	if exe, err := os.Executable(); err == nil {
		if r, err := filepath.EvalSymlinks(exe); err == nil {
			exe = r
		}
		starts = append(starts, filepath.Dir(exe))
	}
	if wd, err := os.Getwd(); err == nil {
		starts = append(starts, wd)
	}
	starts = append(starts, "/verif/harness")
	for _, d := range starts {
		for i := 0; i < 6 && d != "/" && d != "."; i++ {
			if _, err := os.Stat(filepath.Join(d, "harness", "go.mod")); err == nil {
				if _, err := os.Stat(filepath.Join(d, "harness", "c20", "stress")); err == nil {
					return d, nil
				}
			}
			d = filepath.Dir(d)
		}
	}
	return "", errors.New("cannot locate the verification root (set VERIF_ROOT)")
}

func coqDir(root string) string {
	if d := os.Getenv("VERIF_COQ_DIR"); d != "" {
		return d
	}
	return filepath.Join(root, "coq")
}

func goEnv(extra ...string) []string {
	env := []string{}
	for _, kv := range os.Environ() {
		k := kv[:strings.Index(kv+"=", "=")]
		switch k {
		case "GOFLAGS", "GOPROXY", "GOSUMDB", "GOTOOLCHAIN", "CGO_ENABLED", "GORACE":
			continue
		}
		env = append(env, kv)
	}
	env = append(env, "GOFLAGS=-mod=mod", "GOPROXY=off", "GOSUMDB=off", "GOTOOLCHAIN=local")
	return append(env, extra...)
}

// buildStress builds harness/c20/stress with the race detector against common.RepoDir().
func buildStress(root, outDir string) (string, error) {
	hd := filepath.Join(root, "harness")
	bin := filepath.Join(outDir, "c20stress")
	args := []string{"build", "-race", "-tags", "verif"}
	repo := common.RepoDir()
	if repo != "/repo" {
		md := filepath.Join(outDir, "gomod")
		if err := os.MkdirAll(md, 0o755); err != nil {
			return "", err
		}
		gm, err := os.ReadFile(filepath.Join(hd, "go.mod"))
		if err != nil {
			return "", err
		}
		re := regexp.MustCompile(`(?m)=> /repo\s*$`)
		if err := os.WriteFile(filepath.Join(md, "go.mod"), re.ReplaceAll(gm, []byte("=> "+repo)), 0o644); err != nil {
			return "", err
		}
		var sum []byte
		for _, f := range []string{filepath.Join(repo, "go.sum"), filepath.Join(hd, "go.sum.extra")} {
			if b, err := os.ReadFile(f); err == nil {
				sum = append(sum, b...)
				if len(b) > 0 && b[len(b)-1] != '\n' {
					sum = append(sum, '\n')
				}
			}
		}
		if err := os.WriteFile(filepath.Join(md, "go.sum"), sum, 0o644); err != nil {
			return "", err
		}
		args = append(args, "-modfile="+filepath.Join(md, "go.mod"))
	}
	args = append(args, "-o", bin, "./c20/stress")
	ctx, cancel := context.WithTimeout(context.Background(), 20*time.Minute)
	defer cancel()
	cmd := exec.CommandContext(ctx, "go", args...)
	cmd.Dir = hd
	cmd.Env = goEnv("CGO_ENABLED=1")
	out, err := cmd.CombinedOutput()
	if err != nil {
		return "", fmt.Errorf("go build -race of the stress program failed: %v\n%s", err, tail(string(out), 3000))
	}
	return bin, nil
}

func tail(s string, n int) string {
	if len(s) <= n {
		return s
	}
	return "..." + s[len(s)-n:]
}

// ---------------------------------------------------------------------------------------------
// running the stress binary
// ---------------------------------------------------------------------------------------------

type stressOut struct {
	Mode          string            `json:"mode"`
	Evaluations   int               `json:"evaluations"`
	Mismatches    []json.RawMessage `json:"mismatches"`
	MismatchCount int               `json:"mismatch_count"`
	Distribution  map[string]int64  `json:"distribution"`
	Samples       []json.RawMessage `json:"samples"`
	Distinct      int               `json:"distinct"`
	Panics        []string          `json:"panics"`
	ElapsedMs     int64             `json:"elapsed_ms"`
	Observations  [][]int           `json:"observations"`
	LoaderLogs    []LoaderLog       `json:"loader_logs"`
}

// LoaderLog: what the stress run recorded for one versioned url (see stress/stub.go).
type LoaderLog struct {
	Env    string     `json:"env"`
	URL    string     `json:"url"`
	Stores [][2]int64 `json:"stores"`
	Serves [][4]int64 `json:"serves"`
	Loads  [][3]int64 `json:"loads"`
}

func (l *LoaderLog) coq(id int) string {
	var items []string
	for _, s := range l.Stores {
		items = append(items, fmt.Sprintf("rt %d %d", s[0], s[1]))
	}
	for _, s := range l.Serves {
		items = append(items, fmt.Sprintf("rs %d %d %d %d", s[0], s[1], s[2], s[3]))
	}
	for _, s := range l.Loads {
		items = append(items, fmt.Sprintf("rl %d %d %d", s[0], s[1], s[2]))
	}
	return fmt.Sprintf("mklc %d [%s]", id, strings.Join(items, ";"))
}

type loaderCase struct {
	Stress *StressCfg `json:"stress"`
	Log    LoaderLog  `json:"log"`
}

// writeLoaderShard: the recorded logs as cases for Conc/Run.v (lmismatches: LoaderModel.log_explained).
func writeLoaderShard(cfg *common.Config, rep *common.Report, cases []loaderCase) error {
	if len(cases) == 0 {
		return nil
	}
	name := filepath.Join(cfg.OutDir, "cases_C20_L00.v")
	var b strings.Builder
	b.WriteString("From Coq Require Import List Uint63.\nFrom GSP Require Import Conc.Run.\nImport ListNotations.\nOpen Scope uint63_scope.\n")
	b.WriteString("Definition lcases : list lcase := [\n")
	for i := range cases {
		id := 100000 + i
		if i > 0 {
			b.WriteString(";\n")
		}
		b.WriteString("  " + cases[i].Log.coq(id))
		rep.Case(name, id, Input{Kind: "stress", Stress: cases[i].Stress, Note: "loader log of " + cases[i].Log.URL + " (" + cases[i].Log.Env + ")"})
		rep.Count("loader-log/cases")
		rep.Distribution["loader-log/loads"] += len(cases[i].Log.Loads)
		rep.Distribution["loader-log/origin-answers"] += len(cases[i].Log.Serves)
		rep.Distribution["loader-log/stores"] += len(cases[i].Log.Stores)
	}
	b.WriteString("].\nDefinition M := Eval vm_compute in lmismatches lcases.\nPrint M.\n")
	if err := os.WriteFile(name, []byte(b.String()), 0o644); err != nil {
		return err
	}
	rep.Shards = append(rep.Shards, name)
	return nil
}

type stressRes struct {
	Exit      int
	Out       *stressOut
	Races     int
	FirstRace string
	Stderr    string
	Fatal     string // first "fatal error: ..." line of the Go runtime, if any
	TimedOut  bool
}

var runSeq int

func runStress(bin, outDir string, sc *StressCfg, timeout time.Duration) (*stressRes, error) {
	runSeq++
	cfgPath := filepath.Join(outDir, fmt.Sprintf("stress_%d.json", runSeq))
	b, _ := json.Marshal(sc)
	if err := os.WriteFile(cfgPath, b, 0o644); err != nil {
		return nil, err
	}
	logBase := filepath.Join(outDir, fmt.Sprintf("race_%d", runSeq))
	ctx, cancel := context.WithTimeout(context.Background(), timeout)
	defer cancel()
	cmd := exec.CommandContext(ctx, bin, "-cfg", cfgPath)
	cmd.Env = append(goEnv(), "GORACE=halt_on_error=0 exitcode=66 log_path="+logBase)
	var so, se bytes.Buffer
	cmd.Stdout, cmd.Stderr = &so, &se
	err := cmd.Run()
	res := &stressRes{Stderr: tail(se.String(), 4000)}
	if i := strings.Index(se.String(), "fatal error:"); i >= 0 {
		res.Fatal = firstLines(clipStr(se.String()[i:], 300), 1)
	}
	if ctx.Err() == context.DeadlineExceeded {
		res.TimedOut = true
	}
	if err != nil {
		var ee *exec.ExitError
		if errors.As(err, &ee) {
			res.Exit = ee.ExitCode()
		} else {
			return nil, err
		}
	}
	var o stressOut
	if json.Unmarshal(bytes.TrimSpace(so.Bytes()), &o) == nil && o.Mode != "" {
		res.Out = &o
	}
	logs, _ := filepath.Glob(logBase + ".*")
	sort.Strings(logs)
	for _, f := range logs {
		lb, err := os.ReadFile(f)
		if err != nil {
			continue
		}
		n := strings.Count(string(lb), "WARNING: DATA RACE")
		res.Races += n
		if n > 0 && res.FirstRace == "" {
			s := string(lb)
			i := strings.Index(s, "WARNING: DATA RACE")
			s = s[i:]
			if j := strings.Index(s[1:], "=================="); j > 0 {
				s = s[:j+1]
			}
			res.FirstRace = clipStr(s, 2500)
		}
	}
	return res, nil
}

func clipStr(s string, n int) string {
	if len(s) <= n {
		return s
	}
	return s[:n] + "..."
}

// judge turns the outcome of one stress run into failures.  Returns true when something failed.
func judge(rep *common.Report, sc *StressCfg, r *stressRes, note string) bool {
	in := Input{Kind: "stress", Stress: sc, Note: note}
	failed := false
	if r.Races > 0 || r.Exit == 66 {
		rep.Fail("c20-data-race", fmt.Sprintf("race detector: %d report(s) in mode %s (%d goroutines): %s", r.Races, sc.Mode, sc.Goroutines, firstLines(r.FirstRace, 14)), in)
		failed = true
	}
	if r.TimedOut {
		rep.Fail("c20-hang", fmt.Sprintf("stress run (mode %s) did not finish in time (deadlock?)", sc.Mode), in)
		return true
	}
	if r.Out == nil {
		if r.Exit != 0 && r.Exit != 66 {
			cls := "c20-runtime-fatal"
			rep.Fail(cls, fmt.Sprintf("stress run (mode %s) died with exit code %d: %s", sc.Mode, r.Exit, firstFatal(r)), in)
			return true
		}
		if !failed {
			rep.Fail("c20-runtime-fatal", fmt.Sprintf("stress run (mode %s) produced no result (exit %d): %s", sc.Mode, r.Exit, tail(r.Stderr, 400)), in)
		}
		return true
	}
	if r.Out.MismatchCount > 0 || len(r.Out.Mismatches) > 0 {
		first := ""
		if len(r.Out.Mismatches) > 0 {
			first = string(r.Out.Mismatches[0])
		}
		rep.Fail("c20-result-differs", fmt.Sprintf("%d result(s) differ from the sequential oracle in mode %s, first: %s", r.Out.MismatchCount, sc.Mode, clipStr(first, 600)), in)
		failed = true
	}
	if len(r.Out.Panics) > 0 {
		rep.Fail("c20-panic", fmt.Sprintf("%d goroutine panic(s) in mode %s, first: %s", len(r.Out.Panics), sc.Mode, clipStr(r.Out.Panics[0], 400)), in)
		failed = true
	}
	return failed
}

func firstLines(s string, n int) string {
	l := strings.Split(s, "\n")
	if len(l) > n {
		l = l[:n]
	}
	return strings.Join(l, " | ")
}

func firstFatal(r *stressRes) string {
	if r.Fatal != "" {
		return r.Fatal
	}
	return tail(r.Stderr, 300)
}

func account(rep *common.Report, sc *StressCfg, r *stressRes) {
	if r.Out == nil {
		return
	}
	rep.Evaluations += r.Out.Evaluations
	for k, v := range r.Out.Distribution {
		switch {
		case strings.HasSuffix(k, "_us"), k == "ms", strings.HasPrefix(k, "round"):
			continue
		}
		rep.Distribution[sc.Mode+"/"+k] += int(v)
	}
	for i, s := range r.Out.Samples {
		if i < 1 {
			rep.Sample(map[string]any{"mode": sc.Mode, "goroutines": sc.Goroutines, "sample": s})
		}
	}
	for i := 0; i < r.Out.Distinct; i++ {
		rep.Distinct(fmt.Sprintf("%s/%d/%d", sc.Mode, sc.Seed, i))
	}
}

// ---------------------------------------------------------------------------------------------
// the Coq model as a search engine: discipline check + racy schedule on the regenerated skeleton
// ---------------------------------------------------------------------------------------------

type witness struct {
	DisciplineOK bool
	Found        bool
	Calls        [][2]int // (method index, path index) per thread
	Touch        []bool   // does that control path touch the map?
	Sched        []int
	Raw          string
}

func modelWitness(root, outDir string, sk *Skeletons) (*witness, error) {
	cd := coqDir(root)
	if _, err := os.Stat(filepath.Join(cd, "Conc", "Sem.vo")); err != nil {
		return nil, fmt.Errorf("Conc/Sem.vo is not compiled in %s", cd)
	}
	dir := filepath.Join(outDir, "c20model")
	if err := os.MkdirAll(dir, 0o755); err != nil {
		return nil, err
	}
	var b strings.Builder
	b.WriteString(Render(sk))
	b.WriteString(`
Definition c20_ms := map snd generated_methods.
Definition c20_touch (w : option (list (nat * nat) * list nat)) : list bool :=
  match w with
  | Some (cs, _) => map (fun c => existsb is_access (nth (snd c) (paths (nth (fst c) c20_ms [])) [])) cs
  | None => []
  end.
Definition W := Eval vm_compute in
  (let ok := forallb discipline_ok c20_ms in
   let w := if ok then None else race_witness c20_ms in (ok, w, c20_touch w)).
Print W.
`)
	if err := os.WriteFile(filepath.Join(dir, "C20Witness.v"), []byte(b.String()), 0o644); err != nil {
		return nil, err
	}
	ctx, cancel := context.WithTimeout(context.Background(), 10*time.Minute)
	defer cancel()
	cmd := exec.CommandContext(ctx, "coqc", "-Q", cd, "GSP", "C20Witness.v")
	cmd.Dir = dir
	out, err := cmd.CombinedOutput()
	if err != nil {
		return nil, fmt.Errorf("coqc on the witness query failed: %v\n%s", err, tail(string(out), 1500))
	}
	flat := strings.Join(strings.Fields(string(out)), " ")
	i := strings.Index(flat, "W = ")
	if i < 0 {
		return nil, fmt.Errorf("no answer from the model: %s", tail(flat, 500))
	}
	flat = flat[i:]
	if j := strings.Index(flat, " : "); j > 0 {
		flat = flat[:j]
	}
	w := &witness{Raw: flat}
	w.DisciplineOK = strings.HasPrefix(flat, "W = (true")
	if k := strings.Index(flat, "Some ("); k >= 0 {
		w.Found = true
		rest := flat[k:]
		// Some ([(0, 1); (1, 1)], [0; 1]), [true; true])
		lists := regexp.MustCompile(`\[[^\[\]]*\]`).FindAllString(rest, 3)
		if len(lists) < 3 {
			return nil, fmt.Errorf("cannot parse the witness: %s", flat)
		}
		for _, m := range regexp.MustCompile(`\((\d+), (\d+)\)`).FindAllStringSubmatch(lists[0], -1) {
			a, _ := strconv.Atoi(m[1])
			c, _ := strconv.Atoi(m[2])
			w.Calls = append(w.Calls, [2]int{a, c})
		}
		for _, m := range regexp.MustCompile(`\d+`).FindAllString(lists[1], -1) {
			a, _ := strconv.Atoi(m)
			w.Sched = append(w.Sched, a)
		}
		for _, m := range regexp.MustCompile(`true|false`).FindAllString(lists[2], -1) {
			w.Touch = append(w.Touch, m == "true")
		}
		if len(w.Touch) != len(w.Calls) {
			return nil, fmt.Errorf("cannot parse the witness: %s", flat)
		}
	}
	return w, nil
}

// ---------------------------------------------------------------------------------------------
// hand-over cases: the real engine, call by call, one goroutine per thread
// ---------------------------------------------------------------------------------------------

func keyURL(k int) string { return fmt.Sprintf("https://example.com/c20/k%d", k) }

const (
	resSet  = 0
	resMiss = 1
	resEmb  = 2
	resHit  = 10
	resBad  = 997
)

// refHandoff: the abstract map, independently of Coq (implementation-side oracle).
func refHandoff(hc *HandoffCase) []int {
	emb := map[int]bool{}
	for _, k := range hc.Emb {
		emb[k] = true
	}
	m := map[int]int{}
	ptr := make([]int, len(hc.Prog))
	var out []int
	for _, t := range hc.Sched {
		op := hc.Prog[t][ptr[t]]
		ptr[t]++
		switch {
		case op.Set && emb[op.Key]:
			out = append(out, resSet)
		case op.Set:
			m[op.Key] = op.Val
			out = append(out, resSet)
		case emb[op.Key]:
			out = append(out, resEmb)
		default:
			if v, ok := m[op.Key]; ok {
				out = append(out, resHit+v)
			} else {
				out = append(out, resMiss)
			}
		}
	}
	return out
}

func genHandoff(cfg *common.Config, valCounter *int) *HandoffCase {
	r := cfg.Rng
	hc := &HandoffCase{}
	nk := 2 + r.Intn(4)
	for k := 1; k <= nk; k++ {
		if r.Intn(5) == 0 {
			hc.Emb = append(hc.Emb, k)
		}
	}
	nt := 1 + r.Intn(4)
	for t := 0; t < nt; t++ {
		var th []Op
		for i, nc := 0, 1+r.Intn(4); i < nc; i++ {
			op := Op{Key: 1 + r.Intn(nk)}
			if r.Intn(2) == 0 {
				op.Set = true
				*valCounter++
				op.Val = *valCounter
			}
			th = append(th, op)
		}
		hc.Prog = append(hc.Prog, th)
	}
	left := make([]int, nt)
	total := 0
	for t := range hc.Prog {
		left[t] = len(hc.Prog[t])
		total += left[t]
	}
	for total > 0 {
		t := r.Intn(nt)
		if left[t] == 0 {
			continue
		}
		left[t]--
		total--
		hc.Sched = append(hc.Sched, t)
	}
	return hc
}

func ints(l []int) string {
	s := make([]string, len(l))
	for i, v := range l {
		s[i] = strconv.Itoa(v)
	}
	return "[" + strings.Join(s, ";") + "]"
}

func (hc *HandoffCase) coq(id int, obs []int) string {
	var ths []string
	for _, th := range hc.Prog {
		var ops []string
		for _, o := range th {
			if o.Set {
				ops = append(ops, fmt.Sprintf("OSet %d %d", o.Key, o.Val))
			} else {
				ops = append(ops, fmt.Sprintf("OGet %d", o.Key))
			}
		}
		ths = append(ths, "["+strings.Join(ops, ";")+"]")
	}
	return fmt.Sprintf("mkc %d %s [%s] %s %s", id, ints(hc.Emb), strings.Join(ths, ";"), ints(hc.Sched), ints(obs))
}

type handoffSet struct {
	cases []*HandoffCase
	obs   [][]int
}

func (hs *handoffSet) add(hc *HandoffCase) { hs.cases = append(hs.cases, hc) }

// execute runs all collected cases on the implementation (in the stress child process, which
// may be killed by the Go runtime when the lock discipline is broken) and evaluates the
// abstract-map oracle on the observations.
func (hs *handoffSet) execute(rep *common.Report, bin, outDir string) error {
	sc := &StressCfg{Mode: "handoff", Cases: hs.cases}
	res, err := runStress(bin, outDir, sc, 90*time.Second)
	if err != nil {
		return err
	}
	small := &StressCfg{Mode: "handoff"}
	if len(hs.cases) > 0 {
		small.Cases = hs.cases[:1]
	}
	if res.Out == nil || len(res.Out.Observations) != len(hs.cases) {
		if res.TimedOut {
			// calls that never return (a lock that is not released): the batch itself is the replay
			judge(rep, sc, res, "Get/Set calls executed one at a time by different goroutines")
			hs.cases = nil
			return nil
		}
		// find the first case that kills the child, for the replay
		for i, hc := range hs.cases {
			if i >= 60 {
				break
			}
			one := &StressCfg{Mode: "handoff", Cases: []*HandoffCase{hc}}
			r1, err := runStress(bin, outDir, one, time.Minute)
			if err != nil {
				return err
			}
			if r1.Out == nil || len(r1.Out.Observations) != 1 || r1.Out.MismatchCount > 0 {
				judge(rep, one, r1, "Get/Set calls executed one at a time by different goroutines")
				break
			}
		}
		if len(rep.Failures) == 0 {
			judge(rep, small, res, "hand-over cases")
		}
		hs.cases = nil
		return nil
	}
	if res.Races > 0 || res.Exit == 66 {
		judge(rep, small, res, "hand-over cases (calls do not overlap: a race here means a missing happens-before edge)")
	}
	hs.obs = res.Out.Observations
	for i, hc := range hs.cases {
		obs := hs.obs[i]
		in := Input{Kind: "handoff", Handoff: hc}
		rep.Evaluations += len(obs)
		want := refHandoff(hc)
		if fmt.Sprint(want) != fmt.Sprint(obs) {
			rep.Fail("c20-cache-sequential-semantics", fmt.Sprintf("Get/Set executed one call at a time by %d goroutines returned %v, the abstract map gives %v", len(hc.Prog), obs, want), in)
		}
		nontrivial := false
		for _, o := range obs {
			if o >= resHit && o < resBad {
				nontrivial = true
			}
		}
		if nontrivial && len(hc.Prog) >= 2 {
			b, _ := json.Marshal(hc)
			rep.Distinct("handoff/" + string(b))
		}
		if i%101 == 0 {
			rep.Sample(map[string]any{"handoff": hc, "observed": obs})
		}
		rep.Count("handoff/cases")
		rep.Count(fmt.Sprintf("handoff/threads=%d", len(hc.Prog)))
	}
	return nil
}

func (hs *handoffSet) write(cfg *common.Config, rep *common.Report) error {
	const per = 400
	for s := 0; s*per < len(hs.cases); s++ {
		var b strings.Builder
		b.WriteString("From Coq Require Import List Uint63.\nFrom GSP Require Import Conc.Run.\nImport ListNotations.\nOpen Scope uint63_scope.\n")
		b.WriteString("Definition cases : list case := [\n")
		name := filepath.Join(cfg.OutDir, fmt.Sprintf("cases_C20_%03d.v", s))
		for i := s * per; i < len(hs.cases) && i < (s+1)*per; i++ {
			if i > s*per {
				b.WriteString(";\n")
			}
			b.WriteString("  " + hs.cases[i].coq(i, hs.obs[i]))
			rep.Case(name, i, Input{Kind: "handoff", Handoff: hs.cases[i]})
		}
		b.WriteString("].\nDefinition M := Eval vm_compute in cmismatches cases.\nPrint M.\n")
		if err := os.WriteFile(name, []byte(b.String()), 0o644); err != nil {
			return err
		}
		rep.Shards = append(rep.Shards, name)
	}
	return nil
}

// ---------------------------------------------------------------------------------------------
// driver
// ---------------------------------------------------------------------------------------------

func Run(cfg *common.Config) (*common.Report, error) {
	rep := common.NewReport("C20")
	rep.Correspondence = "Conc.Run.lmismatches: LoaderModel.log_explained (accepts every log of the loader state machine, LoaderTheory.model_log_explained) on the load/origin/store logs recorded for the versioned urls in the stress runs vs loaders.documentLoader.LoadDocument; Conc.Run.cmismatches: Sem.run on the regenerated skeletons (Generated/CacheSkeleton.v) over an abstract map vs loaders.memoryCacheEngine.Get/Set executed call by call from different goroutines"
	rep.Rule = "evaluations = operation results compared with the sequential oracle in the race-instrumented stress runs (merklize, proof, hash, load, cache Get/Set) + calls of the hand-over cases; distinct = distinct (operation kind, argument) pairs per stress run + hand-over programs with >= 2 threads in which some Get observes another call's Set"
	root, err := verifRoot()
	if err != nil {
		return nil, err
	}
	if cfg.Replay != "" {
		return replay(cfg, rep, root)
	}

	// (1) the skeleton and the model's verdict on it
	modelBroken := false
	sk, terr := Extract(common.RepoDir())
	var wit *witness
	if terr != nil {
		rep.Notes = append(rep.Notes, "translator: "+terr.Error())
		modelBroken = true
	} else {
		w, werr := modelWitness(root, cfg.OutDir, sk)
		if werr != nil {
			rep.Notes = append(rep.Notes, "model query unavailable: "+werr.Error())
		} else {
			wit = w
			rep.Notes = append(rep.Notes, "model verdict on the regenerated skeleton: "+w.Raw)
			if !w.DisciplineOK {
				modelBroken = true
			}
		}
	}

	// (2) race-instrumented stress runs
	bin, err := buildStress(root, cfg.OutDir)
	if err != nil {
		return nil, err
	}
	if wit != nil && wit.Found && sk != nil {
		replayWitness(cfg, rep, bin, sk, wit)
	} else if modelBroken && wit != nil {
		rep.Notes = append(rep.Notes, "the discipline check fails on the regenerated skeleton but the bounded search found no racy schedule of 2-3 calls")
	}
	r := cfg.Rng
	pickN := func() int { return 2 + r.Intn(63) }
	var plan []*StressCfg
	// cache engine alone: Get/Set hammering, both clocks
	plan = append(plan,
		&StressCfg{Mode: "cache", Seed: r.Int63n(1 << 30), Goroutines: pickN(), Ops: cfg.Pick(1500, 4000), Clock: "atomic"},
		&StressCfg{Mode: "cache", Seed: r.Int63n(1 << 30), Goroutines: 2 + r.Intn(15), Ops: cfg.Pick(400, 2000), Clock: "mono"})
	// the mix: expiring entries (cold start), then no expiry with a warm second round
	plan = append(plan,
		&StressCfg{Mode: "mix", Seed: r.Int63n(1 << 30), Goroutines: 16 + r.Intn(49), Ops: cfg.Pick(12, 20), TTLms: 1 + r.Intn(4), Rounds: 2},
		&StressCfg{Mode: "mix", Seed: r.Int63n(1 << 30), Goroutines: 2 + r.Intn(15), Ops: cfg.Pick(12, 30), TTLms: 0, Rounds: 2, Quiet: true})
	if cfg.Thorough() {
		for i := 0; i < 14; i++ {
			plan = append(plan, &StressCfg{Mode: "mix", Seed: r.Int63n(1 << 30), Goroutines: pickN(), Ops: 20, TTLms: []int{0, 1, 2, 5, 20, 100, 3}[i%7], Rounds: 1 + i%3, Quiet: i%2 == 0})
		}
		for i := 0; i < 6; i++ {
			plan = append(plan, &StressCfg{Mode: "cache", Seed: r.Int63n(1 << 30), Goroutines: pickN(), Ops: 3000, Clock: []string{"atomic", "mono"}[i%2]})
		}
	}
	var loaderCases []loaderCase
	for _, sc := range plan {
		res, err := runStress(bin, cfg.OutDir, sc, time.Duration(cfg.Pick(120, 600))*time.Second)
		if err != nil {
			return nil, err
		}
		judge(rep, sc, res, "")
		account(rep, sc, res)
		if res.Out != nil {
			for _, l := range res.Out.LoaderLogs {
				loaderCases = append(loaderCases, loaderCase{Stress: sc, Log: l})
			}
		}
		if res.TimedOut {
			rep.Notes = append(rep.Notes, "a stress run hung; the remaining stress runs are skipped")
			break
		}
		rep.Count("stress-runs/" + sc.Mode)
		rep.Count(fmt.Sprintf("stress-goroutines/%s", bucket(sc.Goroutines)))
	}

	// (3) hand-over cases for the Coq model
	hs := &handoffSet{}
	vc := 0
	// fixed cases first: embedded key shadows Set; last Set wins; miss
	hs.add(&HandoffCase{Emb: []int{3}, Prog: [][]Op{{{Set: true, Key: 3, Val: 1}, {Key: 3}}, {{Key: 3}, {Key: 1}}}, Sched: []int{1, 0, 0, 1}})
	hs.add(&HandoffCase{Prog: [][]Op{{{Set: true, Key: 1, Val: 2}}, {{Set: true, Key: 1, Val: 3}}, {{Key: 1}, {Key: 1}, {Key: 1}}}, Sched: []int{2, 0, 2, 1, 2}})
	vc = 3
	for i, n := 0, cfg.Pick(300, 3000); i < n; i++ {
		hs.add(genHandoff(cfg, &vc))
	}
	if err := hs.execute(rep, bin, cfg.OutDir); err != nil {
		return nil, err
	}
	if err := hs.write(cfg, rep); err != nil {
		return nil, err
	}
	if err := writeLoaderShard(cfg, rep, loaderCases); err != nil {
		return nil, err
	}
	rep.Notes = append(rep.Notes,
		"partial by nature: the race detector only sees the interleavings that happened in these runs; the Go memory model, races inside dependencies and the scheduler are not modelled in Coq")
	return rep, nil
}

func bucket(n int) string {
	switch {
	case n <= 4:
		return "2-4"
	case n <= 16:
		return "5-16"
	case n <= 32:
		return "17-32"
	}
	return "33-64"
}

// replayWitness runs the model's racy schedule on the implementation under the race detector.
func replayWitness(cfg *common.Config, rep *common.Report, bin string, sk *Skeletons, w *witness) {
	var threads [][]StressCall
	var desc []string
	for i, c := range w.Calls {
		if c[0] >= len(sk.Methods) {
			continue
		}
		name := sk.Methods[c[0]].Name
		desc = append(desc, fmt.Sprintf("T%d=%s(path %d)", i, name, c[1]))
		if name != "Get" && name != "Set" {
			rep.Notes = append(rep.Notes, "racy schedule involves method "+name+" which cannot be called through loaders.CacheEngine; it is left out of the replay")
			continue
		}
		key := "k1"
		if !w.Touch[i] {
			key = "@emb"
		}
		threads = append(threads, []StressCall{{Method: name, Key: key}})
	}
	what := fmt.Sprintf("model: racy schedule %v for %s", w.Sched, strings.Join(desc, ", "))
	rep.Notes = append(rep.Notes, what)
	if len(threads) < 2 {
		return
	}
	sc := &StressCfg{Mode: "replay", Seed: cfg.Seed, Rounds: cfg.Pick(3000, 20000), Threads: threads, Clock: "mono"}
	res, err := runStress(bin, cfg.OutDir, sc, time.Duration(cfg.Pick(60, 300))*time.Second)
	if err != nil {
		rep.Notes = append(rep.Notes, "replay of the model's schedule failed to run: "+err.Error())
		return
	}
	rep.Count("stress-runs/replay")
	if !judge(rep, sc, res, what) {
		rep.Notes = append(rep.Notes, "the implementation did not race on the model's schedule in this run")
	}
	account(rep, sc, res)
}

func replay(cfg *common.Config, rep *common.Report, root string) (*common.Report, error) {
	var rf struct {
		Input Input `json:"input"`
	}
	if err := common.ReadJSON(cfg.Replay, &rf); err != nil {
		return nil, err
	}
	in := rf.Input
	switch in.Kind {
	case "stress":
		if in.Stress == nil {
			return nil, errors.New("replay file has no stress configuration")
		}
		bin, err := buildStress(root, cfg.OutDir)
		if err != nil {
			return nil, err
		}
		res, err := runStress(bin, cfg.OutDir, in.Stress, 10*time.Minute)
		if err != nil {
			return nil, err
		}
		failed := judge(rep, in.Stress, res, in.Note)
		account(rep, in.Stress, res)
		if res.Out != nil {
			var lc []loaderCase
			for _, l := range res.Out.LoaderLogs {
				lc = append(lc, loaderCase{Stress: in.Stress, Log: l})
			}
			if err := writeLoaderShard(cfg, rep, lc); err != nil {
				return nil, err
			}
		}
		fmt.Printf("replay: stress mode=%s goroutines=%d -> exit=%d races=%d failed=%v\n", in.Stress.Mode, in.Stress.Goroutines, res.Exit, res.Races, failed)
	case "handoff":
		if in.Handoff == nil {
			return nil, errors.New("replay file has no hand-over case")
		}
		bin, err := buildStress(root, cfg.OutDir)
		if err != nil {
			return nil, err
		}
		hs := &handoffSet{}
		hs.add(in.Handoff)
		if err := hs.execute(rep, bin, cfg.OutDir); err != nil {
			return nil, err
		}
		if len(hs.obs) > 0 {
			fmt.Printf("replay: hand-over case -> %v (abstract map: %v)\n", hs.obs[0], refHandoff(in.Handoff))
			rep.Sample(map[string]any{"case": in.Handoff, "observed": hs.obs[0]})
		}
		if err := hs.write(cfg, rep); err != nil {
			return nil, err
		}
	default:
		return nil, fmt.Errorf("unknown replay kind %q", in.Kind)
	}
	return rep, nil
}
