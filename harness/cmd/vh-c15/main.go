// Command vh-c15: development binary holding only the C15 driver.
package main

import (
	"vharness/common"

	_ "vharness/c15"
)

func main() { common.Main() }
