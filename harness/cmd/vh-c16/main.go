package main

import (
	_ "vharness/c16"
	"vharness/common"
)

func main() { common.Main() }
