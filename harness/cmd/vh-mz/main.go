package main

import (
	_ "vharness/c01"
	"vharness/common"
)

func main() { common.Main() }
