package main

import (
	"vharness/common"
	_ "vharness/smt"
)

func main() { common.Main() }
