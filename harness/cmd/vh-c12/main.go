package main

import (
	_ "vharness/c12"
	"vharness/common"
)

func main() { common.Main() }
