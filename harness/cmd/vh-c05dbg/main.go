package main

import (
	"encoding/json"
	"fmt"

	"github.com/piprate/json-gold/ld"
	"vharness/credgen"
)

func main() {
	e := credgen.NewEnv()
	s := e.NewSchema(nil)
	c, _ := credgen.Build(credgen.Spec{Schema: s, Subject: credgen.MakeDID(1)})
	var obj map[string]any
	json.Unmarshal(c.JSON, &obj)
	proc := ld.NewJsonLdProcessor()
	opts := ld.NewJsonLdOptions("")
	opts.Algorithm = ld.AlgorithmURDNA2015
	opts.SafeMode = true
	opts.DocumentLoader = e.Loader
	opts.Format = "application/n-quads"
	n, err := proc.Normalize(obj, opts)
	fmt.Println(n, err)
}
