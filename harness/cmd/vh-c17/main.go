package main

import (
	_ "vharness/c17"
	"vharness/common"
)

func main() { common.Main() }
