package main

import (
	_ "vharness/c10"
	"vharness/common"
)

func main() { common.Main() }
