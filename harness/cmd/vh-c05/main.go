package main

import (
	_ "vharness/c05"
	"vharness/common"
)

func main() { common.Main() }
