package main

import (
	_ "vharness/c14"
	"vharness/common"
)

func main() { common.Main() }
