package main

import (
	_ "vharness/c03"
	"vharness/common"
)

func main() { common.Main() }
