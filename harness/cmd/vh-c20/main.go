package main

import (
	_ "vharness/c20"
	"vharness/common"
)

func main() { common.Main() }
