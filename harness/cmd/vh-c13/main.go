package main

import (
	_ "vharness/c13"
	"vharness/common"
)

func main() { common.Main() }
