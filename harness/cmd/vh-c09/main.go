// Development binary with only the C09 driver.
package main

import (
	"vharness/common"

	_ "vharness/c09"
)

func main() { common.Main() }
