package main

import (
	_ "vharness/c07"
	"vharness/common"
)

func main() { common.Main() }
