package main

import (
	_ "vharness/c18"
	"vharness/common"
)

func main() { common.Main() }
