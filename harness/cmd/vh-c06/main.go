package main

import (
	_ "vharness/c06"
	"vharness/common"
)

func main() { common.Main() }
