package main

import (
	_ "vharness/c08"
	"vharness/common"
)

func main() { common.Main() }
