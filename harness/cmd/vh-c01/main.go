// Command vh-c01: development binary holding only the C01 driver.
package main

import (
	"vharness/common"

	_ "vharness/c01"
)

func main() { common.Main() }
