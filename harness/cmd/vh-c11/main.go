// Development binary with only the C11 driver.
package main

import (
	_ "vharness/c11"
	"vharness/common"
)

func main() { common.Main() }
