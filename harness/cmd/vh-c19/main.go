package main

import (
	_ "vharness/c19"
	"vharness/common"
)

func main() { common.Main() }
