package main

import (
	_ "vharness/c04"
	"vharness/common"
)

func main() { common.Main() }
