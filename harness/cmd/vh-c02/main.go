package main

import (
	_ "vharness/c02"
	"vharness/common"
	_ "vharness/smt" // auxiliary driver of C02 (engine/props.json): the tree streams of DESIGN.md 4.2
)

func main() { common.Main() }
