// Package c17: slot index lookup agrees with where claim building puts the
// field; processor facade (property C17).  Enumerates every assignment of the
// four data slots to {none, five field paths} (6^4 = 1296 serialization
// attributes), malformed attributes and bad schema documents; looks fields up
// by type name and by type IRI (json.Parser directly and through the processor
// facade); builds the claim of a credential of each type and compares the raw
// slots with the reported indices; writes shards for Claim/Run.v.
package c17

import (
	"context"
	"encoding/json"
	"errors"
	"fmt"
	"math/big"
	"path/filepath"
	"reflect"
	"runtime"
	"strings"
	"sync"

	core "github.com/iden3/go-iden3-core/v2"
	gjson "github.com/iden3/go-schema-processor/v2/json"
	"github.com/iden3/go-schema-processor/v2/merklize"
	"github.com/iden3/go-schema-processor/v2/processor"
	"github.com/iden3/go-schema-processor/v2/verifiable"
	"github.com/piprate/json-gold/ld"

	"vharness/common"
	"vharness/coqgen"
	"vharness/credgen"
	"vharness/hashers"
)

func init() { common.Register("C17", Run) }

var slotIdx = [4]int{2, 3, 6, 7}

// Lookup is one GetFieldSlotIndex call.
type Lookup struct {
	Field string `json:"field"`
	Type  string `json:"type"`
	Route string `json:"route"` // parser | facade | facade-none
	// NoExpect: compared with the model only (no statement of the generator about the answer)
	NoExpect bool `json:"no_expect,omitempty"`
}

// Input is one schema (attribute) with its lookups and a credential of the type.
type Input struct {
	Kind    string          `json:"kind"` // assign | malformed | special | doc
	Asg     [4]string       `json:"assignment"`
	AsgIRI  *[4]string      `json:"assignment_by_iri,omitempty"` // when another term with the same @id sorts first: what a lookup by IRI (and claim building) meets
	Schema  *credgen.Schema `json:"schema"`
	RawDoc  *string         `json:"raw_doc,omitempty"` // schema bytes handed to the lookup instead of the schema's document
	Lookups []Lookup        `json:"lookups"`
	Cred    *credgen.Spec   `json:"cred,omitempty"`
	InModel bool            `json:"in_model"` // the claim is also evaluated in the Coq model
	// Mode: "" | "ipfs-client" | "ipfs-gateway": how the MerklizerOpts of the claim-building call reach the
	// contexts (credgen.Env.Mode); in the IPFS modes the credential lists ipfs:// addresses (Cred.CtxIPFS)
	Mode string `json:"mode,omitempty"`
	// NameNoAttr / IRINoAttr: the first term (in sorted order) that carries a scoped context and answers to
	// the type name / the type IRI has NO serialization attribute: the lookup is an error ("not
	// specified") and - for the IRI, which is what claim building looks up - the claim is a merklized one
	NameNoAttr bool `json:"name_no_attr,omitempty"`
	IRINoAttr  bool `json:"iri_no_attr,omitempty"`
	// ClaimError: the credential does not say which type it has (no credentialSubject.type and a
	// top-level type array that is not a pair containing VerifiableCredential): no claim may be built
	ClaimError bool `json:"claim_error,omitempty"`
	// IRIError: another term with the same @id, whose scoped context is not a map, sorts first:
	// a lookup by IRI and claim building must both fail
	IRIError bool `json:"iri_error,omitempty"`
	// Prior: before anything else a claim is built from the same credential document with a SECOND
	// document loader that serves this schema (other attribute) at the same URL and type
	Prior *credgen.Schema `json:"prior,omitempty"`
}

type lobs struct {
	class string // ok | err | panic
	idx   int
	msg   string
}

type cobs struct {
	class string
	slots [8]*big.Int
	msg   string
}

type outcome struct {
	looks  []lobs
	claim  *cobs
	view   *credgen.View
	doc    []byte
	fails  []failure
	counts []string
	evals  int
}

type failure struct {
	class, what string
	input       any
}

type gen struct {
	cfg  *common.Config
	rep  *common.Report
	env  *credgen.Env
	env2 *credgen.Env // second loader, for Input.Prior
	ins  []*Input
	outs []outcome
	mu   sync.Mutex

	// ParseClaim through the facade vs the parser called directly (written as the last shard)
	fviews []credgen.View
	fcases []fcase
	scases []scase // the 8 component subsets x 4 methods, as observed
	hlooks []hlook // lookups of facade histories on ONE Processor value
}

type hlook struct {
	doc []byte
	l   Lookup
	obs lobs
}

type scase struct {
	v, p, l bool
	method  string // MValidate | MSlotIndex | MParseClaim | MLoad
	obs     string // Coq term: SComponent | SNotDefined "x" | SOther
}

type fcase struct {
	route string // parser | facade | facade-none
	cred  int    // index into fviews
	opts  *credgen.Opts
	obs   cobs
	input any
}

func doLookup(route string, field, tp string, doc []byte) (o lobs) {
	defer func() {
		if r := recover(); r != nil {
			o = lobs{class: "panic", msg: fmt.Sprint(r)}
		}
	}()
	var i int
	var err error
	switch route {
	case "parser":
		i, err = gjson.Parser{}.GetFieldSlotIndex(field, tp, doc)
	case "facade":
		p := processor.InitProcessorOptions(&processor.Processor{}, processor.WithParser(gjson.Parser{}))
		i, err = p.GetFieldSlotIndex(field, tp, doc)
	default:
		p := processor.InitProcessorOptions(&processor.Processor{})
		i, err = p.GetFieldSlotIndex(field, tp, doc)
	}
	if err != nil {
		return lobs{class: "err", idx: i, msg: err.Error()}
	}
	return lobs{class: "ok", idx: i}
}

func buildClaim(vc *verifiable.W3CCredential, o *verifiable.CoreClaimOptions) (co cobs) {
	defer func() {
		if r := recover(); r != nil {
			co = cobs{class: "panic", msg: fmt.Sprint(r)}
		}
	}()
	cl, err := vc.ToCoreClaim(context.Background(), o)
	if err != nil {
		return cobs{class: "err", msg: err.Error()}
	}
	s, err := credgen.Slots(cl)
	if err != nil {
		return cobs{class: "panic", msg: err.Error()}
	}
	return cobs{class: "ok", slots: s}
}

// expectedIndex: the generator's own statement — the first data slot, in the
// order 2, 3, 6, 7, that the assignment designates for the field.
func expectedIndex(asg [4]string, field string) (int, bool) {
	for j, p := range asg {
		if p == field {
			return slotIdx[j], true
		}
	}
	return 0, false
}

func (g *gen) run(in *Input) (out outcome) {
	fail := func(class, what string, extra any) {
		out.fails = append(out.fails, failure{class, what, map[string]any{"case": in, "detail": extra}})
	}
	doc := in.Schema.BuildDoc()
	g.mu.Lock()
	_ = g.env.Register(in.Schema)
	if in.Cred != nil && in.Cred.Override != nil {
		_ = g.env.Register(in.Cred.Override)
	}
	g.mu.Unlock()
	if in.RawDoc != nil {
		doc = []byte(*in.RawDoc)
	}
	out.doc = doc
	if in.Prior != nil && in.Cred != nil {
		g.mu.Lock()
		_ = g.env2.Register(in.Prior)
		g.mu.Unlock()
		pc, err := credgen.Build(*in.Cred)
		if err != nil {
			panic(err)
		}
		pr := buildClaim(&pc.VC, g.env2.Real(credgen.Opts{}))
		out.evals++
		out.counts = append(out.counts, "prior-claim-other-loader:"+pr.class)
	}
	wellFormed := in.Kind == "assign"
	asgFor := func(tp string) [4]string {
		if tp == in.Schema.TypeIRI && in.AsgIRI != nil {
			return *in.AsgIRI
		}
		return in.Asg
	}
	claimAsg := asgFor(in.Schema.TypeIRI)
	if in.AsgIRI != nil || in.IRIError || in.IRINoAttr || in.NameNoAttr {
		out.counts = append(out.counts, "observation-two-terms-one-iri")
	}
	// lookups
	byKey := map[string]lobs{}
	for _, l := range in.Lookups {
		o := doLookup(l.Route, l.Field, l.Type, doc)
		out.looks = append(out.looks, o)
		out.evals++
		out.counts = append(out.counts, "lookup:"+in.Kind+":"+l.Route+":"+o.class)
		if o.class == "panic" {
			fail("c17-panic", "GetFieldSlotIndex panicked: "+o.msg, l)
			continue
		}
		if l.Route == "facade-none" {
			if o.class != "err" {
				fail("c17-facade", "processor without a parser answered a slot index lookup", l)
			}
			continue
		}
		if l.Route == "parser" {
			byKey[l.Field+"\x00"+l.Type] = o
		} else if p, ok := byKey[l.Field+"\x00"+l.Type]; ok {
			if p.class != o.class || p.idx != o.idx || p.msg != o.msg {
				fail("c17-facade", fmt.Sprintf("facade returned (%d,%q), its parser (%d,%q)", o.idx, o.msg, p.idx, p.msg), l)
			}
		}
		if o.class == "err" && o.idx != -1 && l.Route == "parser" {
			fail("c17-error-index", fmt.Sprintf("an error came with index %d instead of -1", o.idx), l)
		}
		known := l.Type == in.Schema.TypeName || l.Type == in.Schema.TypeIRI
		if l.Field == "" {
			out.counts = append(out.counts, "observation-O3-empty-field:"+o.class)
			continue // observation O3: the empty string is not a field path
		}
		if l.NoExpect {
			continue
		}
		switch {
		case wellFormed && known && ((in.IRINoAttr && l.Type == in.Schema.TypeIRI) || (in.NameNoAttr && l.Type == in.Schema.TypeName)):
			if o.class != "err" {
				fail("c17-lookup-index", fmt.Sprintf("the first term answering to %q has no serialization attribute; lookup gave index %d", l.Type, o.idx), l)
			}
		case wellFormed && known && in.IRIError && l.Type == in.Schema.TypeIRI:
			if o.class != "err" {
				fail("c17-lookup-index", fmt.Sprintf("the first term identified by %q has an array-shaped scoped context; lookup gave index %d", l.Type, o.idx), l)
			}
		case wellFormed && known:
			want, named := expectedIndex(asgFor(l.Type), l.Field)
			if named && (o.class != "ok" || o.idx != want) {
				fail("c17-lookup-index", fmt.Sprintf("field %q is designated for raw slot %d; lookup gave %s %d (%s)", l.Field, want, o.class, o.idx, o.msg), l)
			}
			if !named && o.class != "err" {
				fail("c17-unnamed-field", fmt.Sprintf("field %q is not named by the attribute; lookup gave index %d", l.Field, o.idx), l)
			}
		case in.Kind == "assign" && !known:
			if o.class != "err" {
				fail("c17-unknown-type", fmt.Sprintf("type %q is not defined by the schema; lookup gave index %d", l.Type, o.idx), l)
			}
		case in.Kind == "malformed" || in.Kind == "doc":
			if o.class != "err" {
				fail("c17-malformed-accepted", fmt.Sprintf("lookup accepted a malformed attribute / document and gave index %d", o.idx), l)
			}
		}
	}
	// the claim of a credential of this type
	if in.Cred != nil {
		c, err := credgen.Build(*in.Cred)
		if err != nil {
			panic(err)
		}
		env := g.env
		if in.Mode != "" {
			env = g.env.WithMode(in.Mode)
			urls := append([]string{"https://www.w3.org/2018/credentials/v1", in.Schema.URL}, in.Cred.PreCtx...)
			g.env.ServeIPFS(append(urls, in.Cred.ExtraCtx...)...)
		}
		v := env.ViewOf(&c.VC, append(credgen.FieldPaths(), "spare", "nosuch"))
		out.view = &v
		co := buildClaim(&c.VC, env.Real(credgen.Opts{}))
		out.claim = &co
		out.evals++
		out.counts = append(out.counts, "claim:"+in.Kind+":"+co.class)
		switch {
		case co.class == "panic":
			fail("c17-panic", "ToCoreClaim panicked: "+co.msg, nil)
		case in.Kind == "malformed":
			if co.class != "err" {
				fail("c17-malformed-accepted", "claim building accepted a malformed attribute", nil)
			}
		case in.Kind == "assign" && in.ClaimError:
			if co.class != "err" {
				fail("c17-claim-error", "the credential names no single type next to VerifiableCredential but a claim was built", nil)
			}
		case in.Kind == "assign" && in.IRINoAttr:
			// an ordinary merklized claim: root in raw slot 2, the other data slots empty
			if co.class != "ok" {
				fail("c17-claim-error", "the first term identified by the type IRI has no serialization attribute (merklized schema) but claim building failed: "+co.msg, nil)
			} else if v.Root == nil || co.slots[2].Cmp(v.Root) != 0 || co.slots[3].Sign() != 0 || co.slots[6].Sign() != 0 || co.slots[7].Sign() != 0 {
				fail("c17-claim-slot", fmt.Sprintf("the first term identified by the type IRI has no serialization attribute: expected a merklized claim (root %v in raw slot 2, slots 3/6/7 empty), got %v %v %v %v", v.Root, co.slots[2], co.slots[3], co.slots[6], co.slots[7]), nil)
			}
		case in.Kind == "assign" && in.IRIError:
			if co.class != "err" {
				fail("c17-claim-error", "the first term identified by the type IRI has an array-shaped scoped context but a claim was built", nil)
			}
		case in.Kind == "assign":
			missing := false
			for _, p := range claimAsg {
				if p != "" && v.Fields[p] == nil {
					missing = true
				}
			}
			if missing {
				if co.class != "err" {
					fail("c17-missing-field", "a designated field is absent from the credential but a claim was built", nil)
				}
				break
			}
			if co.class != "ok" {
				fail("c17-claim-error", "claim building failed for a well-formed attribute: "+co.msg, nil)
				break
			}
			// (a) every data slot holds the encoding of the field designated for it
			for j, p := range claimAsg {
				want := new(big.Int)
				if p != "" {
					want = v.Fields[p]
				}
				if co.slots[slotIdx[j]].Cmp(want) != 0 {
					fail("c17-claim-slot", fmt.Sprintf("raw slot %d is %s; the attribute designates %q whose encoding is %s", slotIdx[j], co.slots[slotIdx[j]], p, want), nil)
				}
			}
			// (b) index i reported for f  <=>  i is the first data slot holding f's encoding
			for _, f := range credgen.FieldPaths() {
				enc := v.Fields[f]
				if enc == nil || enc.Sign() == 0 {
					continue
				}
				first := -1
				for _, i := range slotIdx {
					if co.slots[i].Cmp(enc) == 0 {
						first = i
						break
					}
				}
				for _, tp := range []string{in.Schema.TypeName, in.Schema.TypeIRI} {
					if tp == in.Schema.TypeName && (in.AsgIRI != nil || in.IRIError || in.IRINoAttr || in.NameNoAttr) {
						continue // the credential's type is the IRI: the claim follows the lookup by IRI
					}
					o, ok := byKey[f+"\x00"+tp]
					if !ok || o.class == "panic" {
						continue
					}
					if (o.class == "ok") != (first >= 0) || (o.class == "ok" && o.idx != first) {
						fail("c17-disagree", fmt.Sprintf("field %q (type %q): lookup says %s %d, the claim holds its encoding first in raw slot %d", f, tp, o.class, o.idx, first), nil)
					}
				}
			}
		}
	}
	return out
}

func (g *gen) flush() {
	g.outs = make([]outcome, len(g.ins))
	w := runtime.NumCPU() / 2
	if w < 2 {
		w = 2
	}
	if w > 8 {
		w = 8
	}
	var wg sync.WaitGroup
	ch := make(chan int)
	for k := 0; k < w; k++ {
		wg.Add(1)
		go func() {
			defer wg.Done()
			for i := range ch {
				g.outs[i] = g.run(g.ins[i])
			}
		}()
	}
	for i := range g.ins {
		ch <- i
	}
	close(ch)
	wg.Wait()
	for i, in := range g.ins {
		o := g.outs[i]
		g.rep.Evaluations += o.evals
		for _, c := range o.counts {
			g.rep.Count(c)
		}
		for _, f := range o.fails {
			g.rep.Fail(f.class, f.what, f.input)
		}
		b, _ := json.Marshal(in)
		g.rep.Distinct(string(b))
	}
}

// ---------- generators ----------

func lookupsFor(s *credgen.Schema, fields []string, routes bool) []Lookup {
	var out []Lookup
	for _, f := range fields {
		for _, tp := range []string{s.TypeName, s.TypeIRI} {
			out = append(out, Lookup{Field: f, Type: tp, Route: "parser"})
		}
	}
	out = append(out, Lookup{Field: fields[0], Type: "NoSuchType", Route: "parser"})
	if routes {
		out = append(out, Lookup{Field: fields[0], Type: s.TypeName, Route: "facade"},
			Lookup{Field: fields[1], Type: s.TypeIRI, Route: "facade"},
			Lookup{Field: fields[0], Type: s.TypeName, Route: "facade-none"})
	}
	return out
}

func (g *gen) assignments() {
	choices := append([]string{""}, credgen.FieldPaths()...)
	fields := append(credgen.FieldPaths(), "spare", "")
	n := 0
	did := credgen.MakeDID(7)
	for a := range choices {
		for b := range choices {
			for c := range choices {
				for d := range choices {
					asg := [4]string{choices[a], choices[b], choices[c], choices[d]}
					attr := credgen.SerAttr(asg[0], asg[1], asg[2], asg[3])
					kind := "assign"
					var s *credgen.Schema
					if a+b+c+d == 0 {
						// nothing assigned: the attribute "iden3:v1:" is malformed; the well-formed way to assign nothing
						attr = "iden3:v1:slotValueB="
					}
					s = g.env.NewSchema(&attr)
					sp := credgen.Spec{Schema: s}
					if n%5 == 0 {
						sp.Subject = did
					}
					if n%7 == 0 {
						x := int64(2000000000 + n)
						sp.Expiration = &x
					}
					in := &Input{Kind: kind, Asg: asg, Schema: s, Lookups: lookupsFor(s, fields, n%16 == 0), Cred: &sp}
					in.InModel = g.cfg.Thorough() || n%4 == 0
					if n%9 == 0 {
						// the same URL and type mean something else to another loader: a merklized
						// schema, or the assignment read backwards
						pa := credgen.SerAttr(asg[3], asg[2], asg[1], asg[0])
						in.Prior = &credgen.Schema{URL: s.URL, TypeName: s.TypeName, TypeIRI: s.TypeIRI, Ser: &pa, CtxShape: "map"}
						if n%18 == 0 {
							in.Prior.Ser = nil
						}
					}
					g.ins = append(g.ins, in)
					// contexts that are ipfs:// objects, reachable only through the IPFS client / gateway the
					// MerklizerOpts configure (no document loader in the options)
					if n%8 == 3 {
						for k, mode := range []string{"ipfs-client", "ipfs-gateway"} {
							if k == 1 && n%16 != 3 {
								continue
							}
							sp3 := credgen.Spec{Schema: s, CtxIPFS: true}
							if n%3 == 0 {
								sp3.Subject = did
							}
							g.ins = append(g.ins, &Input{Kind: kind, Asg: asg, Schema: s, Mode: mode, Lookups: lookupsFor(s, fields[:5], false), Cred: &sp3, InModel: n%32 == 3 || g.cfg.Thorough()})
						}
					}
					// where the credential says its type: credentialSubject.type absent / present x the
					// top-level pair in both orders; three types / no VerifiableCredential: no claim
					if n%8 == 0 {
						vcT := "VerifiableCredential"
						shapes := []credgen.Spec{
							{Schema: s, Subject: did, NoSubjectType: true, TopTypes: []string{vcT, s.TypeName}},
							{Schema: s, Subject: did, NoSubjectType: true, TopTypes: []string{s.TypeName, vcT}},
							{Schema: s, TopTypes: []string{s.TypeName, vcT}},
							{Schema: s, Subject: did, NoSubjectType: true, TopTypes: []string{s.TypeName, vcT, "VerifiablePresentation"}},
							{Schema: s, Subject: did, NoSubjectType: true, TopTypes: []string{s.TypeName, "VerifiablePresentation"}},
						}
						for k := range shapes {
							sp2 := shapes[k]
							if k >= 3 && n%32 != 0 {
								continue
							}
							g.ins = append(g.ins, &Input{Kind: kind, Asg: asg, Schema: s, Lookups: lookupsFor(s, fields[:5], false), Cred: &sp2,
								InModel: n%16 == 0 || g.cfg.Thorough(), ClaimError: k >= 3})
						}
					}
					// more credentials of the same type: other field values, an absent field
					extra := 0
					if g.cfg.Thorough() {
						extra = 2
					} else if n%40 == 0 {
						extra = 1
					}
					rng := g.cfg.Rng
					for e := 0; e < extra; e++ {
						sp2 := credgen.Spec{Schema: s}
						sp2.Values = [5]string{fmt.Sprintf("%d.%02d", rng.Intn(100000), rng.Intn(100)), fmt.Sprintf("%d", rng.Int63n(1<<40)-(1<<39)),
							fmt.Sprintf("name-%d", rng.Intn(1000000)), []string{"true", "false"}[rng.Intn(2)],
							fmt.Sprintf("%04d-%02d-%02dT%02d:%02d:%02dZ", 1950+rng.Intn(150), 1+rng.Intn(12), 1+rng.Intn(28), rng.Intn(24), rng.Intn(60), rng.Intn(60))}
						if rng.Intn(3) == 0 {
							sp2.Omit = []string{credgen.FieldPaths()[rng.Intn(5)]}
						}
						if rng.Intn(2) == 0 {
							sp2.Subject = did
						}
						g.ins = append(g.ins, &Input{Kind: kind, Asg: asg, Schema: s, Cred: &sp2, InModel: true})
					}
					n++
				}
			}
		}
	}
	// parts in another order, a repeated key (the last one wins), an absent designated field
	s := g.env.NewSchema(strp("iden3:v1:slotValueB=name&slotIndexA=count&slotValueA=price&slotIndexB=info.since"))
	g.ins = append(g.ins, &Input{Kind: "assign", Asg: [4]string{"count", "info.since", "price", "name"}, Schema: s, Lookups: lookupsFor(s, fields, true), Cred: &credgen.Spec{Schema: s}, InModel: true})
	s = g.env.NewSchema(strp("iden3:v1:slotIndexA=count&slotIndexA=price"))
	g.ins = append(g.ins, &Input{Kind: "assign", Asg: [4]string{"price", "", "", ""}, Schema: s, Lookups: lookupsFor(s, fields, false), Cred: &credgen.Spec{Schema: s}, InModel: true})
	s = g.env.NewSchema(strp(credgen.SerAttr("name", "", "price", "")))
	g.ins = append(g.ins, &Input{Kind: "assign", Asg: [4]string{"name", "", "price", ""}, Schema: s, Lookups: lookupsFor(s, fields, false), Cred: &credgen.Spec{Schema: s, Omit: []string{"name"}}, InModel: true})
	s = g.env.NewSchema(strp(credgen.SerAttr("spare", "", "", "count")))
	g.ins = append(g.ins, &Input{Kind: "assign", Asg: [4]string{"spare", "", "", "count"}, Schema: s, Lookups: lookupsFor(s, fields, false), Cred: &credgen.Spec{Schema: s}, InModel: true})
}

func strp(s string) *string { return &s }

func (g *gen) malformed() {
	// also the strings a lenient parser would take for paths
	fields := append(credgen.FieldPaths(), "spare", "price=count", "=price", "price=", "count=name", "a=b=c", "priceslotValueB=name")
	for _, bad := range []string{"iden3:v1:", "iden3:v2:slotIndexA=price", "slotIndexA=price", "iden3:v1", "iden3:v1:slotIndexA=price&slotIndexB=count&slotValueA=name&slotValueB=info.insured&slotIndexA=price",
		"iden3:v1:slotIndexA=price=count", "iden3:v1:slotIndexC=price", "iden3:v1:slotIndexA", "iden3:v1:slotIndexA=price&", "iden3:v1:&slotIndexA=price", "iden3:v1:slotIndexA=price&&slotIndexB=count",
		"Iden3:v1:slotIndexA=price", " iden3:v1:slotIndexA=price", "iden3:v1:slotindexa=price", "iden3:v1:slotIndexA =price", "iden3:v1:=price", "iden3:v1:slotIndexA=price;slotIndexB=count", "iden3:v1:slotIndexA==price",
		// a second '=' in a part (in every position), a lost '&', an empty key, a doubled '=', a trailing '=' - next to parts that are fine
		"iden3:v1:slotIndexA=price=count&slotValueB=name", "iden3:v1:slotValueB=name&slotIndexA=price=count", "iden3:v1:slotIndexA=price&slotIndexB=count=name&slotValueA=name",
		"iden3:v1:slotIndexA=price&slotIndexB=count&slotValueA=name=x&slotValueB=info.insured", "iden3:v1:slotIndexA=price&slotIndexB=count&slotValueA=name&slotValueB=info.insured=x",
		"iden3:v1:slotIndexA==price&slotValueB=name", "iden3:v1:=price&slotValueB=name", "iden3:v1:slotIndexA=price=&slotValueB=name", "iden3:v1:slotIndexA=priceslotValueB=name",
		"iden3:v1:slotIndexA=price&slotValueB=name&", "iden3:v1:slotValueB=name&slotIndexA", "iden3:v1:slotValueB=name&=", "iden3:v1:slotValueB=name&slotIndexA=a=b=c"} {
		s := g.env.NewSchema(strp(bad))
		g.ins = append(g.ins, &Input{Kind: "malformed", Schema: s, Lookups: lookupsFor(s, fields, true), Cred: &credgen.Spec{Schema: s}, InModel: true})
	}
	// the type's scoped context is an array: both operations fail
	s := g.env.NewSchema(strp(credgen.SerAttr("price", "", "", "")))
	s.CtxShape = "array"
	_ = g.env.Register(s)
	g.ins = append(g.ins, &Input{Kind: "malformed", Schema: s, Lookups: lookupsFor(s, fields, false), Cred: &credgen.Spec{Schema: s}, InModel: true})
}

func (g *gen) specials() {
	fields := append(credgen.FieldPaths(), "spare")
	// sibling types (map order, D11): array-shaped contexts sorting before / after, another attribute, plain terms
	s := g.env.NewSchema(strp(credgen.SerAttr("", "price", "", "name")))
	s.Extra = []credgen.ExtraType{
		{Name: "AaaArray", IRI: "urn:extra:a", Shape: "array"},
		{Name: "ZzzArray", IRI: "urn:extra:z", Shape: "array"},
		{Name: "AaaOther", IRI: "urn:extra:o", Shape: "map", SerAttr: credgen.SerAttr("name", "", "", "count")},
		{Name: "Plain", IRI: "urn:extra:p", Shape: "none"},
		{Name: "Alias", IRI: "urn:extra:s", Shape: "string"},
	}
	_ = g.env.Register(s)
	ls := lookupsFor(s, fields, true)
	for _, tp := range []string{"AaaArray", "urn:extra:a", "ZzzArray", "AaaOther", "urn:extra:o", "Plain", "urn:extra:p", "Alias", "urn:extra:s", "id", "type", "@protected"} {
		for _, f := range []string{"name", "count", "price"} {
			ls = append(ls, Lookup{Field: f, Type: tp, Route: "parser"})
		}
	}
	in := &Input{Kind: "special", Asg: [4]string{"", "price", "", "name"}, Schema: s, Lookups: ls, Cred: &credgen.Spec{Schema: s}, InModel: true}
	g.ins = append(g.ins, in)
	// 30 repetitions of the same lookups (map-order nondeterminism)
	for r := 0; r < 30; r++ {
		g.ins = append(g.ins, &Input{Kind: "special", Asg: in.Asg, Schema: s, Lookups: ls[:8]})
	}
	// two terms identified by the same IRI: a lookup by IRI (and claim building) meets the one whose name sorts first
	sal := g.env.NewSchema(strp(credgen.SerAttr("price", "", "", "")))
	sal.Extra = []credgen.ExtraType{{Name: "AaaAlias", IRI: sal.TypeIRI, Shape: "map", SerAttr: credgen.SerAttr("", "", "count", "name")},
		{Name: "ZzzAlias", IRI: sal.TypeIRI, Shape: "array"}}
	_ = g.env.Register(sal)
	ali := &Input{Kind: "assign", Asg: [4]string{"price", "", "", ""}, AsgIRI: &[4]string{"", "", "count", "name"}, Schema: sal,
		Lookups: lookupsFor(sal, fields, true), Cred: &credgen.Spec{Schema: sal}, InModel: true}
	g.ins = append(g.ins, ali)
	for r := 0; r < 30; r++ {
		g.ins = append(g.ins, &Input{Kind: "assign", Asg: ali.Asg, AsgIRI: ali.AsgIRI, Schema: sal, Lookups: ali.Lookups[:10]})
	}
	// several terms share the type's IRI: aliases without scoped context (a plain IRI string, a map with
	// @id only), with a map-shaped scoped context carrying another attribute, with an array-shaped one;
	// sorting before and after the type.  Terms without a scoped context are passed over.
	shapes := []string{"", "none", "string", "map", "mapnoattr", "array"}
	mainAsg := [4]string{"price", "", "", "name"}
	beforeAsg := [4]string{"", "count", "", ""}
	afterAsg := [4]string{"name", "", "", ""}
	extra := func(name, iri, shape string, asg [4]string) credgen.ExtraType {
		if shape == "mapnoattr" {
			return credgen.ExtraType{Name: name, IRI: iri, Shape: "map"} // a scoped context without the attribute
		}
		return credgen.ExtraType{Name: name, IRI: iri, Shape: shape, SerAttr: credgen.SerAttr(asg[0], asg[1], asg[2], asg[3])}
	}
	for _, mainAttr := range []bool{true, false} {
		for _, before := range shapes {
			for _, after := range shapes {
				var as *credgen.Schema
				if mainAttr {
					as = g.env.NewSchema(strp(credgen.SerAttr(mainAsg[0], mainAsg[1], mainAsg[2], mainAsg[3])))
				} else {
					if before == "" && after == "" {
						continue
					}
					as = g.env.NewSchema(nil) // the type itself has a scoped context without the attribute
				}
				if before != "" {
					as.Extra = append(as.Extra, extra("AaaAlias", as.TypeIRI, before, beforeAsg))
				}
				if after != "" {
					as.Extra = append(as.Extra, extra("ZzzAlias", as.TypeIRI, after, afterAsg))
				}
				_ = g.env.Register(as)
				in := &Input{Kind: "assign", Asg: mainAsg, Schema: as, Lookups: lookupsFor(as, fields, false), Cred: &credgen.Spec{Schema: as}, InModel: true}
				in.NameNoAttr = !mainAttr
				// by IRI: the first term in sorted order (AaaAlias, the type, ZzzAlias) that carries a scoped context
				switch before {
				case "map":
					in.AsgIRI = &beforeAsg
				case "mapnoattr":
					in.IRINoAttr = true
				case "array":
					in.IRIError = true
				default:
					in.IRINoAttr = !mainAttr
				}
				for _, tp := range []string{"AaaAlias", "ZzzAlias"} {
					for _, f := range []string{"price", "count", "name"} {
						in.Lookups = append(in.Lookups, Lookup{Field: f, Type: tp, Route: "parser", NoExpect: true})
					}
				}
				g.ins = append(g.ins, in)
				// repetitions (map order)
				for r := 0; r < 2; r++ {
					g.ins = append(g.ins, &Input{Kind: "assign", Asg: mainAsg, AsgIRI: in.AsgIRI, IRIError: in.IRIError, IRINoAttr: in.IRINoAttr, NameNoAttr: in.NameNoAttr, Schema: as, Lookups: in.Lookups[:12]})
				}
			}
		}
	}
	// credentials with three and more contexts: the type's @id is spelled with a prefix that an EARLIER
	// context declares; a LATER context redefines the type (the last definition is the type's); unrelated
	// contexts before and after.  The schema document handed to the lookup is the combined @context array.
	inner := func(sc *credgen.Schema) any {
		var top map[string]any
		_ = json.Unmarshal(sc.BuildDoc(), &top)
		return top["@context"].([]any)[0]
	}
	rawOf := func(ctxs ...any) *string {
		b, _ := json.Marshal(map[string]any{"@context": ctxs})
		r := string(b)
		return &r
	}
	noise := map[string]any{"noiseTerm": "https://noise.example/ns#term"}
	for k, asg := range [][4]string{{"price", "", "", "name"}, {"", "count", "info.since", ""}, {"name", "price", "count", "info.insured"}} {
		ps := g.env.NewSchema(strp(credgen.SerAttr(asg[0], asg[1], asg[2], asg[3])))
		ps.TypeIDWritten = "acme:" + ps.TypeName
		ps.TypeIRI = credgen.AcmeNS + ps.TypeName
		_ = g.env.Register(ps)
		pre := []string{credgen.URLPrefixCtx}
		if k > 0 {
			pre = []string{credgen.URLNoiseCtx, credgen.URLPrefixCtx}
		}
		sp := credgen.Spec{Schema: ps, PreCtx: pre}
		if k == 2 {
			sp.ExtraCtx = []string{credgen.URLNoiseCtx}
		}
		g.ins = append(g.ins, &Input{Kind: "assign", Asg: asg, Schema: ps, RawDoc: rawOf(noise, credgen.PrefixCtxInner(), inner(ps)), Lookups: lookupsFor(ps, fields, k == 0), Cred: &sp, InModel: true})
	}
	for k, pair := range [][2][4]string{{{"price", "", "", ""}, {"", "count", "name", ""}}, {{"name", "count", "", ""}, {"", "", "name", "count"}}, {{"price", "count", "name", "info.insured"}, {"info.since", "", "", ""}}} {
		bs := g.env.NewSchema(strp(credgen.SerAttr(pair[0][0], pair[0][1], pair[0][2], pair[0][3])))
		bs.Unprotected = true
		_ = g.env.Register(bs)
		ov := &credgen.Schema{URL: strings.Replace(bs.URL, ".json-ld", "-override.json-ld", 1), TypeName: bs.TypeName, TypeIRI: bs.TypeIRI,
			Ser: strp(credgen.SerAttr(pair[1][0], pair[1][1], pair[1][2], pair[1][3])), CtxShape: "map", Unprotected: true}
		sp := credgen.Spec{Schema: bs, Override: ov}
		if k > 0 {
			sp.PreCtx = []string{credgen.URLNoiseCtx}
			sp.ExtraCtx = []string{credgen.URLPrefixCtx}
		}
		g.ins = append(g.ins, &Input{Kind: "assign", Asg: pair[1], Schema: bs, RawDoc: rawOf(inner(bs), inner(ov), noise), Lookups: lookupsFor(bs, fields, false), Cred: &sp, InModel: true})
	}
	// attribute that is not a string; merklized schema: no attribute at all
	sn := g.env.NewSchema(nil)
	sn.SerRaw = 5
	_ = g.env.Register(sn)
	g.ins = append(g.ins, &Input{Kind: "malformed", Schema: sn, Lookups: lookupsFor(sn, fields, false)})
	sm := g.env.NewSchema(nil)
	g.ins = append(g.ins, &Input{Kind: "malformed", Schema: sm, Lookups: lookupsFor(sm, fields, true)})
	// the same context written as an object instead of a one-element array, and with more top-level members
	{
		so := g.env.NewSchema(strp(credgen.SerAttr("count", "", "", "info.since")))
		var top map[string]any
		_ = json.Unmarshal(so.BuildDoc(), &top)
		inner := top["@context"].([]any)[0]
		b1, _ := json.Marshal(map[string]any{"@context": inner})
		b2, _ := json.Marshal(map[string]any{"@context": []any{inner, map[string]any{"other": "urn:other"}}, "$schema": "x", "title": 5})
		for _, raw := range []string{string(b1), string(b2)} {
			raw := raw
			g.ins = append(g.ins, &Input{Kind: "assign", Asg: [4]string{"count", "", "", "info.since"}, Schema: so, RawDoc: &raw, Lookups: lookupsFor(so, fields, true)})
		}
	}
	// documents that are not a JSON object with a usable @context
	for _, raw := range []string{"", "not json", "[]", "5", "null", "{}", `{"context":{}}`, `{"@context":5}`, `{"@context":{"a":{"@id":5}}}`, `{"@context":{"@version":2}}`, `{"@context":{}}`, `{"@context":[]}`, `{"@context":null}`} {
		raw := raw
		g.ins = append(g.ins, &Input{Kind: "doc", Schema: sm, RawDoc: &raw, Lookups: lookupsFor(sm, fields[:2], true)})
	}
}

// ---------- facade with stub components ----------

type stubParser struct {
	claim *core.Claim
	err   error
	idx   int
	calls *int
	got   **processor.CoreClaimOptions
}

func (s stubParser) ParseClaim(ctx context.Context, c verifiable.W3CCredential, o *processor.CoreClaimOptions) (*core.Claim, error) {
	*s.calls++
	if s.got != nil {
		*s.got = o
	}
	return s.claim, s.err
}

// sameOptions: every field, the merklizer options element by element (functions by code pointer).
func sameOptions(a, b *processor.CoreClaimOptions) bool {
	if a == nil || b == nil {
		return a == b
	}
	if a.RevNonce != b.RevNonce || a.Version != b.Version || a.SubjectPosition != b.SubjectPosition ||
		a.MerklizedRootPosition != b.MerklizedRootPosition || a.Updatable != b.Updatable || len(a.MerklizerOpts) != len(b.MerklizerOpts) {
		return false
	}
	for i := range a.MerklizerOpts {
		if reflect.ValueOf(a.MerklizerOpts[i]).Pointer() != reflect.ValueOf(b.MerklizerOpts[i]).Pointer() {
			return false
		}
	}
	return true
}
func (s stubParser) GetFieldSlotIndex(field, typeName string, schema []byte) (int, error) {
	*s.calls++
	return s.idx, s.err
}

type stubValidator struct {
	err   error
	calls *int
}

func (s stubValidator) ValidateData(data, schema []byte) error { *s.calls++; return s.err }

type stubLoader struct {
	doc *ld.RemoteDocument
	err error
}

func (s stubLoader) LoadDocument(u string) (*ld.RemoteDocument, error) { return s.doc, s.err }

func (g *gen) facade() {
	rep := g.rep
	fail := func(what string, extra any) { rep.Fail("c17-facade", what, map[string]any{"facade": extra}) }
	ctx := context.Background()
	sentinel := errors.New("sentinel")
	cl, _ := core.NewClaim(core.SchemaHash{1, 2, 3})
	for _, e := range []error{nil, sentinel} {
		for _, idx := range []int{-1, 0, 2, 7, 12345} {
			n := 0
			p := processor.InitProcessorOptions(&processor.Processor{}, processor.WithParser(stubParser{claim: cl, err: e, idx: idx, calls: &n}),
				processor.WithValidator(stubValidator{err: e, calls: &n}))
			i, err := p.GetFieldSlotIndex("f", "t", []byte("{}"))
			rep.Evaluations++
			rep.Count("facade:stub")
			if i != idx || err != e || n != 1 {
				fail(fmt.Sprintf("GetFieldSlotIndex: facade gave (%d,%v) after %d component call(s); the parser returns (%d,%v)", i, err, n, idx, e), nil)
			}
			var got *processor.CoreClaimOptions
			p.Parser = stubParser{claim: cl, err: e, idx: idx, calls: &n, got: &got}
			given := &processor.CoreClaimOptions{RevNonce: uint64(idx + 2), Version: 3, SubjectPosition: "value", MerklizedRootPosition: "index", Updatable: true,
				MerklizerOpts: []merklize.MerklizeOption{merklize.WithSafeMode(false), merklize.WithDocumentLoader(g.env.Loader)}}
			c2, err := p.ParseClaim(ctx, verifiable.W3CCredential{}, given)
			if c2 != cl || err != e || n != 2 {
				fail("ParseClaim: the facade does not return what its parser returns", nil)
			}
			if !sameOptions(got, given) {
				fail("ParseClaim: the parser does not receive the options the facade was given (every field, merklizer options included)", nil)
			}
			if _, _ = p.ParseClaim(ctx, verifiable.W3CCredential{}, nil); got != nil {
				fail("ParseClaim: nil options do not reach the parser as nil", nil)
			}
			n--
			err = p.ValidateData([]byte("{}"), []byte("{}"))
			if err != e || n != 3 {
				fail("ValidateData: the facade does not return what its validator returns", nil)
			}
		}
	}
	// options are applied in order: the last parser wins; an option does not disturb the other components
	{
		n1, n2, n3 := 0, 0, 0
		p := processor.InitProcessorOptions(&processor.Processor{}, processor.WithParser(stubParser{idx: 1, calls: &n1}),
			processor.WithValidator(stubValidator{calls: &n3}), processor.WithParser(stubParser{idx: 2, calls: &n2}))
		i, err := p.GetFieldSlotIndex("f", "t", nil)
		if i != 2 || err != nil || n1 != 0 || n2 != 1 || p.Validator == nil || p.DocumentLoader != nil {
			fail("InitProcessorOptions: the configured components are not the ones given (last option wins)", nil)
		}
		rep.Evaluations++
	}
	// every subset of {validator, parser, loader} x every facade method: the component's own answer when
	// the component the method needs is configured, that method's "... is not defined" error when it is
	// not (whatever else is configured), never a panic
	{
		verdict := errors.New("the validator's verdict")
		doc := map[string]any{"k": "v"}
		wantDoc, _ := json.Marshal(doc)
		for mask := 0; mask < 8; mask++ {
			nP, nV := 0, 0
			var os []processor.Opt
			if mask&1 != 0 {
				os = append(os, processor.WithValidator(stubValidator{err: verdict, calls: &nV}))
			}
			if mask&2 != 0 {
				os = append(os, processor.WithParser(stubParser{claim: cl, idx: 6, calls: &nP}))
			}
			if mask&4 != 0 {
				os = append(os, processor.WithDocumentLoader(stubLoader{doc: &ld.RemoteDocument{Document: doc}}))
			}
			p := processor.InitProcessorOptions(&processor.Processor{}, os...)
			var lastErr error
			var lastComponent bool
			guard := func(method string, f func() string) {
				rep.Evaluations++
				rep.Count("facade:subset")
				var bad string
				lastErr, lastComponent = nil, false
				panicked := false
				func() {
					defer func() {
						if r := recover(); r != nil {
							bad = fmt.Sprintf("panic: %v", r)
							panicked = true
						}
					}()
					bad = f()
				}()
				// what the implementation did, for the model: the component's own answer, "<x> is not defined", other
				obs := "SOther"
				switch {
				case panicked:
				case lastComponent:
					obs = "SComponent"
				case lastErr != nil && strings.HasSuffix(lastErr.Error(), " is not defined"):
					obs = fmt.Sprintf("SNotDefined %q", strings.TrimSuffix(lastErr.Error(), " is not defined"))
				}
				g.scases = append(g.scases, scase{v: mask&1 != 0, p: mask&2 != 0, l: mask&4 != 0,
					method: map[string]string{"ValidateData": "MValidate", "GetFieldSlotIndex": "MSlotIndex", "ParseClaim": "MParseClaim", "Load": "MLoad"}[method], obs: obs})
				if bad != "" {
					fail(fmt.Sprintf("%s on a processor with validator=%v parser=%v loader=%v: %s", method, mask&1 != 0, mask&2 != 0, mask&4 != 0, bad),
						map[string]any{"subset": mask, "method": method})
				}
			}
			notDefined := func(err error, what string) string {
				if err == nil || err.Error() != what+" is not defined" {
					return fmt.Sprintf("expected the error %q, got %v", what+" is not defined", err)
				}
				return ""
			}
			guard("ValidateData", func() string {
				err := p.ValidateData([]byte("{}"), []byte("{}"))
				lastErr, lastComponent = err, err == verdict && nV == 1
				if mask&1 != 0 {
					if err != verdict || nV != 1 {
						return fmt.Sprintf("expected the validator's own answer, got %v after %d validator call(s)", err, nV)
					}
					return ""
				}
				return notDefined(err, "validator")
			})
			guard("GetFieldSlotIndex", func() string {
				i, err := p.GetFieldSlotIndex("f", "t", []byte("{}"))
				lastErr, lastComponent = err, err == nil && i == 6
				if mask&2 != 0 {
					if i != 6 || err != nil {
						return fmt.Sprintf("expected the parser's own answer (6, nil), got (%d, %v)", i, err)
					}
					return ""
				}
				return notDefined(err, "parser")
			})
			guard("ParseClaim", func() string {
				c, err := p.ParseClaim(ctx, verifiable.W3CCredential{}, &processor.CoreClaimOptions{})
				lastErr, lastComponent = err, err == nil && c == cl
				if mask&2 != 0 {
					if c != cl || err != nil {
						return fmt.Sprintf("expected the parser's own answer, got (%v, %v)", c, err)
					}
					return ""
				}
				if c != nil {
					return "a claim without a parser"
				}
				return notDefined(err, "parser")
			})
			guard("Load", func() string {
				b, err := p.Load(ctx, "https://x")
				lastErr, lastComponent = err, err == nil && string(b) == string(wantDoc)
				if mask&4 != 0 {
					if err != nil || string(b) != string(wantDoc) {
						return fmt.Sprintf("expected the loader's document, got (%s, %v)", b, err)
					}
					return ""
				}
				if b != nil {
					return "a document without a loader"
				}
				return notDefined(err, "loader")
			})
		}
	}
	// histories on ONE Processor value: the same (type, field) looked up under schema revisions that
	// move the field to another slot, drop it (error), restore it - each answer is the configured
	// parser's own answer on THOSE bytes (the facade keeps nothing between calls)
	{
		base := g.env.NewSchema(strp(credgen.SerAttr("price", "count", "", "")))
		rev := func(a, b, c, d string) []byte {
			sc := &credgen.Schema{URL: base.URL, TypeName: base.TypeName, TypeIRI: base.TypeIRI, Ser: strp(credgen.SerAttr(a, b, c, d)), CtxShape: "map"}
			return append([]byte{}, sc.BuildDoc()...)
		}
		revs := [][]byte{rev("price", "count", "", ""), rev("", "", "count", "price"), rev("name", "", "", ""), rev("price", "count", "", ""), rev("count", "price", "", ""), rev("", "", "", "")}
		bad := "iden3:v1:slotIndexA=price=count"
		revs = append(revs, (&credgen.Schema{URL: base.URL, TypeName: base.TypeName, TypeIRI: base.TypeIRI, Ser: &bad, CtxShape: "map"}).BuildDoc(), rev("", "price", "", "count"))
		for _, order := range [][]int{{0, 1, 2, 3, 4, 5, 6, 7}, {1, 0, 1, 0}, {2, 0, 2, 1, 5, 4}, {6, 7, 6, 3}} {
			p := processor.InitProcessorOptions(&processor.Processor{}, processor.WithParser(gjson.Parser{}))
			for step, ri := range order {
				for _, l := range []Lookup{{Field: "price", Type: base.TypeName, Route: "facade"}, {Field: "count", Type: base.TypeIRI, Route: "facade"}, {Field: "name", Type: base.TypeName, Route: "facade"}} {
					var via, direct lobs
					func() {
						defer func() {
							if r := recover(); r != nil {
								via = lobs{class: "panic", msg: fmt.Sprint(r)}
							}
						}()
						i, err := p.GetFieldSlotIndex(l.Field, l.Type, revs[ri])
						via = lobs{class: "ok", idx: i}
						if err != nil {
							via = lobs{class: "err", idx: i, msg: err.Error()}
						}
					}()
					direct = doLookup("parser", l.Field, l.Type, revs[ri])
					rep.Evaluations += 2
					rep.Count("facade:history:" + via.class)
					if via.class != direct.class || via.idx != direct.idx {
						fail(fmt.Sprintf("step %d of a history on one Processor: GetFieldSlotIndex(%q, %q) on schema revision %d gives %s %d through the facade, %s %d from its parser on the same bytes",
							step, l.Field, l.Type, ri, via.class, via.idx, direct.class, direct.idx), map[string]any{"history": order, "step": step})
					}
					g.hlooks = append(g.hlooks, hlook{doc: revs[ri], l: l, obs: via})
				}
			}
		}
	}
	// missing components
	empty := processor.InitProcessorOptions(&processor.Processor{})
	if _, err := empty.GetFieldSlotIndex("f", "t", nil); err == nil {
		fail("GetFieldSlotIndex without a parser is not an error", nil)
	}
	if c, err := empty.ParseClaim(ctx, verifiable.W3CCredential{}, nil); err == nil || c != nil {
		fail("ParseClaim without a parser is not an error", nil)
	}
	if err := empty.ValidateData(nil, nil); err == nil {
		fail("ValidateData without a validator is not an error", nil)
	}
	if b, err := empty.Load(ctx, "https://x"); err == nil || b != nil {
		fail("Load without a loader is not an error", nil)
	}
	rep.Evaluations += 4
	rep.Count("facade:missing")
	// loader
	doc := map[string]any{"a": []any{1.0, "x"}}
	pl := processor.InitProcessorOptions(&processor.Processor{}, processor.WithDocumentLoader(stubLoader{doc: &ld.RemoteDocument{Document: doc}}))
	b, err := pl.Load(ctx, "https://x")
	want, _ := json.Marshal(doc)
	if err != nil || string(b) != string(want) {
		fail("Load does not return the loaded document", nil)
	}
	pl = processor.InitProcessorOptions(&processor.Processor{}, processor.WithDocumentLoader(stubLoader{err: sentinel}))
	if b, err := pl.Load(ctx, "https://x"); err != sentinel || b != nil {
		fail("Load does not return the loader's error", nil)
	}
	rep.Evaluations += 2
	rep.Count("facade:loader")
	// the real parser behind the facade, in an environment whose contexts ONLY the loader carried by the
	// options' MerklizerOpts can resolve (the process-wide default loader does not know these URLs):
	// every field of the options must reach the parser
	env3 := credgen.NewEnvIn("facade")
	attr := credgen.SerAttr("price", "count", "name", "info.insured")
	s := env3.NewSchema(&attr)
	ms := env3.NewSchema(nil)
	salted := hashers.Mod{P: new(big.Int).Set(fieldQ), SaltBytes: []byte("salt"), SaltElem: big.NewInt(7), Name: "salted"}
	type mzset struct {
		name string
		opts []merklize.MerklizeOption
	}
	sets := []mzset{
		{"loader", []merklize.MerklizeOption{merklize.WithDocumentLoader(env3.Loader)}},
		{"loader+hasher", []merklize.MerklizeOption{merklize.WithDocumentLoader(env3.Loader), merklize.WithHasher(salted)}},
		{"loader+unsafe", []merklize.MerklizeOption{merklize.WithDocumentLoader(env3.Loader), merklize.WithSafeMode(false)}},
	}
	did := credgen.MakeDID(9)
	creds := []credgen.Spec{{Schema: s}, {Schema: ms, Subject: did}, {Schema: s, Omit: []string{"name"}}, {Schema: ms, Subject: did, Undefined: true}, {Schema: s, Undefined: true}}
	x := int64(1999999999)
	creds[0].Expiration = &x
	variants := []credgen.Opts{{}, {RevNonce: 77}, {Version: 4}, {Subject: "value"}, {Subject: "bogus"}, {Root: "value"}, {Root: "index"}, {Root: "bogus"}, {Upd: true},
		{Subject: "value", Root: "value", Upd: true, Version: 1<<32 - 1, RevNonce: 1<<64 - 1}}
	paths := append(credgen.FieldPaths(), "spare", "nosuch")
	parseVia := func(route string, vc verifiable.W3CCredential, po *processor.CoreClaimOptions) (o cobs) {
		defer func() {
			if r := recover(); r != nil {
				o = cobs{class: "panic", msg: fmt.Sprint(r)}
			}
		}()
		var cl *core.Claim
		var err error
		switch route {
		case "parser":
			cl, err = gjson.Parser{}.ParseClaim(ctx, vc, po)
		case "facade":
			cl, err = processor.InitProcessorOptions(&processor.Processor{}, processor.WithParser(gjson.Parser{})).ParseClaim(ctx, vc, po)
		default:
			cl, err = processor.InitProcessorOptions(&processor.Processor{}).ParseClaim(ctx, vc, po)
		}
		if err != nil {
			return cobs{class: "err", msg: err.Error()}
		}
		sl, err := credgen.Slots(cl)
		if err != nil {
			return cobs{class: "panic", msg: err.Error()}
		}
		return cobs{class: "ok", slots: sl}
	}
	for _, set := range sets {
		for ci, sp := range creds {
			c, err := credgen.Build(sp)
			if err != nil {
				panic(err)
			}
			g.fviews = append(g.fviews, env3.ViewOfWith(&c.VC, paths, set.opts))
			vi := len(g.fviews) - 1
			for oi, o := range variants {
				if ci > 1 && oi%3 != 0 {
					continue
				}
				o := o
				mk := func() *processor.CoreClaimOptions {
					return &processor.CoreClaimOptions{RevNonce: o.RevNonce, Version: o.Version, SubjectPosition: o.Subject,
						MerklizedRootPosition: o.Root, Updatable: o.Upd, MerklizerOpts: set.opts}
				}
				what := map[string]any{"cred": sp, "opts": o, "merklizer_opts": set.name}
				direct := parseVia("parser", c.VC, mk())
				po := mk()
				via := parseVia("facade", c.VC, po)
				rep.Evaluations += 2
				rep.Count("facade:parse-claim:" + set.name + ":" + via.class)
				same := direct.class == via.class
				if same && direct.class == "ok" {
					for i := range direct.slots {
						same = same && direct.slots[i].Cmp(via.slots[i]) == 0
					}
				}
				if direct.class == "panic" || via.class == "panic" {
					rep.Fail("c17-panic", "ParseClaim panicked: "+direct.msg+via.msg, map[string]any{"facade": what})
				} else if !same {
					fail(fmt.Sprintf("ParseClaim through the facade gives %s (%s); its parser called directly with the same options gives %s (%s)", via.class, via.msg, direct.class, direct.msg), what)
				}
				if !sameOptions(po, mk()) {
					rep.Fail("c17-facade-options-written", "ParseClaim changed the options it was given", map[string]any{"facade": what})
				}
				g.fcases = append(g.fcases, fcase{route: "parser", cred: vi, opts: &o, obs: direct, input: what},
					fcase{route: "facade", cred: vi, opts: &o, obs: via, input: what})
			}
			none := parseVia("facade-none", c.VC, &processor.CoreClaimOptions{MerklizerOpts: set.opts})
			rep.Evaluations++
			if none.class != "err" {
				fail("ParseClaim without a parser is not an error", nil)
			}
			g.fcases = append(g.fcases, fcase{route: "facade-none", cred: vi, opts: &credgen.Opts{}, obs: none, input: map[string]any{"cred": sp, "merklizer_opts": set.name}})
		}
	}
}

var fieldQ, _ = new(big.Int).SetString("21888242871839275222246405745257275088548364400416034343698204186575808495617", 10)

// ---------- shards ----------

// docCoq renders the schema bytes as Claim.Model.schema_doc, following the
// front end of GetFieldSlotIndex with separate library calls.
func docCoq(f *coqgen.File, doc []byte) string {
	var v any
	if err := json.Unmarshal(doc, &v); err != nil {
		return "SBadJSON"
	}
	m, ok := v.(map[string]any)
	if !ok {
		return "SNotObject"
	}
	c, ok := m["@context"]
	if !ok {
		return "SNoContext"
	}
	ldCtx, err := ld.NewContext(nil, nil).Parse(c)
	if err != nil {
		return "(SCtx None)"
	}
	ts, ok := credgen.TermsOf(ldCtx)
	return "(SCtx " + credgen.TermsCoq(f, ts, ok) + ")"
}

const perShard = 120

func (g *gen) writeShards() error {
	id := 0
	for s := 0; s*perShard < len(g.ins); s++ {
		lo, hi := s*perShard, (s+1)*perShard
		if hi > len(g.ins) {
			hi = len(g.ins)
		}
		f := coqgen.NewFile("From GSP Require Import Claim.Model Claim.Run.")
		or := credgen.NewOracles()
		name := filepath.Join(g.cfg.OutDir, fmt.Sprintf("cases_C17_%03d.v", s))
		var docDefs, credDefs, docNames, credNames, ls, hs, as []string
		for k := lo; k < hi; k++ {
			in, out := g.ins[k], g.outs[k]
			d := len(docNames)
			docDefs = append(docDefs, fmt.Sprintf("Definition d%d := %s.", d, docCoq(f, out.doc)))
			docNames = append(docNames, fmt.Sprintf("d%d", d))
			for li, l := range in.Lookups {
				o := out.looks[li]
				var ob string
				switch o.class {
				case "ok":
					if o.idx < 0 {
						ob = "LPanic"
					} else {
						ob = fmt.Sprintf("LIdx %d", o.idx)
					}
				case "err":
					ob = "LErr"
				default:
					ob = "LPanic"
				}
				rt := map[string]string{"parser": "RParser", "facade": "RFacade", "facade-none": "RFacadeNoParser"}[l.Route]
				ls = append(ls, fmt.Sprintf("mkl %d %s %d %s %s (%s)", id, rt, d, f.Str(l.Field), f.Str(l.Type), ob))
				one := *in
				one.Lookups, one.Cred = []Lookup{l}, nil
				g.rep.Case(name, id, map[string]any{"case": &one})
				id++
			}
			if in.Cred != nil && in.InModel && out.view != nil && out.claim != nil {
				c := len(credNames)
				or.Note(*out.view)
				credDefs = append(credDefs, fmt.Sprintf("Definition cr%d := %s.", c, out.view.Coq(f)))
				credNames = append(credNames, fmt.Sprintf("cr%d", c))
				var ob string
				switch out.claim.class {
				case "ok":
					var l []string
					for _, x := range out.claim.slots {
						l = append(l, coqgen.Limbs(x))
					}
					ob = "OClaim [" + strings.Join(l, "; ") + "]"
				case "err":
					ob = "OErr"
				default:
					ob = "OPanic"
				}
				o0 := credgen.Opts{}.Coq(f)
				hs = append(hs, fmt.Sprintf("mkh %d [%s] [kc %d (Some 0)] [%s] [%s]", id, o0, c, ob, o0))
				noLook := *in
				noLook.Lookups = nil
				g.rep.Case(name, id, map[string]any{"case": &noLook})
				id++
				// agreement inside the model, on the recorded tables
				for _, fp := range append(credgen.FieldPaths(), "spare") {
					for _, tp := range []string{in.Schema.TypeName, in.Schema.TypeIRI} {
						if tp == in.Schema.TypeName && (in.AsgIRI != nil || in.IRIError || in.IRINoAttr || in.NameNoAttr) {
							continue // two terms share the @id: only the lookup by IRI is the claim builder's
						}
						as = append(as, fmt.Sprintf("mka %d %d %d %s %s %s", id, c, d, f.Str(fp), f.Str(tp), coqgen.OptLimbs(out.view.Fields[fp])))
						ag := *in
						ag.Lookups = []Lookup{{Field: fp, Type: tp, Route: "parser"}}
						g.rep.Case(name, id, map[string]any{"case": &ag})
						id++
					}
				}
			}
		}
		f.Add(docDefs...)
		f.Add(credDefs...)
		f.Add("Definition docs_ : list schema_doc := [" + strings.Join(docNames, "; ") + "].")
		f.Add("Definition creds_ : list cred := [" + strings.Join(credNames, "; ") + "].")
		f.Add("Definition oracles_ : raw_oracles := " + or.Coq(f) + ".")
		f.Add("Definition lcases_ : list lcase := " + coqgen.List(ls) + ".")
		f.Add("Definition hcases_ : list hcase := " + coqgen.List(hs) + ".")
		f.Add("Definition acases_ : list acase := " + coqgen.List(as) + ".")
		f.Add("Definition M := Eval vm_compute in (lmismatches docs_ lcases_ ++ hmismatches oracles_ creds_ hcases_ ++ amismatches oracles_ creds_ docs_ acases_)%list.")
		f.Add("Print M.")
		if err := f.Write(name); err != nil {
			return err
		}
		g.rep.Shards = append(g.rep.Shards, name)
	}
	if len(g.fcases) > 0 {
		f := coqgen.NewFile("From GSP Require Import Claim.Model Claim.Run.")
		or := credgen.NewOracles()
		name := filepath.Join(g.cfg.OutDir, "cases_C17_facade.v")
		var credNames, fs []string
		for i, v := range g.fviews {
			or.Note(v)
			f.Add(fmt.Sprintf("Definition cr%d := %s.", i, v.Coq(f)))
			credNames = append(credNames, fmt.Sprintf("cr%d", i))
		}
		for _, c := range g.fcases {
			var ob string
			switch c.obs.class {
			case "ok":
				var l []string
				for _, x := range c.obs.slots {
					l = append(l, coqgen.Limbs(x))
				}
				ob = "OClaim [" + strings.Join(l, "; ") + "]"
			case "err":
				ob = "OErr"
			default:
				ob = "OPanic"
			}
			rt := map[string]string{"parser": "RParser", "facade": "RFacade", "facade-none": "RFacadeNoParser"}[c.route]
			fs = append(fs, fmt.Sprintf("mkf %d %s %d (Some (%s)) (%s)", id, rt, c.cred, c.opts.Coq(f), ob))
			g.rep.Case(name, id, map[string]any{"facade": c.input})
			id++
		}
		f.Add("Definition creds_ : list cred := [" + strings.Join(credNames, "; ") + "].")
		f.Add("Definition oracles_ : raw_oracles := " + or.Coq(f) + ".")
		var ss []string
		for _, c := range g.scases {
			ss = append(ss, fmt.Sprintf("mks %d %s %s %s %s (%s)", id, coqgen.Bool(c.v), coqgen.Bool(c.p), coqgen.Bool(c.l), c.method, c.obs))
			g.rep.Case(name, id, map[string]any{"facade": map[string]any{"validator": c.v, "parser": c.p, "loader": c.l, "method": c.method}})
			id++
		}
		// facade histories: the model's facade is a function of the bytes of each call
		var hd, hl []string
		for k, h := range g.hlooks {
			f.Add(fmt.Sprintf("Definition hd%d := %s.", k, docCoq(f, h.doc)))
			hd = append(hd, fmt.Sprintf("hd%d", k))
			ob := "LErr"
			switch {
			case h.obs.class == "ok" && h.obs.idx >= 0:
				ob = fmt.Sprintf("LIdx %d", h.obs.idx)
			case h.obs.class != "err":
				ob = "LPanic"
			}
			hl = append(hl, fmt.Sprintf("mkl %d RFacade %d %s %s (%s)", id, k, f.Str(h.l.Field), f.Str(h.l.Type), ob))
			g.rep.Case(name, id, map[string]any{"facade": map[string]any{"history_lookup": h.l}})
			id++
		}
		f.Add("Definition hdocs_ : list schema_doc := [" + strings.Join(hd, "; ") + "].")
		f.Add("Definition hlcases_ : list lcase := " + coqgen.List(hl) + ".")
		f.Add("Definition fcases_ : list fcase := " + coqgen.List(fs) + ".")
		f.Add("Definition scases_ : list scase := " + coqgen.List(ss) + ".")
		f.Add("Definition M := Eval vm_compute in (fmismatches oracles_ creds_ fcases_ ++ smismatches scases_ ++ lmismatches hdocs_ hlcases_)%list.")
		f.Add("Print M.")
		if err := f.Write(name); err != nil {
			return err
		}
		g.rep.Shards = append(g.rep.Shards, name)
	}
	return nil
}

func Run(cfg *common.Config) (*common.Report, error) {
	rep := common.NewReport("C17")
	rep.Correspondence = "Claim.Run.lmismatches / hmismatches / amismatches / fmismatches: get_field_slot_index, parser_parse_claim and the facade (Claim/Model.v) vs json.Parser.GetFieldSlotIndex / ParseClaim and processor.Processor; to_core_claim vs W3CCredential.ToCoreClaim on a credential of each type; and the model's own lookup against the model's own claim on the recorded field encodings"
	rep.Rule = "ALL 6^4 = 1296 assignments of the four data slots to {none, price, count, name, info.insured, info.since}; per assignment: lookups of the five fields, an unnamed field and the empty string by type name and by type IRI, an unknown type, the processor facade with and without parser, and the claim of a credential of that type (subject id / expiration varied; for every 8th assignment the credential's contexts are ipfs:// objects resolvable only through WithIPFSClient / WithIPFSGateway in the options; for every 8th assignment also credentials without credentialSubject.type whose top-level type pair is written in both orders, and with three types / without VerifiableCredential: no claim); plus reordered and repeated parts, absent designated fields, 32 malformed attributes (a second '=' in a part in every position, a lost '&', empty key, doubled / trailing '='), non-string attribute, no attribute, array-shaped scoped context, sibling types sorting before/after (30 repetitions), 13 bad schema documents, every subset of {validator, parser, loader} x every facade method with stub components; histories of lookups on ONE Processor value under schema revisions that move / drop / restore a field; stub components behind the facade (results and the options object passed through, field by field); ParseClaim through the facade vs the parser called directly for every option field and three sets of merklizer options (a loader that alone resolves the contexts, + custom hasher, + safe mode off); for every 9th assignment a claim is first built with a second document loader that serves another schema document (merklized / the assignment read backwards) at the same URL and type. distinct = distinct (schema, lookups, credential) inputs; all are non-trivial (each reaches the attribute parser or one of the documented error points)."
	g := &gen{cfg: cfg, rep: rep, env: credgen.NewEnv(), env2: credgen.NewEnv()}
	merklize.SetDocumentLoader(g.env.Loader)
	credgen.InstallGateway(g.env)
	if cfg.Replay != "" {
		return replay(cfg, g)
	}
	g.assignments()
	g.malformed()
	g.specials()
	g.flush()
	g.facade()
	for i, in := range g.ins {
		if i%331 == 0 {
			var res []string
			for _, l := range g.outs[i].looks {
				res = append(res, fmt.Sprintf("%s:%d", l.class, l.idx))
			}
			cl := ""
			if g.outs[i].claim != nil {
				cl = g.outs[i].claim.class
			}
			rep.Sample(map[string]any{"assignment": in.Asg, "attribute": in.Schema.Ser, "lookups": in.Lookups, "results": res, "claim": cl})
		}
	}
	rep.Exhaustive = true
	rep.Notes = append(rep.Notes, "exhaustive over the 1296 slot assignments (lookups by name and IRI, and the claim's raw slots, for every one of them on the implementation; the Coq model evaluates all lookups, and the claims of every 4th assignment in the quick tier / of all in the thorough tier)",
		"observation O3: GetFieldSlotIndex(\"\") answers the first unassigned slot; the empty string is not a field path; counted, not a failure",
		"observation: when two type terms of one context share an @id, lookup by type NAME and claim building (which looks the type up by IRI and meets the term whose name sorts first) may use different attributes; lookups by IRI agree with the claim (theorem C17_name_or_iri states the side condition); counted, not a failure")
	if err := g.writeShards(); err != nil {
		return nil, err
	}
	return rep, nil
}

func replay(cfg *common.Config, g *gen) (*common.Report, error) {
	var rf struct {
		Input struct {
			Case   *Input         `json:"case"`
			Facade map[string]any `json:"facade"`
		} `json:"input"`
	}
	if err := common.ReadJSON(cfg.Replay, &rf); err != nil {
		return nil, err
	}
	if rf.Input.Case == nil {
		// a facade failure: the facade checks take no input
		g.facade()
		if err := g.writeShards(); err != nil {
			return nil, err
		}
		return g.rep, nil
	}
	in := rf.Input.Case
	in.InModel = true
	g.ins = append(g.ins, in)
	g.flush()
	o := g.outs[0]
	for i, l := range in.Lookups {
		fmt.Printf("replay: lookup %+v -> %s %d %s\n", l, o.looks[i].class, o.looks[i].idx, o.looks[i].msg)
	}
	if o.claim != nil {
		fmt.Printf("replay: claim -> %s %s %v\n", o.claim.class, o.claim.msg, o.claim.slots)
	}
	g.rep.Sample(map[string]any{"case": in})
	if err := g.writeShards(); err != nil {
		return nil, err
	}
	return g.rep, nil
}
