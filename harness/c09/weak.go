package c09

// "Weak comparison probes" (thorough tier only, time-boxed).
//
// A verifier that compares the root recomputed from the proof with the revocation root
// through a lossy form (a display string, a truncated integer, ...) accepts a forged
// proof whose root merely agrees with the real root on that form.  Random faults never
// hit such a partial collision (probability 1e-7 .. 1e-10), so it is constructed by a
// birthday search between
//   true roots     the revocation trees {n, x_i}            (n = the revoked nonce)
//   forged roots   A: non-existence proofs for n, no siblings, auxiliary leaf (ak_j, 0)
//                  B: existence proofs for a nonce m that is in no tree, one sibling s_j
// for four lossy forms of a hash: first 8 decimal digits (merkletree.Hash.String()),
// last 8 decimal digits, low 32 bits, high 32 bits of the 256-bit value.  Every pair
// found is fed to ValidateCredentialStatus with the HONEST issuer state of the real tree
// (built with go-merkletree-sql) and must be rejected; the Coq model compares full
// values, so an accepting implementation is a disagreement as well as an oracle failure.

import (
	"fmt"
	"math/big"
	"runtime"
	"sync"
	"time"

	"github.com/iden3/go-iden3-crypto/poseidon"
)

var weakForms = [4]string{"first8dec", "last8dec", "low32", "high32"}

func splitmix(seed, i uint64) uint64 {
	z := seed + (i+1)*0x9e3779b97f4a7c15
	z = (z ^ (z >> 30)) * 0xbf58476d1ce4e5b9
	z = (z ^ (z >> 27)) * 0x94d049bb133111eb
	return z ^ (z >> 31)
}

var (
	big1e8  = big.NewInt(100000000)
	mask32  = big.NewInt(0xffffffff)
	bigZero = big.NewInt(0)
	bigOne  = big.NewInt(1)
)

// the four lossy forms of a hash value
func weakFeatures(z *big.Int) [4]uint64 {
	var f [4]uint64
	s := z.String()
	if len(s) > 8 {
		s = s[:8]
	}
	fmt.Sscan(s, &f[0])
	f[1] = new(big.Int).Mod(z, big1e8).Uint64()
	f[2] = new(big.Int).And(z, mask32).Uint64()
	f[3] = new(big.Int).Rsh(z, 224).Uint64()
	return f
}

func ph(in ...*big.Int) *big.Int {
	h, err := poseidon.Hash(in)
	if err != nil {
		panic(err) // inputs are 64-bit numbers and hash outputs
	}
	return h
}

type weakSearch struct {
	n, m       uint64 // revoked nonce (in every tree), nonce that is in no tree
	sx, sa, ss uint64 // seeds of the three families
	leafN      *big.Int
	leafM      *big.Int
}

func u(x uint64) *big.Int { return new(big.Int).SetUint64(x) }

// x_i: the second leaf of the i-th real tree; differs from n at bit 0 so that the tree is
// M(L,L) at the root, never equals m
func (w *weakSearch) x(i uint64) uint64 {
	x := splitmix(w.sx, i)
	x = (x &^ 1) | (^w.n & 1)
	if x == w.m {
		x ^= 2
	}
	return x
}

// root of the real tree {n, x_i} (recomputed from the Poseidon primitive; the case
// itself uses go-merkletree-sql and checks that both agree)
func (w *weakSearch) trueRoot(i uint64) *big.Int {
	lx := ph(u(w.x(i)), bigZero, bigOne)
	if w.n&1 == 1 {
		return ph(lx, w.leafN)
	}
	return ph(w.leafN, lx)
}

func (w *weakSearch) auxKey(j uint64) uint64 {
	k := splitmix(w.sa, j)
	if k == w.n {
		k++
	}
	return k
}

// A: non-existence proof for n with no siblings and auxiliary leaf (ak_j, 0)
func (w *weakSearch) forgedA(j uint64) *big.Int { return ph(u(w.auxKey(j)), bigZero, bigOne) }

func (w *weakSearch) sib(j uint64) uint64 { return splitmix(w.ss, j) | 1 }

// B: existence proof for m with the single sibling s_j
func (w *weakSearch) forgedB(j uint64) *big.Int {
	if w.m&1 == 1 {
		return ph(u(w.sib(j)), w.leafM)
	}
	return ph(w.leafM, u(w.sib(j)))
}

type weakHit struct {
	form, scen int // scen 0 = A, 1 = B
	i, j       uint64
}

func parallelFeatures(lo, hi uint64, f func(uint64) *big.Int) [][4]uint64 {
	out := make([][4]uint64, hi-lo)
	nw := runtime.NumCPU()
	var wg sync.WaitGroup
	for w := 0; w < nw; w++ {
		wg.Add(1)
		go func(w int) {
			defer wg.Done()
			for k := uint64(w); k < hi-lo; k += uint64(nw) {
				out[k] = weakFeatures(f(lo + k))
			}
		}(w)
	}
	wg.Wait()
	return out
}

func (g *gen) weakCompareStream() error {
	start := time.Now()
	budget := 75 * time.Second
	const round = 150000
	w := &weakSearch{n: g.rng.Uint64(), m: g.rng.Uint64(), sx: g.rng.Uint64(), sa: g.rng.Uint64(), ss: g.rng.Uint64()}
	if w.m == w.n {
		w.m ^= 4
	}
	w.leafN = ph(u(w.n), bigZero, bigOne)
	w.leafM = ph(u(w.m), bigZero, bigOne)
	var trueIdx, aIdx, bIdx [4]map[uint64]uint64
	for f := 0; f < 4; f++ {
		trueIdx[f], aIdx[f], bIdx[f] = map[uint64]uint64{}, map[uint64]uint64{}, map[uint64]uint64{}
	}
	found := map[[2]int]weakHit{}
	note := func(form, scen int, i, j uint64) {
		k := [2]int{form, scen}
		if _, ok := found[k]; !ok {
			found[k] = weakHit{form: form, scen: scen, i: i, j: j}
		}
	}
	var total uint64
	rounds := 0
	for rounds < 12 && len(found) < 8 && (rounds == 0 || time.Since(start) < budget) {
		lo, hi := total, total+round
		ft := parallelFeatures(lo, hi, w.trueRoot)
		fa := parallelFeatures(lo, hi, w.forgedA)
		fb := parallelFeatures(lo, hi, w.forgedB)
		// new true roots against all forged so far, then new forged against all true
		for k := range ft {
			i := lo + uint64(k)
			for f := 0; f < 4; f++ {
				if j, ok := aIdx[f][ft[k][f]]; ok {
					note(f, 0, i, j)
				}
				if j, ok := bIdx[f][ft[k][f]]; ok {
					note(f, 1, i, j)
				}
				if _, ok := trueIdx[f][ft[k][f]]; !ok {
					trueIdx[f][ft[k][f]] = i
				}
			}
		}
		for k := range fa {
			j := lo + uint64(k)
			for f := 0; f < 4; f++ {
				if i, ok := trueIdx[f][fa[k][f]]; ok {
					note(f, 0, i, j)
				}
				if i, ok := trueIdx[f][fb[k][f]]; ok {
					note(f, 1, i, j)
				}
				if _, ok := aIdx[f][fa[k][f]]; !ok {
					aIdx[f][fa[k][f]] = j
				}
				if _, ok := bIdx[f][fb[k][f]]; !ok {
					bIdx[f][fb[k][f]] = j
				}
			}
		}
		total = hi
		rounds++
	}
	searchTime := time.Since(start)
	pairsM := int(total / 1000 * total / 1000) // millions of (true, forged) pairs per scenario
	g.rep.Distribution["weak-compare:true-roots"] = int(total)
	g.rep.Distribution["weak-compare:forged-proofs-per-scenario"] = int(total)
	g.rep.Distribution["weak-compare:candidate-pairs-per-scenario(millions)"] = pairsM
	// one case per (form, scenario) found
	summary := ""
	for f := 0; f < 4; f++ {
		for sc := 0; sc < 2; sc++ {
			scn := [2]string{"nonexistence-for-revoked", "existence-for-nonrevoked"}[sc]
			h, ok := found[[2]int{f, sc}]
			if !ok {
				g.rep.Count("weak-compare:" + weakForms[f] + ":" + scn + ":no-partial-collision-found")
				summary += fmt.Sprintf(" %s/%s=none", weakForms[f], scn)
				continue
			}
			summary += fmt.Sprintf(" %s/%s=found", weakForms[f], scn)
			if err := g.weakCase(w, h, scn); err != nil {
				return err
			}
		}
	}
	g.rep.Notes = append(g.rep.Notes, fmt.Sprintf(
		"weak comparison probes: %d rounds, %d real trees {n,x} x %d forged proofs per scenario = %d million candidate (true root, forged root) pairs per scenario, search %.1fs; partial collisions:%s; each found pair was presented with the honest issuer state and had to be rejected",
		rounds, total, total, pairsM, searchTime.Seconds(), summary))
	return nil
}

func (g *gen) weakCase(w *weakSearch, h weakHit, scn string) error {
	spec := TreeSpec{Style: "explicit", N: 2, Explicit: []uint64{w.n, w.x(h.i)}}
	ti, err := g.tree(spec)
	if err != nil {
		return err
	}
	want := w.trueRoot(h.i)
	if len(ti.lst) != 2 || ti.mt.Root().BigInt().Cmp(want) != 0 {
		return fmt.Errorf("weak-compare: go-merkletree-sql root %s of {%d,%d} differs from the recomputed root %s",
			ti.mt.Root().BigInt(), w.n, w.x(h.i), want)
	}
	ctr, ror := g.randField(), g.randField()
	nonce := w.n
	if h.scen == 1 {
		nonce = w.m
	}
	a, st, err := honestAnswer(ti, ctr, ror, false, nonce)
	if err != nil {
		return err
	}
	var forged *big.Int
	if h.scen == 0 {
		a.Ex, a.Sibs, a.Aux = false, []string{}, &Aux{Key: sp(u(w.auxKey(h.j)).String()), Value: sp("0")}
		forged = w.forgedA(h.j)
	} else {
		a.Ex, a.Sibs, a.Aux = true, []string{u(w.sib(h.j)).String()}, nil
		forged = w.forgedB(h.j)
	}
	if forged.Cmp(want) == 0 || weakFeatures(forged)[h.form] != weakFeatures(want)[h.form] {
		return fmt.Errorf("weak-compare: inconsistent hit %+v", h)
	}
	ty := "x-test"
	in := &Input{Kind: "validate", Stream: "weak-compare", OptK: 1, Ops: []Op{{Reg: true, Type: ty, Kind: 0}}, Type: ty,
		Nonce: nonce, Ans: a, Fault: "weak-compare:" + weakForms[h.form] + ":" + scn, Tree: &spec, ProofNonce: nonce,
		Honest: st.String(), MustReject: true,
		Roots: &RootPair{True: want.String(), Forged: forged.String()}}
	g.rep.Count("weak-compare:" + weakForms[h.form] + ":" + scn + ":partial-collision-found")
	if len(g.rep.Samples) < 8 {
		g.rep.Sample(map[string]any{"weak_compare": weakForms[h.form], "scenario": scn, "tree": spec.Explicit, "nonce": nonce,
			"true_root": want.String(), "forged_root": forged.String(), "proof": a})
	}
	return g.validateCase(in)
}
