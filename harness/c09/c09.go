// Package c09: revocation status validation (property C09).
//
// Streams
//
//	validate  real go-merkletree-sql revocation trees (random revoked sets, dense,
//	          sparse, clustered low bits), honest issuer answers built with
//	          GenerateProof, then ONE FAULT AT A TIME in the answer (state, each root
//	          incl. removing it, each sibling, aux key/value, existence flag, nonce),
//	          fed to verifiable.ValidateCredentialStatus through a stub resolver registry
//	registry  Register/Delete histories on the default and on a caller-given registry
//	http      verifiable.IssuerResolver.Resolve against a stub http.RoundTripper
//	e2e       ValidateCredentialStatus -> registry -> IssuerResolver -> stub transport (real JSON)
//	coerce    coerceCredentialStatus on the Go shapes
//	hex       merkletree.NewHashFromHex spellings (validates the model's hexf abstraction)
//
// The implementation-side oracles (independent of the Coq model) are in oracles();
// the Coq model Verify/Status.v is evaluated on the same cases by Verify/StatusRun.v.
package c09

import (
	"context"
	"encoding/hex"
	"encoding/json"
	"errors"
	"fmt"
	"io"
	"math/big"
	"math/rand"
	"net/http"
	"path/filepath"
	"reflect"
	"strings"

	"github.com/iden3/go-iden3-core/v2/w3c"
	"github.com/iden3/go-iden3-crypto/constants"
	"github.com/iden3/go-iden3-crypto/poseidon"
	"github.com/iden3/go-merkletree-sql/v2"
	"github.com/iden3/go-merkletree-sql/v2/db/memory"
	"github.com/iden3/go-schema-processor/v2/verifiable"

	"vharness/common"
	"vharness/coqgen"
)

func init() { common.Register("C09", Run) }

const shardSize = 300
const maxLevels = 40

var two256 = new(big.Int).Lsh(big.NewInt(1), 256)

// ---------------------------------------------------------------------------
// answers

type Aux struct {
	Key   *string `json:"key"`   // decimal, < 2^256; nil = NodeAux.Key is nil
	Value *string `json:"value"` // decimal
}

// Ans is a RevocationStatus in a form that can carry every fault and be replayed.
type Ans struct {
	State *string  `json:"state"` // the Go string put into TreeState.State (nil = absent)
	Ctr   *string  `json:"ctr"`
	Rtr   *string  `json:"rtr"`
	Ror   *string  `json:"ror"`
	Ex    bool     `json:"ex"`
	Sibs  []string `json:"sibs"` // all siblings, decimal, < 2^256
	Aux   *Aux     `json:"aux"`
}

func (a *Ans) clone() *Ans {
	c := *a
	cp := func(s *string) *string {
		if s == nil {
			return nil
		}
		t := *s
		return &t
	}
	c.State, c.Ctr, c.Rtr, c.Ror = cp(a.State), cp(a.Ctr), cp(a.Rtr), cp(a.Ror)
	c.Sibs = append([]string{}, a.Sibs...)
	if a.Aux != nil {
		c.Aux = &Aux{Key: cp(a.Aux.Key), Value: cp(a.Aux.Value)}
	}
	return &c
}

func dec(s string) *big.Int {
	z, ok := new(big.Int).SetString(s, 10)
	if !ok {
		return big.NewInt(0)
	}
	return z
}

// hashFromBig builds a Hash from any number below 2^256 (little-endian bytes),
// without the library's field check.
func hashFromBig(z *big.Int) *merkletree.Hash {
	var h merkletree.Hash
	b := new(big.Int).Mod(z, two256).Bytes()
	for i := range b {
		h[i] = b[len(b)-1-i]
	}
	return &h
}

func hexOfBig(z *big.Int) string { return hashFromBig(z).Hex() }

func sp(s string) *string { return &s }

// toStatus builds the Go value a resolver returns.
func (a *Ans) toStatus() (rs verifiable.RevocationStatus, err error) {
	defer func() {
		if r := recover(); r != nil {
			err = fmt.Errorf("cannot build proof: %v", r)
		}
	}()
	rs.Issuer = verifiable.TreeState{State: a.State, ClaimsTreeRoot: a.Ctr,
		RevocationTreeRoot: a.Rtr, RootOfRoots: a.Ror}
	sibs := make([]*merkletree.Hash, len(a.Sibs))
	for i, s := range a.Sibs {
		sibs[i] = hashFromBig(dec(s))
	}
	var aux *merkletree.NodeAux
	if a.Aux != nil {
		aux = &merkletree.NodeAux{}
		if a.Aux.Key != nil {
			aux.Key = hashFromBig(dec(*a.Aux.Key))
		}
		if a.Aux.Value != nil {
			aux.Value = hashFromBig(dec(*a.Aux.Value))
		}
	}
	p, err := merkletree.NewProofFromData(a.Ex, sibs, aux)
	if err != nil {
		return rs, err
	}
	rs.MTP = *p
	return rs, nil
}

// json writes the answer the way an issuer node (or an attacker) would put it on the wire;
// hand-written so that answers the library refuses to marshal (241 siblings) can be sent.
func (a *Ans) json() []byte {
	issuer := map[string]any{}
	if a.State != nil {
		issuer["state"] = *a.State
	}
	if a.Ctr != nil {
		issuer["claimsTreeRoot"] = *a.Ctr
	}
	if a.Rtr != nil {
		issuer["revocationTreeRoot"] = *a.Rtr
	}
	if a.Ror != nil {
		issuer["rootOfRoots"] = *a.Ror
	}
	mtp := map[string]any{"existence": a.Ex, "siblings": append([]string{}, a.Sibs...)}
	if a.Aux != nil {
		aux := map[string]any{}
		if a.Aux.Key != nil {
			aux["key"] = *a.Aux.Key
		}
		if a.Aux.Value != nil {
			aux["value"] = *a.Aux.Value
		}
		mtp["node_aux"] = aux
	}
	b, _ := json.Marshal(map[string]any{"issuer": issuer, "mtp": mtp})
	return b
}

// fromStatus projects a Go RevocationStatus (e.g. decoded from JSON) to an Ans.
func fromStatus(rs *verifiable.RevocationStatus) *Ans {
	a := &Ans{State: rs.Issuer.State, Ctr: rs.Issuer.ClaimsTreeRoot,
		Rtr: rs.Issuer.RevocationTreeRoot, Ror: rs.Issuer.RootOfRoots, Ex: rs.MTP.Existence}
	a.Sibs = allSiblings(&rs.MTP)
	if rs.MTP.NodeAux != nil {
		a.Aux = &Aux{}
		if rs.MTP.NodeAux.Key != nil {
			a.Aux.Key = sp(rs.MTP.NodeAux.Key.BigInt().String())
		}
		if rs.MTP.NodeAux.Value != nil {
			a.Aux.Value = sp(rs.MTP.NodeAux.Value.BigInt().String())
		}
	}
	return a
}

// allSiblings is Proof.AllSiblings() without its panic on proofs deeper than 240 levels
// (which JSON can carry): the unexported members depth / notempties / siblings are read
// through reflection (read-only).
func allSiblings(p *merkletree.Proof) []string {
	v := reflect.ValueOf(p).Elem()
	depth := int(v.FieldByName("depth").Uint())
	ne := v.FieldByName("notempties")
	sibs := v.FieldByName("siblings")
	out := []string{}
	idx := 0
	for lvl := 0; lvl < depth; lvl++ {
		set := false
		if lvl/8 < ne.Len() {
			// TestBitBigEndian(bitmap, n) = bitmap[len-n/8-1] & (1 << (n%8))
			set = ne.Index(ne.Len()-lvl/8-1).Uint()&(1<<(uint(lvl)%8)) != 0
		}
		if !set || idx >= sibs.Len() {
			out = append(out, "0")
			continue
		}
		h := sibs.Index(idx).Elem()
		idx++
		b := make([]byte, h.Len())
		for i := range b {
			b[h.Len()-1-i] = byte(h.Index(i).Uint())
		}
		out = append(out, new(big.Int).SetBytes(b).String())
	}
	return out
}

// hexf classification with the library's own primitive NewHashFromHex
func coqHexf(s *string) string {
	if s == nil {
		return "XNil"
	}
	h, err := merkletree.NewHashFromHex(*s)
	if err != nil {
		return "XBad"
	}
	return "(XVal " + coqgen.Limbs(h.BigInt()) + ")"
}

func (a *Ans) coq() string {
	var ss []string
	for _, s := range a.Sibs {
		ss = append(ss, coqgen.Limbs(dec(s)))
	}
	aux := "None"
	if a.Aux != nil {
		o := func(s *string) string {
			if s == nil {
				return "None"
			}
			return "(Some " + coqgen.Limbs(dec(*s)) + ")"
		}
		aux = "(Some (" + o(a.Aux.Key) + ", " + o(a.Aux.Value) + "))"
	}
	return fmt.Sprintf("(mkra %s %s %s %s %s [%s] %s)", coqHexf(a.State), coqHexf(a.Ctr),
		coqHexf(a.Rtr), coqHexf(a.Ror), coqgen.Bool(a.Ex), strings.Join(ss, ";"), aux)
}

// ---------------------------------------------------------------------------
// case inputs (replayable)

type TreeSpec struct {
	Seed     int64    `json:"seed"`
	N        int      `json:"n"`
	Style    string   `json:"style"`              // dense | sparse | clustered | explicit
	Explicit []uint64 `json:"explicit,omitempty"` // style explicit: the revoked nonces themselves
}

// RootPair documents a weak-comparison probe: the real revocation root and the different
// root the forged proof computes to (decimal).
type RootPair struct {
	True   string `json:"true_root"`
	Forged string `json:"forged_root"`
}

type Op struct {
	Reg  bool   `json:"reg"` // true Register, false Delete
	Type string `json:"type"`
	Kind int    `json:"kind"` // 0 answers the case's answer, 1 answers an error, 2 answers the zero value
}

type HTTPIn struct {
	TransportErr bool   `json:"transport_err"`
	URL          string `json:"url,omitempty"`       // credentialStatus.id; "" = a well-formed URL
	Cancelled    bool   `json:"cancelled,omitempty"` // the context is already cancelled
	Code         int    `json:"code"`
	BodyKind     string `json:"body_kind"`
	BodyHex      string `json:"body_hex,omitempty"` // only for short bodies
	Body         []byte `json:"-"`
	Size         int    `json:"size"`
	Core         string `json:"core"`         // the JSON text before padding
	Pad          string `json:"pad"`          // "space" | "garbage"
	ReadFailAt   int    `json:"read_fail_at"` // -1: the body reads to EOF; n: error after n bytes
	CloseErr     bool   `json:"close_err"`
	Chunk        int    `json:"chunk"`
}

type CoerceIn struct {
	Shape string `json:"shape"` // ptr | nilptr | val | obj | other:<what>
	JSON  string `json:"json,omitempty"`
	Type  string `json:"type,omitempty"`
	Nonce uint64 `json:"nonce,omitempty"`
}

type Input struct {
	Kind   string `json:"kind"`             // validate | http | coerce | hex
	Stream string `json:"stream,omitempty"` // "registry" for the registry stream
	// validate
	OptK       int       `json:"optk,omitempty"`
	Ops        []Op      `json:"ops,omitempty"`
	Type       string    `json:"type,omitempty"`
	Nonce      uint64    `json:"nonce,omitempty"`
	Ans        *Ans      `json:"answer,omitempty"`
	Fault      string    `json:"fault,omitempty"` // "" = honest answer
	Tree       *TreeSpec `json:"tree,omitempty"`
	ProofNonce uint64    `json:"proof_nonce,omitempty"`  // the nonce the honest proof was generated for
	Honest     string    `json:"honest_state,omitempty"` // decimal value of the honest issuer state
	MustReject bool      `json:"must_reject,omitempty"`  // the fault changes a value the check depends on
	SameAs     int       `json:"same_as,omitempty"`      // 1 + class of the honest answer when the edit is benign
	Roots      *RootPair `json:"roots,omitempty"`        // weak-comparison probes only
	DID        string    `json:"issuer_did,omitempty"`   // registry stream: method-specific id put into the context with WithIssuerDID
	// other streams
	HTTP   *HTTPIn   `json:"http,omitempty"` // also the transport of an e2e case
	Coerce *CoerceIn `json:"coerce,omitempty"`
	Hex    string    `json:"hex,omitempty"`
}

// ---------------------------------------------------------------------------
// primitive Poseidon recorder and the reference decision

type table struct {
	keys []string
	ins  map[string][]*big.Int
	out  map[string]*big.Int
}

func newTable() *table { return &table{ins: map[string][]*big.Int{}, out: map[string]*big.Int{}} }

// ph calls the real Poseidon primitive and records the call.
func (t *table) ph(in ...*big.Int) (*big.Int, error) {
	h, err := poseidon.Hash(in)
	if err != nil {
		return nil, err
	}
	var sb strings.Builder
	for _, x := range in {
		sb.WriteString(x.String() + ",")
	}
	k := sb.String()
	if _, ok := t.out[k]; !ok {
		t.keys = append(t.keys, k)
		cp := make([]*big.Int, len(in))
		for i, x := range in {
			cp[i] = new(big.Int).Set(x)
		}
		t.ins[k] = cp
		t.out[k] = h
	}
	return h, nil
}

func (t *table) coq() string {
	var es []string
	for _, k := range t.keys {
		var ins []string
		for _, x := range t.ins[k] {
			ins = append(ins, coqgen.Limbs(x))
		}
		es = append(es, "(["+strings.Join(ins, ";")+"],"+coqgen.Limbs(t.out[k])+")")
	}
	return "[" + strings.Join(es, ";") + "]"
}

// own decoder of the hex members (independent of merkletree.NewHashFromHex)
func refHex(s *string) (z *big.Int, absent, bad bool) {
	if s == nil {
		return big.NewInt(0), true, false
	}
	b, err := hex.DecodeString(strings.TrimPrefix(*s, "0x"))
	if err != nil || len(b) != 32 {
		return nil, false, true
	}
	for i, j := 0, len(b)-1; i < j; i, j = i+1, j-1 {
		b[i], b[j] = b[j], b[i]
	}
	return new(big.Int).SetBytes(b), false, false
}

const (
	clsOK      = 0
	clsRevoked = 1
	clsErr     = 2
	clsPanic   = 3
)

// reference: the decision the property demands for an answer, computed with the
// Poseidon primitive only.  tsCls: 0 consistent, 1 inconsistent, 2 error.
// root: the root recomputed from the proof (nil = error).
func reference(t *table, a *Ans, nonce uint64) (cls, tsCls int, root *big.Int) {
	Q := constants.Q
	// tree state
	tsCls = func() int {
		if a.State == nil {
			return 2
		}
		var v [3]*big.Int
		for i, s := range []*string{a.Ctr, a.Rtr, a.Ror} {
			z, _, bad := refHex(s)
			if bad {
				return 2
			}
			v[i] = z
		}
		want, err := t.ph(v[0], v[1], v[2])
		if err != nil {
			return 2
		}
		st, _, bad := refHex(a.State)
		if bad {
			return 2
		}
		if want.Cmp(st) == 0 {
			return 0
		}
		return 1
	}()
	// proof
	root = func() *big.Int {
		k := new(big.Int).SetUint64(nonce)
		if a.Aux != nil && (a.Aux.Key == nil || a.Aux.Value == nil) {
			return nil
		}
		var mid *big.Int
		switch {
		case a.Ex:
			h, err := t.ph(k, big.NewInt(0), big.NewInt(1))
			if err != nil {
				return nil
			}
			mid = h
		case a.Aux == nil:
			mid = big.NewInt(0)
		default:
			ak, av := dec(*a.Aux.Key), dec(*a.Aux.Value)
			if ak.Cmp(k) == 0 {
				return nil
			}
			h, err := t.ph(ak, av, big.NewInt(1))
			if err != nil {
				return nil
			}
			mid = h
		}
		if len(a.Sibs) > 240 {
			return nil
		}
		for _, s := range a.Sibs {
			if dec(s).Cmp(Q) >= 0 {
				return nil
			}
		}
		for lvl := len(a.Sibs) - 1; lvl >= 0; lvl-- {
			s := dec(a.Sibs[lvl])
			var err error
			if k.Bit(lvl) == 1 {
				mid, err = t.ph(s, mid)
			} else {
				mid, err = t.ph(mid, s)
			}
			if err != nil {
				return nil
			}
		}
		return mid
	}()
	switch {
	case tsCls != 0:
		cls = clsErr
	default:
		rtr, _, bad := refHex(a.Rtr)
		if bad || root == nil || root.Cmp(rtr) != 0 {
			cls = clsErr
		} else if a.Ex {
			cls = clsRevoked
		} else {
			cls = clsOK
		}
	}
	return cls, tsCls, root
}

// ---------------------------------------------------------------------------
// running the implementation

type stubResolver struct {
	kind int
	rs   verifiable.RevocationStatus
	exp  verifiable.CredentialStatus // what ValidateCredentialStatus was called with
	did  *w3c.DID                    // the issuer DID the caller put into the context (or nil)
}

func (s stubResolver) Resolve(ctx context.Context, got verifiable.CredentialStatus) (verifiable.RevocationStatus, error) {
	switch s.kind {
	case 0:
		// answers only inside the caller's context (the issuer DID travels with it)
		if verifiable.GetIssuerDID(ctx) != s.did {
			return verifiable.RevocationStatus{}, errors.New("stub resolver: issuer DID of the caller's context not visible")
		}
		// answers only when handed the caller's credential status
		if got.ID != s.exp.ID || got.Type != s.exp.Type || got.RevocationNonce != s.exp.RevocationNonce ||
			got.StatusIssuer != s.exp.StatusIssuer {
			return verifiable.RevocationStatus{}, errors.New("stub resolver: unexpected credential status")
		}
		return s.rs, nil
	case 1:
		return verifiable.RevocationStatus{}, errors.New("stub resolver: no answer")
	default:
		return verifiable.RevocationStatus{}, nil
	}
}

type vobs struct {
	didBroken bool     // GetIssuerDID(WithIssuerDID(ctx, did)) != did, or a DID in the empty context
	dfltKind  int      // GetStatusResolver(type): stub kind, -1 not registered, -2 something else
	ts        int      // validateTreeState
	root      *big.Int // rootFromMerkleTreeProof (nil = error)
	cls       int
	msg       string
}

func classify(err error) int {
	switch {
	case err == nil:
		return clsOK
	case errors.Is(err, verifiable.ErrCredentialIsRevoked):
		return clsRevoked
	default:
		return clsErr
	}
}

func runValidate(in *Input) (o vobs, buildErr error) {
	rs, err := in.Ans.toStatus()
	if err != nil {
		return o, err
	}
	// hooks: the two sub-decisions
	func() {
		defer func() {
			if r := recover(); r != nil {
				o.ts = 3
			}
		}()
		ok, err := verifiable.VerifValidateTreeState(rs.Issuer)
		switch {
		case err != nil:
			o.ts = 2
		case ok:
			o.ts = 0
		default:
			o.ts = 1
		}
	}()
	func() {
		defer func() {
			if r := recover(); r != nil {
				o.root = nil
			}
		}()
		mtp := rs.MTP
		r, err := verifiable.VerifRootFromMerkleTreeProof(&mtp, new(big.Int).SetUint64(in.Nonce), big.NewInt(0))
		if err == nil && r != nil {
			o.root = r.BigInt()
		}
	}()
	// the registry scenario
	cs := verifiable.CredentialStatus{ID: "http://status.test/" + in.Type,
		Type: verifiable.CredentialStatusType(in.Type), RevocationNonce: in.Nonce}
	ctx := context.Background()
	var did *w3c.DID
	if in.DID != "" {
		did = &w3c.DID{Method: "example", ID: in.DID, IDStrings: []string{in.DID}}
		ctx = verifiable.WithIssuerDID(ctx, did)
	}
	if verifiable.GetIssuerDID(ctx) != did || verifiable.GetIssuerDID(context.Background()) != nil {
		o.didBroken = true
	}
	build := func(reg func(t verifiable.CredentialStatusType, r verifiable.CredentialStatusResolver),
		del func(t verifiable.CredentialStatusType)) {
		for _, op := range in.Ops {
			if op.Reg {
				reg(verifiable.CredentialStatusType(op.Type), stubResolver{kind: op.Kind, rs: rs, exp: cs, did: did})
			} else {
				del(verifiable.CredentialStatusType(op.Type))
			}
		}
	}
	used := map[string]bool{in.Type: true}
	for _, op := range in.Ops {
		used[op.Type] = true
	}
	defer func() {
		for t := range used {
			verifiable.DeleteStatusResolver(verifiable.CredentialStatusType(t))
		}
	}()
	for t := range used {
		verifiable.DeleteStatusResolver(verifiable.CredentialStatusType(t))
	}
	var opts []verifiable.CredentialStatusValidationOption
	switch in.OptK {
	case 0:
		build(verifiable.RegisterStatusResolver, verifiable.DeleteStatusResolver)
	case 1:
		verifiable.RegisterStatusResolver(verifiable.CredentialStatusType(in.Type), stubResolver{kind: 1})
		reg := &verifiable.CredentialStatusResolverRegistry{}
		build(reg.Register, reg.Delete)
		opts = append(opts, verifiable.WithValidationStatusResolverRegistry(reg))
	default:
		build(verifiable.RegisterStatusResolver, verifiable.DeleteStatusResolver)
		opts = append(opts, verifiable.WithValidationStatusResolverRegistry(nil))
	}
	func() {
		defer func() {
			if r := recover(); r != nil {
				o.cls = clsPanic
				o.msg = fmt.Sprint(r)
			}
		}()
		// GetStatusResolver: the default registry as the package-level accessor sees it
		if r, err := verifiable.GetStatusResolver(cs.Type); err != nil {
			o.dfltKind = -1
		} else if sr, ok := r.(stubResolver); ok {
			o.dfltKind = sr.kind
		} else {
			o.dfltKind = -2
		}
		_, err := verifiable.ValidateCredentialStatus(ctx, cs, opts...)
		o.cls = classify(err)
		if err != nil {
			o.msg = err.Error()
		}
	}()
	return o, nil
}

// ---------------------------------------------------------------------------
// generator state

type vcase struct {
	in  *Input
	coq string // the case term without its id
}

type gen struct {
	cfg   *common.Config
	rep   *common.Report
	rng   *rand.Rand
	cases []vcase
	trees map[string]*treeInfo
}

type treeInfo struct {
	mt  *merkletree.MerkleTree
	set map[uint64]bool
	lst []uint64
}

func (g *gen) addCase(in *Input, coq string) {
	g.cases = append(g.cases, vcase{in: in, coq: coq})
	g.rep.Evaluations++
}

// revoked set of a tree, deterministic in the spec
func genSet(spec TreeSpec) []uint64 {
	if spec.Style == "explicit" {
		return append([]uint64{}, spec.Explicit...)
	}
	r := rand.New(rand.NewSource(spec.Seed))
	var out []uint64
	seen := map[uint64]bool{}
	push := func(x uint64) {
		if !seen[x] {
			seen[x] = true
			out = append(out, x)
		}
	}
	switch spec.Style {
	case "dense":
		start := uint64(r.Intn(3))
		for i := 0; len(out) < spec.N; i++ {
			push(start + uint64(i))
		}
	case "sparse":
		for len(out) < spec.N {
			push(r.Uint64())
		}
	default: // clustered: groups sharing j low bits (deep pushes)
		for len(out) < spec.N {
			base := r.Uint64()
			push(base)
			m := 1 + r.Intn(4)
			for i := 0; i < m && len(out) < spec.N; i++ {
				j := uint(1 + r.Intn(38)) // share exactly j low bits, j <= 38 (39 would exceed MaxLevels)
				x := base ^ (uint64(1) << j)
				x ^= (r.Uint64() >> (j + 1)) << (j + 1)
				push(x)
			}
		}
	}
	return out
}

func (g *gen) tree(spec TreeSpec) (*treeInfo, error) {
	key := fmt.Sprintf("%d/%d/%s/%v", spec.Seed, spec.N, spec.Style, spec.Explicit)
	if t, ok := g.trees[key]; ok {
		return t, nil
	}
	ctx := context.Background()
	mt, err := merkletree.NewMerkleTree(ctx, memory.NewMemoryStorage(), maxLevels)
	if err != nil {
		return nil, err
	}
	ti := &treeInfo{mt: mt, set: map[uint64]bool{}}
	for _, x := range genSet(spec) {
		if err := mt.Add(ctx, new(big.Int).SetUint64(x), big.NewInt(0)); err != nil {
			// a key clashing on 39 low bits with an earlier one cannot be revoked in a 40 level tree
			g.rep.Count("tree:add-error")
			continue
		}
		ti.set[x] = true
		ti.lst = append(ti.lst, x)
	}
	g.trees[key] = ti
	return ti, nil
}

// honest answer of an issuer whose revocation tree is ti, for nonce
func honestAnswer(ti *treeInfo, ctr, ror *big.Int, omitZero bool, nonce uint64) (*Ans, *big.Int, error) {
	p, _, err := ti.mt.GenerateProof(context.Background(), new(big.Int).SetUint64(nonce), nil)
	if err != nil {
		return nil, nil, err
	}
	rtr := ti.mt.Root().BigInt()
	st, err := poseidon.Hash([]*big.Int{ctr, rtr, ror})
	if err != nil {
		return nil, nil, err
	}
	rs := verifiable.RevocationStatus{MTP: *p}
	a := fromStatus(&rs)
	hx := func(z *big.Int) *string {
		if z.Sign() == 0 && omitZero {
			return nil
		}
		return sp(hexOfBig(z))
	}
	a.State, a.Ctr, a.Rtr, a.Ror = sp(hexOfBig(st)), hx(ctr), hx(rtr), hx(ror)
	return a, st, nil
}

func (g *gen) randField() *big.Int {
	b := make([]byte, 32)
	g.rng.Read(b)
	z := new(big.Int).SetBytes(b)
	return z.Mod(z, constants.Q)
}

// a field element different from z
func (g *gen) otherField(z *big.Int) *big.Int {
	for {
		x := g.randField()
		if x.Cmp(z) != 0 {
			return x
		}
	}
}

func geQ(r *rand.Rand) *big.Int {
	switch r.Intn(3) {
	case 0:
		return new(big.Int).Set(constants.Q)
	case 1:
		return new(big.Int).Sub(two256, big.NewInt(1))
	default:
		return new(big.Int).Add(constants.Q, big.NewInt(int64(1+r.Intn(1000))))
	}
}

var badHex = []string{"", "zz", "0x", "abc", strings.Repeat("00", 31), strings.Repeat("00", 33),
	strings.Repeat("0g", 32), " " + strings.Repeat("00", 32), strings.Repeat("00", 32) + " ",
	"0x0x" + strings.Repeat("00", 32), "0X" + strings.Repeat("00", 32), strings.Repeat("0", 63)}

type fault struct {
	name   string
	ans    *Ans
	nonce  uint64
	reject bool // the edit must lead to a non-distinguished error
	same   bool // the edit is benign: the class must equal the honest class
}

// every single fault of the honest answer h for the queried nonce
func (g *gen) faults(h *Ans, nonce uint64, ti *treeInfo, nSibKinds int, pad240 bool) []fault {
	var fs []fault
	add := func(name string, reject, same bool, edit func(a *Ans)) {
		a := h.clone()
		edit(a)
		fs = append(fs, fault{name: name, ans: a, nonce: nonce, reject: reject, same: same})
	}
	val := func(s *string) *big.Int { z, _, _ := refHex(s); return z }
	// --- state
	add("state:flipbit", true, false, func(a *Ans) {
		z := new(big.Int).Set(val(h.State))
		b := g.rng.Intn(250)
		z.SetBit(z, b, z.Bit(b)^1)
		a.State = sp(hexOfBig(z))
	})
	add("state:rand", true, false, func(a *Ans) { a.State = sp(hexOfBig(g.otherField(val(h.State)))) })
	add("state:nil", true, false, func(a *Ans) { a.State = nil })
	add("state:badhex", true, false, func(a *Ans) { a.State = sp(badHex[g.rng.Intn(len(badHex))]) })
	add("state:geQ", true, false, func(a *Ans) { a.State = sp(hexOfBig(geQ(g.rng))) })
	add("state:0x-prefix", false, true, func(a *Ans) { a.State = sp("0x" + *h.State) })
	add("state:uppercase", false, true, func(a *Ans) { a.State = sp(strings.ToUpper(*h.State)) })
	// --- near misses of the two compared hashes (deterministic): the hash is replaced by a
	// value that agrees with it on most digits / bits, and the dependants are recomputed so
	// that ONLY the targeted comparison can reject.
	//   rtr:   revocationTreeRoot := f(r), state := Poseidon(ctr, f(r), ror)  -> the tree state is
	//          consistent, only "root from proof = revocation root" can refuse
	//   state: state := f(s), roots untouched -> only "state = Poseidon(roots)" can refuse
	for _, nm := range nearMisses(val(h.Rtr)) {
		nm := nm
		add("nearmiss:rtr:"+nm.name, true, false, func(a *Ans) {
			st, err := poseidon.Hash([]*big.Int{val(h.Ctr), nm.v, val(h.Ror)})
			if err != nil {
				return
			}
			a.Rtr, a.State = sp(hexOfBig(nm.v)), sp(hexOfBig(st))
		})
	}
	for i, nm := range nearMisses(val(h.State)) {
		nm := nm
		if nSibKinds < 4 && i%3 != 0 {
			continue // quick tier: +1, -10^40, last hex byte; the root family above is complete in both tiers
		}
		add("nearmiss:state:"+nm.name, true, false, func(a *Ans) { a.State = sp(hexOfBig(nm.v)) })
	}
	// --- roots
	type rootRef struct {
		name string
		get  func(a *Ans) **string
	}
	roots := []rootRef{
		{"ctr", func(a *Ans) **string { return &a.Ctr }},
		{"rtr", func(a *Ans) **string { return &a.Rtr }},
		{"ror", func(a *Ans) **string { return &a.Ror }},
	}
	for _, rr := range roots {
		rr := rr
		hv := val(*rr.get(h))
		isZero := hv.Sign() == 0
		add(rr.name+":rand", true, false, func(a *Ans) { *rr.get(a) = sp(hexOfBig(g.otherField(hv))) })
		add(rr.name+":remove", !isZero, isZero, func(a *Ans) { *rr.get(a) = nil })
		add(rr.name+":zero", !isZero, isZero, func(a *Ans) { *rr.get(a) = sp(hexOfBig(big.NewInt(0))) })
		add(rr.name+":badhex", true, false, func(a *Ans) { *rr.get(a) = sp(badHex[g.rng.Intn(len(badHex))]) })
		add(rr.name+":geQ", true, false, func(a *Ans) { *rr.get(a) = sp(hexOfBig(geQ(g.rng))) })
		add(rr.name+":=state", hv.Cmp(val(h.State)) != 0, false, func(a *Ans) { *rr.get(a) = sp(*h.State) })
		if *rr.get(h) != nil {
			add(rr.name+":0x-prefix", false, true, func(a *Ans) { *rr.get(a) = sp("0x" + **rr.get(h)) })
		}
	}
	if val(h.Ctr).Cmp(val(h.Rtr)) != 0 {
		add("roots:swap-ctr-rtr", true, false, func(a *Ans) { a.Ctr, a.Rtr = a.Rtr, a.Ctr })
	}
	if val(h.Ror).Cmp(val(h.Rtr)) != 0 {
		add("roots:swap-ror-rtr", true, false, func(a *Ans) { a.Ror, a.Rtr = a.Rtr, a.Ror })
	}
	// --- siblings
	sibKinds := []string{"rand", "toggle-zero", "geQ", "flipbit"}
	for i := range h.Sibs {
		i := i
		kinds := sibKinds
		if nSibKinds < len(sibKinds) || len(h.Sibs) > 12 {
			n := nSibKinds
			if n >= len(sibKinds) {
				n = 2
			}
			o := g.rng.Intn(len(sibKinds))
			kinds = nil
			for j := 0; j < n; j++ {
				kinds = append(kinds, sibKinds[(o+j)%len(sibKinds)])
			}
		}
		for _, k := range kinds {
			hv := dec(h.Sibs[i])
			switch k {
			case "rand":
				add(fmt.Sprintf("sib[%d]:rand", i), true, false, func(a *Ans) { a.Sibs[i] = g.otherField(hv).String() })
			case "toggle-zero":
				add(fmt.Sprintf("sib[%d]:toggle-zero", i), true, false, func(a *Ans) {
					if hv.Sign() == 0 {
						a.Sibs[i] = g.otherField(hv).String()
					} else {
						a.Sibs[i] = "0"
					}
				})
			case "geQ":
				add(fmt.Sprintf("sib[%d]:geQ", i), true, false, func(a *Ans) { a.Sibs[i] = geQ(g.rng).String() })
			default:
				add(fmt.Sprintf("sib[%d]:flipbit", i), true, false, func(a *Ans) {
					z := new(big.Int).Set(hv)
					b := g.rng.Intn(250)
					z.SetBit(z, b, z.Bit(b)^1)
					a.Sibs[i] = z.String()
				})
			}
		}
	}
	if len(h.Sibs) > 0 {
		add("sibs:drop-last", true, false, func(a *Ans) { a.Sibs = a.Sibs[:len(a.Sibs)-1] })
		add("sibs:drop-first", true, false, func(a *Ans) { a.Sibs = a.Sibs[1:] })
	}
	if len(h.Sibs) > 1 {
		// exchanging two siblings is a fault only when they differ
		i := g.rng.Intn(len(h.Sibs) - 1)
		if h.Sibs[i] != h.Sibs[i+1] {
			add(fmt.Sprintf("sibs:swap[%d,%d]", i, i+1), true, false, func(a *Ans) { a.Sibs[i], a.Sibs[i+1] = a.Sibs[i+1], a.Sibs[i] })
		}
	}
	// appending a zero sibling to the proof for the empty tree ending in an empty node keeps mid = H(0,0)?
	// no: it is a different root unless Poseidon(0,0) = 0, so it must be rejected like any other.
	add("sibs:append-zero", true, false, func(a *Ans) { a.Sibs = append(a.Sibs, "0") })
	add("sibs:append-rand", true, false, func(a *Ans) { a.Sibs = append(a.Sibs, g.randField().String()) })
	add("sibs:pad-zero-to-241", true, false, func(a *Ans) {
		for len(a.Sibs) < 241 {
			a.Sibs = append(a.Sibs, "0")
		}
	})
	if pad240 {
		add("sibs:pad-zero-to-240", true, false, func(a *Ans) {
			for len(a.Sibs) < 240 {
				a.Sibs = append(a.Sibs, "0")
			}
		})
	}
	// --- aux node
	switch {
	case h.Ex:
		add("aux:add-on-existence", false, true, func(a *Ans) {
			a.Aux = &Aux{Key: sp(g.randField().String()), Value: sp("0")}
		})
		add("aux:partial-on-existence", true, false, func(a *Ans) { a.Aux = &Aux{Value: sp("0")} })
	case h.Aux == nil:
		add("aux:add", true, false, func(a *Ans) {
			a.Aux = &Aux{Key: sp(new(big.Int).SetUint64(nonce ^ 1<<63).String()), Value: sp("0")}
		})
		add("aux:add-empty", true, false, func(a *Ans) { a.Aux = &Aux{} })
	default:
		ak, av := dec(*h.Aux.Key), dec(*h.Aux.Value)
		add("aux:key-rand", true, false, func(a *Ans) { a.Aux.Key = sp(g.otherField(ak).String()) })
		add("aux:key+2^40", true, false, func(a *Ans) {
			a.Aux.Key = sp(new(big.Int).Xor(ak, new(big.Int).Lsh(big.NewInt(1), 40+uint(g.rng.Intn(20)))).String())
		})
		add("aux:key=nonce", true, false, func(a *Ans) { a.Aux.Key = sp(new(big.Int).SetUint64(nonce).String()) })
		add("aux:key-geQ", true, false, func(a *Ans) { a.Aux.Key = sp(geQ(g.rng).String()) })
		add("aux:value+1", true, false, func(a *Ans) { a.Aux.Value = sp(new(big.Int).Add(av, big.NewInt(1)).String()) })
		add("aux:value-geQ", true, false, func(a *Ans) { a.Aux.Value = sp(geQ(g.rng).String()) })
		add("aux:remove", true, false, func(a *Ans) { a.Aux = nil })
		add("aux:key-nil", true, false, func(a *Ans) { a.Aux.Key = nil })
		add("aux:value-nil", true, false, func(a *Ans) { a.Aux.Value = nil })
		add("aux:both-nil", true, false, func(a *Ans) { a.Aux = &Aux{} })
	}
	// --- existence flag
	add("existence:flip", true, false, func(a *Ans) { a.Ex = !a.Ex })
	// --- nonce: the same answer presented for another nonce
	other := func(name string, n uint64, reject bool) {
		if n == nonce {
			return
		}
		fs = append(fs, fault{name: name, ans: h.clone(), nonce: n, reject: reject})
	}
	depth := uint(len(h.Sibs))
	if len(ti.lst) > 0 {
		other("nonce:other-member", ti.lst[g.rng.Intn(len(ti.lst))], h.Ex)
	}
	other("nonce:random", g.rng.Uint64(), h.Ex)
	other("nonce:+1", nonce+1, h.Ex)
	if depth < 63 {
		// same path down to the end of the proof: a non-existence proof legitimately also
		// covers this nonce (unless it is the aux leaf); an existence proof must not
		other("nonce:same-path", nonce^(uint64(1)<<(depth+uint(g.rng.Intn(int(63-depth))))), h.Ex)
	}
	if !h.Ex && h.Aux != nil {
		other("nonce:aux-key", dec(*h.Aux.Key).Uint64(), true)
	}
	return fs
}

type nearMiss struct {
	name string
	v    *big.Int
}

// values close to the hash x (a field element), all different from x and inside the field
func nearMisses(x *big.Int) []nearMiss {
	Q := constants.Q
	norm := func(z *big.Int) *big.Int { return z.Mod(z, Q) }
	var out []nearMiss
	push := func(name string, z *big.Int) {
		if z.Sign() >= 0 && z.Cmp(Q) < 0 && z.Cmp(x) != 0 {
			out = append(out, nearMiss{name, z})
		}
	}
	push("+1", norm(new(big.Int).Add(x, big.NewInt(1))))
	push("-1", norm(new(big.Int).Sub(x, big.NewInt(1))))
	push("+2^64", norm(new(big.Int).Add(x, new(big.Int).Lsh(big.NewInt(1), 64))))
	push("-10^40", norm(new(big.Int).Sub(x, new(big.Int).Exp(big.NewInt(10), big.NewInt(40), nil))))
	// last decimal digit changed
	d := new(big.Int).Mod(x, big.NewInt(10)).Int64()
	ld := new(big.Int).Sub(x, big.NewInt(d))
	push("last-decimal-digit", ld.Add(ld, big.NewInt((d+1)%10)))
	// first byte of the hex form (the low byte) / last byte (the high byte, kept inside the field)
	push("first-hex-byte", new(big.Int).Xor(x, big.NewInt(0x80)))
	for b := 248; b <= 253; b++ {
		z := new(big.Int).Set(x)
		z.SetBit(z, b, z.Bit(b)^1)
		if z.Cmp(Q) < 0 {
			push("last-hex-byte", z)
			break
		}
	}
	return out
}

// ---------------------------------------------------------------------------
// validate stream

func (g *gen) validateCase(in *Input) error {
	t := newTable()
	refCls, refTs, refRoot := reference(t, in.Ans, in.Nonce)
	o, err := runValidate(in)
	if err != nil {
		return err
	}
	// expected class given the registry scenario
	exp := refCls
	sel := selected(in)
	switch {
	case in.OptK == 3:
		exp = clsPanic
	case sel != 0:
		exp = clsErr
	}
	g.oracles(in, o, exp, refTs, refRoot)
	fam := faultFamily(in.Fault)
	if in.Stream != "" {
		fam = in.Stream
	}
	g.rep.Count(fmt.Sprintf("validate:%s:%s", fam, clsName(o.cls)))
	canon, _ := json.Marshal([]any{in.Tree, in.Nonce, in.Fault, in.Ops, in.OptK})
	g.rep.Distinct(string(canon))
	var ops []string
	for _, op := range in.Ops {
		if op.Reg {
			ops = append(ops, fmt.Sprintf("RReg %s %d", g.str(op.Type), op.Kind))
		} else {
			ops = append(ops, "RDel "+g.str(op.Type))
		}
	}
	oroot := "None"
	if o.root != nil {
		oroot = "(Some " + coqgen.Limbs(o.root) + ")"
	}
	coq := fmt.Sprintf("%s %d [%s] %s %s %s %d %s %d", t.coq(), in.OptK, strings.Join(ops, ";"),
		g.str(in.Type), coqgen.Limbs(new(big.Int).SetUint64(in.Nonce)), in.Ans.coq(), o.ts, oroot, o.cls)
	g.addCase(in, "CValidate %d "+coq)
	return nil
}

// the interned-string hook is per shard; cases carry a placeholder resolved in writeShards
func (g *gen) str(s string) string { return "\x00S" + hex.EncodeToString([]byte(s)) + "\x00" }

// which resolver kind the registry scenario selects for in.Type: 0,1,2 or -1 (unregistered)
func selected(in *Input) int {
	m := map[string]int{}
	for _, op := range in.Ops {
		if op.Reg {
			m[op.Type] = op.Kind
		} else {
			delete(m, op.Type)
		}
	}
	k, ok := m[in.Type]
	if !ok {
		return -1
	}
	return k
}

func clsName(c int) string {
	return [...]string{"ok", "revoked", "error", "panic"}[c]
}

func faultFamily(f string) string {
	if f == "" {
		return "honest"
	}
	if i := strings.IndexAny(f, ":["); i >= 0 {
		return f[:i]
	}
	return f
}

// implementation-side property oracles
func (g *gen) oracles(in *Input, o vobs, exp, refTs int, refRoot *big.Int) {
	if o.cls == clsPanic && exp != clsPanic {
		g.rep.Fail("c09-panic", "ValidateCredentialStatus panicked: "+o.msg, in)
		return
	}
	if o.didBroken {
		g.rep.Fail("c09-context-did", "GetIssuerDID does not return what WithIssuerDID stored (or finds a DID in an empty context)", in)
	}
	wantDflt := selected(in)
	if in.OptK == 1 {
		wantDflt = 1 // the failing resolver registered for the type in the default registry
	}
	if o.cls != clsPanic && o.dfltKind != wantDflt {
		g.rep.Fail("c09-registry-get", fmt.Sprintf("GetStatusResolver(%q) gave resolver kind %d, the Register/Delete history gives %d", in.Type, o.dfltKind, wantDflt), in)
	}
	if o.cls != exp {
		g.rep.Fail("c09-decision-mismatch", fmt.Sprintf("result class %s, the property demands %s (%s)",
			clsName(o.cls), clsName(exp), o.msg), in)
	}
	if o.ts != refTs {
		g.rep.Fail("c09-treestate-mismatch", fmt.Sprintf("validateTreeState class %d, reference %d", o.ts, refTs), in)
	}
	if (o.root == nil) != (refRoot == nil) || (o.root != nil && o.root.Cmp(refRoot) != 0) {
		g.rep.Fail("c09-root-mismatch", fmt.Sprintf("rootFromMerkleTreeProof %v, reference %v", o.root, refRoot), in)
	}
	if in.Tree == nil || in.OptK >= 2 || selected(in) != 0 {
		return
	}
	ti, err := g.tree(*in.Tree)
	if err != nil {
		return
	}
	member := ti.set[in.Nonce]
	if in.Fault == "" {
		if member && o.cls != clsRevoked {
			g.rep.Fail("c09-honest-member-not-revoked", "honest answer for a revoked nonce gave "+clsName(o.cls)+" "+o.msg, in)
		}
		if !member && o.cls != clsOK {
			g.rep.Fail("c09-honest-nonmember-rejected", "honest answer for a non-revoked nonce gave "+clsName(o.cls)+" "+o.msg, in)
		}
	}
	if in.MustReject && o.cls != clsErr {
		g.rep.Fail("c09-fault-accepted", "answer with fault "+in.Fault+" gave "+clsName(o.cls), in)
	}
	if in.SameAs > 0 && o.cls != in.SameAs-1 {
		g.rep.Fail("c09-benign-edit-changed-result", "edit "+in.Fault+" gave "+clsName(o.cls)+", honest answer gave "+clsName(in.SameAs-1), in)
	}
	// soundness against the real tree whenever the issuer state is the honest one
	if st, _, bad := refHex(in.Ans.State); in.Ans.State != nil && !bad && st.String() == in.Honest {
		if o.cls == clsOK && member {
			g.rep.Fail("c09-accepted-revoked-nonce", "success for a nonce that IS in the revocation tree (fault "+in.Fault+")", in)
		}
		if o.cls == clsRevoked && !member {
			g.rep.Fail("c09-revoked-nonmember", "ErrCredentialIsRevoked for a nonce that is NOT in the revocation tree (fault "+in.Fault+")", in)
		}
	}
}

var statusTypes = []string{"Iden3commRevocationStatusV1.0", "SparseMerkleTreeProof",
	"Iden3ReverseSparseMerkleTreeProof", "Iden3OnchainSparseMerkleTreeProof2023", "x-test", ""}

func (g *gen) validateStream() error {
	type plan struct {
		n     int
		style string
	}
	var plans []plan
	sizes := []int{0, 1, 2, 3, 7, 40, 300}
	if g.cfg.Thorough() {
		sizes = []int{0, 1, 2, 3, 5, 16, 40, 100, 300}
	}
	for i, n := range sizes {
		styles := []string{"clustered", "sparse", "dense"}
		styles = []string{styles[i%3], styles[(i+1)%3]}
		if !g.cfg.Thorough() && n != 1 && n != 3 {
			styles = styles[:1]
		}
		if n == 300 {
			styles[0] = "clustered"
		}
		for _, s := range styles {
			plans = append(plans, plan{n, s})
		}
	}
	// random sizes 0..300
	for i := 0; i < g.cfg.Pick(2, 8); i++ {
		plans = append(plans, plan{g.rng.Intn(301), []string{"clustered", "sparse", "dense"}[g.rng.Intn(3)]})
	}
	for _, pl := range plans {
		spec := TreeSpec{Seed: g.rng.Int63(), N: pl.n, Style: pl.style}
		ti, err := g.tree(spec)
		if err != nil {
			return err
		}
		g.rep.Count("tree:" + pl.style)
		// issuer: claims tree root and roots root, possibly zero / absent
		ctr, ror := g.randField(), g.randField()
		omit := g.rng.Intn(2) == 0
		switch g.rng.Intn(4) {
		case 0:
			ctr = big.NewInt(0)
		case 1:
			ror = big.NewInt(0)
		}
		// queried nonces
		type query struct {
			kind  string
			nonce uint64
		}
		var qs []query
		nm := g.cfg.Pick(2, 4)
		for i := 0; i < nm && i < len(ti.lst); i++ {
			qs = append(qs, query{"member", ti.lst[g.rng.Intn(len(ti.lst))]})
		}
		for i := 0; i < g.cfg.Pick(3, 6) && len(ti.lst) > 0; i++ {
			// near miss: shares exactly j low bits with a member
			m := ti.lst[g.rng.Intn(len(ti.lst))]
			j := uint(1 + g.rng.Intn(39))
			if i == 0 {
				j = 39
			}
			x := m ^ (uint64(1) << j)
			x ^= (g.rng.Uint64() >> (j + 1)) << (j + 1)
			qs = append(qs, query{fmt.Sprintf("near-miss-%d", j), x})
		}
		for i := 0; i < g.cfg.Pick(2, 3); i++ {
			qs = append(qs, query{"non-member", g.rng.Uint64()})
		}
		qs = append(qs, query{"zero", 0}, query{"max", ^uint64(0)})
		if !g.cfg.Thorough() {
			qs = qs[:len(qs)-1-g.rng.Intn(2)]
		}
		for _, q := range qs {
			if ti.set[q.nonce] {
				q.kind = "member"
			} else if q.kind == "member" {
				continue
			}
			h, st, err := honestAnswer(ti, ctr, ror, omit, q.nonce)
			if err != nil {
				return err
			}
			g.rep.Count("query:" + strings.SplitN(q.kind, "-", 3)[0])
			if !h.Ex && h.Aux != nil {
				g.rep.Count("honest-proof:aux-node")
			} else if !h.Ex {
				g.rep.Count("honest-proof:empty-node")
			} else {
				g.rep.Count("honest-proof:existence")
			}
			g.rep.Count(fmt.Sprintf("honest-proof-depth:%02d", len(h.Sibs)/5*5))
			ty := statusTypes[g.rng.Intn(len(statusTypes)-1)]
			base := Input{Kind: "validate", OptK: 1, Ops: []Op{{Reg: true, Type: ty, Kind: 0}}, Type: ty,
				Tree: &spec, ProofNonce: q.nonce, Honest: st.String()}
			hin := base
			hin.Nonce, hin.Ans = q.nonce, h
			if err := g.validateCase(&hin); err != nil {
				return err
			}
			honestCls := clsOK
			if h.Ex {
				honestCls = clsRevoked
			}
			if len(g.rep.Samples) < 3 {
				g.rep.Sample(map[string]any{"tree": spec, "query": q.kind, "nonce": q.nonce, "answer": h, "class": clsName(honestCls)})
			}
			for _, f := range g.faults(h, q.nonce, ti, g.cfg.Pick(1, 4), g.rng.Intn(g.cfg.Pick(10, 5)) == 0) {
				fin := base
				fin.Nonce, fin.Ans, fin.Fault, fin.MustReject = f.nonce, f.ans, f.name, f.reject
				if f.same {
					fin.SameAs = honestCls + 1
				}
				if err := g.validateCase(&fin); err != nil {
					return err
				}
			}
		}
	}
	return nil
}

// registry stream: histories of Register/Delete, default registry and option
func (g *gen) registryStream() error {
	spec := TreeSpec{Seed: g.rng.Int63(), N: 9, Style: "clustered"}
	ti, err := g.tree(spec)
	if err != nil {
		return err
	}
	ctr, ror := g.randField(), g.randField()
	for i := 0; i < g.cfg.Pick(80, 600); i++ {
		nonce := g.rng.Uint64()
		if i%3 == 0 {
			nonce = ti.lst[g.rng.Intn(len(ti.lst))]
		}
		h, st, err := honestAnswer(ti, ctr, ror, false, nonce)
		if err != nil {
			return err
		}
		var ops []Op
		pool := statusTypes[g.rng.Intn(3):][:3]
		for j := 1 + g.rng.Intn(6); j > 0; j-- {
			op := Op{Reg: g.rng.Intn(3) != 0, Type: pool[g.rng.Intn(len(pool))]}
			if op.Reg {
				op.Kind = g.rng.Intn(3)
				if g.rng.Intn(2) == 0 {
					op.Kind = 0
				}
			}
			ops = append(ops, op)
		}
		qty := ops[g.rng.Intn(len(ops))].Type
		if g.rng.Intn(4) == 0 {
			ops = append(ops, Op{Type: qty})
		}
		if g.rng.Intn(7) == 0 {
			qty = statusTypes[g.rng.Intn(len(statusTypes))]
		}
		switch i {
		case 0: // registered then deleted
			ops, qty = []Op{{Reg: true, Type: "x-test", Kind: 0}, {Type: "x-test"}}, "x-test"
		case 1: // overwritten by a failing resolver
			ops, qty = []Op{{Reg: true, Type: "x-test", Kind: 0}, {Reg: true, Type: "x-test", Kind: 1}}, "x-test"
		case 2: // overwritten by the answering resolver
			ops, qty = []Op{{Reg: true, Type: "x-test", Kind: 1}, {Reg: true, Type: "x-test", Kind: 0}}, "x-test"
		case 3: // deleting another type does not matter
			ops, qty = []Op{{Reg: true, Type: "x-test", Kind: 0}, {Type: ""}, {Type: "SparseMerkleTreeProof"}}, "x-test"
		case 4: // delete on an empty registry, then register
			ops, qty = []Op{{Type: "x-test"}, {Reg: true, Type: "x-test", Kind: 0}}, "x-test"
		case 5: // the empty type name is a type like any other
			ops, qty = []Op{{Reg: true, Type: "", Kind: 0}}, ""
		}
		in := Input{Kind: "validate", Stream: "registry", OptK: g.rng.Intn(2), Ops: ops, Type: qty,
			Nonce: nonce, Ans: h, Tree: &spec, ProofNonce: nonce, Honest: st.String()}
		if g.rng.Intn(12) == 0 {
			in.OptK = 3
		}
		if i%2 == 0 {
			in.DID = fmt.Sprintf("issuer%d", i)
		}
		g.rep.Count(fmt.Sprintf("registry:optk%d:selected%d", in.OptK, selected(&in)))
		if err := g.validateCase(&in); err != nil {
			return err
		}
	}
	return nil
}

// ---------------------------------------------------------------------------
// HTTP stream

type stubBody struct {
	data     []byte
	pos      int
	failAt   int
	chunk    int
	closeErr bool
}

func (b *stubBody) Read(p []byte) (int, error) {
	if b.failAt >= 0 && b.pos >= b.failAt {
		return 0, errors.New("stub body: read failure")
	}
	end := len(b.data)
	if b.failAt >= 0 && b.failAt < end {
		end = b.failAt
	}
	if b.pos >= end {
		return 0, io.EOF
	}
	n := len(p)
	if b.chunk > 0 && n > b.chunk {
		n = b.chunk
	}
	if n > end-b.pos {
		n = end - b.pos
	}
	copy(p, b.data[b.pos:b.pos+n])
	b.pos += n
	return n, nil
}

func (b *stubBody) Close() error {
	if b.closeErr {
		return errors.New("stub body: close failure")
	}
	return nil
}

type stubRT struct{ in *HTTPIn }

func (s stubRT) RoundTrip(req *http.Request) (*http.Response, error) {
	if s.in.TransportErr {
		return nil, errors.New("stub transport: no route")
	}
	return &http.Response{StatusCode: s.in.Code, Status: fmt.Sprintf("%d stub", s.in.Code),
		Proto: "HTTP/1.1", ProtoMajor: 1, ProtoMinor: 1, Header: http.Header{},
		Body:    &stubBody{data: s.in.Body, failAt: s.in.ReadFailAt, chunk: s.in.Chunk, closeErr: s.in.CloseErr},
		Request: req, ContentLength: -1}, nil
}

func (h *HTTPIn) build() {
	core := []byte(h.Core)
	switch {
	case h.Size < 0:
		h.Body = core
		h.Size = len(core)
	case len(core) >= h.Size:
		h.Body = core[:h.Size]
	default:
		pad := byte(' ')
		if h.Pad == "garbage" {
			pad = 'x'
		}
		h.Body = append(core, strings.Repeat(string(pad), h.Size-len(core))...)
		if h.Pad == "newline" {
			for i := len(core); i < len(h.Body); i++ {
				h.Body[i] = '\n'
			}
		}
	}
}

type hobs struct {
	ok    bool
	ans   *Ans
	panic bool
	msg   string
}

func runHTTP(h *HTTPIn) (o hobs) {
	old := http.DefaultClient.Transport
	http.DefaultClient.Transport = stubRT{in: h}
	defer func() { http.DefaultClient.Transport = old }()
	defer func() {
		if r := recover(); r != nil {
			o = hobs{panic: true, msg: fmt.Sprint(r)}
		}
	}()
	url := "http://status.test/revocation/1"
	if h.URL != "" {
		url = h.URL
	}
	ctx, cancel := context.WithCancel(context.Background())
	defer cancel()
	if h.Cancelled {
		cancel()
	}
	rs, err := verifiable.IssuerResolver{}.Resolve(ctx,
		verifiable.CredentialStatus{ID: url, Type: verifiable.Iden3commRevocationStatusV1})
	if err != nil {
		return hobs{msg: err.Error()}
	}
	return hobs{ok: true, ans: fromStatus(&rs)}
}

// probeTransport: does net/http hand a response back for this URL / context / transport?
// (the primitive library calls http.NewRequestWithContext + Client.Do, independent of Resolve)
func probeTransport(h *HTTPIn) bool {
	old := http.DefaultClient.Transport
	http.DefaultClient.Transport = stubRT{in: h}
	defer func() { http.DefaultClient.Transport = old }()
	url := "http://status.test/revocation/1"
	if h.URL != "" {
		url = h.URL
	}
	ctx, cancel := context.WithCancel(context.Background())
	defer cancel()
	if h.Cancelled {
		cancel()
	}
	req, err := http.NewRequestWithContext(ctx, http.MethodGet, url, http.NoBody)
	if err != nil {
		return false
	}
	resp, err := http.DefaultClient.Do(req)
	if err != nil {
		return false
	}
	_ = resp.Body.Close()
	return true
}

// The body as encoding/json sees it, decoded into MIRROR types (the library's Hash /
// NodeAux text decoders are the only primitives used) - independent of
// RevocationStatus.UnmarshalJSON / decodeMTP, which are part of the code under test.
type wireMTP struct {
	Existence bool                `json:"existence"`
	Siblings  []*merkletree.Hash  `json:"siblings"`
	NodeAux   *merkletree.NodeAux `json:"node_aux"`
}

type wireStatus struct {
	Issuer verifiable.TreeState `json:"issuer"`
	MTP    json.RawMessage      `json:"mtp"`
}

// Wire is the recorded wire form; Sibs[i] == nil is a null sibling.
type Wire struct {
	Issuer verifiable.TreeState
	HasMTP bool
	Ex     bool
	Sibs   []*string
	Aux    *Aux
}

func hashDec(h *merkletree.Hash) *string {
	if h == nil {
		return nil
	}
	return sp(h.BigInt().String())
}

func wireBody(b []byte) (w *Wire, ok bool) {
	defer func() {
		if r := recover(); r != nil {
			w, ok = nil, false
		}
	}()
	var ws wireStatus
	if err := json.Unmarshal(b, &ws); err != nil {
		return nil, false
	}
	w = &Wire{Issuer: ws.Issuer}
	raw := strings.TrimSpace(string(ws.MTP))
	if raw == "" || raw == "null" {
		return w, true
	}
	var wm wireMTP
	if err := json.Unmarshal(ws.MTP, &wm); err != nil {
		return nil, false
	}
	w.HasMTP, w.Ex = true, wm.Existence
	for _, s := range wm.Siblings {
		w.Sibs = append(w.Sibs, hashDec(s))
	}
	if wm.NodeAux != nil {
		w.Aux = &Aux{Key: hashDec(wm.NodeAux.Key), Value: hashDec(wm.NodeAux.Value)}
	}
	return w, true
}

// reference decode (what the property demands of the decoder): more than 240 siblings or
// a null sibling is an error; flag, siblings and auxiliary node are taken as written
func (w *Wire) decode() (*Ans, bool) {
	a := &Ans{State: w.Issuer.State, Ctr: w.Issuer.ClaimsTreeRoot, Rtr: w.Issuer.RevocationTreeRoot,
		Ror: w.Issuer.RootOfRoots, Sibs: []string{}}
	if !w.HasMTP {
		return a, true
	}
	if len(w.Sibs) > 240 {
		return nil, false
	}
	for _, s := range w.Sibs {
		if s == nil {
			return nil, false
		}
		a.Sibs = append(a.Sibs, *s)
	}
	a.Ex, a.Aux = w.Ex, w.Aux
	return a, true
}

func (w *Wire) coq() string {
	mtp := "None"
	if w.HasMTP {
		var ss []string
		for _, s := range w.Sibs {
			if s == nil {
				ss = append(ss, "None")
			} else {
				ss = append(ss, "(Some "+coqgen.Limbs(dec(*s))+")")
			}
		}
		aux := "None"
		if w.Aux != nil {
			o := func(s *string) string {
				if s == nil {
					return "None"
				}
				return "(Some " + coqgen.Limbs(dec(*s)) + ")"
			}
			aux = "(Some (" + o(w.Aux.Key) + ", " + o(w.Aux.Value) + "))"
		}
		mtp = fmt.Sprintf("(Some (mkrwm %s [%s] %s))", coqgen.Bool(w.Ex), strings.Join(ss, ";"), aux)
	}
	return fmt.Sprintf("(mkrw %s %s %s %s %s)", coqHexf(w.Issuer.State), coqHexf(w.Issuer.ClaimsTreeRoot),
		coqHexf(w.Issuer.RevocationTreeRoot), coqHexf(w.Issuer.RootOfRoots), mtp)
}

// parseBody: the wire form of the body (nil = encoding/json refuses it) and the answer the
// property demands the decoder to produce from it
func parseBody(b []byte) (w *Wire, a *Ans, ok bool) {
	w, wok := wireBody(b)
	if !wok {
		return nil, nil, false
	}
	a, ok = w.decode()
	return w, a, ok
}

// decodeImpl: json.Unmarshal of the body into a RevocationStatus (the code under test)
func decodeImpl(b []byte) (o hobs) {
	defer func() {
		if r := recover(); r != nil {
			o = hobs{panic: true, msg: fmt.Sprint(r)}
		}
	}()
	var rs verifiable.RevocationStatus
	if err := json.Unmarshal(b, &rs); err != nil {
		return hobs{msg: err.Error()}
	}
	return hobs{ok: true, ans: fromStatus(&rs)}
}

func (o hobs) coq() string {
	switch {
	case o.ok:
		return "(HoOk " + o.ans.coq() + ")"
	case o.panic:
		return "HoPanic"
	default:
		return "HoErr"
	}
}

func wireCoq(w *Wire) string {
	if w == nil {
		return "None"
	}
	return "(Some " + w.coq() + ")"
}

func ansEqual(a, b *Ans) bool {
	x, _ := json.Marshal(a)
	y, _ := json.Marshal(b)
	return string(x) == string(y)
}

func (g *gen) httpCase(h *HTTPIn) {
	h.build()
	limit := verifiable.VerifLimitReaderBytes
	o := runHTTP(h)
	pw, pa, pok := parseBody(h.Body)
	delivered := len(h.Body)
	readOK := true
	if h.ReadFailAt >= 0 && h.ReadFailAt <= len(h.Body) {
		delivered, readOK = h.ReadFailAt, false
	}
	if len(h.Body) <= 64 {
		h.BodyHex = hex.EncodeToString(h.Body)
	}
	in := &Input{Kind: "http", HTTP: h}
	// oracle: an answer iff 2xx, fewer bytes than the limit, and the body parses
	noTransport := !probeTransport(h)
	if noTransport {
		g.rep.Count("http:no-response")
	}
	want := !noTransport && h.Code >= 200 && h.Code < 300 && readOK && delivered < limit && pok && !h.CloseErr
	switch {
	case o.panic:
		g.rep.Fail("c09-http-panic", "IssuerResolver.Resolve panicked: "+o.msg, in)
	case o.ok && !want:
		g.rep.Fail("c09-http-accept", fmt.Sprintf("Resolve answered although code=%d size=%d limit=%d parses=%v readOK=%v", h.Code, delivered, limit, pok, readOK), in)
	case !o.ok && want:
		g.rep.Fail("c09-http-reject", fmt.Sprintf("Resolve failed (%s) although code=%d size=%d limit=%d parses", o.msg, h.Code, delivered, limit), in)
	case o.ok && !ansEqual(o.ans, pa):
		g.rep.Fail("c09-http-answer", "Resolve answered something else than the body says (existence flag, siblings and auxiliary node are to be taken as written)", in)
	}
	res := "err"
	if o.ok {
		res = "ok"
	} else if o.panic {
		res = "panic"
	}
	rel := "lt"
	if delivered == limit {
		rel = "eq"
	} else if delivered > limit {
		rel = "gt"
	}
	g.rep.Count(fmt.Sprintf("http:code%d:size-%s-limit:%s", h.Code, rel, res))
	canon, _ := json.Marshal(h)
	g.rep.Distinct(string(canon))
	parsed := wireCoq(pw)
	obs := o.coq()
	// the delivered bytes, written as core ++ pad^n (a long trailing run of one byte is not spelled out)
	db := h.Body[:delivered]
	padn := 0
	for padn < len(db) && db[len(db)-1-padn] == db[len(db)-1] {
		padn++
	}
	padc := 32
	if padn < 32 {
		padn = 0
	} else {
		padc = int(db[len(db)-1])
	}
	coq := fmt.Sprintf("%s %s %s %s %s %d %d %s %s %s", coqgen.Bool(!noTransport), coqgen.Limbs(big.NewInt(int64(h.Code))),
		coqgen.Limbs(big.NewInt(int64(delivered))), coqgen.Bool(readOK), g.str(string(db[:len(db)-padn])), padc, padn,
		parsed, coqgen.Bool(!h.CloseErr), obs)
	g.addCase(in, "CHttp %d "+coq)
}

func (g *gen) httpStream() error {
	limit := verifiable.VerifLimitReaderBytes
	// a genuine status document
	spec := TreeSpec{Seed: g.rng.Int63(), N: 12, Style: "clustered"}
	ti, err := g.tree(spec)
	if err != nil {
		return err
	}
	var docs []string
	for _, n := range []uint64{ti.lst[0], ti.lst[0] ^ 2, g.rng.Uint64()} {
		h, _, err := honestAnswer(ti, g.randField(), big.NewInt(0), true, n)
		if err != nil {
			return err
		}
		rs, err := h.toStatus()
		if err != nil {
			return err
		}
		b, err := json.Marshal(rs)
		if err != nil {
			return err
		}
		docs = append(docs, string(b))
	}
	malformed := []string{"", "{", "[]", `"x"`, "nul", "{}x", `{"issuer":5}`, `{"issuer":{"state":7}}`,
		`{"mtp":{"existence":"yes"}}`, `{"mtp":{"existence":false,"siblings":["zz"]}}`,
		`{"mtp":{"existence":false,"siblings":["21888242871839275222246405745257275088548364400416034343698204186575808495617"]}}`,
		`{"mtp":{"siblings":[1]}}`, `{"mtp":[]}`, "\xef\xbb\xbf{}", `{"issuer":{"state":"00"}} {}`, docs[0][:len(docs[0])-1],
		`{"mtp":{"existence":false,"node_aux":{"key":"zz","value":"0"}}}`}
	wellformed := []string{"null", "{}", `{"issuer":{},"mtp":{}}`, `{"issuer":{"state":"zz"},"mtp":{"existence":true}}`,
		`{"mtp":{"existence":false,"siblings":[],"node_aux":{}}}`, `{"mtp":{"existence":false,"node_aux":{"key":"1"}}}`,
		`{"ISSUER":{"STATE":"` + strings.Repeat("00", 32) + `"},"unknown":[1,2,3]}`,
		`{"mtp":{"existence":false,"siblings":["-5"]}}`, " \n\t{} \n",
		`{"mtp":{"existence":false,"siblings":[` + strings.Repeat(`"0",`, 240) + `"0"]}}`,
		`{"mtp":{"existence":true,"siblings":[` + strings.Repeat(`"0",`, 299) + `"0"]}}`}
	// decodeMTP: existence flag x auxiliary node x siblings, each as written
	var matrix []string
	for _, ex := range []string{`"existence":true,`, `"existence":false,`, ``} {
		for _, aux := range []string{``, `,"node_aux":null`, `,"node_aux":{}`, `,"node_aux":{"key":"5"}`, `,"node_aux":{"value":"0"}`,
			`,"node_aux":{"key":"5","value":"0"}`, `,"node_aux":{"key":null,"value":"7"}`} {
			for _, sibs := range []string{`"siblings":[]`, `"siblings":["0","12"]`, `"siblings":null`, `"siblings":["1",null]`} {
				matrix = append(matrix, `{"issuer":{"state":"`+strings.Repeat("00", 32)+`"},"mtp":{`+ex+sibs+aux+`}}`)
			}
		}
	}
	matrix = append(matrix, `{"mtp":null}`, `{"mtp":{}}`, `{"issuer":{"state":"x"}}`, `{"mtp":{"existence":true,"node_aux":{"key":"1","value":"2"}}}`,
		`{"mtp":{"existence":false,"siblings":[`+strings.Repeat(`"0",`, 239)+`"0"]}}`,
		`{"mtp":{"existence":true,"siblings":[`+strings.Repeat(`"3",`, 240)+`"3"]}}`)
	for _, m := range matrix {
		g.httpCase(&HTTPIn{Code: 200, BodyKind: "decode-matrix", Core: m, Size: -1, ReadFailAt: -1})
	}
	codes := []int{199, 200, 204, 299, 300, 404, 500}
	sizes := []int{-1, limit - 1, limit, limit + 1}
	if g.cfg.Thorough() {
		codes = append(codes, 0, 100, 201, 206, 301, 302, 401, 503, 600, 1000, -1)
		sizes = append(sizes, limit-2, limit+2, 2*limit, 3*limit+7)
	}
	for _, code := range codes {
		for _, size := range sizes {
			for di, d := range docs {
				if di > 0 && !(code == 200 || g.cfg.Thorough()) {
					continue
				}
				for _, pad := range []string{"space", "garbage"} {
					if size < 0 && pad == "garbage" {
						continue
					}
					chunk := []int{0, 1 + g.rng.Intn(700), 4096}[g.rng.Intn(3)]
					g.httpCase(&HTTPIn{Code: code, BodyKind: "status", Core: d, Size: size, Pad: pad, ReadFailAt: -1, Chunk: chunk})
				}
			}
		}
		for _, m := range malformed {
			g.httpCase(&HTTPIn{Code: code, BodyKind: "malformed", Core: m, Size: -1, ReadFailAt: -1})
		}
		for _, m := range wellformed {
			g.httpCase(&HTTPIn{Code: code, BodyKind: "wellformed-other", Core: m, Size: -1, ReadFailAt: -1})
		}
		// the empty body and short garbage at the boundary sizes
		for _, size := range []int{0, 1, limit - 1, limit, limit + 1} {
			g.httpCase(&HTTPIn{Code: code, BodyKind: "garbage", Core: "", Size: size, Pad: "garbage", ReadFailAt: -1})
			g.httpCase(&HTTPIn{Code: code, BodyKind: "blank", Core: "", Size: size, Pad: "newline", ReadFailAt: -1})
			g.httpCase(&HTTPIn{Code: code, BodyKind: "null-padded", Core: "null", Size: size, Pad: "space", ReadFailAt: -1})
		}
	}
	// transport / reader / close failures
	g.httpCase(&HTTPIn{TransportErr: true, Code: 200, BodyKind: "status", Core: docs[0], Size: -1, ReadFailAt: -1})
	for _, u := range []string{"://no-scheme", "http://bad host/", "\x7f", "unknown-scheme://x/y", "http://"} {
		g.httpCase(&HTTPIn{URL: u, Code: 200, BodyKind: "status", Core: docs[0], Size: -1, ReadFailAt: -1})
	}
	g.httpCase(&HTTPIn{Cancelled: true, Code: 200, BodyKind: "status", Core: docs[0], Size: -1, ReadFailAt: -1})
	for _, code := range []int{200, 404} {
		for _, at := range []int{0, 10, len(docs[0]), limit - 1, limit, limit + 1} {
			g.httpCase(&HTTPIn{Code: code, BodyKind: "status", Core: docs[0], Size: limit + 100, Pad: "space", ReadFailAt: at})
		}
		g.httpCase(&HTTPIn{Code: code, BodyKind: "status", Core: docs[0], Size: -1, ReadFailAt: -1, CloseErr: true})
		g.httpCase(&HTTPIn{Code: code, BodyKind: "malformed", Core: "{", Size: -1, ReadFailAt: -1, CloseErr: true})
		g.httpCase(&HTTPIn{Code: code, BodyKind: "status", Core: docs[0], Size: limit, Pad: "space", ReadFailAt: -1, CloseErr: true})
	}
	// a null sibling (the library's own decoder dereferences it; decodeMTP refuses it)
	g.httpCase(&HTTPIn{Code: 200, BodyKind: "null-sibling", Core: `{"mtp":{"existence":true,"siblings":[null]}}`, Size: -1, ReadFailAt: -1})
	return nil
}

// ---------------------------------------------------------------------------
// end-to-end stream: ValidateCredentialStatus -> default registry -> IssuerResolver ->
// stub transport delivering the JSON form of an honest / faulted answer

func (g *gen) e2eCase(in *Input) {
	h := in.HTTP
	h.build()
	ty := verifiable.CredentialStatusType(in.Type)
	verifiable.RegisterStatusResolver(ty, verifiable.IssuerResolver{})
	defer verifiable.DeleteStatusResolver(ty)
	old := http.DefaultClient.Transport
	http.DefaultClient.Transport = stubRT{in: h}
	defer func() { http.DefaultClient.Transport = old }()
	cls, msg := clsPanic, ""
	func() {
		defer func() {
			if r := recover(); r != nil {
				msg = fmt.Sprint(r)
			}
		}()
		_, err := verifiable.ValidateCredentialStatus(context.Background(),
			verifiable.CredentialStatus{ID: "http://status.test/e2e", Type: ty, RevocationNonce: in.Nonce})
		cls = classify(err)
		if err != nil {
			msg = err.Error()
		}
	}()
	pw, pa, pok := parseBody(h.Body)
	od := decodeImpl(h.Body)
	switch {
	case od.panic:
		g.rep.Fail("c09-decode-panic", "json.Unmarshal into RevocationStatus panicked: "+od.msg, in)
	case od.ok != pok:
		g.rep.Fail("c09-decode-mismatch", fmt.Sprintf("json.Unmarshal into RevocationStatus ok=%v, the body demands ok=%v (%s)", od.ok, pok, od.msg), in)
	case od.ok && !ansEqual(od.ans, pa):
		g.rep.Fail("c09-decode-mismatch", "the decoded RevocationStatus is not what the body says (existence flag, siblings and auxiliary node are to be taken as written)", in)
	}
	t := newTable()
	exp := clsErr
	if h.Code >= 200 && h.Code < 300 && len(h.Body) < verifiable.VerifLimitReaderBytes && pok {
		exp, _, _ = reference(t, pa, in.Nonce)
	}
	switch {
	case cls == clsPanic:
		g.rep.Fail("c09-panic", "ValidateCredentialStatus (direct HTTP resolver) panicked: "+msg, in)
	case cls != exp:
		g.rep.Fail("c09-e2e-mismatch", fmt.Sprintf("result class %s, the property demands %s (%s)", clsName(cls), clsName(exp), msg), in)
	}
	if in.Tree != nil && (cls == clsOK || cls == clsRevoked) && pok {
		if ti, err := g.tree(*in.Tree); err == nil {
			if st, _, bad := refHex(pa.State); pa.State != nil && !bad && st.String() == in.Honest {
				if member := ti.set[in.Nonce]; (cls == clsOK) == member {
					g.rep.Fail("c09-accepted-revoked-nonce", "end to end: "+clsName(cls)+" although membership of the nonce in the real tree is "+fmt.Sprint(member), in)
				}
			}
		}
	}
	g.rep.Count(fmt.Sprintf("e2e:%s:%s", faultFamily(in.Fault), clsName(cls)))
	canon, _ := json.Marshal([]any{"e2e", in.Tree, in.Nonce, in.Fault, h.Code, h.Size})
	g.rep.Distinct(string(canon))
	coq := fmt.Sprintf("%s %s %s %s %s %s %s %d", t.coq(), g.str(in.Type), coqgen.Limbs(new(big.Int).SetUint64(in.Nonce)),
		coqgen.Limbs(big.NewInt(int64(h.Code))), coqgen.Limbs(big.NewInt(int64(len(h.Body)))), wireCoq(pw), od.coq(), cls)
	g.addCase(in, "CE2E %d "+coq)
}

func (g *gen) e2eStream() error {
	limit := verifiable.VerifLimitReaderBytes
	for _, n := range []int{0, 6, g.cfg.Pick(60, 300)} {
		spec := TreeSpec{Seed: g.rng.Int63(), N: n, Style: "clustered"}
		ti, err := g.tree(spec)
		if err != nil {
			return err
		}
		ctr, ror := g.randField(), g.randField()
		var qs []uint64
		if len(ti.lst) > 0 {
			m := ti.lst[g.rng.Intn(len(ti.lst))]
			qs = append(qs, m, m^(1<<uint(3+g.rng.Intn(30))))
			// a near miss whose path ends in another revoked nonce's leaf (honest proof with node_aux)
			for try := 0; try < 64; try++ {
				x := ti.lst[g.rng.Intn(len(ti.lst))] ^ (uint64(1) << uint(40+g.rng.Intn(24)))
				if ti.set[x] {
					continue
				}
				if p, _, err := ti.mt.GenerateProof(context.Background(), new(big.Int).SetUint64(x), nil); err == nil && p.NodeAux != nil {
					qs = append(qs, x)
					g.rep.Count("e2e:query-with-node-aux")
					break
				}
			}
		}
		qs = append(qs, g.rng.Uint64())
		for _, nonce := range qs {
			h, st, err := honestAnswer(ti, ctr, ror, g.rng.Intn(2) == 0, nonce)
			if err != nil {
				return err
			}
			all := append([]fault{{name: "", ans: h, nonce: nonce}}, g.faults(h, nonce, ti, 1, false)...)
			for i, f := range all {
				body := f.ans.json()
				code, size, pad := 200, -1, "space"
				if i%9 == 1 {
					code = []int{199, 204, 299, 300, 404, 500}[g.rng.Intn(6)]
				}
				if i%11 == 2 {
					size = []int{limit, limit - 1, limit + 1}[(i/11)%3]
				}
				if f.name == "" {
					// the honest answer also at the three boundary sizes
					for _, sz := range []int{limit - 1, limit, limit + 1} {
						g.e2eCase(&Input{Kind: "e2e", Type: "x-test", Nonce: f.nonce, Tree: &spec, ProofNonce: nonce, Honest: st.String(),
							HTTP: &HTTPIn{Code: 200, BodyKind: "status", Core: string(body), Size: sz, Pad: pad, ReadFailAt: -1}})
					}
				}
				in := &Input{Kind: "e2e", Type: statusTypes[g.rng.Intn(len(statusTypes))], Nonce: f.nonce, Fault: f.name,
					Tree: &spec, ProofNonce: nonce, Honest: st.String(),
					HTTP: &HTTPIn{Code: code, BodyKind: "status", Core: string(body), Size: size, Pad: pad, ReadFailAt: -1}}
				g.e2eCase(in)
			}
		}
	}
	return nil
}

// ---------------------------------------------------------------------------
// coerce stream

type cobs struct {
	err   bool
	isNil bool
	ty    string
	nonce uint64
	panic bool
}

func (c *CoerceIn) value() any {
	switch {
	case c.Shape == "ptr":
		return &verifiable.CredentialStatus{ID: "urn:x", Type: verifiable.CredentialStatusType(c.Type), RevocationNonce: c.Nonce}
	case c.Shape == "nilptr":
		return (*verifiable.CredentialStatus)(nil)
	case c.Shape == "val":
		return verifiable.CredentialStatus{ID: "urn:x", Type: verifiable.CredentialStatusType(c.Type), RevocationNonce: c.Nonce}
	case c.Shape == "obj":
		var m map[string]any
		if err := json.Unmarshal([]byte(c.JSON), &m); err != nil {
			return map[string]any{"type": func() {}}
		}
		return m
	case c.Shape == "obj-unmarshalable":
		return map[string]any{"type": "T", "x": make(chan int)}
	case c.Shape == "obj-typed-nonce":
		return map[string]any{"type": c.Type, "revocationNonce": c.Nonce, "id": "urn:x"}
	case c.Shape == "other:nil":
		return nil
	case c.Shape == "other:string":
		return c.JSON
	case c.Shape == "other:int":
		return 7
	case c.Shape == "other:slice":
		return []any{map[string]any{"type": "T"}}
	case c.Shape == "other:map-string-string":
		return map[string]string{"type": "T"}
	case c.Shape == "other:ptr-to-map":
		m := map[string]any{"type": "T"}
		return &m
	case c.Shape == "other:rhs-struct":
		return verifiable.RHSCredentialStatus{ID: "urn:x", Type: verifiable.CredentialStatusType(c.Type), RevocationNonce: c.Nonce}
	case c.Shape == "other:ptr-ptr":
		p := &verifiable.CredentialStatus{Type: "T"}
		return &p
	case c.Shape == "other:raw-json":
		return json.RawMessage(c.JSON)
	default:
		return struct{}{}
	}
}

func (g *gen) coerceCase(c *CoerceIn) {
	in := &Input{Kind: "coerce", Coerce: c}
	var o cobs
	func() {
		defer func() {
			if r := recover(); r != nil {
				o.panic = true
			}
		}()
		p, err := verifiable.VerifCoerceCredentialStatus(c.value())
		switch {
		case err != nil:
			o.err = true
		case p == nil:
			o.isNil = true
		default:
			o.ty, o.nonce = string(p.Type), p.RevocationNonce
		}
	}()
	// the primitive re-marshalling of a JSON object into a CredentialStatus
	var shape string
	mk := func(ty string, n uint64) string {
		return fmt.Sprintf("(mkrcs %s %s)", g.str(ty), coqgen.Limbs(new(big.Int).SetUint64(n)))
	}
	accept := false // does the property demand a value?
	switch {
	case c.Shape == "ptr":
		shape, accept = "ShPtr (Some "+mk(c.Type, c.Nonce)+")", true
	case c.Shape == "nilptr":
		shape, accept = "ShPtr None", true
	case c.Shape == "val":
		shape, accept = "ShVal "+mk(c.Type, c.Nonce), true
	case strings.HasPrefix(c.Shape, "obj"):
		var cs verifiable.CredentialStatus
		b, err := json.Marshal(c.value())
		if err == nil {
			err = json.Unmarshal(b, &cs)
		}
		if err != nil {
			shape = "ShObj None"
		} else {
			shape = "ShObj (Some " + mk(string(cs.Type), cs.RevocationNonce) + ")"
			accept = cs.Type != ""
		}
	default:
		shape = "ShOther"
	}
	switch {
	case o.panic:
		g.rep.Fail("c09-coerce-panic", "coerceCredentialStatus panicked", in)
	case accept && o.err:
		g.rep.Fail("c09-coerce-shape", "an accepted shape was refused", in)
	case !accept && !o.err:
		g.rep.Fail("c09-coerce-shape", "a value that is none of the three shapes (or has no type) was accepted", in)
	case !o.err && !o.isNil && (c.Shape == "ptr" || c.Shape == "val") && (o.ty != c.Type || o.nonce != c.Nonce):
		g.rep.Fail("c09-coerce-shape", "type / nonce changed by the coercion", in)
	}
	obs := "CoErr"
	switch {
	case o.panic:
		obs = "CoErr (* panic *)"
	case o.isNil:
		obs = "CoNil"
	case !o.err:
		obs = "(CoVal " + mk(o.ty, o.nonce) + ")"
	}
	g.rep.Count("coerce:" + strings.SplitN(c.Shape, ":", 2)[0])
	canon, _ := json.Marshal(c)
	g.rep.Distinct(string(canon))
	if o.panic {
		return
	}
	g.addCase(in, fmt.Sprintf("CCoerce %%d (%s) %s", shape, obs))
}

func (g *gen) coerceStream() {
	for _, ty := range []string{"Iden3commRevocationStatusV1.0", "SparseMerkleTreeProof", "", "x"} {
		for _, n := range []uint64{0, 1, 1 << 53, ^uint64(0), g.rng.Uint64()} {
			g.coerceCase(&CoerceIn{Shape: "ptr", Type: ty, Nonce: n})
			g.coerceCase(&CoerceIn{Shape: "val", Type: ty, Nonce: n})
			g.coerceCase(&CoerceIn{Shape: "obj-typed-nonce", Type: ty, Nonce: n})
			g.coerceCase(&CoerceIn{Shape: "other:rhs-struct", Type: ty, Nonce: n})
		}
	}
	g.coerceCase(&CoerceIn{Shape: "nilptr"})
	objs := []string{`{}`, `{"type":"T"}`, `{"type":""}`, `{"type":null}`, `{"type":5}`, `{"type":"T","revocationNonce":7}`,
		`{"type":"T","revocationNonce":"7"}`, `{"type":"T","revocationNonce":-1}`, `{"type":"T","revocationNonce":1.5}`,
		`{"type":"T","revocationNonce":18446744073709551615}`, `{"type":"T","revocationNonce":18446744073709551616}`,
		`{"type":"T","revocationNonce":9007199254740993}`, `{"type":"T","revocationNonce":1e3}`,
		`{"TYPE":"T","RevocationNonce":3}`, `{"type":"T","id":5}`, `{"type":"T","id":"urn:a","statusIssuer":{"type":"U","revocationNonce":9}}`,
		`{"type":"T","statusIssuer":"x"}`, `{"type":"T","statusIssuer":null}`, `{"type":["T"]}`, `{"type":"T","extra":{"a":[1,2]}}`,
		`{"id":"urn:a","revocationNonce":1}`, `{"Type":"A","type":"B"}`, `{"type":"B","Type":""}`}
	for _, j := range objs {
		g.coerceCase(&CoerceIn{Shape: "obj", JSON: j})
	}
	g.coerceCase(&CoerceIn{Shape: "obj-unmarshalable"})
	for _, s := range []string{"other:nil", "other:string", "other:int", "other:slice", "other:map-string-string",
		"other:ptr-to-map", "other:ptr-ptr", "other:raw-json", "other:struct"} {
		g.coerceCase(&CoerceIn{Shape: s, JSON: `{"type":"T"}`})
	}
}

// ---------------------------------------------------------------------------
// hex stream

func (g *gen) hexCase(s string) {
	in := &Input{Kind: "hex", Hex: s}
	obs := coqHexf(&s)
	z, _, bad := refHex(&s)
	if (obs == "XBad") != bad || (!bad && obs != "(XVal "+coqgen.Limbs(z)+")") {
		g.rep.Fail("c09-hex", "NewHashFromHex disagrees with the reference decoder", in)
	}
	g.rep.Count("hex:" + map[bool]string{true: "bad", false: "ok"}[bad])
	g.rep.Distinct("hex:" + s)
	g.addCase(in, fmt.Sprintf("CHex %%d %s %s", g.str(s), obs))
}

func (g *gen) hexStream() {
	for _, s := range badHex {
		g.hexCase(s)
	}
	for i := 0; i < g.cfg.Pick(24, 200); i++ {
		var z *big.Int
		switch i % 6 {
		case 0:
			z = g.randField()
		case 1:
			z = geQ(g.rng)
		case 2:
			z = big.NewInt(int64(g.rng.Intn(1000)))
		case 3:
			z = new(big.Int).Lsh(big.NewInt(1), uint(g.rng.Intn(256)))
		default:
			b := make([]byte, 32)
			g.rng.Read(b)
			z = new(big.Int).SetBytes(b)
		}
		s := hexOfBig(z)
		switch g.rng.Intn(8) {
		case 0:
			s = "0x" + s
		case 1:
			s = strings.ToUpper(s)
		case 2:
			s = "0x" + strings.ToUpper(s)
		case 3:
			b := []byte(s)
			b[g.rng.Intn(len(b))] = "gxGZ -_"[g.rng.Intn(7)]
			s = string(b)
		case 4:
			s = s[:len(s)-1-g.rng.Intn(3)]
		case 5:
			s = s + "00"[:1+g.rng.Intn(2)]
		}
		g.hexCase(s)
	}
}

// ---------------------------------------------------------------------------

func (g *gen) writeShards() error {
	n := len(g.cases)
	q := coqgen.Limbs(constants.Q)
	for s := 0; s*shardSize < n; s++ {
		lo, hi := s*shardSize, (s+1)*shardSize
		if hi > n {
			hi = n
		}
		f := coqgen.NewFile("From GSP Require Import SMT.Model Verify.Status Verify.StatusRun.")
		name := filepath.Join(g.cfg.OutDir, fmt.Sprintf("cases_C09_%03d.v", s))
		var cs []string
		for i := lo; i < hi; i++ {
			c := g.cases[i]
			body := fmt.Sprintf(c.coq, i)
			// resolve interned-string placeholders
			for {
				a := strings.Index(body, "\x00S")
				if a < 0 {
					break
				}
				b := strings.Index(body[a+2:], "\x00") + a + 2
				raw, _ := hex.DecodeString(body[a+2 : b])
				body = body[:a] + f.Str(string(raw)) + body[b+1:]
			}
			cs = append(cs, "("+body+")")
			g.rep.Case(name, i, c.in)
		}
		f.Add("Definition cases_ : list scase := " + coqgen.List(cs) + ".")
		f.Add("Definition M := Eval vm_compute in smismatches " + q + " cases_.")
		f.Add("Print M.")
		if err := f.Write(name); err != nil {
			return err
		}
		g.rep.Shards = append(g.rep.Shards, name)
	}
	return nil
}

func Run(cfg *common.Config) (*common.Report, error) {
	rep := common.NewReport("C09")
	rep.Correspondence = "Verify.StatusRun.smismatches: validate_credential_status / validate_tree_state / root_from_mtp / http_resolve / coerce_status / hex_decode (Verify/Status.v, StatusRun.v) vs verifiable.ValidateCredentialStatus / validateTreeState / rootFromMerkleTreeProof / IssuerResolver.Resolve / coerceCredentialStatus / merkletree.NewHashFromHex"
	rep.Rule = "validate: real go-merkletree-sql revocation trees (0..300 nonces; dense, sparse, clustered low bits) x queried nonces (members, near-misses sharing 1..39 low bits, non-members, 0, 2^64-1) x {honest answer, every single fault}; registry histories; http: codes x body sizes around the limit x bodies; coerce shapes; hex spellings. distinct = distinct (tree, nonce, fault, registry scenario) / (http input) / (coerce input) / (hex string); every case is non-trivial except the honest answer for the empty tree."
	g := &gen{cfg: cfg, rep: rep, rng: cfg.Rng, trees: map[string]*treeInfo{}}
	if cfg.Replay != "" {
		return replay(cfg, g)
	}
	if err := g.validateStream(); err != nil {
		return nil, err
	}
	if err := g.registryStream(); err != nil {
		return nil, err
	}
	if cfg.Thorough() {
		// thorough tier only, time-boxed: partial collisions of lossy root comparisons
		if err := g.weakCompareStream(); err != nil {
			return nil, err
		}
	}
	if err := g.httpStream(); err != nil {
		return nil, err
	}
	if err := g.e2eStream(); err != nil {
		return nil, err
	}
	g.coerceStream()
	g.hexStream()
	// a few real cases from the other streams
	for i := len(g.cases) - 1; i >= 0 && len(rep.Samples) < 8; i -= 97 {
		rep.Sample(g.cases[i].in)
	}
	rep.Exhaustive = false
	if err := g.writeShards(); err != nil {
		return nil, err
	}
	return rep, nil
}

// replay re-runs exactly the case stored under "input" in a replay file.
func replay(cfg *common.Config, g *gen) (*common.Report, error) {
	var rf struct {
		Input Input `json:"input"`
	}
	if err := common.ReadJSON(cfg.Replay, &rf); err != nil {
		return nil, err
	}
	in := rf.Input
	switch in.Kind {
	case "validate":
		if in.Ans == nil {
			return nil, errors.New("replay: validate case without answer")
		}
		if err := g.validateCase(&in); err != nil {
			return nil, err
		}
	case "http":
		if in.HTTP == nil {
			return nil, errors.New("replay: http case without http input")
		}
		g.httpCase(in.HTTP)
	case "e2e":
		if in.HTTP == nil {
			return nil, errors.New("replay: e2e case without http input")
		}
		g.e2eCase(&in)
	case "coerce":
		g.coerceCase(in.Coerce)
	case "hex":
		g.hexCase(in.Hex)
	default:
		return nil, fmt.Errorf("replay: unknown case kind %q", in.Kind)
	}
	g.rep.Sample(in)
	fmt.Printf("replay: kind=%s fault=%q failures=%d\n", in.Kind, in.Fault, len(g.rep.Failures))
	for _, f := range g.rep.Failures {
		fmt.Printf("replay: %s: %s\n", f.Class, f.What)
	}
	if err := g.writeShards(); err != nil {
		return nil, err
	}
	return g.rep, nil
}
