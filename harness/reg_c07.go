package main

import (
	_ "vharness/c07"
)
