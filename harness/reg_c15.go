package main

import (
	_ "vharness/c15"
)
