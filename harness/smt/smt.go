// Package smt: correspondence between the Coq model coq/SMT/Model.v and the real
// github.com/iden3/go-merkletree-sql/v2 (memory storage), plus implementation-side
// oracles for the tree theorems (coq/SMT/Theory.v, Sound.v).  Registered under the
// pseudo-property id "SMT"; the packages of C02/C08/C09/C13 reuse Exec/Writer.
//
// A case is a Scenario: one fresh tree and a list of operations (Add,
// GenerateProof, RootFromProof+VerifyProof on an explicit, possibly tampered proof).
// Exec runs it on the library and returns what the library did, together with the
// tables of PRIMITIVE Poseidon calls (leaf: Poseidon[k,v,1]; middle: Poseidon[l,r])
// which the harness computes itself with poseidon.Hash from the children of every
// node it finds in the storage / of every step of a proof.
package smt

import (
	"context"
	"errors"
	"fmt"
	"math/big"
	"math/rand"
	"path/filepath"
	"strings"

	"github.com/iden3/go-iden3-crypto/constants"
	"github.com/iden3/go-iden3-crypto/poseidon"
	mt "github.com/iden3/go-merkletree-sql/v2"
	"github.com/iden3/go-merkletree-sql/v2/db/memory"

	"vharness/common"
	"vharness/coqgen"
)

func init() { common.Register("SMT", Run) }

// ---------------------------------------------------------------- scenario

// Op is one call on the library.  Numbers are decimal strings.
type Op struct {
	Op string `json:"op"` // "add" | "gen" | "chk"
	K  string `json:"k"`
	V  string `json:"v,omitempty"`
	// chk only: the proof handed to NewProofFromData, and the root for VerifyProof
	Ex     bool     `json:"existence,omitempty"`
	Sibs   []string `json:"siblings,omitempty"`
	AuxK   string   `json:"aux_key,omitempty"` // "" = no NodeAux
	AuxV   string   `json:"aux_value,omitempty"`
	Root   string   `json:"root,omitempty"`
	Tamper string   `json:"tamper,omitempty"` // how the proof was derived (label only)
}

type Scenario struct {
	ID        int    `json:"id"`
	Stream    string `json:"stream"`
	MaxLevels int    `json:"max_levels"`
	Ops       []Op   `json:"ops"`
}

// Obs is what the library did on one Op.
type Obs struct {
	// add
	AddClass int      // 0 ok, 1 exists, 2 maxlevel, 3 argument not in field, 4 other, 5 panic
	Root     *big.Int // Root() after the call
	// gen
	GenErr  bool
	Ex      bool
	Sibs    []*big.Int
	AuxK    *big.Int // nil = none
	AuxV    *big.Int
	Val     *big.Int
	// chk
	Rfp      int // 0 ok, 1 err, 2 panic
	RfpRoot  *big.Int
	Vp       int // 0 false, 1 true, 2 panic
	PanicMsg string
}

type pair struct{ a, b string }

// Tables of primitive Poseidon calls.
type Tables struct {
	leaf    map[pair]*big.Int
	mid     map[pair]*big.Int
	leafOrd []pair
	midOrd  []pair
}

func newTables() *Tables { return &Tables{leaf: map[pair]*big.Int{}, mid: map[pair]*big.Int{}} }

var one = big.NewInt(1)

func inField(z *big.Int) bool { return z.Sign() >= 0 && z.Cmp(constants.Q) < 0 }

// Leaf records and returns Poseidon[k, v, 1] (nil if the primitive rejects the input).
func (t *Tables) Leaf(k, v *big.Int) *big.Int {
	p := pair{k.String(), v.String()}
	if h, ok := t.leaf[p]; ok {
		return h
	}
	h, err := poseidon.Hash([]*big.Int{k, v, one})
	if err != nil {
		return nil
	}
	t.leaf[p] = h
	t.leafOrd = append(t.leafOrd, p)
	return h
}

// Mid records and returns Poseidon[l, r].
func (t *Tables) Mid(l, r *big.Int) *big.Int {
	p := pair{l.String(), r.String()}
	if h, ok := t.mid[p]; ok {
		return h
	}
	h, err := poseidon.Hash([]*big.Int{l, r})
	if err != nil {
		return nil
	}
	t.mid[p] = h
	t.midOrd = append(t.midOrd, p)
	return h
}

func bi(s string) *big.Int {
	z, ok := new(big.Int).SetString(s, 10)
	if !ok {
		return new(big.Int)
	}
	return z
}

// rawHash builds a Hash from any 0 <= z < 2^256 WITHOUT the field check of
// NewHashFromBigInt (a proof read from bytes can hold such siblings).
func rawHash(z *big.Int) *mt.Hash {
	var h mt.Hash
	b := z.Bytes()
	for i := 0; i < len(b) && i < 32; i++ {
		h[i] = b[len(b)-1-i]
	}
	return &h
}

var two256 = new(big.Int).Lsh(big.NewInt(1), 256)

// norm is what NewHashFromBigInt stores for an accepted number: |z| mod 2^256.
func norm(z *big.Int) *big.Int {
	a := new(big.Int).Abs(z)
	return a.Mod(a, two256)
}

func lowBits(z *big.Int, n int) *big.Int {
	if n <= 0 {
		return new(big.Int)
	}
	m := new(big.Int).Lsh(big.NewInt(1), uint(n))
	m.Sub(m, one)
	return m.And(m, z)
}

// ---------------------------------------------------------------- execution

type Result struct {
	Obs    []Obs
	Tab    *Tables
	Leaves map[string]*big.Int // final content according to the harness' own bookkeeping (plain inputs)
}

type failFn func(class, what string)

// Exec runs a scenario on a fresh tree.  fail receives violations of the
// implementation-side oracles.
func Exec(sc *Scenario, rng *rand.Rand, fail failFn) (*Result, error) {
	ctx := context.Background()
	tree, err := mt.NewMerkleTree(ctx, memory.NewMemoryStorage(), sc.MaxLevels)
	if err != nil {
		return nil, err
	}
	res := &Result{Tab: newTables(), Leaves: map[string]*big.Int{}}
	seen := map[mt.Hash]bool{}
	var order []pair // successful plain insertions, in order
	plainOnly := true

	// visit records the primitive hash of every node reachable from key that was not
	// seen before, recomputed from the node's content, and compares it with the key
	// under which the storage holds the node.
	var visit func(key *mt.Hash) error
	visit = func(key *mt.Hash) error {
		if key.Equals(&mt.HashZero) || seen[*key] {
			return nil
		}
		seen[*key] = true
		n, err := tree.GetNode(ctx, key)
		if err != nil {
			fail("smt-node-missing", fmt.Sprintf("node %s referenced but not stored: %v", key.BigInt(), err))
			return nil
		}
		switch n.Type {
		case mt.NodeTypeLeaf:
			h := res.Tab.Leaf(n.Entry[0].BigInt(), n.Entry[1].BigInt())
			if h == nil || h.Cmp(key.BigInt()) != 0 {
				fail("smt-node-key", fmt.Sprintf("leaf stored under %s hashes to %v", key.BigInt(), h))
			}
		case mt.NodeTypeMiddle:
			h := res.Tab.Mid(n.ChildL.BigInt(), n.ChildR.BigInt())
			if h == nil || h.Cmp(key.BigInt()) != 0 {
				fail("smt-node-key", fmt.Sprintf("middle node stored under %s hashes to %v", key.BigInt(), h))
			}
			if err := visit(n.ChildL); err != nil {
				return err
			}
			return visit(n.ChildR)
		default:
			fail("smt-node-key", fmt.Sprintf("node of type %d stored under %s", n.Type, key.BigInt()))
		}
		return nil
	}

	for i := range sc.Ops {
		op := &sc.Ops[i]
		var o Obs
		switch op.Op {
		case "add":
			k, v := bi(op.K), bi(op.V)
			before := tree.Root().BigInt()
			func() {
				defer func() {
					if r := recover(); r != nil {
						o.AddClass, o.PanicMsg = 5, fmt.Sprint(r)
					}
				}()
				err := tree.Add(ctx, k, v)
				switch {
				case err == nil:
					o.AddClass = 0
				case errors.Is(err, mt.ErrEntryIndexAlreadyExists):
					o.AddClass = 1
				case errors.Is(err, mt.ErrReachedMaxLevel):
					o.AddClass = 2
				case errors.Is(err, mt.ErrNodeKeyAlreadyExists), errors.Is(err, mt.ErrNotFound),
					errors.Is(err, mt.ErrInvalidNodeFound), errors.Is(err, mt.ErrNotWritable):
					o.AddClass = 4
				default:
					// NewHashFromBigInt / poseidon.Hash: no sentinel; "argument not in the field"
					o.AddClass = 3
				}
			}()
			o.Root = tree.Root().BigInt()
			if o.AddClass == 5 {
				fail("smt-panic", "Add panicked: "+o.PanicMsg)
			}
			if o.AddClass == 4 {
				fail("smt-add-storage-error", "Add failed with a storage-level error on an add-only tree")
			}
			if o.AddClass != 0 && o.Root.Cmp(before) != 0 {
				fail("smt-add-root-moved-on-error", fmt.Sprintf("failed Add changed the root %s -> %s", before, o.Root))
			}
			plain := inField(k) && inField(v)
			if plain {
				// independent statement of the outcome (Theory.add_exists_iff / add_maxlevel_iff)
				_, present := res.Leaves[k.String()]
				clash := false
				if !present {
					if sc.MaxLevels == 0 {
						clash = true
					}
					lb := lowBits(k, sc.MaxLevels-1)
					for ks := range res.Leaves {
						if sc.MaxLevels >= 1 && lowBits(bi(ks), sc.MaxLevels-1).Cmp(lb) == 0 {
							clash = true
							break
						}
					}
				}
				want := 0
				if present {
					want = 1
				} else if clash {
					want = 2
				}
				if plainOnly && o.AddClass != want && o.AddClass < 4 {
					cls := [...]string{"smt-add-ok-unexpected", "smt-add-exists", "smt-add-maxlevel"}[want]
					fail(cls, fmt.Sprintf("Add(%s,%s) with maxLevels=%d: class %d, expected %d", k, v, sc.MaxLevels, o.AddClass, want))
				}
				if o.AddClass == 0 {
					res.Leaves[k.String()] = v
					order = append(order, pair{k.String(), v.String()})
					if o.Root.Cmp(before) == 0 {
						fail("smt-add-root-unchanged", "successful Add left the root unchanged")
					}
				}
			} else if o.AddClass == 0 {
				// accepted although not a canonical field element (negative numbers): the
				// bookkeeping below would need the normalised key; oracles are switched off
				plainOnly = false
				res.Leaves[norm(k).String()] = norm(v)
			}
			if o.AddClass == 0 {
				if err := visit(tree.Root()); err != nil {
					return nil, err
				}
			}
		case "gen":
			k := bi(op.K)
			var p *mt.Proof
			func() {
				defer func() {
					if r := recover(); r != nil {
						o.GenErr, o.PanicMsg = true, fmt.Sprint(r)
						fail("smt-panic", "GenerateProof panicked: "+o.PanicMsg)
					}
				}()
				pr, val, err := tree.GenerateProof(ctx, k, nil)
				if err != nil {
					o.GenErr = true
					return
				}
				p = pr
				o.Ex = pr.Existence
				for _, s := range pr.AllSiblings() {
					o.Sibs = append(o.Sibs, s.BigInt())
				}
				if pr.NodeAux != nil {
					o.AuxK, o.AuxV = pr.NodeAux.Key.BigInt(), pr.NodeAux.Value.BigInt()
				}
				o.Val = val
			}()
			if p != nil && inField(k) && plainOnly {
				stored, present := res.Leaves[k.String()]
				if o.Ex != present {
					fail("smt-gen-existence", fmt.Sprintf("GenerateProof(%s): existence=%v but membership=%v", k, o.Ex, present))
				}
				if o.Ex && present && stored.Cmp(o.Val) != 0 {
					fail("smt-gen-value", fmt.Sprintf("GenerateProof(%s) returned value %s, stored %s", k, o.Val, stored))
				}
				if o.AuxK != nil {
					av, ok := res.Leaves[o.AuxK.String()]
					if !ok || av.Cmp(o.AuxV) != 0 || o.AuxK.Cmp(k) == 0 ||
						lowBits(o.AuxK, len(o.Sibs)).Cmp(lowBits(k, len(o.Sibs))) != 0 {
						fail("smt-gen-aux", fmt.Sprintf("GenerateProof(%s): NodeAux (%s,%s) is not a leaf on the path", k, o.AuxK, o.AuxV))
					}
				}
				// completeness: the generated proof verifies against the current root
				v := new(big.Int)
				if o.Ex {
					v = o.Val
				}
				if !mt.VerifyProof(tree.Root(), p, k, v) {
					fail("smt-completeness", fmt.Sprintf("proof generated for %s does not verify against the root", k))
				}
			}
		case "chk":
			k, v, root := bi(op.K), bi(op.V), bi(op.Root)
			sibs := make([]*mt.Hash, len(op.Sibs))
			for j, s := range op.Sibs {
				sibs[j] = rawHash(bi(s))
			}
			var aux *mt.NodeAux
			if op.AuxK != "" {
				aux = &mt.NodeAux{Key: rawHash(bi(op.AuxK)), Value: rawHash(bi(op.AuxV))}
			}
			var p *mt.Proof
			func() {
				defer func() {
					if r := recover(); r != nil {
						o.Rfp, o.Vp, o.PanicMsg = 2, 2, fmt.Sprint(r)
					}
				}()
				p, _ = mt.NewProofFromData(op.Ex, sibs, aux)
			}()
			if p != nil {
				func() {
					defer func() {
						if r := recover(); r != nil {
							o.Rfp, o.PanicMsg = 2, fmt.Sprint(r)
						}
					}()
					r, err := mt.RootFromProof(p, k, v)
					if err != nil {
						o.Rfp = 1
						return
					}
					o.RfpRoot = r.BigInt()
				}()
				func() {
					defer func() {
						if r := recover(); r != nil {
							o.Vp, o.PanicMsg = 2, fmt.Sprint(r)
						}
					}()
					if mt.VerifyProof(rawHash(root), p, k, v) {
						o.Vp = 1
					}
				}()
			}
			// the harness' own recomputation of the chain: records the primitive calls
			own := ownRoot(res.Tab, op, k, v)
			if (o.Rfp == 2) != (len(op.Sibs) > 240 && own.reachedLoop) {
				fail("smt-rfp-panic", fmt.Sprintf("RootFromProof panic=%v with %d siblings (%s)", o.Rfp == 2, len(op.Sibs), o.PanicMsg))
			}
			if o.Rfp != 2 {
				if (o.Rfp == 0) != (own.root != nil) || (own.root != nil && own.root.Cmp(o.RfpRoot) != 0) {
					fail("smt-rfp-recompute", fmt.Sprintf("RootFromProof gave %v (class %d), recomputation from primitives gave %v", o.RfpRoot, o.Rfp, own.root))
				}
				wantVp := 0
				if o.Rfp == 0 && o.RfpRoot.Cmp(root) == 0 {
					wantVp = 1
				}
				if o.Vp != wantVp {
					fail("smt-verify-vs-root", fmt.Sprintf("VerifyProof=%d but RootFromProof class %d value %v, root %s", o.Vp, o.Rfp, o.RfpRoot, root))
				}
			}
			// soundness against the CURRENT tree (Sound.soundness_ex / soundness_nonex)
			if o.Vp == 1 && plainOnly && inField(k) && inField(v) && root.Cmp(tree.Root().BigInt()) == 0 {
				stored, present := res.Leaves[k.String()]
				if op.Ex && !(present && stored.Cmp(v) == 0) {
					fail("smt-soundness-existence", fmt.Sprintf("existence proof (%s) accepted for (%s,%s), which is not a leaf", op.Tamper, k, v))
				}
				if !op.Ex && present {
					fail("smt-soundness-nonexistence", fmt.Sprintf("non-existence proof (%s) accepted for the member key %s", op.Tamper, k))
				}
			}
		default:
			return nil, fmt.Errorf("unknown op %q", op.Op)
		}
		res.Obs = append(res.Obs, o)
	}

	// insertion-order independence (Theory.add_all_perm): the same leaves inserted in
	// another order into a fresh tree give the same root
	if plainOnly && len(order) > 1 {
		perm := rng.Perm(len(order))
		t2, err := mt.NewMerkleTree(ctx, memory.NewMemoryStorage(), sc.MaxLevels)
		if err != nil {
			return nil, err
		}
		okAll := true
		for _, j := range perm {
			if err := t2.Add(ctx, bi(order[j].a), bi(order[j].b)); err != nil {
				okAll = false
				fail("smt-order-dependence", fmt.Sprintf("re-inserting the leaves in another order failed: %v", err))
				break
			}
		}
		if okAll && t2.Root().BigInt().Cmp(tree.Root().BigInt()) != 0 {
			fail("smt-order-dependence", "the same leaves inserted in another order give another root")
		}
	}
	return res, nil
}

type ownRes struct {
	root        *big.Int // nil = an error is expected
	reachedLoop bool     // the start value was computed without error
}

// ownRoot recomputes RootFromProof from primitive Poseidon calls, recording them.
func ownRoot(tab *Tables, op *Op, k, v *big.Int) ownRes {
	if k.Cmp(constants.Q) >= 0 || v.Cmp(constants.Q) >= 0 {
		return ownRes{}
	}
	kn, vn := norm(k), norm(v)
	var mid *big.Int
	switch {
	case op.Ex:
		if !inField(kn) || !inField(vn) {
			return ownRes{}
		}
		mid = tab.Leaf(kn, vn)
	case op.AuxK == "":
		mid = new(big.Int)
	default:
		ak, av := bi(op.AuxK), bi(op.AuxV)
		if ak.Cmp(kn) == 0 || !inField(ak) || !inField(av) {
			return ownRes{}
		}
		mid = tab.Leaf(ak, av)
	}
	if mid == nil {
		return ownRes{}
	}
	if len(op.Sibs) > 240 {
		return ownRes{reachedLoop: true}
	}
	for lvl := len(op.Sibs) - 1; lvl >= 0; lvl-- {
		s := bi(op.Sibs[lvl])
		if !inField(s) {
			return ownRes{reachedLoop: true}
		}
		if kn.Bit(lvl) == 1 {
			mid = tab.Mid(s, mid)
		} else {
			mid = tab.Mid(mid, s)
		}
		if mid == nil {
			return ownRes{reachedLoop: true}
		}
	}
	return ownRes{root: mid, reachedLoop: true}
}

// ---------------------------------------------------------------- Coq output

// Writer renders scenarios into a case file with interned numbers.
type Writer struct {
	nums    map[string]string
	numDefs []string
	cases   []string
}

func NewWriter() *Writer { return &Writer{nums: map[string]string{}} }

// Num interns |z| as a limb list definition and returns its name.
func (w *Writer) Num(z *big.Int) string {
	if z.Sign() == 0 {
		return "[]"
	}
	a := new(big.Int).Abs(z)
	if a.BitLen() <= 30 {
		return coqgen.Limbs(a)
	}
	s := a.String()
	if n, ok := w.nums[s]; ok {
		return n
	}
	n := fmt.Sprintf("n%d", len(w.nums))
	w.nums[s] = n
	w.numDefs = append(w.numDefs, fmt.Sprintf("Definition %s : limbs := %s.", n, coqgen.Limbs(a)))
	return n
}

func (w *Writer) SNum(z *big.Int) string {
	if z.Sign() < 0 {
		return "(true," + w.Num(z) + ")"
	}
	return "(false," + w.Num(z) + ")"
}

func (w *Writer) numList(zs []*big.Int) string {
	parts := make([]string, len(zs))
	for i, z := range zs {
		parts[i] = w.Num(z)
	}
	return "[" + strings.Join(parts, ";") + "]"
}

func (w *Writer) aux(k, v *big.Int) string {
	if k == nil {
		return "None"
	}
	return "(Some (" + w.Num(k) + "," + w.Num(v) + "))"
}

func (w *Writer) table(m map[pair]*big.Int, ord []pair) string {
	parts := make([]string, 0, len(ord))
	for _, p := range ord {
		parts = append(parts, "("+w.Num(bi(p.a))+","+w.Num(bi(p.b))+","+w.Num(m[p])+")")
	}
	return "[" + strings.Join(parts, ";\n   ") + "]"
}

// OpTerm renders one operation with its observation as a `raw_op`.
func (w *Writer) OpTerm(op *Op, o *Obs) string {
	switch op.Op {
	case "add":
		cls := o.AddClass
		if cls > 4 {
			cls = 4
		}
		return fmt.Sprintf("RAdd %s %s %d %s", w.SNum(bi(op.K)), w.SNum(bi(op.V)), cls, w.Num(o.Root))
	case "gen":
		if o.GenErr {
			return "RGenErr " + w.SNum(bi(op.K))
		}
		return fmt.Sprintf("RGen %s %s %s %s %s", w.SNum(bi(op.K)), coqgen.Bool(o.Ex), w.numList(o.Sibs), w.aux(o.AuxK, o.AuxV), w.Num(o.Val))
	default:
		sibs := make([]*big.Int, len(op.Sibs))
		for i, s := range op.Sibs {
			sibs[i] = bi(s)
		}
		var ak, av *big.Int
		if op.AuxK != "" {
			ak, av = bi(op.AuxK), bi(op.AuxV)
		}
		rfp := "RErr"
		switch o.Rfp {
		case 0:
			rfp = "(ROk " + w.Num(o.RfpRoot) + ")"
		case 2:
			rfp = "RPanic"
		}
		return fmt.Sprintf("RChk %s %s %s %s %s %s %s %d", coqgen.Bool(op.Ex), w.numList(sibs), w.aux(ak, av),
			w.SNum(bi(op.K)), w.SNum(bi(op.V)), w.Num(bi(op.Root)), rfp, o.Vp)
	}
}

// Scenario renders `mksc id maxlev thl thm ops`.
func (w *Writer) Scenario(sc *Scenario, r *Result) string {
	ops := make([]string, len(sc.Ops))
	for i := range sc.Ops {
		ops[i] = w.OpTerm(&sc.Ops[i], &r.Obs[i])
	}
	return fmt.Sprintf("mksc %d %d\n  %s\n  %s\n  [%s]", sc.ID, sc.MaxLevels,
		w.table(r.Tab.leaf, r.Tab.leafOrd), w.table(r.Tab.mid, r.Tab.midOrd), strings.Join(ops, ";\n   "))
}

func (w *Writer) AddCase(sc *Scenario, r *Result) { w.cases = append(w.cases, w.Scenario(sc, r)) }

func (w *Writer) Write(path string) error {
	f := coqgen.NewFile("From GSP Require Import SMT.Model SMT.Run.")
	f.Add(w.numDefs...)
	f.Add("Definition q_ : limbs := " + coqgen.Limbs(constants.Q) + ".")
	f.Add("Definition cases_ : list scase := " + coqgen.List(w.cases) + ".")
	f.Add("Definition M := Eval vm_compute in smismatches q_ cases_.")
	f.Add("Print M.")
	return f.Write(path)
}

// ---------------------------------------------------------------- generation

type gen struct {
	rng  *rand.Rand
	sc   *Scenario
	tree *mt.MerkleTree // the generator's own tree, only used to derive follow-up operations
	keys []*big.Int     // keys inserted successfully
	vals map[string]*big.Int
}

func newGen(rng *rand.Rand, id int, stream string, maxLevels int) *gen {
	tree, _ := mt.NewMerkleTree(context.Background(), memory.NewMemoryStorage(), maxLevels)
	return &gen{rng: rng, tree: tree, vals: map[string]*big.Int{},
		sc: &Scenario{ID: id, Stream: stream, MaxLevels: maxLevels}}
}

func (g *gen) field() *big.Int { return new(big.Int).Rand(g.rng, constants.Q) }

func (g *gen) value() *big.Int {
	switch g.rng.Intn(6) {
	case 0:
		return new(big.Int)
	case 1:
		return big.NewInt(int64(g.rng.Intn(1000)))
	case 2:
		return new(big.Int).Sub(constants.Q, one)
	}
	return g.field()
}

func (g *gen) add(k, v *big.Int) bool {
	g.sc.Ops = append(g.sc.Ops, Op{Op: "add", K: k.String(), V: v.String()})
	ok := false
	func() {
		defer func() { _ = recover() }()
		ok = g.tree.Add(context.Background(), k, v) == nil
	}()
	if ok && inField(k) && inField(v) {
		g.keys = append(g.keys, k)
		g.vals[k.String()] = v
	}
	return ok
}

// sharing returns a field element that agrees with e on exactly the s low bits
// (s < 250) and is random above.
func (g *gen) sharing(e *big.Int, s int) *big.Int {
	for {
		r := new(big.Int).Rand(g.rng, new(big.Int).Lsh(big.NewInt(1), 253))
		r.Rsh(r, uint(s+1)).Lsh(r, uint(s+1))
		r.Or(r, lowBits(e, s))
		if e.Bit(s) == 0 {
			r.SetBit(r, s, 1)
		}
		if r.Cmp(constants.Q) < 0 {
			return r
		}
	}
}

// sharingAtLeast agrees with e on the s low bits, differs somewhere above.
func (g *gen) sharingAtLeast(e *big.Int, s int) *big.Int {
	return g.sharing(e, s+g.rng.Intn(20))
}

func strs(zs []*big.Int) []string {
	out := make([]string, len(zs))
	for i, z := range zs {
		out[i] = z.String()
	}
	return out
}

func (g *gen) chk(tamper string, ex bool, sibs []*big.Int, auxK, auxV *big.Int, k, v, root *big.Int) {
	op := Op{Op: "chk", K: k.String(), V: v.String(), Ex: ex, Sibs: strs(sibs), Root: root.String(), Tamper: tamper}
	if auxK != nil {
		op.AuxK, op.AuxV = auxK.String(), auxV.String()
	}
	g.sc.Ops = append(g.sc.Ops, op)
}

func cloneInts(zs []*big.Int) []*big.Int {
	out := make([]*big.Int, len(zs))
	copy(out, zs)
	return out
}

// query emits GenerateProof for k followed by the genuine check and nt tampered ones.
func (g *gen) query(k *big.Int, nt int) {
	g.sc.Ops = append(g.sc.Ops, Op{Op: "gen", K: k.String()})
	if !inField(k) {
		return
	}
	p, val, err := g.tree.GenerateProof(context.Background(), k, nil)
	if err != nil {
		return
	}
	root := g.tree.Root().BigInt()
	var sibs []*big.Int
	for _, s := range p.AllSiblings() {
		sibs = append(sibs, s.BigInt())
	}
	var ak, av *big.Int
	if p.NodeAux != nil {
		ak, av = p.NodeAux.Key.BigInt(), p.NodeAux.Value.BigInt()
	}
	ex := p.Existence
	v := new(big.Int)
	if ex {
		v = val
	}
	g.chk("genuine", ex, sibs, ak, av, k, v, root)
	rng := g.rng
	for i := 0; i < nt; i++ {
		switch rng.Intn(17) {
		case 0: // a non-existence proof does not look at v
			g.chk("any-value", ex, sibs, ak, av, k, g.value(), root)
		case 1: // flipped existence flag, keeping the rest
			g.chk("flip-existence", !ex, sibs, ak, av, k, v, root)
		case 2: // flipped flag with the most plausible companion data
			if ex {
				g.chk("flip-existence-to-empty", false, sibs, nil, nil, k, v, root)
			} else if ak != nil {
				g.chk("flip-existence-aux-value", true, sibs, nil, nil, k, av, root)
			} else {
				g.chk("flip-existence-value", true, sibs, nil, nil, k, g.value(), root)
			}
		case 3, 4: // one sibling changed
			if len(sibs) == 0 {
				g.chk("sibling-added", ex, []*big.Int{g.field()}, ak, av, k, v, root)
				break
			}
			s2 := cloneInts(sibs)
			j := rng.Intn(len(s2))
			switch {
			case s2[j].Sign() != 0 && rng.Intn(3) == 0:
				s2[j] = new(big.Int)
			case rng.Intn(4) == 0:
				s2[j] = new(big.Int).Xor(s2[j], one)
			default:
				s2[j] = g.field()
			}
			g.chk("sibling-changed", ex, s2, ak, av, k, v, root)
		case 5: // one more level
			s2 := append(cloneInts(sibs), new(big.Int))
			if rng.Intn(2) == 0 {
				s2[len(s2)-1] = g.field()
			}
			g.chk("sibling-appended", ex, s2, ak, av, k, v, root)
		case 6: // one level less
			if len(sibs) > 0 {
				g.chk("sibling-dropped", ex, sibs[:len(sibs)-1], ak, av, k, v, root)
			} else {
				g.chk("zero-root", ex, sibs, ak, av, k, v, new(big.Int))
			}
		case 7: // NodeAux changed
			switch {
			case ak != nil && rng.Intn(3) == 0:
				g.chk("aux-removed", ex, sibs, nil, nil, k, v, root)
			case ak != nil && rng.Intn(2) == 0:
				g.chk("aux-value-changed", ex, sibs, ak, g.value(), k, v, root)
			case ak != nil:
				g.chk("aux-key-changed", ex, sibs, g.sharing(ak, len(sibs)+rng.Intn(8)), av, k, v, root)
			default:
				g.chk("aux-added", ex, sibs, g.sharing(k, len(sibs)+rng.Intn(8)), g.value(), k, v, root)
			}
		case 8: // k = NodeAux.Key: RootFromProof must refuse
			if ak != nil {
				g.chk("key-is-aux-key", false, sibs, ak, av, ak, av, root)
			} else {
				g.chk("aux-key-is-key", false, sibs, k, g.value(), k, v, root)
			}
		case 9: // existence proof with another value
			v2 := g.value()
			if ex && v2.Cmp(v) == 0 {
				v2 = new(big.Int).Add(v2, one)
				v2.Mod(v2, constants.Q)
			}
			g.chk("value-changed", ex, sibs, ak, av, k, v2, root)
		case 10: // another key on the same path prefix / anywhere
			var k2 *big.Int
			if rng.Intn(3) == 0 {
				k2 = g.field()
			} else {
				k2 = g.sharing(k, len(sibs)+rng.Intn(10))
			}
			g.chk("key-changed", ex, sibs, ak, av, k2, v, root)
		case 11: // another root
			r2 := g.field()
			if rng.Intn(3) == 0 {
				r2 = new(big.Int)
			}
			g.chk("root-changed", ex, sibs, ak, av, k, v, r2)
		case 12: // an existence proof ignores NodeAux
			if ex {
				g.chk("existence-with-aux", true, sibs, g.field(), g.value(), k, v, root)
			} else {
				g.chk("any-value", ex, sibs, ak, av, k, g.value(), root)
			}
		case 13: // sibling outside the field
			if len(sibs) > 0 {
				s2 := cloneInts(sibs)
				j := rng.Intn(len(s2))
				s2[j] = new(big.Int).Add(constants.Q, big.NewInt(int64(rng.Intn(3))))
				if rng.Intn(2) == 0 {
					s2[j] = new(big.Int).Sub(two256, one)
				}
				g.chk("sibling-out-of-field", ex, s2, ak, av, k, v, root)
			}
		case 14: // NodeAux outside the field
			if !ex {
				big1 := new(big.Int).Add(constants.Q, big.NewInt(int64(1+rng.Intn(5))))
				if rng.Intn(2) == 0 {
					g.chk("aux-out-of-field", false, sibs, g.sharing(k, len(sibs)), big1, k, v, root)
				} else {
					g.chk("aux-out-of-field", false, sibs, big1, g.value(), k, v, root)
				}
			}
		case 15: // arguments outside the field / negative
			switch rng.Intn(4) {
			case 0:
				g.chk("key-out-of-field", ex, sibs, ak, av, new(big.Int).Add(k, constants.Q), v, root)
			case 1:
				g.chk("value-out-of-field", ex, sibs, ak, av, k, new(big.Int).Add(v, constants.Q), root)
			case 2:
				g.chk("key-negated", ex, sibs, ak, av, new(big.Int).Neg(k), v, root)
			default:
				g.chk("value-negated", ex, sibs, ak, av, k, new(big.Int).Neg(v), root)
			}
		case 16: // swapped pair of siblings
			if len(sibs) >= 2 {
				s2 := cloneInts(sibs)
				a, b := rng.Intn(len(s2)), rng.Intn(len(s2))
				s2[a], s2[b] = s2[b], s2[a]
				g.chk("siblings-swapped", ex, s2, ak, av, k, v, root)
			}
		}
	}
}

// queries issues proofs for some member keys, near misses and random keys.
func (g *gen) queries(nm, nn, nt int) {
	rng := g.rng
	for i := 0; i < nm && len(g.keys) > 0; i++ {
		g.query(g.keys[rng.Intn(len(g.keys))], nt)
	}
	for i := 0; i < nn; i++ {
		var k *big.Int
		switch {
		case len(g.keys) > 0 && rng.Intn(3) > 0:
			e := g.keys[rng.Intn(len(g.keys))]
			k = g.sharing(e, rng.Intn(g.sc.MaxLevels+6))
		default:
			k = g.field()
		}
		g.query(k, nt)
	}
}

func (g *gen) uniform(n int) {
	for i := 0; i < n; i++ {
		g.add(g.field(), g.value())
	}
}

// deep pushes: new keys share 1..maxLevels-2 low bits with an existing key;
// clashes: they share at least maxLevels-1 low bits.
func (g *gen) deep(n int, clashEvery int) {
	ml := g.sc.MaxLevels
	if len(g.keys) == 0 {
		g.add(g.field(), g.value())
	}
	for i := 0; i < n && len(g.keys) > 0; i++ {
		e := g.keys[g.rng.Intn(len(g.keys))]
		switch {
		case clashEvery > 0 && i%clashEvery == clashEvery-1:
			s := ml - 1
			if s < 0 {
				s = 0
			}
			if g.rng.Intn(2) == 0 {
				g.add(g.sharing(e, s), g.value()) // exactly the boundary
			} else {
				g.add(g.sharingAtLeast(e, s), g.value())
			}
		case ml >= 3 && g.rng.Intn(4) == 0:
			g.add(g.sharing(e, ml-2), g.value()) // deepest possible leaf pair (level maxLevels-1)
		case ml >= 3:
			g.add(g.sharing(e, 1+g.rng.Intn(ml-2)), g.value())
		default:
			g.add(g.field(), g.value())
		}
	}
}

func (g *gen) dups(n int) {
	for i := 0; i < n && len(g.keys) > 0; i++ {
		k := g.keys[g.rng.Intn(len(g.keys))]
		v := g.vals[k.String()]
		if g.rng.Intn(2) == 0 {
			v = g.value()
		}
		g.add(k, v)
	}
}

func edgeNumbers(rng *rand.Rand) []*big.Int {
	q := constants.Q
	return []*big.Int{
		new(big.Int).Set(q), new(big.Int).Sub(q, one), new(big.Int).Add(q, one),
		big.NewInt(-1), big.NewInt(-5), big.NewInt(5), new(big.Int),
		new(big.Int).Neg(new(big.Int).Add(q, one)), new(big.Int).Neg(q), new(big.Int).Neg(new(big.Int).Sub(q, one)),
		new(big.Int).Neg(new(big.Int).Add(two256, big.NewInt(9))), new(big.Int).Set(two256),
		new(big.Int).Sub(two256, one), new(big.Int).Neg(new(big.Int).Add(two256, q)),
		new(big.Int).Neg(new(big.Int).Rand(rng, q)),
	}
}

func (g *gen) edges(n int) {
	e := edgeNumbers(g.rng)
	for i := 0; i < n; i++ {
		k, v := e[g.rng.Intn(len(e))], g.value()
		switch g.rng.Intn(3) {
		case 0:
			v = e[g.rng.Intn(len(e))]
		case 1:
			k, v = g.field(), e[g.rng.Intn(len(e))]
		}
		g.add(k, v)
		if g.rng.Intn(2) == 0 {
			g.sc.Ops = append(g.sc.Ops, Op{Op: "gen", K: e[g.rng.Intn(len(e))].String()})
		}
	}
}

func zeros(n int) []*big.Int {
	out := make([]*big.Int, n)
	for i := range out {
		out[i] = new(big.Int)
	}
	return out
}

// long proofs: the 240-sibling limit of Proof.notempties
func (g *gen) longProofs() {
	k, v := g.field(), g.value()
	root := g.tree.Root().BigInt()
	for _, n := range []int{239, 240, 241, 250} {
		g.chk("long-zero-siblings", true, zeros(n), nil, nil, k, v, root)
	}
	g.chk("long-zero-siblings", false, zeros(241), nil, nil, k, v, root)
	s := zeros(241)
	s[3] = g.field()
	g.chk("long-siblings", false, s, g.sharing(k, 5), g.value(), k, v, root)
	// errors that come before the out-of-range access
	g.chk("long-key-is-aux-key", false, zeros(260), k, v, k, v, root)
	g.chk("long-key-out-of-field", true, zeros(260), nil, nil, new(big.Int).Set(constants.Q), v, root)
}

// build makes the scenario with number id of the given stream.
func build(rng *rand.Rand, id int, stream string, thorough bool) *Scenario {
	pick := func(q, t int) int {
		if thorough {
			return t
		}
		return q
	}
	switch stream {
	case "uniform":
		g := newGen(rng, id, stream, 40)
		if id%7 == 0 {
			g.queries(0, 2, 3) // empty tree
		}
		n := 1 + rng.Intn(pick(24, 48))
		first := rng.Intn(n + 1)
		g.uniform(first)
		g.queries(2, 2, 3)
		g.uniform(n - first)
		g.dups(1 + rng.Intn(2))
		g.queries(pick(3, 6), pick(3, 6), pick(4, 6))
		return g.sc
	case "deep":
		g := newGen(rng, id, stream, 40)
		g.uniform(1 + rng.Intn(3))
		g.deep(2+rng.Intn(pick(8, 14)), 0)
		g.queries(2, 2, 3)
		g.deep(1+rng.Intn(4), 0)
		g.queries(pick(3, 5), pick(3, 5), pick(4, 6))
		return g.sc
	case "maxlevel":
		g := newGen(rng, id, stream, 40)
		g.uniform(1 + rng.Intn(3))
		g.deep(3+rng.Intn(pick(8, 14)), 2+rng.Intn(2))
		g.dups(1 + rng.Intn(3))
		g.queries(pick(3, 5), pick(3, 5), pick(3, 5))
		return g.sc
	case "small-levels":
		ml := []int{0, 1, 2, 3, 4, 5, 8, 12}[(id/8)%8] // every quick run covers maxLevels 0..5
		g := newGen(rng, id, stream, ml)
		n := 2 + rng.Intn(pick(10, 20))
		for i := 0; i < n; i++ {
			var k *big.Int
			switch rng.Intn(3) {
			case 0:
				k = big.NewInt(int64(rng.Intn(1 << uint(min(ml+2, 10)))))
			case 1:
				k = g.field()
			default:
				if len(g.keys) > 0 {
					k = g.sharing(g.keys[rng.Intn(len(g.keys))], rng.Intn(ml+3))
				} else {
					k = g.field()
				}
			}
			g.add(k, g.value())
			if rng.Intn(4) == 0 {
				g.queries(1, 1, 2)
			}
		}
		g.queries(2, 3, 3)
		return g.sc
	case "edge":
		g := newGen(rng, id, stream, 40)
		g.uniform(rng.Intn(4))
		g.edges(4 + rng.Intn(6))
		g.queries(2, 2, 4)
		return g.sc
	default: // "long"
		g := newGen(rng, id, "long", 40)
		g.uniform(2)
		g.longProofs()
		return g.sc
	}
}

func min(a, b int) int {
	if a < b {
		return a
	}
	return b
}

// ---------------------------------------------------------------- driver

const perShard = 8

func canon(sc *Scenario) string {
	var sb strings.Builder
	fmt.Fprintf(&sb, "%d|", sc.MaxLevels)
	for _, o := range sc.Ops {
		sb.WriteString(o.Op + ":" + o.K + ":" + o.V + ":" + o.Tamper + ":" + strings.Join(o.Sibs, ",") + ":" + o.AuxK + ":" + o.Root + ";")
	}
	return sb.String()
}

func runScenarios(cfg *common.Config, rep *common.Report, scs []*Scenario) error {
	var w *Writer
	var name string
	nshard := 0
	flush := func() error {
		if w == nil || len(w.cases) == 0 {
			return nil
		}
		if err := w.Write(name); err != nil {
			return err
		}
		rep.Shards = append(rep.Shards, name)
		w = nil
		return nil
	}
	for i, sc := range scs {
		if w == nil {
			w = NewWriter()
			name = filepath.Join(cfg.OutDir, fmt.Sprintf("cases_SMT_%03d.v", nshard))
			nshard++
		}
		sc := sc
		fail := func(class, what string) { rep.Fail(class, what, sc) }
		res, err := Exec(sc, cfg.Rng, fail)
		if err != nil {
			return err
		}
		w.AddCase(sc, res)
		rep.Case(name, sc.ID, sc)
		rep.Distinct(canon(sc))
		for j, op := range sc.Ops {
			o := res.Obs[j]
			switch op.Op {
			case "add":
				rep.Evaluations++
				rep.Count("add:" + [...]string{"ok", "exists", "maxlevel", "not-in-field", "other", "panic"}[o.AddClass])
			case "gen":
				rep.Evaluations++
				switch {
				case o.GenErr:
					rep.Count("gen:error")
				case o.Ex:
					rep.Count("gen:existence")
				case o.AuxK != nil:
					rep.Count("gen:non-existence-aux")
				default:
					rep.Count("gen:non-existence-empty")
				}
			default:
				rep.Evaluations += 2 // RootFromProof and VerifyProof
				rep.Count("chk:" + op.Tamper + ":" + [...]string{"rejected", "accepted", "panic"}[o.Vp])
			}
		}
		rep.Count("scenario:" + sc.Stream)
		if i%9 == 0 {
			rep.Sample(map[string]any{"stream": sc.Stream, "max_levels": sc.MaxLevels, "ops": len(sc.Ops),
				"leaves": len(res.Leaves), "leaf_hashes": len(res.Tab.leaf), "middle_hashes": len(res.Tab.mid),
				"first_op": sc.Ops[0]})
		}
		if len(w.cases) >= perShard {
			if err := flush(); err != nil {
				return err
			}
		}
	}
	return flush()
}

func Run(cfg *common.Config) (*common.Report, error) {
	rep := common.NewReport("SMT")
	rep.Correspondence = "SMT.Run.smismatches: mt_add / mt_gen / mt_root_from_proof / mt_verify_proof (coq/SMT/Model.v, hashes = recorded primitive Poseidon calls) vs MerkleTree.Add+Root / GenerateProof / RootFromProof / VerifyProof of go-merkletree-sql v2.0.4 on memory storage"
	rep.Rule = "a case is a scenario: one fresh tree and a sequence of Add / GenerateProof / (RootFromProof, VerifyProof on an explicit genuine or tampered proof); streams: uniform field elements, keys sharing 1..maxLevels-2 low bits (deep pushes), keys sharing >= maxLevels-1 low bits (ErrReachedMaxLevel), duplicates, maxLevels in {0..12}, numbers outside the field / negative, 239..260 siblings. evaluations = library calls; distinct = distinct scenarios; every scenario is non-trivial (at least one Add and one proof)."
	if cfg.Replay != "" {
		var rf struct {
			Input Scenario `json:"input"`
		}
		if err := common.ReadJSON(cfg.Replay, &rf); err != nil {
			return nil, err
		}
		if len(rf.Input.Ops) == 0 {
			return nil, errors.New("replay file holds no scenario under \"input\"")
		}
		return rep, runScenarios(cfg, rep, []*Scenario{&rf.Input})
	}
	streams := []string{"uniform", "deep", "maxlevel", "uniform", "deep", "maxlevel", "small-levels", "edge"}
	n := cfg.Pick(48, 640)
	var scs []*Scenario
	for i := 0; i < n; i++ {
		scs = append(scs, build(cfg.Rng, i, streams[i%len(streams)], cfg.Thorough()))
	}
	scs = append(scs, build(cfg.Rng, n, "long", cfg.Thorough()))
	if err := runScenarios(cfg, rep, scs); err != nil {
		return nil, err
	}
	rep.Notes = append(rep.Notes,
		"tables hold only primitive Poseidon calls computed by the harness (poseidon.Hash of the children of every stored node and of every step of every checked proof); the storage key of every node is compared with that recomputation (smt-node-key)",
		"implementation-side oracles: exact error class of Add from the key set (add_exists_iff, add_maxlevel_iff), root unchanged on error, GenerateProof existence = membership, NodeAux is a leaf on the path, completeness, RootFromProof = recomputation, VerifyProof = (RootFromProof = root), soundness of every accepted proof against the current key set, insertion-order independence of the root")
	return rep, nil
}
