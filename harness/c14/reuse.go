package c14

// Implementation-side oracles beyond a single fresh decode:
//
//   - reuse streams: encoding/json decodes INTO the value it is given (it merges
//     structs and maps and re-uses slice elements), so the hand-written codecs have to
//     reset what they own.  The Coq theorems are stated for decoding into a fresh
//     (zero) value; these streams check that for the hand-written codecs a re-used
//     target gives what a fresh one gives: document A then document B into the same
//     variable, and one document with a duplicated member.
//   - purity stream: Merklize / ToCoreClaim / VerifyProof must leave the credential
//     value unchanged, whether they succeed or fail (loader going offline at the k-th
//     fetch, resolver errors): otherwise "encode, decode, verify again" is not about
//     the credential that was decoded.

import (
	"context"
	"encoding/json"
	"errors"
	"fmt"
	"reflect"
	"strings"
	"sync/atomic"

	"github.com/iden3/go-iden3-core/v2/w3c"
	"github.com/iden3/go-schema-processor/v2/merklize"
	"github.com/iden3/go-schema-processor/v2/verifiable"
	"github.com/piprate/json-gold/ld"

	"vharness/common"
)

// offlineAfter serves documents until the k-th fetch, then fails every fetch.
type offlineAfter struct {
	inner ld.DocumentLoader
	k     int32
	n     int32
}

func (f *offlineAfter) LoadDocument(u string) (*ld.RemoteDocument, error) {
	if atomic.AddInt32(&f.n, 1) >= f.k {
		return nil, ld.NewJsonLdError(ld.LoadingDocumentFailed, fmt.Errorf("c14: network is down (fetch %d of %s)", f.n, u))
	}
	return f.inner.LoadDocument(u)
}

type docResolver struct{ doc verifiable.DIDDocument }

func (r docResolver) Resolve(context.Context, *w3c.DID) (verifiable.DIDDocument, error) {
	return r.doc, nil
}

func encOf(v any) string {
	b, err := json.Marshal(v)
	if err != nil {
		return "marshal error: " + err.Error()
	}
	return string(b)
}

// purityCase: every call below must leave *vc deep-equal to a fresh decode of the same document.
func (d *drv) purityCase(in *Input, rep *common.Report) (posts []*Node) {
	raw := []byte(in.Doc)
	var ref verifiable.W3CCredential
	if json.Unmarshal(raw, &ref) != nil {
		return nil
	}
	seenPost := map[string]bool{}
	refEnc := encOf(&ref)
	fresh := func() *verifiable.W3CCredential {
		var vc verifiable.W3CCredential
		_ = json.Unmarshal(raw, &vc)
		return &vc
	}
	check := func(vc *verifiable.W3CCredential, class, op, outcome string) {
		rep.Evaluations++
		rep.Count("purity:" + class)
		// what the credential encodes to after the call goes to the Coq model as well
		if e := encOf(vc); !seenPost[e] && len(posts) < 4 {
			seenPost[e] = true
			if n, err := Parse([]byte(e)); err == nil {
				posts = append(posts, n)
			}
		}
		if deepEq(reflect.ValueOf(vc).Elem(), reflect.ValueOf(&ref).Elem()) && encOf(vc) == refEnc {
			return
		}
		var k []string
		for _, p := range vc.Proof {
			k = append(k, typeName(p))
		}
		rep.Fail(class, fmt.Sprintf("%s (%s) changed the credential: proofs %v afterwards, %d before; re-encoding %s", op, outcome,
			k, len(ref.Proof), map[bool]string{true: "unchanged", false: "differs"}[encOf(vc) == refEnc]), in)
	}
	outcome := func(err error) string {
		if err == nil {
			return "ok"
		}
		s := err.Error()
		if len(s) > 90 {
			s = s[:90]
		}
		return "error: " + s
	}
	loaders := []struct {
		name string
		mk   func() ld.DocumentLoader
	}{
		{"online", func() ld.DocumentLoader { return d.loader }},
		{"offline-from-fetch-1", func() ld.DocumentLoader { return &offlineAfter{inner: d.loader, k: 1} }},
		{"offline-from-fetch-2", func() ld.DocumentLoader { return &offlineAfter{inner: d.loader, k: 2} }},
		{"offline-from-fetch-3", func() ld.DocumentLoader { return &offlineAfter{inner: d.loader, k: 3} }},
	}
	for _, l := range loaders {
		opts := []merklize.MerklizeOption{merklize.WithDocumentLoader(l.mk())}
		vc := fresh()
		var err error
		if pv := guard(func() { _, err = vc.Merklize(d.ctx, opts...) }); pv != nil {
			err = fmt.Errorf("panic: %v", pv)
		}
		check(vc, "c14-impure-merklize", "Merklize, loader "+l.name, outcome(err))

		opts = []merklize.MerklizeOption{merklize.WithDocumentLoader(l.mk())}
		vc = fresh()
		if pv := guard(func() { _, err = vc.ToCoreClaim(d.ctx, &verifiable.CoreClaimOptions{MerklizerOpts: opts}) }); pv != nil {
			err = fmt.Errorf("panic: %v", pv)
		}
		check(vc, "c14-impure-tocoreclaim", "ToCoreClaim, loader "+l.name, outcome(err))
	}
	// VerifyProof: every proof type present (and one absent), resolver failing / answering, loaders as above
	types := []verifiable.ProofType{"NoSuchProofType"}
	seen := map[verifiable.ProofType]bool{}
	for _, p := range ref.Proof {
		if pt := p.ProofType(); !seen[pt] && len(types) < 4 {
			seen[pt] = true
			types = append(types, pt)
		}
	}
	resolvers := []struct {
		name string
		r    verifiable.DIDResolver
	}{
		{"resolver error", stubResolver{}},
		{"resolver answers an empty document", docResolver{}},
	}
	for _, pt := range types {
		for li, l := range loaders {
			rs := resolvers[li%len(resolvers)]
			opts := []merklize.MerklizeOption{merklize.WithDocumentLoader(l.mk())}
			vc := fresh()
			var err error
			if pv := guard(func() {
				err = vc.VerifyProof(d.ctx, pt, rs.r, verifiable.VerifWithMerklizeOptions(opts...))
			}); pv != nil {
				err = fmt.Errorf("panic: %v", pv)
			}
			check(vc, "c14-impure-verifyproof", fmt.Sprintf("VerifyProof(%s), loader %s, %s", pt, l.name, rs.name), outcome(err))
			// and what the caller observes afterwards: the same credential verifies the same way again
			if err != nil && !errors.Is(err, verifiable.ErrProofNotFound) {
				var err2 error
				_ = guard(func() { err2 = vc.VerifyProof(d.ctx, pt, rs.r, verifiable.VerifWithMerklizeOptions(d.mzOpts()...)) })
				if errors.Is(err2, verifiable.ErrProofNotFound) {
					rep.Fail("c14-impure-verifyproof", fmt.Sprintf("after a failed VerifyProof(%s) (%s) the proof is no longer found", pt, outcome(err)), in)
				}
			}
		}
	}
	return posts
}

// reuseCase: decode Prev, then Doc, into the same variable; compare with a fresh decode of Doc.
func (d *drv) reuseCase(in *Input, rep *common.Report) (rec *caseRec) {
	rep.Evaluations++
	rep.Count("reuse:" + in.Kind)
	if pv := guard(func() { rec = d.reuseCaseInner(in, rep) }); pv != nil {
		rep.Fail("c14-panic", fmt.Sprint("panic while decoding into a re-used value: ", pv), in)
		return nil
	}
	return rec
}

func (d *drv) reuseCaseInner(in *Input, rep *common.Report) (rec *caseRec) {
	prev, doc := []byte(in.Prev), []byte(in.Doc)
	switch in.Kind {
	case "reuse-auth":
		var reused, fresh []verifiable.Authentication
		if json.Unmarshal(prev, &reused) != nil {
			return
		}
		e1, e2 := json.Unmarshal(doc, &reused), json.Unmarshal(doc, &fresh)
		if (e1 == nil) != (e2 == nil) {
			rep.Fail("c14-reuse-auth-differs", fmt.Sprintf("[]Authentication: re-used target: %v, fresh target: %v", e1, e2), in)
			return
		}
		if e1 != nil {
			return
		}
		// the same pair of lists goes to the Coq model (State.reuse_auths)
		if pn, err := Parse(prev); err == nil {
			if dn, err := Parse(doc); err == nil {
				if en, err := Parse([]byte(encOf(reused))); err == nil {
					rec = &caseRec{in: in, doc: dn, o: &obs{kinds: authKinds(reused)}, reuse: true, prev: pn, enc: en, kinds: authKinds(reused)}
				}
			}
		}
		if strings.Join(authKinds(reused), ",") != strings.Join(authKinds(fresh), ",") || encOf(reused) != encOf(fresh) {
			rep.Fail("c14-reuse-auth-differs", fmt.Sprintf("[]Authentication decoded into a re-used slice: entries %v encode as %s; into a fresh slice: %v, %s",
				authKinds(reused), clip(encOf(reused)), authKinds(fresh), clip(encOf(fresh))), in)
		} else if !deepEq(reflect.ValueOf(reused), reflect.ValueOf(fresh)) {
			// a reference decoded over an embedded method keeps the method's fields: not
			// observable through IsDID / DID / MarshalJSON, reported as a note only
			rep.Count("reuse:stale-method-fields-under-a-reference")
		}
	case "reuse-did", "dup-did":
		var reused, fresh verifiable.DIDDocument
		var e1 error
		if in.Kind == "reuse-did" {
			if json.Unmarshal(prev, &reused) != nil {
				return
			}
			e1 = json.Unmarshal(doc, &reused)
		} else {
			// Prev = the document with the duplicated member, Doc = the same without the first occurrence
			e1 = json.Unmarshal(prev, &reused)
		}
		e2 := json.Unmarshal(doc, &fresh)
		if (e1 == nil) != (e2 == nil) {
			rep.Fail("c14-reuse-did-differs", fmt.Sprintf("DIDDocument: re-used / duplicated-member decode: %v, fresh decode: %v", e1, e2), in)
			return
		}
		if e1 != nil {
			return
		}
		k1 := append(authKinds(reused.AssertionMethod), authKinds(reused.Authentication)...)
		k2 := append(authKinds(fresh.AssertionMethod), authKinds(fresh.Authentication)...)
		if strings.Join(k1, ",") != strings.Join(k2, ",") || encOf(&reused) != encOf(&fresh) {
			rep.Fail("c14-reuse-did-differs", fmt.Sprintf("DIDDocument (%s): authentication entries %v, encoding %s; fresh decode: %v, %s",
				in.Kind, k1, clip(encOf(&reused)), k2, clip(encOf(&fresh))), in)
		}
	case "reuse-cred":
		var reused, fresh verifiable.W3CCredential
		if json.Unmarshal(prev, &reused) != nil {
			return
		}
		e1, e2 := json.Unmarshal(doc, &reused), json.Unmarshal(doc, &fresh)
		if (e1 == nil) != (e2 == nil) {
			rep.Fail("c14-reuse-cred-differs", fmt.Sprintf("W3CCredential: re-used target: %v, fresh target: %v", e1, e2), in)
			return
		}
		if e1 != nil {
			return
		}
		if !deepEq(reflect.ValueOf(&reused).Elem(), reflect.ValueOf(&fresh).Elem()) || encOf(&reused) != encOf(&fresh) {
			rep.Fail("c14-reuse-cred-differs", fmt.Sprintf("W3CCredential decoded over a previous credential (same members, no proofs before): %s; fresh: %s",
				clip(encOf(&reused)), clip(encOf(&fresh))), in)
		}
		// known behaviour of CredentialProofs.UnmarshalJSON (it appends): decoding the
		// same document twice into one variable doubles the proofs; counted, not a C14 failure
		n := len(reused.Proof)
		if json.Unmarshal(doc, &reused) == nil && len(reused.Proof) == 2*n && n > 0 {
			rep.Count("reuse:proofs-accumulate-in-a-reused-credential")
		}
	}
	return rec
}

func clip(s string) string {
	if len(s) > 300 {
		return s[:300] + "..."
	}
	return s
}

// ---- generators of the reuse streams ----

// flipAuth turns references into embedded methods and embedded methods into references.
func (g *gen) flipAuth(list *Node) *Node {
	out := Arr()
	for _, e := range list.A {
		if e.K == 's' {
			out.A = append(out.A, g.method())
		} else {
			out.A = append(out.A, Str(g.uniq("did:example:someone-else#key-")))
		}
	}
	return out
}

func (g *gen) reuseInputs() []*Input {
	var ins []*Input
	// []Authentication directly
	b := g.authList()
	ins = append(ins, &Input{Kind: "reuse-auth", Stream: "reuse", Prev: string(g.flipAuth(b).Bytes()), Doc: string(b.Bytes())})
	// a DID document decoded over one that differs in the form of the entries only
	doc := g.didDoc()
	if doc.Get("authentication") == nil {
		doc.Set("authentication", g.authList())
	}
	prev := doc.Clone()
	for _, k := range []string{"authentication", "assertionMethod"} {
		if l := prev.Get(k); l != nil && l.K == 'a' {
			for i := range prev.O {
				if prev.O[i].Key == k {
					prev.O[i].V = g.flipAuth(l)
				}
			}
		}
	}
	ins = append(ins, &Input{Kind: "reuse-did", Stream: "reuse", Prev: string(prev.Bytes()), Doc: string(doc.Bytes())})
	// one document with the member given twice (the last one wins for a fresh slice)
	dup := Obj()
	for _, m := range doc.O {
		if m.Key == "authentication" {
			dup.Set(m.Key, g.flipAuth(m.V))
		}
		dup.Set(m.Key, m.V)
	}
	ins = append(ins, &Input{Kind: "dup-did", Stream: "reuse", Prev: string(dup.Bytes()), Doc: string(doc.Bytes())})
	// a credential decoded over a previous one with the same members and no proofs
	cred := g.credential()
	np := g.rng.Intn(3)
	var ps []*Node
	for j := 0; j < np; j++ {
		p, _ := g.proof()
		ps = append(ps, p)
	}
	if np > 0 {
		cred.Set("proof", Arr(ps...))
	}
	pc := cred.Clone()
	pc.Del("proof")
	for i := range pc.O {
		switch pc.O[i].Key {
		case "id", "issuer":
			pc.O[i].V = Str(g.uniq("urn:previous:"))
		case "expirationDate", "issuanceDate":
			if pc.O[i].V.K == 's' {
				pc.O[i].V = Str(g.goodDate())
			}
		case "refreshService", "displayMethod":
			if pc.O[i].V.K == 'o' {
				pc.O[i].V = Obj().Set("id", Str(g.uniq("urn:previous:"))).Set("type", Str("Previous"))
			}
		case "credentialStatus":
			if pc.O[i].V.K == 'o' {
				pc.O[i].V = g.status(0)
			}
		}
	}
	ins = append(ins, &Input{Kind: "reuse-cred", Stream: "reuse", Prev: string(pc.Bytes()), Doc: string(cred.Bytes())})
	return ins
}
