package c14

// Ordered JSON trees: generated documents are built as trees (member order,
// number spellings and duplicate members under the generator's control), the
// implementation's outputs are parsed back into trees, and both are rendered as
// Coq terms of type Codec.Run.rjson.

import (
	"bytes"
	"encoding/json"
	"fmt"
	"io"
	"math"
	"math/big"
	"regexp"
	"strconv"
	"strings"

	"vharness/coqgen"
)

type Member struct {
	Key string
	V   *Node
}

// Node kinds: 'n' null, 't' true, 'f' false, '#' number (S = literal), 's' string, 'a' array, 'o' object
type Node struct {
	K byte
	S string
	A []*Node
	O []Member
}

func Null() *Node          { return &Node{K: 'n'} }
func Bool(b bool) *Node    { return &Node{K: map[bool]byte{true: 't', false: 'f'}[b]} }
func Num(lit string) *Node { return &Node{K: '#', S: lit} }
func Str(s string) *Node   { return &Node{K: 's', S: s} }
func Arr(xs ...*Node) *Node {
	return &Node{K: 'a', A: append([]*Node{}, xs...)}
}
func Obj() *Node { return &Node{K: 'o'} }

func (n *Node) Set(k string, v *Node) *Node {
	n.O = append(n.O, Member{k, v})
	return n
}
func (n *Node) Get(k string) *Node {
	if n == nil || n.K != 'o' {
		return nil
	}
	for _, m := range n.O {
		if m.Key == k {
			return m.V
		}
	}
	return nil
}
func (n *Node) Del(k string) {
	var o []Member
	for _, m := range n.O {
		if m.Key != k {
			o = append(o, m)
		}
	}
	n.O = o
}
func (n *Node) Clone() *Node {
	if n == nil {
		return nil
	}
	c := &Node{K: n.K, S: n.S}
	for _, a := range n.A {
		c.A = append(c.A, a.Clone())
	}
	for _, m := range n.O {
		c.O = append(c.O, Member{m.Key, m.V.Clone()})
	}
	return c
}

func (n *Node) write(b *bytes.Buffer) {
	switch n.K {
	case 'n':
		b.WriteString("null")
	case 't':
		b.WriteString("true")
	case 'f':
		b.WriteString("false")
	case '#':
		b.WriteString(n.S)
	case 's':
		q, _ := json.Marshal(n.S)
		b.Write(q)
	case 'a':
		b.WriteByte('[')
		for i, a := range n.A {
			if i > 0 {
				b.WriteByte(',')
			}
			a.write(b)
		}
		b.WriteByte(']')
	case 'o':
		b.WriteByte('{')
		for i, m := range n.O {
			if i > 0 {
				b.WriteByte(',')
			}
			q, _ := json.Marshal(m.Key)
			b.Write(q)
			b.WriteByte(':')
			m.V.write(b)
		}
		b.WriteByte('}')
	}
}

func (n *Node) Bytes() []byte {
	var b bytes.Buffer
	n.write(&b)
	return b.Bytes()
}

// Parse reads one JSON value keeping member order and number literals.
func Parse(data []byte) (*Node, error) {
	d := json.NewDecoder(bytes.NewReader(data))
	d.UseNumber()
	n, err := parseValue(d)
	if err != nil {
		return nil, err
	}
	if _, err := d.Token(); err != io.EOF {
		return nil, fmt.Errorf("trailing data")
	}
	return n, nil
}

func parseValue(d *json.Decoder) (*Node, error) {
	t, err := d.Token()
	if err != nil {
		return nil, err
	}
	switch v := t.(type) {
	case nil:
		return Null(), nil
	case bool:
		return Bool(v), nil
	case json.Number:
		return Num(string(v)), nil
	case string:
		return Str(v), nil
	case json.Delim:
		switch v {
		case '[':
			n := &Node{K: 'a'}
			for d.More() {
				e, err := parseValue(d)
				if err != nil {
					return nil, err
				}
				n.A = append(n.A, e)
			}
			_, err := d.Token()
			return n, err
		case '{':
			n := &Node{K: 'o'}
			for d.More() {
				kt, err := d.Token()
				if err != nil {
					return nil, err
				}
				k, ok := kt.(string)
				if !ok {
					return nil, fmt.Errorf("object key is not a string")
				}
				e, err := parseValue(d)
				if err != nil {
					return nil, err
				}
				n.O = append(n.O, Member{k, e})
			}
			_, err := d.Token()
			return n, err
		}
	}
	return nil, fmt.Errorf("unexpected token %v", t)
}

var intLit = regexp.MustCompile(`^-?(0|[1-9][0-9]*)$`)

// numCoq renders a number literal as RInt / RFlt (see coq/Codec/Json.v).
func numCoq(lit string) string {
	if intLit.MatchString(lit) && lit != "-0" {
		z, _ := new(big.Int).SetString(lit, 10)
		return "RInt " + coqgen.SNum(z)
	}
	f, _ := strconv.ParseFloat(lit, 64) // on range error f is +-Inf
	return "RFlt " + coqgen.Limbs(new(big.Int).SetUint64(math.Float64bits(f)))
}

// Coq renders the tree as a Codec.Run.rjson term.
func (n *Node) Coq(f *coqgen.File) string {
	switch n.K {
	case 'n':
		return "RNull"
	case 't':
		return "RTrue"
	case 'f':
		return "RFalse"
	case '#':
		return "(" + numCoq(n.S) + ")"
	case 's':
		return "(RStr " + f.Str(n.S) + ")"
	case 'a':
		var xs []string
		for _, a := range n.A {
			xs = append(xs, a.Coq(f))
		}
		return "(RArr [" + strings.Join(xs, ";") + "])"
	default:
		var xs []string
		for _, m := range n.O {
			xs = append(xs, "("+f.Str(m.Key)+","+m.V.Coq(f)+")")
		}
		return "(RObj [" + strings.Join(xs, ";") + "])"
	}
}

// Walk calls fn for every node with the key under which it sits ("" for array
// elements and the root) and the key of the enclosing member.
func (n *Node) Walk(key, parentKey string, fn func(key, parentKey string, n *Node)) {
	fn(key, parentKey, n)
	for _, a := range n.A {
		a.Walk("", key, fn)
	}
	for _, m := range n.O {
		m.V.Walk(m.Key, key, fn)
	}
}
