// Package c14: the credential struct view is lossless for merklization (property C14).
//
// Driver: generates credential documents (supported shape and outside it) with
// 0..4 proofs of known and unknown types, and DID documents; runs encoding/json +
// /repo (json.Unmarshal into W3CCredential / DIDDocument, json.Marshal,
// W3CCredential.Merklize); evaluates the implementation-side oracles; writes the
// same documents with the implementation's observations as Coq case files for the
// generic codec model (coq/Codec/Run.v).
package c14

import (
	"context"
	"encoding/json"
	"errors"
	"fmt"
	"os"
	"path/filepath"
	"reflect"
	"sort"
	"strings"
	"sync"
	"time"

	"github.com/iden3/go-iden3-core/v2/w3c"
	"github.com/iden3/go-schema-processor/v2/merklize"
	"github.com/iden3/go-schema-processor/v2/verifiable"

	"vharness/common"
	"vharness/coqgen"
	"vharness/ctxload"
)

func init() { common.Register("C14", Run) }

// Input is what a replay file stores.
type Input struct {
	Kind   string `json:"kind"`   // cred | did
	Stream string `json:"stream"` // valid | odd
	Doc    string `json:"doc"`    // the JSON document
	// proof variants (JSON values for the "proof" member; "" = member removed) whose
	// merklization root must equal the one of Doc
	Variants []string `json:"variants,omitempty"`
	Kinds    []string `json:"expected_proof_kinds,omitempty"`
	// reuse streams (kind reuse-auth | reuse-did | dup-did | reuse-cred): the document
	// decoded into the same variable BEFORE Doc
	Prev string `json:"prev,omitempty"`
	// purity stream: also assert that Merklize / ToCoreClaim / VerifyProof leave the
	// credential value unchanged (loaders failing at the k-th fetch, resolver errors)
	Purity bool `json:"purity,omitempty"`
}

type obs struct {
	decodeErr string
	encErr    string
	enc       *Node
	kinds     []string
	mz        *Node
	root      string
	mzErr     string
	refOK     bool // MerklizeJSONLD(original minus proof) succeeded (valid stream)
}

type caseRec struct {
	in  *Input
	doc *Node
	o   *obs
	// purity stream: distinct encodings of the credential after the calls
	posts []*Node
	// reuse-auth stream: previous list, encoding and kinds of the re-used slice
	reuse bool
	prev  *Node
	enc   *Node
	kinds []string
}

type drv struct {
	cfg    *common.Config
	rep    *common.Report
	loader *ctxload.Loader
	ctx    context.Context
	cases  []*caseRec
}

func guard(f func()) (pv any) {
	defer func() {
		if r := recover(); r != nil {
			pv = r
		}
	}()
	f()
	return nil
}

func typeName(v any) string {
	s := fmt.Sprintf("%T", v)
	if i := strings.LastIndex(s, "."); i >= 0 {
		s = s[i+1:]
	}
	return s
}

func (d *drv) mzOpts() []merklize.MerklizeOption {
	return []merklize.MerklizeOption{merklize.WithDocumentLoader(d.loader)}
}

// runCred: json.Unmarshal into W3CCredential, json.Marshal, Merklize.
func (d *drv) runCred(raw []byte) (*obs, *verifiable.W3CCredential) {
	o := &obs{}
	var vc verifiable.W3CCredential
	if err := json.Unmarshal(raw, &vc); err != nil {
		o.decodeErr = err.Error()
		return o, nil
	}
	for _, p := range vc.Proof {
		o.kinds = append(o.kinds, typeName(p))
	}
	enc, err := json.Marshal(&vc)
	if err != nil {
		o.encErr = err.Error()
		return o, &vc
	}
	n, err := Parse(enc)
	if err != nil {
		o.encErr = "harness: cannot parse Marshal output: " + err.Error()
		return o, &vc
	}
	o.enc = n
	mk, err := vc.Merklize(d.ctx, d.mzOpts()...)
	if err != nil {
		o.mzErr = err.Error()
		return o, &vc
	}
	o.root = mk.Root().BigInt().String()
	if src, err := Parse(mk.VerifSrcDoc()); err == nil {
		o.mz = src
	}
	return o, &vc
}

func authKinds(as []verifiable.Authentication) []string {
	var out []string
	for i := range as {
		if as[i].IsDID() {
			out = append(out, "did")
		} else {
			out = append(out, "method")
		}
	}
	return out
}

// authRefs: what Authentication.DID() reports per entry ("" for an embedded method)
func authRefs(as []verifiable.Authentication) []string {
	var out []string
	for i := range as {
		out = append(out, as[i].DID())
	}
	return out
}

// wantRefs: the reference strings of a list as written in the document ("" for objects)
func wantRefs(doc *Node, key string) []string {
	var out []string
	if l := doc.Get(key); l != nil && l.K == 'a' {
		for _, e := range l.A {
			if e.K == 's' {
				out = append(out, e.S)
			} else {
				out = append(out, "")
			}
		}
	}
	return out
}

func (d *drv) runDID(raw []byte) (*obs, *verifiable.DIDDocument) {
	o := &obs{}
	var doc verifiable.DIDDocument
	if err := json.Unmarshal(raw, &doc); err != nil {
		o.decodeErr = err.Error()
		return o, nil
	}
	o.kinds = append(authKinds(doc.AssertionMethod), authKinds(doc.Authentication)...)
	enc, err := json.Marshal(&doc)
	if err != nil {
		o.encErr = err.Error()
		return o, &doc
	}
	n, err := Parse(enc)
	if err != nil {
		o.encErr = "harness: " + err.Error()
		return o, &doc
	}
	o.enc = n
	return o, &doc
}

// minusMembers: the original document with top-level members removed, the way a
// caller would do it (generic map, delete, marshal).
func minusMembers(raw []byte, keys ...string) ([]byte, error) {
	var m map[string]interface{}
	if err := json.Unmarshal(raw, &m); err != nil {
		return nil, err
	}
	for _, k := range keys {
		delete(m, k)
	}
	return json.Marshal(m)
}

func (d *drv) refRoot(raw []byte) (string, error) {
	b, err := minusMembers(raw, "proof")
	if err != nil {
		return "", err
	}
	mk, err := merklize.MerklizeJSONLD(d.ctx, strings.NewReader(string(b)), d.mzOpts()...)
	if err != nil {
		return "", err
	}
	return mk.Root().BigInt().String(), nil
}

var timeType = reflect.TypeOf(time.Time{})

// deepEq: structural equality of two decoded values; times are equal when they
// denote the same instant in the same zone offset; a nil and an empty slice / map
// are identified (encoding/json's omitempty cannot tell them apart).
func deepEq(a, b reflect.Value) bool {
	if a.IsValid() != b.IsValid() {
		return false
	}
	if !a.IsValid() {
		return true
	}
	if a.Type() != b.Type() {
		return false
	}
	switch a.Kind() {
	case reflect.Ptr, reflect.Interface:
		if a.IsNil() || b.IsNil() {
			return a.IsNil() == b.IsNil()
		}
		return deepEq(a.Elem(), b.Elem())
	case reflect.Struct:
		if a.Type() == timeType && a.CanInterface() {
			ta, tb := a.Interface().(time.Time), b.Interface().(time.Time)
			_, oa := ta.Zone()
			_, ob := tb.Zone()
			return ta.Equal(tb) && oa == ob
		}
		for i := 0; i < a.NumField(); i++ {
			if !deepEq(a.Field(i), b.Field(i)) {
				return false
			}
		}
		return true
	case reflect.Slice, reflect.Array:
		if a.Len() != b.Len() {
			return false
		}
		for i := 0; i < a.Len(); i++ {
			if !deepEq(a.Index(i), b.Index(i)) {
				return false
			}
		}
		return true
	case reflect.Map:
		if a.Len() != b.Len() {
			return false
		}
		for _, k := range a.MapKeys() {
			bv := b.MapIndex(k)
			if !bv.IsValid() || !deepEq(a.MapIndex(k), bv) {
				return false
			}
		}
		return true
	case reflect.String:
		return a.String() == b.String()
	case reflect.Bool:
		return a.Bool() == b.Bool()
	case reflect.Int, reflect.Int8, reflect.Int16, reflect.Int32, reflect.Int64:
		return a.Int() == b.Int()
	case reflect.Uint, reflect.Uint8, reflect.Uint16, reflect.Uint32, reflect.Uint64, reflect.Uintptr:
		return a.Uint() == b.Uint()
	case reflect.Float32, reflect.Float64:
		return a.Float() == b.Float() || (a.Float() != a.Float() && b.Float() != b.Float())
	}
	return false
}

type stubResolver struct{}

func (stubResolver) Resolve(context.Context, *w3c.DID) (verifiable.DIDDocument, error) {
	return verifiable.DIDDocument{}, errors.New("c14: no resolver")
}

func (d *drv) verifyOutcome(vc *verifiable.W3CCredential, pt verifiable.ProofType) (out string) {
	if pv := guard(func() {
		err := vc.VerifyProof(d.ctx, pt, stubResolver{}, verifiable.VerifWithMerklizeOptions(d.mzOpts()...))
		if err == nil {
			out = "ok"
		} else {
			out = "error: " + err.Error()
		}
	}); pv != nil {
		out = fmt.Sprint("panic: ", pv)
	}
	return out
}

// credCase runs one credential document through the implementation, the oracles
// (valid stream only) and records the case for the Coq model.
func (d *drv) credCase(in *Input, rep *common.Report) *caseRec {
	doc, err := Parse([]byte(in.Doc))
	if err != nil {
		rep.Notes = append(rep.Notes, "unparseable document skipped: "+err.Error())
		return nil
	}
	raw := []byte(in.Doc)
	var o *obs
	var vc *verifiable.W3CCredential
	if pv := guard(func() { o, vc = d.runCred(raw) }); pv != nil {
		rep.Fail("c14-panic", fmt.Sprint("panic while decoding / encoding / merklizing a credential: ", pv), in)
		return nil
	}
	rep.Evaluations++
	rec := &caseRec{in: in, doc: doc, o: o}
	cls := "ok"
	switch {
	case o.decodeErr != "":
		cls = "decode-error"
	case o.encErr != "":
		cls = "encode-error"
	case o.mzErr != "":
		cls = "merklize-error"
	}
	rep.Count("cred:" + in.Stream + ":" + cls)
	rep.Count(fmt.Sprintf("cred:%s:proofs=%d", in.Stream, len(o.kinds)))
	if in.Stream != "valid" {
		return rec
	}
	// ---- implementation-side oracles (documents of the supported shape) ----
	if o.decodeErr != "" {
		rep.Fail("c14-valid-doc-rejected", "document of the supported shape does not decode: "+o.decodeErr, in)
		return rec
	}
	if o.encErr != "" {
		rep.Fail("c14-valid-doc-not-encodable", "decoded credential does not marshal: "+o.encErr, in)
		return rec
	}
	// O1: root of the struct view == root of the original document minus proof
	ref, rerr := d.refRoot(raw)
	o.refOK = rerr == nil
	switch {
	case rerr != nil && o.mzErr != "":
		rep.Count("cred:valid:both-merklizations-fail")
	case rerr != nil || o.mzErr != "":
		rep.Fail("c14-merklize-outcome-differs", fmt.Sprintf("W3CCredential.Merklize: %q; MerklizeJSONLD(original minus proof): %v", o.mzErr, rerr), in)
	case ref != o.root:
		rep.Fail("c14-root-differs", fmt.Sprintf("W3CCredential.Merklize().Root() = %s, MerklizeJSONLD(original minus proof).Root() = %s", o.root, ref), in)
	}
	// expected concrete proof kinds
	if in.Kinds != nil && strings.Join(in.Kinds, ",") != strings.Join(o.kinds, ",") {
		rep.Fail("c14-proof-kind", fmt.Sprintf("decoded proof types %v, expected %v", o.kinds, in.Kinds), in)
	}
	// O2: the root does not depend on the proofs
	for i, v := range in.Variants {
		vd := doc.Clone()
		vd.Del("proof")
		if v != "" {
			pn, err := Parse([]byte(v))
			if err != nil {
				continue
			}
			vd.Set("proof", pn)
		}
		var vo *obs
		if pv := guard(func() { vo, _ = d.runCred(vd.Bytes()) }); pv != nil {
			rep.Fail("c14-panic", fmt.Sprint("panic on a proof variant: ", pv), in)
			continue
		}
		rep.Evaluations++
		if vo.decodeErr != "" || vo.encErr != "" {
			rep.Fail("c14-valid-doc-rejected", fmt.Sprintf("proof variant %d does not decode / encode: %s%s", i, vo.decodeErr, vo.encErr), in)
			continue
		}
		if vo.root != o.root || (vo.mzErr == "") != (o.mzErr == "") {
			rep.Fail("c14-root-depends-on-proof", fmt.Sprintf("root %s (%s) with the original proofs, %s (%s) with proof variant %d", o.root, o.mzErr, vo.root, vo.mzErr, i), in)
		}
	}
	// O3: marshal -> unmarshal gives an equal credential with the same proof types
	var vc2 verifiable.W3CCredential
	if err := json.Unmarshal(o.enc.Bytes(), &vc2); err != nil {
		rep.Fail("c14-roundtrip-rejected", "json.Marshal output does not decode: "+err.Error(), in)
		return rec
	}
	var k2 []string
	for _, p := range vc2.Proof {
		k2 = append(k2, typeName(p))
	}
	if strings.Join(k2, ",") != strings.Join(o.kinds, ",") {
		rep.Fail("c14-proof-kind-changed", fmt.Sprintf("proof types %v before, %v after the round trip", o.kinds, k2), in)
	}
	if !deepEq(reflect.ValueOf(vc).Elem(), reflect.ValueOf(&vc2).Elem()) {
		rep.Fail("c14-roundtrip-unequal", "decode(encode(c)) differs from c", in)
	}
	if !reflect.DeepEqual(vc.CredentialSubject, vc2.CredentialSubject) || !reflect.DeepEqual(vc.CredentialStatus, vc2.CredentialStatus) {
		rep.Fail("c14-roundtrip-unequal", "credentialSubject / credentialStatus differ after the round trip", in)
	}
	enc2, err := json.Marshal(&vc2)
	if err != nil || string(enc2) != string(o.enc.Bytes()) {
		rep.Fail("c14-roundtrip-unequal", "encode(decode(encode(c))) differs from encode(c)", in)
	}
	// O5: verifies identically (outcome of VerifyProof without a DID resolver: reaches
	// GetCoreClaim and the credential / claim binding check)
	seen := map[string]bool{}
	for _, p := range vc.Proof {
		pt := p.ProofType()
		if seen[string(pt)] || len(seen) >= 2 {
			continue
		}
		seen[string(pt)] = true
		a, b := d.verifyOutcome(vc, pt), d.verifyOutcome(&vc2, pt)
		if a != b {
			rep.Fail("c14-verify-outcome-differs", fmt.Sprintf("VerifyProof(%s): %q before, %q after the round trip", pt, a, b), in)
		}
	}
	return rec
}

func (d *drv) didCase(in *Input, rep *common.Report) *caseRec {
	doc, err := Parse([]byte(in.Doc))
	if err != nil {
		return nil
	}
	var o *obs
	var dd *verifiable.DIDDocument
	if pv := guard(func() { o, dd = d.runDID([]byte(in.Doc)) }); pv != nil {
		rep.Fail("c14-panic", fmt.Sprint("panic while decoding / encoding a DID document: ", pv), in)
		return nil
	}
	rep.Evaluations++
	rec := &caseRec{in: in, doc: doc, o: o}
	cls := "ok"
	if o.decodeErr != "" {
		cls = "decode-error"
	} else if o.encErr != "" {
		cls = "encode-error"
	}
	rep.Count("did:" + in.Stream + ":" + cls)
	if in.Stream != "valid" {
		return rec
	}
	if o.decodeErr != "" || o.encErr != "" {
		rep.Fail("c14-valid-did-rejected", "DID document does not decode / encode: "+o.decodeErr+o.encErr, in)
		return rec
	}
	var d2 verifiable.DIDDocument
	if err := json.Unmarshal(o.enc.Bytes(), &d2); err != nil {
		rep.Fail("c14-did-roundtrip-rejected", "json.Marshal output does not decode: "+err.Error(), in)
		return rec
	}
	k2 := append(authKinds(d2.AssertionMethod), authKinds(d2.Authentication)...)
	if strings.Join(k2, ",") != strings.Join(o.kinds, ",") {
		rep.Fail("c14-did-auth-kind-changed", fmt.Sprintf("authentication entries %v before, %v after the round trip", o.kinds, k2), in)
	}
	if !deepEq(reflect.ValueOf(dd).Elem(), reflect.ValueOf(&d2).Elem()) {
		rep.Fail("c14-did-roundtrip-unequal", "decode(encode(d)) differs from d", in)
	}
	// Authentication.DID(): the reference as written in the document, "" for an embedded
	// method, before and after the round trip
	for _, l := range []struct {
		key    string
		a1, a2 []verifiable.Authentication
	}{{"assertionMethod", dd.AssertionMethod, d2.AssertionMethod}, {"authentication", dd.Authentication, d2.Authentication}} {
		want := strings.Join(wantRefs(doc, l.key), "|")
		if got := strings.Join(authRefs(l.a1), "|"); got != want {
			rep.Fail("c14-did-auth-reference", fmt.Sprintf("%s: DID() of the entries = %q, the document says %q", l.key, got, want), in)
		}
		if got := strings.Join(authRefs(l.a2), "|"); got != want {
			rep.Fail("c14-did-auth-kind-changed", fmt.Sprintf("%s: DID() of the entries after the round trip = %q, the document says %q", l.key, got, want), in)
		}
	}
	enc2, err := json.Marshal(&d2)
	if err != nil || string(enc2) != string(o.enc.Bytes()) {
		rep.Fail("c14-did-roundtrip-unequal", "encode(decode(encode(d))) differs from encode(d)", in)
	}
	// the re-encoded document says the same as the original on every member the struct knows
	var om, em map[string]interface{}
	_ = json.Unmarshal([]byte(in.Doc), &om)
	_ = json.Unmarshal(o.enc.Bytes(), &em)
	for _, k := range []string{"@context", "id", "service", "keyAgreement"} {
		if !reflect.DeepEqual(om[k], em[k]) {
			rep.Fail("c14-did-member-changed", "member "+k+" changed by decode/encode", in)
		}
	}
	return rec
}

// ---- oracle tables ----

type tables struct {
	nums   map[string]bool
	mtps   map[string]*Node
	claims map[string]bool
	sigs   map[string]bool
}

func newTables() *tables {
	return &tables{nums: map[string]bool{}, mtps: map[string]*Node{}, claims: map[string]bool{}, sigs: map[string]bool{}}
}

// renum: one number literal through float64 (strconv.ParseFloat as json.Unmarshal
// into interface{} does) and back through json.Marshal(float64).
func renum(lit string) (string, bool) {
	var f float64
	if err := json.Unmarshal([]byte(lit), &f); err != nil {
		return "", false
	}
	out, err := json.Marshal(f)
	if err != nil {
		return "", false
	}
	return string(out), true
}

// mtpNorm: verifiable.decodeMTP (the guarded decoder in front of merkletree.Proof's
// codec) followed by json.Marshal of the proof.
func mtpNorm(n *Node) (out *Node, ok bool) {
	if pv := guard(func() {
		p, err := verifiable.VerifDecodeMTP(n.Bytes())
		if err != nil || p == nil {
			return
		}
		b, err := json.Marshal(p)
		if err != nil {
			return
		}
		if r, err := Parse(b); err == nil {
			out, ok = r, true
		}
	}); pv != nil {
		return nil, false
	}
	return out, ok
}

func (t *tables) scan(n *Node) {
	if n == nil {
		return
	}
	n.Walk("", "", func(key, parent string, x *Node) {
		switch {
		case x.K == '#':
			t.nums[x.S] = true
			if o, ok := renum(x.S); ok {
				t.nums[o] = true
			}
		case x.K == 's' && key == "coreClaim":
			t.claims[x.S] = true
		case x.K == 's' && key == "signature":
			t.sigs[x.S] = true
		}
		if (key == "mtp" || strings.EqualFold(key, "proof")) && x.K != 'n' {
			t.mtps[string(x.Bytes())] = x
			// the same value as encoding/json re-encodes it from interface{}
			var v interface{}
			if err := json.Unmarshal(x.Bytes(), &v); err == nil {
				if b, err := json.Marshal(v); err == nil {
					if nn, err := Parse(b); err == nil {
						t.mtps[string(b)] = nn
						nn.Walk("", "", func(_, _ string, y *Node) {
							if y.K == '#' {
								t.nums[y.S] = true
							}
						})
					}
				}
			}
		}
	})
}

func (t *tables) coq(f *coqgen.File) string {
	var nums, mtps, claims, sigs []string
	var ks []string
	for k := range t.nums {
		ks = append(ks, k)
	}
	sort.Strings(ks)
	for _, k := range ks {
		if o, ok := renum(k); ok {
			nums = append(nums, fmt.Sprintf("(%s, Some (%s))", numCoq(k), numCoq(o)))
		} else {
			nums = append(nums, fmt.Sprintf("(%s, None)", numCoq(k)))
		}
	}
	ks = ks[:0]
	for k := range t.mtps {
		ks = append(ks, k)
	}
	sort.Strings(ks)
	for _, k := range ks {
		n := t.mtps[k]
		if o, ok := mtpNorm(n); ok {
			mtps = append(mtps, fmt.Sprintf("(%s, Some %s)", n.Coq(f), o.Coq(f)))
		} else {
			mtps = append(mtps, fmt.Sprintf("(%s, None)", n.Coq(f)))
		}
	}
	ks = ks[:0]
	for k := range t.claims {
		ks = append(ks, k)
	}
	sort.Strings(ks)
	for _, k := range ks {
		claims = append(claims, fmt.Sprintf("(%s, %s)", f.Str(k), coqgen.Bool(verifiable.VerifValidateHexCoreClaim(k) == nil)))
	}
	ks = ks[:0]
	for k := range t.sigs {
		ks = append(ks, k)
	}
	sort.Strings(ks)
	for _, k := range ks {
		sigs = append(sigs, fmt.Sprintf("(%s, %s)", f.Str(k), coqgen.Bool(verifiable.VerifValidateCompSignature(k) == nil)))
	}
	return fmt.Sprintf("mk_oracles\n %s\n %s\n %s\n %s", coqgen.List(nums), coqgen.List(mtps), coqgen.List(claims), coqgen.List(sigs))
}

func strList(f *coqgen.File, xs []string) string {
	var q []string
	for _, x := range xs {
		q = append(q, f.Str(x))
	}
	return "[" + strings.Join(q, ";") + "]"
}

const shardSize = 40

func (d *drv) writeShards() error {
	n := len(d.cases)
	for s := 0; s*shardSize < n; s++ {
		lo, hi := s*shardSize, (s+1)*shardSize
		if hi > n {
			hi = n
		}
		f := coqgen.NewFile("From GSP Require Import Codec.Json Codec.Model Codec.Run.")
		t := newTables()
		var cs []string
		name := filepath.Join(d.cfg.OutDir, fmt.Sprintf("cases_C14_%03d.v", s))
		for i := lo; i < hi; i++ {
			c := d.cases[i]
			t.scan(c.doc)
			if c.reuse {
				t.scan(c.prev)
				t.scan(c.enc)
				cs = append(cs, fmt.Sprintf("CReuseAuth %d %s %s %s %s", i, c.prev.Coq(f), c.doc.Coq(f), c.enc.Coq(f), strList(f, c.kinds)))
				d.rep.Case(name, i, c.in)
				continue
			}
			t.scan(c.o.enc)
			t.scan(c.o.mz)
			if len(c.posts) > 0 {
				var ps []string
				for _, p := range c.posts {
					t.scan(p)
					ps = append(ps, p.Coq(f))
				}
				cs = append(cs, fmt.Sprintf("CPure %d %s [%s]", i, c.doc.Coq(f), strings.Join(ps, ";")))
			}
			var ob string
			switch {
			case c.o.decodeErr != "":
				ob = "OErr"
			case c.o.encErr != "":
				ob = "OEncErr"
			default:
				mz := "None"
				if c.o.mz != nil {
					mz = "(Some " + c.o.mz.Coq(f) + ")"
				}
				ob = fmt.Sprintf("(OOk %s %s %s)", c.o.enc.Coq(f), strList(f, c.o.kinds), mz)
			}
			ctor := "CCred"
			if c.in.Kind == "did" {
				ctor = "CDid"
			}
			cs = append(cs, fmt.Sprintf("%s %d %s %s", ctor, i, c.doc.Coq(f), ob))
			d.rep.Case(name, i, c.in)
		}
		f.Add("Definition oracles_ := " + t.coq(f) + ".")
		f.Add("Definition cases_ : list ccase := " + coqgen.List(cs) + ".")
		f.Add("Definition M := Eval vm_compute in cmismatches oracles_ cases_.")
		f.Add("Print M.")
		if err := f.Write(name); err != nil {
			return err
		}
		d.rep.Shards = append(d.rep.Shards, name)
	}
	return nil
}

func featKey(feat map[string]bool) string {
	var ks []string
	for k := range feat {
		ks = append(ks, k)
	}
	sort.Strings(ks)
	return strings.Join(ks, "+")
}

func (d *drv) dispatch(in *Input, rep *common.Report) *caseRec {
	switch in.Kind {
	case "did":
		return d.didCase(in, rep)
	case "reuse-auth", "reuse-did", "dup-did", "reuse-cred":
		return d.reuseCase(in, rep)
	default:
		rec := d.credCase(in, rep)
		if in.Purity && rec != nil && rec.o.decodeErr == "" && rec.o.encErr == "" {
			rec.posts = d.purityCase(in, rep)
		}
		return rec
	}
}

// job is one generated document with the evidence bookkeeping to do once it has run.
type job struct {
	in      *Input
	feat    map[string]bool
	counts  []string // distribution keys
	dkey    string   // prefix of the distinct-case key
	sample  bool
	rep     *common.Report
	rec     *caseRec
	isValid bool
}

func (d *drv) runJobs(jobs []*job) {
	workers := 8
	if n := os.Getenv("VERIF_C14_WORKERS"); n != "" {
		fmt.Sscan(n, &workers)
	}
	ch := make(chan *job)
	var wg sync.WaitGroup
	for w := 0; w < workers; w++ {
		wg.Add(1)
		go func() {
			defer wg.Done()
			for j := range ch {
				j.rep = common.NewReport("C14")
				j.rec = d.dispatch(j.in, j.rep)
			}
		}()
	}
	for _, j := range jobs {
		ch <- j
	}
	close(ch)
	wg.Wait()
}

// merge folds the private reports into the run's report, in generation order.
func (d *drv) merge(jobs []*job) (okRoots, nValid int) {
	rep := d.rep
	for _, j := range jobs {
		rep.Evaluations += j.rep.Evaluations
		rep.Failures = append(rep.Failures, j.rep.Failures...)
		rep.Notes = append(rep.Notes, j.rep.Notes...)
		for k, v := range j.rep.Distribution {
			rep.Distribution[k] += v
		}
		for _, c := range j.counts {
			rep.Count(c)
		}
		if j.rec == nil {
			if j.in.Stream == "reuse" {
				rep.Distinct(j.dkey + "|" + fmt.Sprint(len(j.rep.Failures)))
				if len(j.rep.Failures) > 0 {
					rep.Sample(map[string]any{"kind": j.in.Kind, "prev": json.RawMessage(j.in.Prev), "doc": json.RawMessage(j.in.Doc), "failure": j.rep.Failures[0].What})
				}
			}
			continue
		}
		d.cases = append(d.cases, j.rec)
		o := j.rec.o
		if j.isValid {
			nValid++
			if o.refOK {
				okRoots++
			} else if os.Getenv("C14_DEBUG") != "" {
				fmt.Fprintf(os.Stderr, "no root: decode=%q enc=%q mz=%q\n%s\n", o.decodeErr, o.encErr, o.mzErr, j.in.Doc)
			}
		}
		cls := "ok"
		if o.decodeErr != "" {
			cls = "err"
		}
		rep.Distinct(j.dkey + "|" + featKey(j.feat) + "|" + cls + "|" + strings.Join(o.kinds, ","))
		if j.sample || len(j.rep.Failures) > 0 {
			rep.Sample(map[string]any{"kind": j.in.Kind, "stream": j.in.Stream, "doc": json.RawMessage(j.in.Doc), "kinds": o.kinds, "root": o.root, "decode_error": o.decodeErr, "merklize_error": o.mzErr})
		}
	}
	return okRoots, nValid
}

func Run(cfg *common.Config) (*common.Report, error) {
	tStart := time.Now()
	rep := common.NewReport("C14")
	rep.Correspondence = "Codec.Run.cmismatches: cred_decode / cred_encode / cred_merklize_doc / did_decode / did_encode (coq/Codec/Model.v on the descriptors of coq/Generated/Structs.v) vs json.Unmarshal / json.Marshal on verifiable.W3CCredential and verifiable.DIDDocument and the document W3CCredential.Merklize hands to merklize.MerklizeJSONLD (Merklizer.VerifSrcDoc)"
	rep.Rule = "credential documents of the supported shape with every optional member on/off (id, dates in 8x5x11x10 spellings, credentialStatus, refreshService, displayMethod, null optionals), shuffled member order, random subject objects (strings, integers, doubles, big numbers, booleans, dates, nested objects, arrays), 0..4 proofs of the three known and of unknown types in array / single-object / empty / absent form; documents outside the shape (odd dates, wrong member types, unknown / case-variant / duplicated members, broken proofs); DID documents with reference / embedded authentication entries, state info and GIST proofs; re-use streams (document A then B into the same variable, duplicated authentication member) and a purity stream (Merklize / ToCoreClaim / VerifyProof with the loader going offline at fetch 1..3 and failing / answering resolvers, credential compared before/after). distinct = distinct (stream, feature set, decode outcome, proof kinds) tuples; non-trivial = the document has at least one optional member, proof or non-default spelling."
	loader := ctxload.New()
	if err := loader.Add(ctxURL, []byte(ctxDoc)); err != nil {
		return nil, err
	}
	d := &drv{cfg: cfg, rep: rep, loader: loader, ctx: context.Background()}
	if cfg.Replay != "" {
		var rf struct {
			Input Input `json:"input"`
		}
		if err := common.ReadJSON(cfg.Replay, &rf); err != nil {
			return nil, err
		}
		in := rf.Input
		c := d.dispatch(&in, rep)
		for _, f := range rep.Failures {
			if c == nil {
				fmt.Printf("replay: [%s] %s\n", f.Class, f.What)
			}
		}
		if c != nil {
			d.cases = append(d.cases, c)
			rep.Sample(map[string]any{"input": c.in, "decode_error": c.o.decodeErr, "encode_error": c.o.encErr, "proof_kinds": c.o.kinds, "root": c.o.root, "merklize_error": c.o.mzErr})
			fmt.Printf("replay: kind=%s decode_error=%q encode_error=%q kinds=%v root=%s merklize_error=%q failures=%d\n", c.in.Kind, c.o.decodeErr, c.o.encErr, c.o.kinds, c.o.root, c.o.mzErr, len(rep.Failures))
			for _, f := range rep.Failures {
				fmt.Printf("replay: [%s] %s\n", f.Class, f.What)
			}
		}
		return rep, d.writeShards()
	}

	g := &gen{rng: cfg.Rng}
	var jobs []*job
	// A. supported shape
	nValid := cfg.Pick(150, 1500)
	for i := 0; i < nValid; i++ {
		g.feat = map[string]bool{}
		doc := g.credential()
		in := &Input{Kind: "cred", Stream: "valid"}
		np := g.rng.Intn(5)
		form := g.rng.Intn(4)
		var ps []*Node
		for j := 0; j < np; j++ {
			p, k := g.proof()
			ps = append(ps, p)
			in.Kinds = append(in.Kinds, k)
		}
		switch {
		case np == 0 && form == 0:
			doc.Set("proof", Arr())
			g.mark("proof-empty-array")
			in.Kinds = []string{}
		case np == 0:
			in.Kinds = []string{}
		case np == 1 && form < 2:
			doc.Set("proof", ps[0])
			g.mark("proof-single-object")
		default:
			doc.Set("proof", Arr(ps...))
		}
		if np > 0 && g.coin(0.5) { // proof not last
			last := len(doc.O) - 1
			j := g.rng.Intn(len(doc.O))
			doc.O[j], doc.O[last] = doc.O[last], doc.O[j]
		}
		g.mark(fmt.Sprintf("proofs=%d", np))
		in.Doc = string(doc.Bytes())
		// proof variants: none, other proofs, one proof edited
		in.Variants = append(in.Variants, "")
		if i%2 == 0 {
			p1, _ := g.proof()
			p2, _ := g.proof()
			in.Variants = append(in.Variants, string(Arr(p1, p2).Bytes()))
		}
		if np > 0 && i%3 == 0 {
			e := ps[g.rng.Intn(np)].Clone()
			e.Set("addedMember", Obj().Set("k", Num("1e2")))
			in.Variants = append(in.Variants, string(e.Bytes()))
		}
		in.Purity = i%3 == 0
		j := &job{in: in, feat: g.feat, dkey: "valid", sample: i%40 == 0, isValid: true}
		for k := range g.feat {
			j.counts = append(j.counts, "feature:"+k)
		}
		sort.Strings(j.counts)
		jobs = append(jobs, j)
	}
	// B. outside the supported shape: correspondence with the model, no panics
	nOdd := cfg.Pick(130, 1300)
	for i := 0; i < nOdd; i++ {
		g.feat = map[string]bool{}
		doc := g.credential()
		what := d.oddify(g, doc)
		in := &Input{Kind: "cred", Stream: "odd", Doc: string(doc.Bytes())}
		jobs = append(jobs, &job{in: in, feat: map[string]bool{}, dkey: "odd|" + what, counts: []string{"odd:" + what}, sample: i%60 == 0})
	}
	// C. DID documents
	nDid := cfg.Pick(100, 900)
	for i := 0; i < nDid; i++ {
		g.feat = map[string]bool{}
		doc := g.didDoc()
		in := &Input{Kind: "did", Stream: "valid", Doc: string(doc.Bytes())}
		j := &job{in: in, feat: g.feat, dkey: "did", sample: i%50 == 0}
		for k := range g.feat {
			j.counts = append(j.counts, "feature:did-"+k)
		}
		sort.Strings(j.counts)
		jobs = append(jobs, j)
	}
	nOddDid := cfg.Pick(40, 400)
	for i := 0; i < nOddDid; i++ {
		g.feat = map[string]bool{}
		doc := g.didDoc()
		what := d.oddifyDID(g, doc)
		in := &Input{Kind: "did", Stream: "odd", Doc: string(doc.Bytes())}
		jobs = append(jobs, &job{in: in, feat: map[string]bool{}, dkey: "odd-did|" + what, counts: []string{"odd-did:" + what}})
	}
	t0 := time.Now()
	// D. decode into a re-used value (hand-written codecs must give the fresh result)
	nReuse := cfg.Pick(40, 300)
	for i := 0; i < nReuse; i++ {
		g.feat = map[string]bool{}
		for _, in := range g.reuseInputs() {
			jobs = append(jobs, &job{in: in, feat: map[string]bool{}, dkey: in.Kind + fmt.Sprint("|", i%7)})
		}
	}
	d.runJobs(jobs)
	t1 := time.Now()
	okRoots, nv := d.merge(jobs)
	if okRoots*10 < nv*9 {
		return nil, fmt.Errorf("only %d of %d supported-shape documents merklize with MerklizeJSONLD: generator or contexts are broken", okRoots, nv)
	}
	rep.Exhaustive = false
	rep.Notes = append(rep.Notes,
		"encoding/json's reflection semantics are modelled (coq/Codec/Model.v) and compared per run, not verified",
		fmt.Sprintf("%d of %d supported-shape documents merklize successfully (reference path)", okRoots, nv))
	err := d.writeShards()
	if os.Getenv("C14_DEBUG") != "" {
		fmt.Fprintf(os.Stderr, "timing: generate %v, run %v, shards %v\n", t0.Sub(tStart), t1.Sub(t0), time.Since(t1))
	}
	return rep, err
}

// oddify pushes a supported-shape document outside the shape; returns the class.
func (d *drv) oddify(g *gen, doc *Node) string {
	set := func(k string, v *Node) {
		doc.Del(k)
		doc.Set(k, v)
	}
	switch g.rng.Intn(22) {
	case 0:
		set(g.pick("expirationDate", "issuanceDate"), g.oddDate())
		return "odd-date"
	case 1:
		n := 1 + g.rng.Intn(3)
		a := Arr()
		for i := 0; i < n; i++ {
			if g.coin(0.5) {
				a.A = append(a.A, g.brokenProof())
			} else {
				p, _ := g.proof()
				a.A = append(a.A, p)
			}
		}
		set("proof", a)
		return "broken-proof-in-array"
	case 2:
		set("proof", g.brokenProof())
		return "broken-proof-single"
	case 3:
		doc.Set(g.pick("evidence", "name", "termsOfUse", "holder"), g.pick2(Str("x"), Obj().Set("id", Str("urn:e:1")), Arr(Num("1"))))
		return "unknown-member"
	case 4:
		k := g.pick("issuer", "id", "type", "credentialSubject", "expirationDate", "credentialSchema", "@context")
		if v := doc.Get(k); v != nil {
			doc.Del(k)
			doc.Set(strings.ToUpper(k[:1])+k[1:], v)
			if g.coin(0.4) && (k == "issuer" || k == "id" || k == "expirationDate") {
				doc.Set(strings.ToUpper(k), v.Clone())
			}
		}
		return "case-variant-member"
	case 5:
		k := g.pick("issuer", "id")
		doc.Set(k, g.pick2(Str("urn:dup:second"), Null(), Str("")))
		if g.coin(0.3) {
			doc.Set(strings.ToUpper(k), Str("urn:dup:third"))
		}
		return "duplicate-string-member"
	case 6:
		set("issuer", g.pick2(Num("5"), Obj().Set("id", Str("did:example:issuer")), Arr(Str("a")), Bool(true), Null()))
		return "issuer-wrong-type"
	case 7:
		set("@context", g.pick2(Str("https://www.w3.org/2018/credentials/v1"), Null(), Arr(Str("https://www.w3.org/2018/credentials/v1"), Null()), Arr(Obj().Set("a", Str("urn:a"))), Arr()))
		return "context-shape"
	case 8:
		set("type", g.pick2(Str("VerifiableCredential"), Null(), Arr(), Arr(Num("1"))))
		return "type-shape"
	case 9:
		set("credentialSubject", g.pick2(Null(), Arr(Obj().Set("id", Str("did:a:b"))), Str("did:a:b"), Obj(), Num("1")))
		return "subject-shape"
	case 10:
		doc.Del(g.pick("credentialSchema", "issuer", "@context", "type", "credentialSubject"))
		return "required-member-absent"
	case 11:
		set("credentialSchema", g.pick2(Null(), Obj().Set("id", Str("urn:s")), Obj().Set("id", Str("urn:s")).Set("type", Str("T")).Set("extra", Num("1")), Str("s"), Obj().Set("id", Null()).Set("type", Num("7"))))
		return "schema-shape"
	case 12:
		set("id", g.pick2(Str(""), Num("1"), Null()))
		return "id-shape"
	case 13:
		if s := doc.Get("credentialSubject"); s != nil && s.K == 'o' {
			s.Set("plain", Num(g.pick("1e400", "-1e999", "1e308", "123456789012345678901234567890123456789012345678901234567890")))
		}
		return "number-range"
	case 14:
		set("proof", g.pick2(Null(), Str("p"), Num("1"), Bool(false), Arr(Null()), Arr(Arr())))
		return "proof-wrong-type"
	case 15:
		set(g.pick("refreshService", "displayMethod"), g.pick2(Str("x"), Obj(), Obj().Set("id", Str("urn:r")).Set("type", Str("T")).Set("extra", Str("dropped")), Arr(), Obj().Set("type", Num("1"))))
		return "service-shape"
	case 16:
		set("credentialStatus", g.pick2(Str("https://example.com/status"), Arr(g.status(0)), Num("1.50"), Bool(false), Obj()))
		return "status-any"
	case 17:
		if s := doc.Get("credentialSubject"); s != nil && s.K == 'o' {
			s.Set("name", Str("second"))
			s.Set("zz", Obj().Set("b", Num("2")).Set("a", Num("1.0")).Set("b", Num("3")))
		}
		return "subject-duplicate-members"
	case 18:
		p, _ := g.proof()
		p.Set("type", Str("BJJSignature2021"))
		set("proof", p)
		return "proof-duplicate-type"
	case 19:
		p, _ := g.proof()
		if iss := p.Get("issuerData"); iss != nil && iss.K == 'o' {
			iss.Set("ID", g.pick2(Str("did:example:second"), Null()))
			iss.Set("AUTHCORECLAIM", Str("zz"))
			if st := iss.Get("state"); st != nil && st.K == 'o' {
				st.Set("Value", Str("abc")).Set("STATUS", Null()).Set("BlockNumber", g.pick2(Num("7"), Null())).Set("txid", Null())
			}
			iss.Set("CredentialStatus", g.pick2(Null(), Str("s"), Obj().Set("b", Num("1.0"))))
		}
		set("proof", Arr(p))
		return "proof-case-variant-members"
	case 20:
		set(g.pick("expirationDate", "issuanceDate"), Str(g.goodDate()))
		doc.Set("ISSUANCEDATE", Str(g.goodDate()))
		return "duplicate-date-member"
	default:
		return "none"
	}
}

func (d *drv) oddifyDID(g *gen, doc *Node) string {
	set := func(k string, v *Node) {
		doc.Del(k)
		doc.Set(k, v)
	}
	switch g.rng.Intn(10) {
	case 0:
		set("authentication", Arr(g.pick2(Null(), Num("1"), Arr(), Bool(true))))
		return "auth-entry-wrong-type"
	case 1:
		set("authentication", Arr(Str(""), Str("did:example:123#k")))
		return "auth-empty-reference"
	case 2:
		set(g.pick("service", "keyAgreement", "verificationMethod", "authentication", "assertionMethod"), g.pick2(Arr(), Null()))
		return "empty-or-null-list"
	case 3:
		set("id", g.pick2(Num("1"), Null(), Obj()))
		return "id-wrong-type"
	case 4:
		m := g.method()
		m.Del("global")
		gi := g.gistInfo()
		gi.Del("proof")
		gi.Set("proof", g.pick2(Str("x"), Obj().Set("type", Str("T")), Obj().Set("existence", Bool(true)).Set("siblings", Arr(Str("bad"))), Null(), Obj().Set("existence", Bool(false)).Set("siblings", Arr()).Set("type", Num("1")),
			Obj().Set("existence", Bool(true)).Set("siblings", Arr(Null())).Set("type", Str("T")), g.manySiblings(241).Set("type", Str("T"))))
		m.Set("global", gi)
		set("verificationMethod", Arr(m))
		return "gist-proof-shape"
	case 5:
		m := g.method()
		m.Del("published")
		m.Set("published", g.pick2(Str("true"), Num("1"), Null()))
		set("authentication", Arr(m))
		return "published-wrong-type"
	case 6:
		doc.Del("@context")
		return "context-absent"
	case 7:
		m := g.method()
		m.Set("unknownMember", Obj().Set("a", Num("1")))
		m.Set("Controller", Str("did:example:other"))
		set("verificationMethod", Arr(m))
		return "method-unknown-and-duplicate-members"
	case 8:
		set("verificationMethod", g.pick2(Obj(), Str("x"), Arr(Null()), Arr(Str("s"))))
		return "methods-wrong-type"
	default:
		set("service", Arr(Num("1.0"), Str("s"), Null(), Obj().Set("b", Num("1e2")).Set("a", Null())))
		return "service-any"
	}
}
