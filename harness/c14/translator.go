// Translator "structs" (property C14): go/parser over <repo>/verifiable/*.go.
// Extracts, for the structs that take part in the credential / DID document
// JSON codec, the list of field descriptors encoding/json derives from them
// (go name, json key, omitempty, kind), the anonymous wire structs of the three
// hand-written proof decoders, the call sequence of W3CCredential.Merklize with
// the keys it deletes, the extractProof dispatch table and the set of types with
// hand-written JSON methods.  Output: coq/Generated/Structs.v.
//
// It ABORTS (error -> non-zero exit of the TRANSLATE step) on tag syntax, tag
// options, field types or codec methods it does not know: the Coq model is only
// meaningful for the constructs enumerated here.
package c14

import (
	"fmt"
	"go/ast"
	"go/parser"
	"go/token"
	"os"
	"path/filepath"
	"sort"
	"strconv"
	"strings"

	"vharness/common"
)

func init() { common.RegisterTranslator("structs", Translate) }

// structs whose descriptors are emitted, in this order (dependencies first is NOT
// required: nested descriptors are referenced by name and emitted topologically).
var wantStructs = []string{
	"CredentialSchema", "CredentialStatus", "RefreshService", "DisplayMethod",
	"State", "IssuerData",
	"BJJSignatureProof2021", "Iden3SparseMerkleProof", "Iden3SparseMerkleTreeProof",
	"W3CCredential",
	"Service", "StateInfo", "GistInfo", "IdentityState", "CommonVerificationMethod", "DIDDocument",
}

// proof structs with a hand-written UnmarshalJSON that decodes into `var obj struct{...}`
var wireStructs = []string{"BJJSignatureProof2021", "Iden3SparseMerkleProof", "Iden3SparseMerkleTreeProof"}

// types that are allowed to carry JSON methods (name -> "M", "U" or "MU"); every
// one of them is modelled by hand in coq/Codec/Model.v.
var expectedCustom = map[string]string{
	"CredentialProofs":           "U",
	"CommonProof":                "U",
	"BJJSignatureProof2021":      "U",
	"Iden3SparseMerkleProof":     "U",
	"Iden3SparseMerkleTreeProof": "U",
	"Authentication":             "MU",
	"GistInfoProof":              "MU",
	// generic struct decode with the mtp member taken as json.RawMessage and passed
	// through decodeMTP (checked by checkGuardedStruct)
	"IssuerData": "U",
}

type tr struct {
	fset    *token.FileSet
	types   map[string]*ast.TypeSpec
	methods map[string]map[string]*ast.FuncDecl // receiver type -> method name -> decl
	funcs   map[string]*ast.FuncDecl
	consts  map[string]string           // string constants
	imports map[string]map[string]string // file -> local name -> import path
	fileOf  map[ast.Node]string
	emitted map[string]bool
	order   []string
	descs   map[string][]field
	guarded []string
}

type field struct {
	goName, key string
	omit        bool
	kind        string // Coq term
}

func (t *tr) pos(n ast.Node) string { return t.fset.Position(n.Pos()).String() }

func Translate(outDir string) error {
	dir := filepath.Join(common.RepoDir(), "verifiable")
	t := &tr{fset: token.NewFileSet(), types: map[string]*ast.TypeSpec{}, methods: map[string]map[string]*ast.FuncDecl{},
		funcs: map[string]*ast.FuncDecl{}, consts: map[string]string{}, imports: map[string]map[string]string{},
		fileOf: map[ast.Node]string{}, emitted: map[string]bool{}, descs: map[string][]field{}}
	ents, err := os.ReadDir(dir)
	if err != nil {
		return err
	}
	n := 0
	for _, e := range ents {
		name := e.Name()
		if e.IsDir() || !strings.HasSuffix(name, ".go") || strings.HasSuffix(name, "_test.go") || strings.HasPrefix(name, "verif_hooks") {
			continue
		}
		f, err := parser.ParseFile(t.fset, filepath.Join(dir, name), nil, parser.SkipObjectResolution)
		if err != nil {
			return err
		}
		n++
		imps := map[string]string{}
		for _, im := range f.Imports {
			p, _ := strconv.Unquote(im.Path.Value)
			local := filepath.Base(p)
			if strings.HasPrefix(local, "v") && len(local) <= 3 { // .../v2
				local = filepath.Base(filepath.Dir(p))
			}
			if strings.Contains(p, "github.com/iden3/go-merkletree-sql") {
				local = "merkletree"
			}
			if im.Name != nil {
				local = im.Name.Name
			}
			imps[local] = p
		}
		t.imports[name] = imps
		for _, d := range f.Decls {
			switch d := d.(type) {
			case *ast.GenDecl:
				for _, s := range d.Specs {
					switch s := s.(type) {
					case *ast.TypeSpec:
						t.types[s.Name.Name] = s
						t.fileOf[s] = name
					case *ast.ValueSpec:
						if d.Tok == token.CONST {
							for i, id := range s.Names {
								if i < len(s.Values) {
									if bl, ok := s.Values[i].(*ast.BasicLit); ok && bl.Kind == token.STRING {
										v, _ := strconv.Unquote(bl.Value)
										t.consts[id.Name] = v
									}
								}
							}
						}
					}
				}
			case *ast.FuncDecl:
				t.fileOf[d] = name
				if d.Recv == nil {
					t.funcs[d.Name.Name] = d
					continue
				}
				rt := d.Recv.List[0].Type
				if st, ok := rt.(*ast.StarExpr); ok {
					rt = st.X
				}
				if id, ok := rt.(*ast.Ident); ok {
					if t.methods[id.Name] == nil {
						t.methods[id.Name] = map[string]*ast.FuncDecl{}
					}
					t.methods[id.Name][d.Name.Name] = d
				}
			}
		}
	}
	if n == 0 {
		return fmt.Errorf("no Go files in %s", dir)
	}

	// 1. types with JSON/Text codec methods must be exactly the modelled ones
	var customLines []string
	var cnames []string
	for ty, ms := range t.methods {
		sig := ""
		if ms["MarshalJSON"] != nil {
			sig += "M"
		}
		if ms["UnmarshalJSON"] != nil {
			sig += "U"
		}
		if ms["MarshalText"] != nil || ms["UnmarshalText"] != nil {
			return fmt.Errorf("type %s has Marshal/UnmarshalText: not modelled", ty)
		}
		if sig == "" {
			continue
		}
		cnames = append(cnames, ty)
		if _, ok := expectedCustom[ty]; !ok && t.reachable(ty) {
			return fmt.Errorf("type %s has JSON methods %q and is used by an extracted struct: not modelled", ty, sig)
		}
	}
	sort.Strings(cnames)
	for _, ty := range cnames {
		ms := t.methods[ty]
		customLines = append(customLines, fmt.Sprintf("(%s, %s, %s)", coqStr(ty), coqBool(ms["MarshalJSON"] != nil), coqBool(ms["UnmarshalJSON"] != nil)))
	}
	for ty, want := range expectedCustom {
		ms := t.methods[ty]
		sig := ""
		if ms != nil && ms["MarshalJSON"] != nil {
			sig += "M"
		}
		if ms != nil && ms["UnmarshalJSON"] != nil {
			sig += "U"
		}
		if sig != want {
			return fmt.Errorf("type %s: JSON methods %q, the model expects %q", ty, sig, want)
		}
	}

	var out strings.Builder
	out.WriteString("(* GENERATED on every run by harness/c14/translator.go from verifiable/*.go -- do not edit. *)\n")
	out.WriteString("From Coq Require Import String List.\nFrom GSP Require Import Codec.Desc.\nImport ListNotations.\nOpen Scope string_scope.\nOpen Scope list_scope.\n\n")

	// 2. struct descriptors
	for _, s := range wantStructs {
		if err := t.emitStruct(s, nil); err != nil {
			return err
		}
	}
	for _, s := range t.order {
		out.WriteString(renderDesc("d_"+s, t.descs[s]))
	}
	var reg []string
	for _, s := range wantStructs {
		reg = append(reg, fmt.Sprintf("(%s, d_%s)", coqStr(s), s))
	}
	out.WriteString("Definition structs : list (string * list fdesc) :=\n  [" + strings.Join(reg, ";\n   ") + "].\n\n")

	// 3. wire structs of the hand-written proof decoders
	for _, s := range wireStructs {
		fs, cmp, err := t.wireStruct(s)
		if err != nil {
			return err
		}
		out.WriteString(renderDesc("w_"+s, fs))
		out.WriteString(fmt.Sprintf("Definition w_%s_type_const : string := %s.\n\n", s, coqStr(cmp)))
		// a raw mtp member must go through decodeMTP
		for _, f := range fs {
			if f.key == "mtp" && f.kind == "KRaw" && !t.callsDecodeMTP(s) {
				return fmt.Errorf("%s.UnmarshalJSON takes mtp as json.RawMessage but does not call decodeMTP", s)
			}
		}
	}
	if t.funcs["decodeMTP"] == nil {
		return fmt.Errorf("decodeMTP not found")
	}
	if !t.callsDecodeMTP("GistInfoProof") {
		return fmt.Errorf("GistInfoProof.UnmarshalJSON does not call decodeMTP: not the modelled codec")
	}
	out.WriteString("(* structs decoded by reflection except for the listed members, which go through decodeMTP *)\n")
	out.WriteString("Definition guarded_structs : list (string * list string) :=\n  [" + strings.Join(t.guarded, ";\n   ") + "].\n\n")

	// 4. Merklize
	calls, deleted, err := t.merklize()
	if err != nil {
		return err
	}
	out.WriteString("Definition merklize_calls : list string := " + coqStrList(calls) + ".\n")
	out.WriteString("Definition merklize_deleted : list string := " + coqStrList(deleted) + ".\n\n")

	// 5. extractProof dispatch
	disp, err := t.dispatch()
	if err != nil {
		return err
	}
	out.WriteString("(* (value of the \"type\" member, Go struct decoded into); \"\" = default branch *)\n")
	out.WriteString("Definition proof_dispatch : list (string * string) :=\n  [" + strings.Join(disp, ";\n   ") + "].\n\n")
	out.WriteString("(* types of the package with hand-written JSON methods: (name, MarshalJSON, UnmarshalJSON) *)\n")
	out.WriteString("Definition custom_codecs : list (string * bool * bool) :=\n  [" + strings.Join(customLines, ";\n   ") + "].\n")

	if err := os.MkdirAll(outDir, 0o755); err != nil {
		return err
	}
	return common.WriteIfChanged(filepath.Join(outDir, "Structs.v"), []byte(out.String()))
}

func coqStr(s string) string {
	for i := 0; i < len(s); i++ {
		if s[i] < 0x20 || s[i] > 0x7e {
			panic("non-printable string in translator output: " + strconv.Quote(s))
		}
	}
	return `"` + strings.ReplaceAll(s, `"`, `""`) + `"`
}
func coqBool(b bool) string {
	if b {
		return "true"
	}
	return "false"
}
func coqStrList(l []string) string {
	var q []string
	for _, s := range l {
		q = append(q, coqStr(s))
	}
	return "[" + strings.Join(q, "; ") + "]"
}

func renderDesc(name string, fs []field) string {
	var ls []string
	for _, f := range fs {
		ls = append(ls, fmt.Sprintf("FD %s %s %s %s", coqStr(f.goName), coqStr(f.key), coqBool(f.omit), f.kind))
	}
	return fmt.Sprintf("Definition %s : list fdesc :=\n  [%s].\n\n", name, strings.Join(ls, ";\n   "))
}

// reachable: is ty mentioned (syntactically) by one of the wanted structs?
func (t *tr) reachable(ty string) bool {
	seen := map[string]bool{}
	var walk func(name string) bool
	walk = func(name string) bool {
		if name == ty {
			return true
		}
		if seen[name] {
			return false
		}
		seen[name] = true
		ts := t.types[name]
		if ts == nil {
			return false
		}
		found := false
		ast.Inspect(ts.Type, func(n ast.Node) bool {
			if id, ok := n.(*ast.Ident); ok && !found && t.types[id.Name] != nil {
				if walk(id.Name) {
					found = true
				}
			}
			return !found
		})
		return found
	}
	for _, s := range wantStructs {
		if walk(s) {
			return true
		}
	}
	return false
}

func (t *tr) hasCodec(name string) bool {
	ms := t.methods[name]
	return ms != nil && (ms["MarshalJSON"] != nil || ms["UnmarshalJSON"] != nil)
}

func (t *tr) emitStruct(name string, stack []string) error {
	if t.emitted[name] {
		return nil
	}
	ts := t.types[name]
	if ts == nil {
		return fmt.Errorf("struct %s not found in verifiable/", name)
	}
	st, ok := ts.Type.(*ast.StructType)
	if !ok {
		return fmt.Errorf("%s: %s is not a struct type", t.pos(ts), name)
	}
	if ms := t.methods[name]; ms != nil && ms["MarshalJSON"] != nil {
		return fmt.Errorf("%s has MarshalJSON: its encoding is not the reflection encoding", name)
	}
	fs, err := t.fields(st, t.fileOf[ts], append(stack, name), false)
	if err != nil {
		return err
	}
	// encoding/json drops fields with conflicting names at the same depth; refuse instead
	seen := map[string]string{}
	for _, f := range fs {
		k := strings.ToLower(f.key)
		if prev, dup := seen[k]; dup {
			return fmt.Errorf("%s: fields %s and %s have JSON keys equal up to case (%q)", name, prev, f.goName, f.key)
		}
		seen[k] = f.goName
	}
	t.descs[name] = fs
	t.emitted[name] = true
	t.order = append(t.order, name)
	return nil
}

// parseTag implements reflect.StructTag.Get("json") strictly: the whole tag must
// be a sequence of key:"value" pairs.
func parseTag(raw string) (jsonTag string, has bool, err error) {
	tag := raw
	for tag != "" {
		i := 0
		for i < len(tag) && tag[i] == ' ' {
			i++
		}
		tag = tag[i:]
		if tag == "" {
			break
		}
		i = 0
		for i < len(tag) && tag[i] > ' ' && tag[i] != ':' && tag[i] != '"' && tag[i] != 0x7f {
			i++
		}
		if i == 0 || i+1 >= len(tag) || tag[i] != ':' || tag[i+1] != '"' {
			return "", false, fmt.Errorf("malformed struct tag %q", raw)
		}
		name := tag[:i]
		tag = tag[i+1:]
		i = 1
		for i < len(tag) && tag[i] != '"' {
			if tag[i] == '\\' {
				i++
			}
			i++
		}
		if i >= len(tag) {
			return "", false, fmt.Errorf("malformed struct tag %q", raw)
		}
		qv := tag[:i+1]
		tag = tag[i+1:]
		v, uerr := strconv.Unquote(qv)
		if uerr != nil {
			return "", false, fmt.Errorf("malformed struct tag value in %q", raw)
		}
		if name == "json" {
			if has {
				return "", false, fmt.Errorf("two json keys in tag %q", raw)
			}
			jsonTag, has = v, true
		}
	}
	return jsonTag, has, nil
}

func validKey(s string) bool {
	if s == "" {
		return false
	}
	for _, c := range s {
		switch {
		case strings.ContainsRune("!#$%&()*+-./:;<=>?@[]^_{|}~ ", c):
		case c >= '0' && c <= '9', c >= 'a' && c <= 'z', c >= 'A' && c <= 'Z':
		default:
			return false
		}
	}
	return true
}

func (t *tr) fields(st *ast.StructType, file string, stack []string, wire bool) ([]field, error) {
	var out []field
	for _, f := range st.Fields.List {
		raw := ""
		if f.Tag != nil {
			var err error
			raw, err = strconv.Unquote(f.Tag.Value)
			if err != nil {
				return nil, fmt.Errorf("%s: bad tag literal", t.pos(f))
			}
		}
		jt, has, err := parseTag(raw)
		if err != nil {
			return nil, fmt.Errorf("%s: %v", t.pos(f), err)
		}
		key, omit := "", false
		if has {
			parts := strings.Split(jt, ",")
			key = parts[0]
			for _, o := range parts[1:] {
				switch o {
				case "omitempty":
					omit = true
				default:
					return nil, fmt.Errorf("%s: json tag option %q is not modelled", t.pos(f), o)
				}
			}
			if key == "-" {
				return nil, fmt.Errorf("%s: json:\"-\" is not modelled", t.pos(f))
			}
			if key != "" && !validKey(key) {
				return nil, fmt.Errorf("%s: json key %q is not a valid tag name for encoding/json", t.pos(f), key)
			}
		}
		if len(f.Names) == 0 {
			// embedded field
			id, ok := f.Type.(*ast.Ident)
			if !ok {
				return nil, fmt.Errorf("%s: embedded field of this form is not modelled", t.pos(f))
			}
			if has && key != "" {
				return nil, fmt.Errorf("%s: tagged embedded struct is not modelled", t.pos(f))
			}
			ets := t.types[id.Name]
			if ets == nil {
				return nil, fmt.Errorf("%s: embedded type %s not found", t.pos(f), id.Name)
			}
			est, ok := ets.Type.(*ast.StructType)
			if !ok || t.hasCodec(id.Name) {
				return nil, fmt.Errorf("%s: embedded type %s is not a plain struct", t.pos(f), id.Name)
			}
			// promoted fields (encoding/json flattens untagged embedded structs)
			sub, err := t.fields(est, t.fileOf[ets], append(stack, id.Name), wire)
			if err != nil {
				return nil, err
			}
			for _, s := range sub {
				s.goName = id.Name + "." + s.goName
				out = append(out, s)
			}
			continue
		}
		for _, nm := range f.Names {
			if !nm.IsExported() {
				continue // invisible to encoding/json
			}
			k := key
			if k == "" {
				k = nm.Name
			}
			kind, err := t.kindOf(f.Type, file, stack, wire)
			if err != nil {
				return nil, fmt.Errorf("%s: field %s: %v", t.pos(f), nm.Name, err)
			}
			out = append(out, field{goName: nm.Name, key: k, omit: omit, kind: kind})
		}
	}
	return out, nil
}

func (t *tr) isPkg(file, local, wantSuffix string) bool {
	p := t.imports[file][local]
	return p != "" && (p == wantSuffix || strings.HasSuffix(p, "/"+wantSuffix) || strings.Contains(p, wantSuffix))
}

func isEmptyInterface(e ast.Expr) bool {
	switch x := e.(type) {
	case *ast.InterfaceType:
		return x.Methods == nil || len(x.Methods.List) == 0
	case *ast.Ident:
		return x.Name == "any"
	}
	return false
}

func inStack(stack []string, n string) bool {
	for _, s := range stack {
		if s == n {
			return true
		}
	}
	return false
}

// namedKind resolves an identifier used as a (non-pointer) field type.
func (t *tr) namedKind(name, file string, stack []string, ptr bool) (string, error) {
	switch name {
	case "string":
		if ptr {
			return "KPtrString", nil
		}
		return "KString", nil
	case "int":
		if ptr {
			return "KPtrInt", nil
		}
	case "bool":
		if ptr {
			return "KPtrBool", nil
		}
	case "uint64":
		if !ptr {
			return "KUint64", nil
		}
	}
	ts := t.types[name]
	if ts == nil {
		return "", fmt.Errorf("type %s (pointer=%v) is not modelled", name, ptr)
	}
	if ts.Assign.IsValid() {
		return "", fmt.Errorf("alias type %s is not modelled here", name)
	}
	switch ut := ts.Type.(type) {
	case *ast.Ident:
		if ut.Name == "string" && !ptr && !t.hasCodec(name) {
			return "KString", nil // named string type
		}
	case *ast.StructType:
		if t.hasCodec(name) {
			if name == "GistInfoProof" && ptr {
				return "(KCustom CuPtrGistInfoProof)", nil
			}
			if name == "IssuerData" && !ptr {
				// decoded field by field like a plain struct; only "mtp" goes through decodeMTP
				if err := t.checkGuardedStruct(name); err != nil {
					return "", err
				}
				if err := t.emitStruct(name, stack); err != nil {
					return "", err
				}
				return "(KStruct d_" + name + ")", nil
			}
			return "", fmt.Errorf("struct %s with JSON methods in this position is not modelled", name)
		}
		if inStack(stack, name) {
			if ptr {
				return "(KRec " + coqStr(name) + ")", nil
			}
			return "", fmt.Errorf("recursive struct value %s", name)
		}
		if err := t.emitStruct(name, stack); err != nil {
			return "", err
		}
		if ptr {
			return "(KPtrStruct d_" + name + ")", nil
		}
		return "(KStruct d_" + name + ")", nil
	case *ast.ArrayType:
		if name == "CredentialProofs" && !ptr && ut.Len == nil {
			if id, ok := ut.Elt.(*ast.Ident); ok && id.Name == "CredentialProof" {
				return "(KCustom CuCredentialProofs)", nil
			}
		}
	}
	return "", fmt.Errorf("type %s (pointer=%v) is not modelled", name, ptr)
}

func (t *tr) kindOf(e ast.Expr, file string, stack []string, wire bool) (string, error) {
	if isEmptyInterface(e) {
		return "KAny", nil
	}
	switch x := e.(type) {
	case *ast.Ident:
		return t.namedKind(x.Name, file, stack, false)
	case *ast.SelectorExpr:
		if p, ok := x.X.(*ast.Ident); ok && wire && x.Sel.Name == "RawMessage" && t.imports[file][p.Name] == "encoding/json" {
			return "KRaw", nil
		}
	case *ast.StarExpr:
		switch y := x.X.(type) {
		case *ast.Ident:
			return t.namedKind(y.Name, file, stack, true)
		case *ast.SelectorExpr:
			if p, ok := y.X.(*ast.Ident); ok {
				if y.Sel.Name == "Time" && t.imports[file][p.Name] == "time" {
					return "KPtrTime", nil
				}
				if y.Sel.Name == "Proof" && strings.Contains(t.imports[file][p.Name], "github.com/iden3/go-merkletree-sql") {
					return "(KCustom CuPtrMtProof)", nil
				}
			}
		}
	case *ast.ArrayType:
		if x.Len != nil {
			return "", fmt.Errorf("array types are not modelled")
		}
		if isEmptyInterface(x.Elt) {
			return "KSliceAny", nil
		}
		if id, ok := x.Elt.(*ast.Ident); ok {
			if id.Name == "string" {
				return "KSliceString", nil
			}
			if id.Name == "Authentication" && t.hasCodec("Authentication") {
				// the hand model decodes embedded methods with d_CommonVerificationMethod
				if err := t.emitStruct("CommonVerificationMethod", stack); err != nil {
					return "", err
				}
				if err := t.checkAuthentication(); err != nil {
					return "", err
				}
				return "(KCustom CuSliceAuthentication)", nil
			}
			if ts := t.types[id.Name]; ts != nil {
				if _, ok := ts.Type.(*ast.StructType); ok && !t.hasCodec(id.Name) && !inStack(stack, id.Name) {
					if err := t.emitStruct(id.Name, stack); err != nil {
						return "", err
					}
					return "(KSliceStruct d_" + id.Name + ")", nil
				}
			}
		}
	case *ast.MapType:
		if k, ok := x.Key.(*ast.Ident); ok && k.Name == "string" && isEmptyInterface(x.Value) {
			return "KMapAny", nil
		}
	}
	return "", fmt.Errorf("field type at %s is not modelled", t.pos(e))
}

// Authentication must be exactly: embedded CommonVerificationMethod + unexported string did.
func (t *tr) checkAuthentication() error {
	ts := t.types["Authentication"]
	st, ok := ts.Type.(*ast.StructType)
	if !ok || len(st.Fields.List) != 2 {
		return fmt.Errorf("Authentication: unexpected shape")
	}
	a, b := st.Fields.List[0], st.Fields.List[1]
	if id, ok := a.Type.(*ast.Ident); !ok || len(a.Names) != 0 || id.Name != "CommonVerificationMethod" || a.Tag != nil {
		return fmt.Errorf("Authentication: first field must be the embedded CommonVerificationMethod")
	}
	if id, ok := b.Type.(*ast.Ident); !ok || len(b.Names) != 1 || b.Names[0].Name != "did" || id.Name != "string" {
		return fmt.Errorf("Authentication: second field must be `did string`")
	}
	return nil
}

// checkGuardedStruct: (*S).UnmarshalJSON must be `obj := struct{ *alias; MTP json.RawMessage
// `json:"mtp,omitempty"` }{alias: (*alias)(id)}; json.Unmarshal(in, &obj); decodeMTP(obj.MTP)`:
// every member is decoded by reflection into the struct itself, except the members
// listed here, which are taken raw and decoded by decodeMTP.
func (t *tr) checkGuardedStruct(name string) error {
	fd := t.methods[name]["UnmarshalJSON"]
	if fd == nil {
		return fmt.Errorf("%s.UnmarshalJSON not found", name)
	}
	file := t.fileOf[fd]
	var st *ast.StructType
	alias := ""
	calls := []string{}
	ast.Inspect(fd.Body, func(n ast.Node) bool {
		switch x := n.(type) {
		case *ast.TypeSpec:
			if id, ok := x.Type.(*ast.Ident); ok && id.Name == name {
				alias = x.Name.Name
			}
		case *ast.CompositeLit:
			if s, ok := x.Type.(*ast.StructType); ok && st == nil {
				st = s
			}
		case *ast.CallExpr:
			if _, conv := x.Fun.(*ast.ParenExpr); !conv { // (*alias)(id) is a conversion
				calls = append(calls, callName(x))
			}
		}
		return true
	})
	if st == nil || alias == "" {
		return fmt.Errorf("%s.UnmarshalJSON: expected the alias-embedding form", name)
	}
	var raw []string
	embedded := false
	for _, f := range st.Fields.List {
		if len(f.Names) == 0 {
			se, ok := f.Type.(*ast.StarExpr)
			if !ok {
				return fmt.Errorf("%s.UnmarshalJSON: embedded field must be a pointer to the alias", name)
			}
			if id, ok := se.X.(*ast.Ident); !ok || id.Name != alias || f.Tag != nil {
				return fmt.Errorf("%s.UnmarshalJSON: embedded field must be *%s without tag", name, alias)
			}
			embedded = true
			continue
		}
		sel, ok := f.Type.(*ast.SelectorExpr)
		p, ok2 := sel.X.(*ast.Ident)
		if !ok || !ok2 || sel.Sel.Name != "RawMessage" || t.imports[file][p.Name] != "encoding/json" || f.Tag == nil {
			return fmt.Errorf("%s.UnmarshalJSON: shadowing field of unknown type", name)
		}
		rawTag, _ := strconv.Unquote(f.Tag.Value)
		jt, has, err := parseTag(rawTag)
		if err != nil || !has {
			return fmt.Errorf("%s.UnmarshalJSON: bad tag on shadowing field", name)
		}
		raw = append(raw, strings.Split(jt, ",")[0])
	}
	if !embedded || len(raw) != 1 || raw[0] != "mtp" {
		return fmt.Errorf("%s.UnmarshalJSON: raw members %v, the model knows [mtp]", name, raw)
	}
	want := []string{"json.Unmarshal", "decodeMTP"}
	if strings.Join(calls, ",") != strings.Join(want, ",") {
		return fmt.Errorf("%s.UnmarshalJSON: calls %v, the model knows %v", name, calls, want)
	}
	entry := fmt.Sprintf("(%s, %s)", coqStr(name), coqStrList(raw))
	for _, g := range t.guarded {
		if g == entry {
			return nil
		}
	}
	t.guarded = append(t.guarded, entry)
	return nil
}

// callsDecodeMTP: does (*S).UnmarshalJSON pass obj.MTP to decodeMTP?
func (t *tr) callsDecodeMTP(name string) bool {
	fd := t.methods[name]["UnmarshalJSON"]
	found := false
	if fd != nil {
		ast.Inspect(fd.Body, func(n ast.Node) bool {
			if c, ok := n.(*ast.CallExpr); ok && callName(c) == "decodeMTP" {
				found = true
			}
			return true
		})
	}
	return found
}

// wireStruct finds `var obj struct{...}` in (*S).UnmarshalJSON and the constant the
// decoded type is compared with.
func (t *tr) wireStruct(name string) ([]field, string, error) {
	fd := t.methods[name]["UnmarshalJSON"]
	if fd == nil {
		return nil, "", fmt.Errorf("%s.UnmarshalJSON not found", name)
	}
	var st *ast.StructType
	cmp := ""
	ast.Inspect(fd.Body, func(n ast.Node) bool {
		switch x := n.(type) {
		case *ast.ValueSpec:
			if s, ok := x.Type.(*ast.StructType); ok && len(x.Names) == 1 && x.Names[0].Name == "obj" && st == nil {
				st = s
			}
		case *ast.BinaryExpr:
			if x.Op == token.NEQ {
				if sel, ok := x.X.(*ast.SelectorExpr); ok && sel.Sel.Name == "Type" {
					if id, ok := x.Y.(*ast.Ident); ok {
						if v, ok := t.consts[id.Name]; ok {
							cmp = v
						}
					}
				}
			}
		}
		return true
	})
	if st == nil {
		return nil, "", fmt.Errorf("%s.UnmarshalJSON: no `var obj struct{...}`", name)
	}
	if cmp == "" {
		return nil, "", fmt.Errorf("%s.UnmarshalJSON: no `obj.Type != <const>` check", name)
	}
	fs, err := t.fields(st, t.fileOf[fd], []string{name + ".wire"}, true)
	return fs, cmp, err
}

func callName(c *ast.CallExpr) string {
	switch f := c.Fun.(type) {
	case *ast.Ident:
		return f.Name
	case *ast.SelectorExpr:
		if p, ok := f.X.(*ast.Ident); ok {
			return p.Name + "." + f.Sel.Name
		}
		return "?." + f.Sel.Name
	}
	return "?"
}

// merklize returns the calls made by (*W3CCredential).Merklize in source order and
// the literal keys it deletes from the generic map.
func (t *tr) merklize() ([]string, []string, error) {
	fd := t.methods["W3CCredential"]["Merklize"]
	if fd == nil {
		return nil, nil, fmt.Errorf("W3CCredential.Merklize not found")
	}
	var calls, deleted []string
	var err error
	ast.Inspect(fd.Body, func(n ast.Node) bool {
		c, ok := n.(*ast.CallExpr)
		if !ok {
			return true
		}
		nm := callName(c)
		if nm == "delete" {
			if len(c.Args) != 2 {
				err = fmt.Errorf("%s: delete with %d args", t.pos(c), len(c.Args))
				return false
			}
			bl, ok := c.Args[1].(*ast.BasicLit)
			if !ok || bl.Kind != token.STRING {
				err = fmt.Errorf("%s: Merklize deletes a non-literal key: not modelled", t.pos(c))
				return false
			}
			k, _ := strconv.Unquote(bl.Value)
			deleted = append(deleted, k)
			nm = "delete:" + k
		}
		calls = append(calls, nm)
		return true
	})
	// any assignment into / other mutation of the map would also change the document
	ast.Inspect(fd.Body, func(n ast.Node) bool {
		if as, ok := n.(*ast.AssignStmt); ok {
			for _, l := range as.Lhs {
				if _, ok := l.(*ast.IndexExpr); ok {
					err = fmt.Errorf("%s: Merklize assigns into an indexed value: not modelled", t.pos(as))
				}
			}
		}
		return true
	})
	return calls, deleted, err
}

// dispatch reads the switch in extractProof.
func (t *tr) dispatch() ([]string, error) {
	fd := t.funcs["extractProof"]
	if fd == nil {
		return nil, fmt.Errorf("extractProof not found")
	}
	var sw *ast.SwitchStmt
	ast.Inspect(fd.Body, func(n ast.Node) bool {
		if s, ok := n.(*ast.SwitchStmt); ok && sw == nil {
			sw = s
		}
		return true
	})
	if sw == nil {
		return nil, fmt.Errorf("extractProof: no switch")
	}
	var out []string
	for _, s := range sw.Body.List {
		cc := s.(*ast.CaseClause)
		target := ""
		ast.Inspect(cc, func(n ast.Node) bool {
			if vs, ok := n.(*ast.ValueSpec); ok && target == "" {
				if id, ok := vs.Type.(*ast.Ident); ok {
					target = id.Name
				}
			}
			return true
		})
		if target == "" {
			return nil, fmt.Errorf("%s: case without `var proof T`", t.pos(cc))
		}
		if cc.List == nil {
			out = append(out, fmt.Sprintf("(%s, %s)", coqStr(""), coqStr(target)))
			continue
		}
		for _, e := range cc.List {
			id, ok := e.(*ast.Ident)
			if !ok {
				return nil, fmt.Errorf("%s: case expression is not a constant name", t.pos(e))
			}
			v, ok := t.consts[id.Name]
			if !ok {
				return nil, fmt.Errorf("%s: constant %s not found", t.pos(e), id.Name)
			}
			out = append(out, fmt.Sprintf("(%s, %s)", coqStr(v), coqStr(target)))
		}
	}
	return out, nil
}
