package c14

// Generators of credential documents, proofs and DID documents (all randomness
// from the driver's PRNG).

import (
	"encoding/hex"
	"fmt"
	"math/big"
	"math/rand"
	"strings"

	core "github.com/iden3/go-iden3-core/v2"
	"github.com/iden3/go-iden3-crypto/babyjub"
	"github.com/iden3/go-iden3-crypto/constants"

	"vharness/ctxload"
)

const ctxURL = "https://example.com/c14/context.jsonld"

const ctxDoc = `{"@context": {
  "@version": 1.1, "@protected": true, "id": "@id", "type": "@type",
  "c14": "urn:c14:vocab#", "xsd": "http://www.w3.org/2001/XMLSchema#",
  "C14Credential": {"@id": "c14:C14Credential"},
  "C14Subject": {"@id": "c14:C14Subject", "@context": {"@version": 1.1, "@protected": true, "id": "@id", "type": "@type",
      "name": {"@id": "c14:name", "@type": "xsd:string"},
      "age": {"@id": "c14:age", "@type": "xsd:integer"},
      "score": {"@id": "c14:score", "@type": "xsd:double"},
      "active": {"@id": "c14:active", "@type": "xsd:boolean"},
      "born": {"@id": "c14:born", "@type": "xsd:dateTime"},
      "big": {"@id": "c14:big", "@type": "xsd:positiveInteger"},
      "plain": {"@id": "c14:plain"},
      "tags": {"@id": "c14:tags", "@type": "xsd:string"},
      "nums": {"@id": "c14:nums", "@type": "xsd:integer"},
      "address": {"@id": "c14:address", "@context": {
          "street": {"@id": "c14:street", "@type": "xsd:string"},
          "zip": {"@id": "c14:zip", "@type": "xsd:integer"},
          "geo": {"@id": "c14:geo", "@context": {
              "lat": {"@id": "c14:lat", "@type": "xsd:double"},
              "lon": {"@id": "c14:lon", "@type": "xsd:double"}}}}},
      "items": {"@id": "c14:items", "@context": {
          "sku": {"@id": "c14:sku", "@type": "xsd:string"},
          "qty": {"@id": "c14:qty", "@type": "xsd:integer"}}}
  }},
  "C14Status": {"@id": "c14:C14Status", "@context": {"@version": 1.1, "@protected": true, "id": "@id", "type": "@type",
      "revocationNonce": {"@id": "c14:revocationNonce", "@type": "xsd:integer"},
      "statusIssuer": {"@id": "c14:statusIssuer"}}},
  "C14Refresh": {"@id": "c14:C14Refresh"},
  "C14Display": {"@id": "c14:C14Display"},
  "displayMethod": {"@id": "c14:displayMethod", "@type": "@id"}
}}`

type gen struct {
	rng  *rand.Rand
	feat map[string]bool // features of the document being generated
	n    int
}

// uniq makes IRIs distinct within a document (a node referenced from two places
// is rejected by the merklizer: "multiple parents found")
func (g *gen) uniq(s string) string {
	g.n++
	return fmt.Sprintf("%s%d", s, g.n)
}

func (g *gen) coin(p float64) bool { return g.rng.Float64() < p }
func (g *gen) pick(xs ...string) string {
	return xs[g.rng.Intn(len(xs))]
}
func (g *gen) mark(f string) { g.feat[f] = true }

func (g *gen) word() string {
	return g.pick("alpha", "beta", "gamma", "delta", "eps", "zeta", "eta", "theta", "Iota K", "lam\"bda", "mu\\nu", "x", "ünï", "日本")
}

// date spellings inside the supported shape (RFC 3339, zone hour < 24)
func (g *gen) goodDate() string {
	date := g.pick("2024-03-05", "2024-02-29", "1999-12-31", "2038-01-19", "0000-01-01", "9999-12-31", "1970-01-01", "2023-06-30")
	tm := g.pick("10:20:30", "00:00:00", "23:59:59", "03:14:07", "12:00:00")
	frac := g.pick("", "", "", ".5", ".500", ".000", ".123456789", ".1234567891", ".000000001", ".120", ".999999999")
	zone := g.pick("Z", "Z", "+00:00", "-00:00", "+05:30", "-08:00", "+23:59", "-23:59", "+01:00", "+14:00")
	if frac != "" {
		g.mark("date-fraction")
	}
	if zone != "Z" {
		g.mark("date-offset")
	}
	return date + "T" + tm + frac + zone
}

// spellings accepted only by the lenient fallback parser, or rejected, or whose
// re-encoding fails (zone hour 24)
func (g *gen) oddDate() *Node {
	switch g.rng.Intn(14) {
	case 0:
		return Str("2024-03-05T1:20:30Z")
	case 1:
		return Str("2024-03-05T10:20:30,5Z")
	case 2:
		return Str("2024-03-05T10:20:30+24:00")
	case 3:
		return Str("2024-03-05T10:20:30+01:60")
	case 4:
		return Str("2024-13-05T10:20:30Z")
	case 5:
		return Str("2023-02-29T10:20:30Z")
	case 6:
		return Str("2024-03-05T24:00:00Z")
	case 7:
		return Str("2024-03-05t10:20:30z")
	case 8:
		return Str("2024-03-05")
	case 9:
		return Str("2024-03-05 10:20:30Z")
	case 10:
		return Num("1709634030")
	case 11:
		return Str("")
	case 12:
		return Str("2024-03-05T10:20:60Z")
	default:
		return Str("2024-03-05T10:20:30.Z")
	}
}

func (g *gen) number(kind string) *Node {
	switch kind {
	case "int":
		return Num(g.pick("0", "1", "42", "-7", "19960424", "9007199254740992", "-9007199254740993", "1e3", "2.0", "12345678901234567890", "100", "-0"))
	case "pos":
		return Num(g.pick("1", "77", "18446744073709551615", "123456789012345678901234567890", "9007199254740993", "4e2"))
	default:
		return Num(g.pick("1.5", "0.1", "-2.25", "1e21", "1e-7", "3.0", "100", "5e-324", "0.30000000000000004", "123456.789e3", "-0.0", "1E+2", "0"))
	}
}

func (g *gen) subject() *Node {
	s := Obj()
	if g.coin(0.06) {
		g.mark("subject-empty")
		return s // {} : still a node, hence a fact (dropped if the field were omitempty)
	}
	if g.coin(0.7) {
		s.Set("id", Str(g.pick("did:example:holder1", "urn:uuid:11111111-2222-3333-4444-555555555555", "https://example.com/holders/7")))
		g.mark("subject-id")
	}
	s.Set("type", Str("C14Subject"))
	n := g.rng.Intn(9)
	if n == 0 {
		g.mark("subject-minimal")
	}
	keys := []string{"name", "age", "score", "active", "born", "big", "plain", "tags", "nums", "address", "items"}
	g.rng.Shuffle(len(keys), func(i, j int) { keys[i], keys[j] = keys[j], keys[i] })
	for _, k := range keys[:n] {
		switch k {
		case "name":
			s.Set(k, Str(g.word()))
		case "age":
			s.Set(k, g.number("int"))
			g.mark("subject-number")
		case "score":
			s.Set(k, g.number("dbl"))
			g.mark("subject-number")
		case "active":
			s.Set(k, Bool(g.coin(0.5)))
		case "born":
			s.Set(k, Str(g.goodDate()))
		case "big":
			s.Set(k, g.number("pos"))
			g.mark("subject-number")
		case "plain":
			switch g.rng.Intn(4) {
			case 0:
				s.Set(k, Str(g.word()))
			case 1:
				s.Set(k, g.number("int"))
			case 2:
				s.Set(k, Bool(true))
			default:
				s.Set(k, g.number("dbl"))
			}
		case "tags":
			a := Arr()
			for i := g.rng.Intn(4); i >= 0; i-- {
				a.A = append(a.A, Str(g.word()))
			}
			s.Set(k, a)
			g.mark("subject-array")
		case "nums":
			a := Arr()
			for i := g.rng.Intn(4); i >= 0; i-- {
				a.A = append(a.A, g.number("int"))
			}
			s.Set(k, a)
			g.mark("subject-array")
		case "address":
			ad := Obj()
			if g.coin(0.5) {
				ad.Set("zip", g.number("int"))
			}
			ad.Set("street", Str(g.word()))
			if g.coin(0.6) {
				ad.Set("geo", Obj().Set("lon", g.number("dbl")).Set("lat", g.number("dbl")))
			}
			s.Set(k, ad)
			g.mark("subject-nested")
		case "items":
			a := Arr()
			for i := g.rng.Intn(3); i >= 0; i-- {
				a.A = append(a.A, Obj().Set("sku", Str(g.word())).Set("qty", g.number("int")))
			}
			s.Set(k, a)
			g.mark("subject-nested")
			g.mark("subject-array")
		}
	}
	return s
}

func (g *gen) status(depth int) *Node {
	st := Obj().Set("id", Str(g.uniq(g.pick("https://example.com/status/", "urn:status:")))).Set("type", Str("C14Status"))
	if g.coin(0.8) {
		st.Set("revocationNonce", Num(g.pick("0", "1234", "18446744073709551615", "380518664")))
	}
	if depth < 2 && g.coin(0.3) {
		st.Set("statusIssuer", g.status(depth+1))
	}
	return st
}

// credential builds a document of the supported shape; the proof member is added separately.
func (g *gen) credential() *Node {
	d := Obj()
	members := []Member{}
	add := func(k string, v *Node) { members = append(members, Member{k, v}) }
	if g.coin(0.6) {
		add("id", Str(g.pick("urn:uuid:8a2b9a6e-0c3d-4f5e-8f7a-1b2c3d4e5f60", "https://example.com/credentials/3732")))
		g.mark("id")
	}
	ctx := Arr(Str(ctxload.URLCredentialsV1), Str(ctxURL))
	if g.coin(0.3) {
		ctx.A = append(ctx.A, Str(ctxload.URLIden3Proofs))
	}
	add("@context", ctx)
	add("type", Arr(Str("VerifiableCredential"), Str("C14Credential")))
	if g.coin(0.6) {
		add("expirationDate", Str(g.goodDate()))
		g.mark("expirationDate")
	}
	if g.coin(0.7) {
		add("issuanceDate", Str(g.goodDate()))
		g.mark("issuanceDate")
	}
	add("credentialSubject", g.subject())
	if g.coin(0.6) {
		add("credentialStatus", g.status(0))
		g.mark("credentialStatus")
	}
	add("issuer", Str(g.pick("did:example:issuer", "did:polygonid:polygon:mumbai:2qDyy1kEo2AYcP3RT4XGea7BtxsY285szg6yP9SPrs", "https://example.com/issuers/14")))
	add("credentialSchema", Obj().Set("id", Str("https://example.com/schemas/c14.json")).Set("type", Str("JsonSchemaValidator2018")))
	if g.coin(0.5) {
		add("refreshService", Obj().Set("id", Str("https://example.com/refresh/1")).Set("type", Str(g.pick("ManualRefreshService2018", "C14Refresh"))))
		g.mark("refreshService")
	}
	if g.coin(0.5) {
		add("displayMethod", Obj().Set("id", Str("https://example.com/display/1")).Set("type", Str("C14Display")))
		g.mark("displayMethod")
	}
	// absent optionals written as null ("id": null is not in the supported shape: the
	// JSON-LD processor itself rejects a null @id, whereas the struct view drops it)
	for _, k := range []string{"expirationDate", "issuanceDate", "credentialStatus", "refreshService", "displayMethod"} {
		present := false
		for _, m := range members {
			if m.Key == k {
				present = true
			}
		}
		if !present && g.coin(0.1) {
			add(k, Null())
			g.mark("null-optional")
		}
	}
	if g.coin(0.5) {
		g.rng.Shuffle(len(members), func(i, j int) { members[i], members[j] = members[j], members[i] })
		g.mark("member-order-shuffled")
	}
	// nested member order of the struct-typed members
	for _, m := range members {
		if (m.Key == "credentialSchema" || m.Key == "refreshService" || m.Key == "displayMethod") && m.V.K == 'o' && g.coin(0.3) {
			m.V.O[0], m.V.O[1] = m.V.O[1], m.V.O[0]
		}
	}
	d.O = members
	return d
}

// ---- proofs ----

func (g *gen) hash() *Node {
	if g.coin(0.3) {
		return Str("0")
	}
	z := new(big.Int).Rand(g.rng, constants.Q)
	return Str(z.String())
}

func (g *gen) mtp() *Node {
	p := Obj().Set("existence", Bool(g.coin(0.7)))
	s := Arr()
	for i := g.rng.Intn(5); i > 0; i-- {
		s.A = append(s.A, g.hash())
	}
	p.Set("siblings", s)
	if g.coin(0.3) {
		p.Set("node_aux", Obj().Set("key", g.hash()).Set("value", g.hash()))
	}
	return p
}

func (g *gen) hex32() string {
	b := make([]byte, 32)
	g.rng.Read(b)
	b[31] &= 0x1f // below the field modulus
	return hex.EncodeToString(b)
}

func (g *gen) claimHex() string {
	var sh core.SchemaHash
	g.rng.Read(sh[:])
	c, err := core.NewClaim(sh, core.WithRevocationNonce(uint64(g.rng.Int63())), core.WithVersion(uint32(g.rng.Intn(100))))
	if err != nil {
		panic(err)
	}
	h, err := c.Hex()
	if err != nil {
		panic(err)
	}
	return h
}

func (g *gen) sigHex() string {
	var k babyjub.PrivateKey
	g.rng.Read(k[:])
	msg := new(big.Int).Rand(g.rng, constants.Q)
	s := k.SignPoseidon(msg).Compress()
	return hex.EncodeToString(s[:])
}

func (g *gen) issuerData() *Node {
	d := Obj()
	if g.coin(0.8) {
		d.Set("id", Str("did:example:issuer"))
	}
	st := Obj()
	for _, k := range []string{"txId", "blockTimestamp", "blockNumber", "rootOfRoots", "claimsTreeRoot", "revocationTreeRoot", "value", "status"} {
		if !g.coin(0.7) {
			continue
		}
		switch k {
		case "blockTimestamp", "blockNumber":
			st.Set(k, Num(g.pick("0", "1709634030", "42", "9007199254740993", "-5")))
		case "status":
			st.Set(k, Str(g.pick("confirmed", "created", "")))
		default:
			st.Set(k, Str(g.hex32()))
		}
	}
	if g.coin(0.9) {
		d.Set("state", st)
	}
	if g.coin(0.7) {
		d.Set("authCoreClaim", Str(g.claimHex()))
	}
	if g.coin(0.7) {
		d.Set("mtp", g.mtp())
	}
	if g.coin(0.6) {
		d.Set("credentialStatus", g.status(1))
	}
	if g.coin(0.1) {
		d.Set("extraIssuerMember", Num("1.50"))
	}
	return d
}

// proof returns (proof node, expected concrete Go type)
func (g *gen) proof() (*Node, string) {
	switch g.rng.Intn(6) {
	case 0, 1:
		p := Obj().Set("type", Str("BJJSignature2021")).Set("issuerData", g.issuerData()).
			Set("coreClaim", Str(g.claimHex())).Set("signature", Str(g.sigHex()))
		if g.coin(0.2) {
			p.Set("created", Str("2024-01-01T00:00:00Z"))
		}
		return p, "BJJSignatureProof2021"
	case 2:
		p := Obj().Set("issuerData", g.issuerData()).Set("type", Str("Iden3SparseMerkleTreeProof")).
			Set("coreClaim", Str(g.claimHex()))
		if g.coin(0.9) {
			p.Set("mtp", g.mtp())
		}
		return p, "Iden3SparseMerkleTreeProof"
	case 3:
		p := Obj().Set("type", Str("Iden3SparseMerkleProof")).Set("coreClaim", Str(g.claimHex())).
			Set("mtp", g.mtp()).Set("issuerData", g.issuerData())
		return p, "Iden3SparseMerkleProof"
	default:
		p := Obj().Set("type", Str(g.pick("Ed25519Signature2018", "SparseMerkleTreeProof", "FutureProof2030", "bjjsignature2021")))
		if g.coin(0.7) {
			p.Set("created", Str(g.goodDate()))
		}
		if g.coin(0.7) {
			p.Set("jws", Str("eyJhbGciOiJFZERTQSJ9.."+g.word()))
		}
		if g.coin(0.5) {
			p.Set("nonce", g.number("int"))
		}
		if g.coin(0.5) {
			p.Set("zeta", Obj().Set("b", Arr(g.number("dbl"), Null(), Bool(false))).Set("a", Str(g.word())))
		}
		if g.coin(0.3) {
			p.Set("coreClaim", Str(g.claimHex()))
		}
		if g.coin(0.2) {
			p.Set("TYPE", Str("shadow"))
		}
		return p, "CommonProof"
	}
}

// brokenProof: proofs that must be rejected (or are outside the modelled shape)
func (g *gen) brokenProof() *Node {
	p, _ := g.proof()
	switch g.rng.Intn(9) {
	case 0:
		p.Del("type")
	case 1:
		return Str("not-an-object")
	case 2:
		if p.Get("coreClaim") != nil {
			p.Del("coreClaim")
			p.Set("coreClaim", Str("zz"+g.hex32()))
		} else {
			p.Del("type")
			p.Set("type", Num("5"))
		}
	case 3:
		p.Del("signature")
		p.Set("signature", Str(g.pick("00", "", strings.Repeat("ff", 64), "xyz")))
	case 4:
		p.Del("issuerData")
	case 5:
		p.Del("mtp")
		p.Set("mtp", g.pick2(Str("x"), Obj().Set("existence", Str("yes")), Obj().Set("siblings", Arr(Str("notanumber"))),
			Obj().Set("existence", Bool(true)).Set("siblings", Arr(Str("1"), Null())), g.manySiblings(241), g.manySiblings(240),
			Obj().Set("existence", Bool(true)).Set("siblings", Obj()), Arr(), Num("1")))
	case 6:
		p.Del("issuerData")
		p.Set("issuerData", g.pick2(Null(), Str("s"), Obj().Set("state", Obj().Set("blockNumber", Num("1.5")))))
	case 7:
		p.Del("coreClaim")
		p.Set("coreClaim", Null())
	default:
		return Null()
	}
	return p
}

func (g *gen) pick2(xs ...*Node) *Node { return xs[g.rng.Intn(len(xs))] }

// manySiblings: n zero siblings (decodeMTP rejects more than 240)
func (g *gen) manySiblings(n int) *Node {
	a := Arr()
	for i := 0; i < n; i++ {
		a.A = append(a.A, Str("0"))
	}
	return Obj().Set("existence", Bool(false)).Set("siblings", a)
}

// ---- DID documents ----

func (g *gen) stateInfo() *Node {
	o := Obj()
	for _, k := range []string{"id", "state", "replacedByState", "createdAtTimestamp", "replacedAtTimestamp", "createdAtBlock", "replacedAtBlock"} {
		if g.coin(0.85) {
			o.Set(k, Str(g.pick("0", "1709634030", g.hex32(), "did:example:1")))
		}
	}
	return o
}

func (g *gen) gistInfo() *Node {
	o := Obj()
	for _, k := range []string{"root", "replacedByRoot", "createdAtTimestamp", "replacedAtTimestamp", "createdAtBlock", "replacedAtBlock"} {
		if g.coin(0.85) {
			o.Set(k, Str(g.pick("0", "1709634030", g.hex32())))
		}
	}
	if g.coin(0.7) {
		p := g.mtp()
		if g.coin(0.85) {
			p.Set("type", Str(g.pick("Iden3SparseMerkleTreeProof", "SparseMerkleTreeProof", "")))
		}
		if g.coin(0.3) { // member order
			p.O[0], p.O[len(p.O)-1] = p.O[len(p.O)-1], p.O[0]
		}
		o.Set("proof", p)
		g.mark("gist-proof")
	}
	return o
}

func (g *gen) method() *Node {
	// every member is optional, independently of the others (an entry without `type`,
	// without `id` or without `controller` is still an embedded method, not a reference)
	m := Obj()
	if g.coin(0.85) {
		m.Set("id", Str("did:example:123#"+g.pick("key-1", "key-2", "state")))
	} else {
		g.mark("method-without-id")
	}
	if g.coin(0.8) {
		m.Set("type", Str(g.pick("Iden3StateInfo2023", "JsonWebKey2020", "EcdsaSecp256k1RecoveryMethod2020")))
	} else {
		g.mark("method-without-type")
	}
	if g.coin(0.8) {
		m.Set("controller", Str("did:example:123"))
	} else {
		g.mark("method-without-controller")
	}
	if g.coin(0.3) {
		m.Set("publicKeyJwk", Obj().Set("kty", Str("EC")).Set("crv", Str("secp256k1")).Set("x", Str("abc")).Set("n", g.number("dbl")))
	}
	for _, k := range []string{"publicKeyMultibase", "publicKeyHex", "publicKeyBase58", "ethereumAddress", "blockchainAccountId", "stateContractAddress"} {
		if g.coin(0.2) {
			m.Set(k, Str(g.pick("zH3C2AVvLMv6gmMNam3uVAjZpfkcJCwDwnZn6z3wXmqPV", "0x1234", "eip155:1:0xab16a96D359eC26a11e2C2b3d8f8B8942d5Bfcdb", "80001:0x134B1BE34911E39A8397ec6289782989729807a4")))
		}
	}
	if g.coin(0.5) {
		m.Set("published", Bool(g.coin(0.5)))
		g.mark("state-published")
	}
	if g.coin(0.5) {
		m.Set("info", g.stateInfo())
		g.mark("state-info")
	}
	if g.coin(0.5) {
		m.Set("global", g.gistInfo())
		g.mark("gist-info")
	}
	return m
}

func (g *gen) authList() *Node {
	a := Arr()
	for i := 1 + g.rng.Intn(3); i > 0; i-- {
		if g.coin(0.5) {
			a.A = append(a.A, Str("did:example:123#key-"+fmt.Sprint(g.rng.Intn(3))))
			g.mark("auth-reference")
		} else {
			a.A = append(a.A, g.method())
			g.mark("auth-embedded")
		}
	}
	return a
}

func (g *gen) didDoc() *Node {
	d := Obj()
	switch g.rng.Intn(3) {
	case 0:
		d.Set("@context", Str("https://www.w3.org/ns/did/v1"))
	case 1:
		d.Set("@context", Arr(Str("https://www.w3.org/ns/did/v1"), Str("https://schema.iden3.io/core/jsonld/auth.jsonld")))
	default:
		d.Set("@context", Arr(Str("https://www.w3.org/ns/did/v1"), Obj().Set("@base", Str("did:example:123"))))
	}
	d.Set("id", Str("did:example:123"))
	if g.coin(0.5) {
		s := Arr()
		for i := 1 + g.rng.Intn(2); i > 0; i-- {
			sv := Obj().Set("id", Str("did:example:123#svc")).Set("type", Str(g.pick("iden3-communication", "push-notification"))).
				Set("serviceEndpoint", Str("https://example.com/agent"))
			if g.coin(0.3) {
				sv.Set("metadata", Obj().Set("devices", Arr(Obj().Set("ciphertext", Str("AAAA")).Set("alg", Str("RSA-OAEP-512")))))
			}
			s.A = append(s.A, sv)
		}
		d.Set("service", s)
		g.mark("service")
	}
	if g.coin(0.7) {
		v := Arr()
		for i := 1 + g.rng.Intn(2); i > 0; i-- {
			v.A = append(v.A, g.method())
		}
		d.Set("verificationMethod", v)
		g.mark("verificationMethod")
	}
	if g.coin(0.5) {
		d.Set("assertionMethod", g.authList())
	}
	if g.coin(0.8) {
		d.Set("authentication", g.authList())
	}
	if g.coin(0.3) {
		d.Set("keyAgreement", Arr(Str("did:example:123#key-agreement"), Obj().Set("id", Str("did:example:123#ka")).Set("n", g.number("int"))))
	}
	if g.coin(0.3) {
		g.rng.Shuffle(len(d.O), func(i, j int) { d.O[i], d.O[j] = d.O[j], d.O[i] })
	}
	return d
}
