// Package c05: core claim faithfully and purely encodes credential and options
// (property C05).  Runs W3CCredential.ToCoreClaim over histories of calls that
// share option objects and credentials; decodes the 8 raw slots with the
// harness's own decoder; evaluates implementation-side oracles (arithmetic
// layout, expected error cases, deep compare of options and credential,
// history independence, repeatability); writes shards for Claim/Run.v.
package c05

import (
	"context"
	"encoding/json"
	"fmt"
	"math/big"
	"path/filepath"
	"reflect"
	"runtime"
	"strings"
	"sync"

	"github.com/iden3/go-schema-processor/v2/merklize"
	"github.com/iden3/go-schema-processor/v2/verifiable"

	"vharness/common"
	"vharness/coqgen"
	"vharness/credgen"
)

func init() { common.Register("C05", Run) }

// Call is one ToCoreClaim call of a history: credential index, option object
// index (-1 = nil pointer).
type Call struct {
	Cred int `json:"cred"`
	Opts int `json:"opts"`
}

// Input is one history over shared objects.
type Input struct {
	Kind  string         `json:"kind"` // grid | sequence | special | repeat
	Creds []credgen.Spec `json:"creds"`
	Opts  []credgen.Opts `json:"opts"`
	Calls []Call         `json:"calls"`
	// SharedMz: the MerklizerOpts slices of all option objects are built on ONE backing array with
	// spare capacity (an object whose options carry a hasher has it as the element after the loader)
	SharedMz bool `json:"shared_mz,omitempty"`
	Repeat   int  `json:"repeat,omitempty"` // each call repeated this many extra times (repeatability oracle)
}

type callObs struct {
	class string // ok | err | panic
	slots [8]*big.Int
	msg   string
}

type histObs struct {
	calls []callObs
	after []credgen.Opts
	// the MerklizerOpts backing arrays: heap before the history (cells = options numbered by code
	// pointer, 0 = empty), each object's slice (array, len, cap), each object's window up to its
	// capacity after the history
	zHeap  [][]int
	zObjs  [][3]int
	zAfter [][]int
}

var (
	two128    = new(big.Int).Lsh(big.NewInt(1), 128)
	two64     = new(big.Int).Lsh(big.NewInt(1), 64)
	fieldQ, _ = new(big.Int).SetString("21888242871839275222246405745257275088548364400416034343698204186575808495617", 10)
)

type gen struct {
	cfg   *common.Config
	rep   *common.Report
	env   *credgen.Env   // loader 0 (also the process-wide default loader)
	envs  []*credgen.Env // envs[0] == env; envs[1] serves Spec.AltSchema at the same URLs
	hists []*Input
	obs   []histObs

	mu     sync.Mutex
	views  map[string]credgen.View // by spec key
	fresh  map[string]callObs      // result of a call on fresh objects, by (spec key, options)
	queued []*Input
}

type failure struct {
	class, what string
	input       any
}

// outcome of running one history: everything that goes into the report, so
// that histories can run in parallel and be reported in generation order.
type outcome struct {
	obs    histObs
	fails  []failure
	counts []string
	evals  int
}

func specKey(sp credgen.Spec) string {
	b, _ := json.Marshal(sp)
	return string(b)
}

// under: the spec as the given loader presents it (its schema document).
func under(sp credgen.Spec, loader int) credgen.Spec {
	if loader == 1 && sp.AltSchema != nil {
		sp.Schema = sp.AltSchema
	}
	return sp
}

func loaderOf(o *credgen.Opts) int {
	if o == nil {
		return 0 // nil options: the process-wide default loader
	}
	return o.Loader
}

func saltedOf(o *credgen.Opts) bool { return o != nil && o.Salted }

func (g *gen) viewOf(sp credgen.Spec, loader int, salted bool) credgen.View {
	k := fmt.Sprintf("%d|%v|", loader, salted) + specKey(sp)
	g.mu.Lock()
	v, ok := g.views[k]
	g.mu.Unlock()
	if ok {
		return v
	}
	c, err := credgen.Build(sp)
	if err != nil {
		panic(fmt.Sprintf("generator: %v", err))
	}
	v = g.envs[loader].ViewOfWith(&c.VC, pathsOf(under(sp, loader)), g.envs[loader].MerklizeOptsFor(credgen.Opts{Salted: salted}))
	g.mu.Lock()
	g.views[k] = v
	g.mu.Unlock()
	return v
}

// freshCall: the call on objects nobody else has seen.
func (g *gen) freshCall(sp credgen.Spec, o *credgen.Opts) callObs {
	ob, _ := json.Marshal(o)
	k := specKey(sp) + "|" + string(ob)
	g.mu.Lock()
	r, ok := g.fresh[k]
	g.mu.Unlock()
	if ok {
		return r
	}
	c, _ := credgen.Build(sp)
	var ro *verifiable.CoreClaimOptions
	if o != nil {
		ro = g.envs[o.Loader].Real(*o)
	}
	r = oneCall(&c.VC, ro)
	g.mu.Lock()
	g.fresh[k] = r
	g.mu.Unlock()
	return r
}

func oneCall(vc *verifiable.W3CCredential, o *verifiable.CoreClaimOptions) (co callObs) {
	defer func() {
		if r := recover(); r != nil {
			co = callObs{class: "panic", msg: fmt.Sprint(r)}
		}
	}()
	cl, err := vc.ToCoreClaim(context.Background(), o)
	if err != nil {
		return callObs{class: "err", msg: err.Error()}
	}
	if cl == nil {
		return callObs{class: "panic", msg: "nil claim with nil error"}
	}
	s, err := credgen.Slots(cl)
	if err != nil {
		return callObs{class: "panic", msg: err.Error()}
	}
	return callObs{class: "ok", slots: s}
}

func sameObs(a, b callObs) bool {
	if a.class != b.class {
		return false
	}
	if a.class != "ok" {
		return true
	}
	for i := range a.slots {
		if a.slots[i].Cmp(b.slots[i]) != 0 {
			return false
		}
	}
	return true
}

// ---- independent statement of the expected result (from the property text and
// the generator's own knowledge of the schema; field encodings, root and
// identifier come from separate public-API calls) ----

type expect struct {
	ok    bool
	why   string
	slots [8]*big.Int
}

// parseAttr: the grammar of the serialization attribute, written independently.
func parseAttr(a string) (m map[string]string, ok bool) {
	const pfx = "iden3:v1:"
	if len(a) < len(pfx) || a[:len(pfx)] != pfx {
		return nil, false
	}
	rest := a[len(pfx):]
	m = map[string]string{}
	n := 0
	for _, part := range strings.Split(rest, "&") {
		n++
		if n > 4 {
			return nil, false
		}
		if strings.Count(part, "=") != 1 {
			return nil, false
		}
		i := strings.IndexByte(part, '=')
		k, v := part[:i], part[i+1:]
		switch k {
		case "slotIndexA", "slotIndexB", "slotValueA", "slotValueB":
			m[k] = v
		default:
			return nil, false
		}
	}
	return m, true
}

func expected(sp credgen.Spec, v credgen.View, o credgen.Opts) expect {
	bad := func(w string) expect { return expect{why: w} }
	if !v.MzOK {
		return bad("document does not merklize")
	}
	s := sp.Schema
	if sp.Override != nil {
		s = sp.Override // a later context redefines the type: the last definition is the type's
	}
	// the type's IRI: spelled with a prefix that only an EARLIER context of the credential declares
	typeIRI := s.TypeIRI
	if s.TypeIDWritten != "" {
		has := false
		for _, u := range sp.PreCtx {
			has = has || u == credgen.URLPrefixCtx
		}
		if !has {
			typeIRI = s.TypeIDWritten
		}
	}
	// the credential type as the generator wrote it
	ty := typeIRI
	if sp.NoSubjectType || (sp.SubjectTypes != nil && len(sp.SubjectTypes) != 1) {
		top := sp.TopTypes
		if top == nil {
			top = []string{"VerifiableCredential", s.TypeName}
		}
		if len(top) != 2 {
			return bad("top-level type is not a pair")
		}
		exp := func(t string) string {
			switch t {
			case "VerifiableCredential":
				return credgen.VCIRI
			case s.TypeName:
				return typeIRI
			}
			for _, e := range s.Extra {
				if e.Name == t {
					return e.IRI
				}
			}
			return t
		}
		a, b := exp(top[0]), exp(top[1])
		switch {
		case a == credgen.VCIRI:
			ty = b
		case b == credgen.VCIRI:
			ty = a
		default:
			return bad("no VerifiableCredential type")
		}
	}
	// which attribute governs this type: among the terms of the schema's context that carry a
	// scoped context and are called ty or identified by ty, the one whose name sorts first
	type cand struct{ name, shape, ser string }
	var cands []cand
	if s.TypeName == ty || typeIRI == ty {
		c := cand{name: s.TypeName, shape: s.CtxShape}
		if s.Ser != nil && s.SerRaw == nil {
			c.ser = *s.Ser
		}
		cands = append(cands, c)
	}
	for _, e := range s.Extra {
		if (e.Name == ty || e.IRI == ty) && (e.Shape == "map" || e.Shape == "array") {
			cands = append(cands, cand{name: e.Name, shape: e.Shape, ser: e.SerAttr})
		}
	}
	ser, shape := "", "map"
	if len(cands) > 0 {
		best := cands[0]
		for _, c := range cands[1:] {
			if c.name < best.name {
				best = c
			}
		}
		ser, shape = best.ser, best.shape
	}
	if shape == "array" {
		return bad("scoped context of the type is not a map")
	}
	var slotv [4]*big.Int
	for i := range slotv {
		slotv[i] = new(big.Int)
	}
	serialized := ser != ""
	if serialized {
		m, ok := parseAttr(ser)
		if !ok {
			return bad("malformed serialization attribute")
		}
		for i, k := range []string{"slotIndexA", "slotIndexB", "slotValueA", "slotValueB"} {
			p := m[k]
			if p == "" {
				continue
			}
			x, ok := v.Fields[p]
			if !ok || x == nil {
				return bad("named field " + p + " not in the credential")
			}
			if x.Cmp(fieldQ) >= 0 {
				return bad("field encoding outside the field")
			}
			slotv[i] = x
		}
		if o.Root != "" {
			return bad("root requested for a serialized schema")
		}
	}
	var id *big.Int
	if v.Subject != nil {
		id = credgen.DIDToID(*v.Subject)
		if id == nil {
			return bad("subject id is not a usable DID")
		}
		if o.Subject != "" && o.Subject != "index" && o.Subject != "value" {
			return bad("unknown subject position")
		}
	}
	rootPos := o.Root
	if !serialized {
		if rootPos == "" {
			rootPos = "index"
		}
		if rootPos != "index" && rootPos != "value" {
			return bad("unknown root position")
		}
	}
	// layout
	k := credgen.Keccak(ty)
	last16 := make([]byte, 32)
	k.FillBytes(last16)
	schema := credgen.LE(last16[16:])
	flags := int64(0)
	if id != nil {
		if o.Subject == "value" {
			flags += 3
		} else {
			flags += 2
		}
	}
	if sp.Expiration != nil {
		flags += 8
	}
	if o.Upd {
		flags += 16
	}
	switch rootPos {
	case "index":
		flags += 32
	case "value":
		flags += 64
	}
	var e expect
	e.ok = true
	for i := range e.slots {
		e.slots[i] = new(big.Int)
	}
	e.slots[0].Add(schema, new(big.Int).Lsh(big.NewInt(flags), 128))
	e.slots[0].Add(e.slots[0], new(big.Int).Lsh(new(big.Int).SetUint64(uint64(o.Version)), 160))
	e.slots[4].SetUint64(o.RevNonce)
	if sp.Expiration != nil {
		// the spec: expiration = Unix seconds of the instant, i.e. the floor; the generator wrote the
		// date from (seconds, nanoseconds), so it knows the seconds without parsing anything
		x := new(big.Int).Mod(big.NewInt(*sp.Expiration), two64)
		e.slots[4].Add(e.slots[4], x.Lsh(x, 64))
	}
	if id != nil {
		if o.Subject == "value" {
			e.slots[5].Set(id)
		} else {
			e.slots[1].Set(id)
		}
	}
	e.slots[2].Set(slotv[0])
	e.slots[3].Set(slotv[1])
	e.slots[6].Set(slotv[2])
	e.slots[7].Set(slotv[3])
	switch rootPos {
	case "index":
		e.slots[2].Set(v.Root)
	case "value":
		e.slots[6].Set(v.Root)
	}
	return e
}

// pathsOf lists every field path the model may look up for this spec.
func pathsOf(sp credgen.Spec) []string {
	ps := credgen.FieldPaths()
	ps = append(ps, "spare", "info", "nosuch")
	add := func(a string) {
		a = strings.TrimPrefix(a, "iden3:v1:")
		for _, part := range strings.Split(a, "&") {
			for _, x := range strings.Split(part, "=") {
				if x != "" && len(x) < 80 {
					ps = append(ps, x)
				}
			}
		}
	}
	if sp.Schema.Ser != nil {
		add(*sp.Schema.Ser)
	}
	for _, e := range sp.Schema.Extra {
		add(e.SerAttr)
	}
	if sp.Override != nil && sp.Override.Ser != nil {
		add(*sp.Override.Ser)
	}
	if sp.AltSchema != nil && sp.AltSchema.Ser != nil {
		add(*sp.AltSchema.Ser)
	}
	seen := map[string]bool{}
	var out []string
	for _, p := range ps {
		if !seen[p] {
			seen[p] = true
			out = append(out, p)
		}
	}
	return out
}

func (g *gen) register(sp credgen.Spec) {
	g.mu.Lock()
	defer g.mu.Unlock()
	put := func(e *credgen.Env, sc *credgen.Schema) {
		doc := sc.BuildDoc()
		if string(e.Loader.Raw(sc.URL)) != string(doc) {
			if err := e.Register(sc); err != nil {
				panic(err)
			}
		}
	}
	put(g.envs[0], sp.Schema)
	put(g.envs[1], under(sp, 1).Schema)
	if sp.Override != nil {
		put(g.envs[0], sp.Override)
		put(g.envs[1], sp.Override)
	}
	if sp.CtxIPFS {
		urls := append([]string{"https://www.w3.org/2018/credentials/v1", sp.Schema.URL}, sp.PreCtx...)
		urls = append(urls, sp.ExtraCtx...)
		if sp.Override != nil {
			urls = append(urls, sp.Override.URL)
		}
		g.envs[0].ServeIPFS(urls...)
	}
	// envs[2] never learns a schema: every call that carries it fails while loading the contexts
}

func optsEqual(a credgen.Opts, r *verifiable.CoreClaimOptions) bool {
	x := credgen.FromReal(r)
	x.Loader, x.Salted = a.Loader, a.Salted
	return a == x
}

// run executes one history on the implementation and evaluates the oracles.
func (g *gen) run(in *Input) (out outcome) {
	fail := func(class, what string, input any) {
		out.fails = append(out.fails, failure{class, what, input})
	}
	var creds, pristine []*credgen.Cred
	for _, sp := range in.Creds {
		g.register(sp)
		c, err := credgen.Build(sp)
		if err != nil {
			panic(fmt.Sprintf("generator: %v", err))
		}
		p, _ := credgen.Build(sp)
		creds = append(creds, c)
		pristine = append(pristine, p)
	}
	var objs []*verifiable.CoreClaimOptions
	var mzSlices [][]merklize.MerklizeOption
	var common []merklize.MerklizeOption
	if in.SharedMz && len(in.Opts) > 0 {
		common = make([]merklize.MerklizeOption, 0, 4)
		common = append(common, g.envs[in.Opts[0].Loader].MerklizeOpts()...)
	}
	for _, o := range in.Opts {
		r := g.envs[o.Loader].Real(o)
		if in.SharedMz {
			r.MerklizerOpts = common
			if o.Salted {
				r.MerklizerOpts = append(common, merklize.WithHasher(credgen.SaltedHasher()))
			}
		}
		objs = append(objs, r)
		mzSlices = append(mzSlices, r.MerklizerOpts)
	}
	// the option slices up to their CAPACITY, element by element (functions by code pointer)
	snap := func() [][]uintptr {
		var all [][]uintptr
		for _, r := range objs {
			full := r.MerklizerOpts[:cap(r.MerklizerOpts)]
			ps := make([]uintptr, len(full))
			for i, f := range full {
				if f != nil {
					ps[i] = reflect.ValueOf(f).Pointer()
				}
			}
			all = append(all, ps)
		}
		return all
	}
	before := snap()
	// describe the heap for the model
	ids := map[uintptr]int{0: 0}
	idOf := func(p uintptr) int {
		if _, ok := ids[p]; !ok {
			ids[p] = len(ids)
		}
		return ids[p]
	}
	arrOf := map[*merklize.MerklizeOption]int{}
	for i, r := range objs {
		fullS := r.MerklizerOpts[:cap(r.MerklizerOpts)]
		a := -1
		if len(fullS) > 0 {
			if k, ok := arrOf[&fullS[0]]; ok {
				a = k
			}
		}
		if a < 0 {
			a = len(out.obs.zHeap)
			cells := make([]int, len(fullS))
			for j := range fullS {
				cells[j] = idOf(before[i][j])
			}
			out.obs.zHeap = append(out.obs.zHeap, cells)
			if len(fullS) > 0 {
				arrOf[&fullS[0]] = a
			}
		}
		out.obs.zObjs = append(out.obs.zObjs, [3]int{a, len(r.MerklizerOpts), cap(r.MerklizerOpts)})
	}
	ho := &out.obs
	usedCred := map[int]bool{}
	usedOpts := map[int]bool{}
	for ci, k := range in.Calls {
		var op *verifiable.CoreClaimOptions
		var effp *credgen.Opts
		eff := credgen.Opts{Subject: "index"}
		if k.Opts >= 0 {
			op = objs[k.Opts]
			eff = in.Opts[k.Opts]
			effp = &eff
		}
		co := oneCall(&creds[k.Cred].VC, op)
		ho.calls = append(ho.calls, co)
		out.evals++
		if now := snap(); !reflect.DeepEqual(now, before) {
			fail("c05-options-written", fmt.Sprintf("call %d changed the backing array of an option object's MerklizerOpts (elements up to the capacity, by code pointer): %v -> %v", ci, before, now), map[string]any{"history": in, "call": ci})
			before = now
		}
		// after EVERY call, successful or not, every credential is what it was (proofs included)
		for i := range creds {
			if !credgen.SameCredential(&creds[i].VC, &pristine[i].VC) {
				fail("c05-credential-written", fmt.Sprintf("after call %d (%s) credential %d differs from its pristine copy (proofs: %d, pristine: %d)", ci, co.class, i, len(creds[i].VC.Proof), len(pristine[i].VC.Proof)), map[string]any{"history": in, "call": ci})
				creds[i], _ = credgen.Build(in.Creds[i]) // report each damage once
			}
		}
		out.counts = append(out.counts, in.Kind+":"+co.class)
		where := map[string]any{"history": in, "call": ci}
		if co.class == "panic" {
			fail("c05-panic", "ToCoreClaim panicked or returned nil/nil: "+co.msg, where)
			continue
		}
		// (1) the i-th result of a history equals a fresh call on fresh objects
		// (a call whose credential and option object have not been used yet IS that fresh call)
		fo := co
		if usedCred[k.Cred] || (k.Opts >= 0 && usedOpts[k.Opts]) {
			fo = g.freshCall(in.Creds[k.Cred], effp)
			out.evals++
			if !sameObs(co, fo) {
				fail("c05-history", fmt.Sprintf("call %d of the history gives %s (%s); the same call on fresh objects gives %s (%s)", ci, co.class, co.msg, fo.class, fo.msg), where)
			}
		}
		usedCred[k.Cred] = true
		if k.Opts >= 0 {
			usedOpts[k.Opts] = true
		}
		// (2) layout / error cases against the independent arithmetic statement
		ex := expected(under(in.Creds[k.Cred], loaderOf(effp)), g.viewOf(in.Creds[k.Cred], loaderOf(effp), saltedOf(effp)), eff)
		if ex.ok != (fo.class == "ok") {
			fail("c05-error-case", fmt.Sprintf("fresh call: got %s (%s), expected ok=%v (%s)", fo.class, fo.msg, ex.ok, ex.why), where)
		} else if ex.ok {
			for i := range ex.slots {
				if ex.slots[i].Cmp(fo.slots[i]) != 0 {
					fail("c05-layout", fmt.Sprintf("raw slot %d is %s, the layout says %s", i, fo.slots[i], ex.slots[i]), where)
					break
				}
			}
		}
		// (3) repeatability (map-order nondeterminism)
		for r := 0; r < in.Repeat; r++ {
			ro := oneCall(&creds[k.Cred].VC, op)
			out.evals++
			if !sameObs(co, ro) {
				fail("c05-nondeterministic", fmt.Sprintf("repetition %d of call %d gives %s (%s) after %s (%s)", r+1, ci, ro.class, ro.msg, co.class, co.msg), where)
				break
			}
		}
	}
	// (4) options and credentials are left as they were
	for _, ps := range snap() {
		cells := make([]int, len(ps))
		for j, p := range ps {
			cells[j] = idOf(p)
		}
		out.obs.zAfter = append(out.obs.zAfter, cells)
	}
	for i, o := range in.Opts {
		after := credgen.FromReal(objs[i])
		after.Loader, after.Salted = o.Loader, o.Salted
		ho.after = append(ho.after, after)
		same := optsEqual(o, objs[i]) && len(objs[i].MerklizerOpts) == len(mzSlices[i])
		if same && len(mzSlices[i]) > 0 && &objs[i].MerklizerOpts[0] != &mzSlices[i][0] {
			same = false
		}
		if !same {
			fail("c05-options-written", fmt.Sprintf("option object %d was %+v before the history and is %+v after it", i, o, credgen.FromReal(objs[i])), map[string]any{"history": in})
		}
	}
	for i := range creds {
		a, ea := json.Marshal(&creds[i].VC)
		b, eb := json.Marshal(&pristine[i].VC)
		if !credgen.SameCredential(&creds[i].VC, &pristine[i].VC) || string(a) != string(b) || (ea == nil) != (eb == nil) {
			fail("c05-credential-written", fmt.Sprintf("credential %d differs from its pristine copy after the history", i), map[string]any{"history": in})
		}
		// the claim recorded in a proof is read back unchanged; a proof type the credential lacks is reported
		if in.Creds[i].WithProof {
			out.evals += 2
			want, _ := credgen.Slots(credgen.ProofClaim())
			cl, err := creds[i].VC.GetCoreClaimFromProof(verifiable.BJJSignatureProofType)
			okc := err == nil && cl != nil
			if okc {
				got, e2 := credgen.Slots(cl)
				okc = e2 == nil
				for j := range got {
					okc = okc && got[j].Cmp(want[j]) == 0
				}
			}
			if !okc {
				fail("c05-proof-claim", "GetCoreClaimFromProof does not return the claim recorded in the credential's proof", map[string]any{"history": in})
			}
			if cl2, err := creds[i].VC.GetCoreClaimFromProof(verifiable.Iden3SparseMerkleTreeProofType); err != verifiable.ErrProofNotFound || cl2 != nil {
				fail("c05-proof-claim", "GetCoreClaimFromProof for a proof type the credential lacks does not report ErrProofNotFound", map[string]any{"history": in})
			}
		}
	}
	return out
}

// add queues a history; flush runs the queue in parallel and reports in order.
func (g *gen) add(in *Input) { g.queued = append(g.queued, in) }

func (g *gen) flush() {
	outs := make([]outcome, len(g.queued))
	w := runtime.NumCPU() / 2
	if w < 2 {
		w = 2
	}
	if w > 8 {
		w = 8
	}
	var wg sync.WaitGroup
	ch := make(chan int)
	for k := 0; k < w; k++ {
		wg.Add(1)
		go func() {
			defer wg.Done()
			for i := range ch {
				outs[i] = g.run(g.queued[i])
			}
		}()
	}
	for i := range g.queued {
		ch <- i
	}
	close(ch)
	wg.Wait()
	for i, in := range g.queued {
		o := outs[i]
		g.hists = append(g.hists, in)
		g.obs = append(g.obs, o.obs)
		g.rep.Evaluations += o.evals
		for _, c := range o.counts {
			g.rep.Count(c)
		}
		for _, f := range o.fails {
			g.rep.Fail(f.class, f.what, f.input)
		}
		b, _ := json.Marshal(in)
		g.rep.Distinct(string(b))
	}
	g.queued = nil
}

// ---------- generators ----------

var positions = []string{"", "index", "value", "bogus"}
var versions = []uint32{0, 1, 1<<32 - 1}
var nonces = []uint64{0, 1, 1<<64 - 1}

func grid() []credgen.Opts {
	var out []credgen.Opts
	for _, sp := range positions {
		for _, rp := range positions {
			for _, u := range []bool{false, true} {
				for _, v := range versions {
					for _, n := range nonces {
						out = append(out, credgen.Opts{RevNonce: n, Version: v, Subject: sp, Root: rp, Upd: u})
					}
				}
			}
		}
	}
	return out
}

func i64(v int64) *int64 { return &v }

type pool struct {
	merk, ser []credgen.Spec // ordinary credentials
	special   []credgen.Spec
}

func (g *gen) buildPool() pool {
	var p pool
	e := g.env
	subjects := []any{nil, credgen.MakeDID(1), credgen.MakeDID(2)}
	type expT struct {
		sec   *int64
		nanos int64
		off   int
	}
	// whole seconds, then instants with a fraction (.5 .75 .999999999 and .4 as control; zone offsets;
	// before 1970, where Unix() floors: -1.5 s has Unix second -2)
	exps := []expT{{nil, 0, 0}, {i64(1893456000), 0, 0}, {i64(-31536000), 0, 0}, {i64(0), 0, 0},
		{i64(1893456000), 500000000, 0}, {i64(1893456000), 750000000, 120}, {i64(1893456000), 999999999, -330}, {i64(1893456000), 400000000, 60},
		{i64(-31536000), 500000000, 0}, {i64(-1), 999999999, 0}, {i64(-2), 500000000, 60}, {i64(0), 999000000, -720}, {i64(4102444799), 500000001, 0}}
	ms := e.NewSchema(nil)
	for _, s := range subjects {
		for _, x := range exps {
			p.merk = append(p.merk, credgen.Spec{Schema: ms, Subject: s, Expiration: x.sec, ExpNanos: x.nanos, ExpOffsetMin: x.off})
		}
	}
	// serialized: all 2^4 subsets of slots, each slot naming a distinct field
	names := []string{"price", "count", "name", "info.insured"}
	for mask := 0; mask < 16; mask++ {
		var a [4]string
		for i := 0; i < 4; i++ {
			if mask&(1<<i) != 0 {
				a[i] = names[i]
			}
		}
		attr := credgen.SerAttr(a[0], a[1], a[2], a[3])
		if mask == 0 {
			attr = "iden3:v1:slotIndexA=" // an attribute that assigns nothing
		}
		ss := e.NewSchema(&attr)
		for si, s := range subjects {
			for xi, x := range exps {
				if (si+xi+mask)%3 != 0 && !(mask == 15) {
					continue // every subset with a third of the subject/expiration combinations, the full subset with all
				}
				if xi >= 4 && mask != 15 && (mask+xi)%4 != 0 {
					continue // fractional instants: on the full subset, and on a quarter of the others
				}
				p.ser = append(p.ser, credgen.Spec{Schema: ss, Subject: s, Expiration: x.sec, ExpNanos: x.nanos, ExpOffsetMin: x.off})
			}
		}
	}
	// special shapes
	str := func(s string) *string { return &s }
	did := credgen.MakeDID(3)
	add := func(sp credgen.Spec) { p.special = append(p.special, sp) }
	add(credgen.Spec{Schema: ms, Subject: "not-a-did"})
	add(credgen.Spec{Schema: ms, Subject: "did:example:123456"})
	add(credgen.Spec{Schema: ms, Subject: "did:iden3:polygon:mumbai:zzzz"})
	add(credgen.Spec{Schema: ms, SubjectNull: true})
	add(credgen.Spec{Schema: ms, Subject: did, NoSubjectType: true})
	add(credgen.Spec{Schema: ms, Subject: did, NoSubjectType: true, TopTypes: []string{ms.TypeName, "VerifiableCredential"}})
	add(credgen.Spec{Schema: ms, NoSubjectType: true, TopTypes: []string{"VerifiableCredential"}})
	add(credgen.Spec{Schema: ms, Subject: did, Values: [5]string{"0.5", "-7", "", "false", "1969-12-31T23:59:59Z"}})
	sAll := credgen.SerAttr("info.since", "name", "count", "price")
	ssAll := e.NewSchema(&sAll)
	add(credgen.Spec{Schema: ssAll, Subject: did, Expiration: i64(4102444800)})
	add(credgen.Spec{Schema: ssAll, Subject: did, NoSubjectType: true})
	add(credgen.Spec{Schema: ssAll, Omit: []string{"name"}})
	// credentialSubject.type is an array (not a string): the top-level pair decides; a one-element array compacts to a string
	add(credgen.Spec{Schema: ssAll, Subject: did, SubjectTypes: []string{ssAll.TypeName, "VerifiableCredential"}})
	add(credgen.Spec{Schema: ms, Subject: did, SubjectTypes: []string{ms.TypeName, "VerifiableCredential"}, TopTypes: []string{"VerifiableCredential", ms.TypeName, "VerifiablePresentation"}})
	add(credgen.Spec{Schema: ssAll, SubjectTypes: []string{ssAll.TypeName}})
	// an empty subject id
	add(credgen.Spec{Schema: ms, Subject: ""})
	// a subject id that is not a string
	add(credgen.Spec{Schema: ms, Subject: 12345})
	add(credgen.Spec{Schema: ms, Subject: true})
	// a type given as an absolute IRI that no context defines: no attribute is found, the claim is a merklized one
	add(credgen.Spec{Schema: ssAll, Subject: did, NoSubjectType: true, TopTypes: []string{"VerifiableCredential", "urn:other:type"}})
	add(credgen.Spec{Schema: ssAll, Subject: did, NoSubjectType: true, TopTypes: []string{"VerifiableCredential", "NoSuchType"}})
	add(credgen.Spec{Schema: ssAll, Subject: did, Values: [5]string{"1e3", "0", "x", "false", "2000-01-01T00:00:00+05:30"}})
	dup := credgen.SerAttr("count", "count", "price", "count")
	add(credgen.Spec{Schema: e.NewSchema(&dup), Subject: did})
	for _, bad := range []string{"iden3:v1:", "iden3:v2:slotIndexA=price", "slotIndexA=price", "iden3:v1:slotIndexA=price&slotIndexB=count&slotValueA=name&slotValueB=info.insured&slotIndexA=price",
		"iden3:v1:slotIndexA=price=count", "iden3:v1:slotIndexC=price", "iden3:v1:slotIndexA", "iden3:v1:slotIndexA=price&", "iden3:v1:slotIndexA=price&slotIndexA=count",
		"iden3:v1:slotIndexA=spare", "iden3:v1:slotValueB=nosuch", "iden3:v1:slotIndexA=info", "iden3:v1:slotIndexA=&slotValueA=", "Iden3:v1:slotIndexA=price", " iden3:v1:slotIndexA=price"} {
		add(credgen.Spec{Schema: e.NewSchema(str(bad)), Subject: did})
	}
	// attribute that is not a string; scoped context that is an array
	sNum := e.NewSchema(nil)
	sNum.SerRaw = 5
	_ = e.Register(sNum)
	add(credgen.Spec{Schema: sNum, Subject: did})
	sArr := e.NewSchema(str(credgen.SerAttr("price", "", "", "")))
	sArr.CtxShape = "array"
	_ = e.Register(sArr)
	add(credgen.Spec{Schema: sArr})
	// other types in the same context document (map-order regression D11): names sorting
	// before and after the type, array-shaped / absent / attribute-carrying contexts
	sx := e.NewSchema(str(credgen.SerAttr("", "price", "", "name")))
	sx.Extra = []credgen.ExtraType{
		{Name: "AaaArray", IRI: "urn:extra:a", Shape: "array"},
		{Name: "ZzzArray", IRI: "urn:extra:z", Shape: "array"},
		{Name: "AaaOther", IRI: "urn:extra:o", Shape: "map", SerAttr: credgen.SerAttr("name", "", "", "")},
		{Name: "Plain", IRI: "urn:extra:p", Shape: "none"},
		{Name: "Alias", IRI: "urn:extra:s", Shape: "string"},
	}
	_ = e.Register(sx)
	add(credgen.Spec{Schema: sx, Subject: did})
	add(credgen.Spec{Schema: sx, NoSubjectType: true, TopTypes: []string{"VerifiableCredential", "AaaOther"}})
	add(credgen.Spec{Schema: sx, NoSubjectType: true, TopTypes: []string{"AaaArray", "VerifiableCredential"}})
	add(credgen.Spec{Schema: sx, NoSubjectType: true, TopTypes: []string{"VerifiableCredential", "Plain"}})
	// two terms identified by the same IRI: the lookup by IRI meets both, the one whose name sorts first wins
	sal := e.NewSchema(str(credgen.SerAttr("price", "", "", "")))
	sal.Extra = []credgen.ExtraType{{Name: "AaaAlias", IRI: sal.TypeIRI, Shape: "map", SerAttr: credgen.SerAttr("", "", "", "name")},
		{Name: "ZzzAlias", IRI: sal.TypeIRI, Shape: "array"}}
	_ = e.Register(sal)
	add(credgen.Spec{Schema: sal, Subject: did})
	sal2 := e.NewSchema(str(credgen.SerAttr("count", "", "", "")))
	sal2.Extra = []credgen.ExtraType{{Name: "ZzzAlias2", IRI: sal2.TypeIRI, Shape: "map", SerAttr: credgen.SerAttr("", "name", "", "")},
		{Name: "AaaAlias2", IRI: sal2.TypeIRI, Shape: "none"}}
	_ = e.Register(sal2)
	add(credgen.Spec{Schema: sal2})
	// two terms, one IRI, and only one of them carries the attribute - all four combinations of
	// {alias sorts first, alias sorts last} x {attribute on the first, on the last}: the first term in
	// sorted order decides (no attribute there = an ordinary merklized schema, whatever the other says)
	for _, c := range []struct {
		alias       string
		attrOnAlias bool
	}{{"AaaAlias", true}, {"AaaAlias", false}, {"ZzzAlias", true}, {"ZzzAlias", false}} {
		var sc *credgen.Schema
		if c.attrOnAlias {
			sc = e.NewSchema(nil)
			sc.Extra = []credgen.ExtraType{{Name: c.alias, IRI: sc.TypeIRI, Shape: "map", SerAttr: credgen.SerAttr("count", "", "", "name")}}
		} else {
			sc = e.NewSchema(str(credgen.SerAttr("count", "", "", "name")))
			sc.Extra = []credgen.ExtraType{{Name: c.alias, IRI: sc.TypeIRI, Shape: "map"}}
		}
		_ = e.Register(sc)
		add(credgen.Spec{Schema: sc, Subject: did})
		add(credgen.Spec{Schema: sc})
	}
	// a context that does not load
	gone := &credgen.Schema{URL: "https://schemas.example/gen/missing.json-ld", TypeName: "Gone", TypeIRI: "urn:gone", CtxShape: "map"}
	gone.BuildDoc()
	p.special = append(p.special, credgen.Spec{Schema: ms, ExtraCtx: []string{gone.URL}})
	return p
}

func (g *gen) gridStream(p pool) {
	all := grid()
	rng := g.cfg.Rng
	full := map[int]bool{}
	creds := append(append([]credgen.Spec{}, p.merk...), p.ser...)
	if g.cfg.Thorough() {
		for i := range creds {
			full[i] = true
		}
	} else {
		// the whole grid on one merklized and one fully serialized credential with subject and expiration
		full[17] = true // subject id, expiration 2030-01-01T00:00:00.5Z
		full[len(creds)-1] = true
	}
	for i, c := range creds {
		var os []credgen.Opts
		if full[i] {
			os = all
		} else {
			for k := 0; k < g.cfg.Pick(5, 10); k++ {
				os = append(os, all[rng.Intn(len(all))])
			}
			os = append(os, credgen.Opts{Subject: "index"}, credgen.Opts{Subject: "value", Root: "value", Upd: true, Version: 7, RevNonce: 99})
		}
		for _, o := range os {
			g.add(&Input{Kind: "grid", Creds: []credgen.Spec{c}, Opts: []credgen.Opts{o}, Calls: []Call{{0, 0}}})
		}
		g.add(&Input{Kind: "grid", Creds: []credgen.Spec{c}, Calls: []Call{{0, -1}}})
	}
}

func (g *gen) specialStream(p pool) {
	rng := g.cfg.Rng
	all := grid()
	for _, c := range p.special {
		os := []credgen.Opts{{}, {Subject: "index", Root: "index"}, {Subject: "value", Root: "value", Upd: true, Version: 3, RevNonce: 12345678901234567890}, {Subject: "bogus"}, {Root: "bogus"}}
		for k := 0; k < g.cfg.Pick(2, 12); k++ {
			os = append(os, all[rng.Intn(len(all))])
		}
		for _, o := range os {
			g.add(&Input{Kind: "special", Creds: []credgen.Spec{c}, Opts: []credgen.Opts{o}, Calls: []Call{{0, 0}}})
		}
		g.add(&Input{Kind: "special", Creds: []credgen.Spec{c}, Calls: []Call{{0, -1}}})
	}
}

func (g *gen) sequenceStream(p pool) {
	rng := g.cfg.Rng
	all := grid()
	n := g.cfg.Pick(160, 2500)
	every := append(append(append([]credgen.Spec{}, p.merk...), p.ser...), p.special...)
	for h := 0; h < n; h++ {
		nc := 1 + rng.Intn(3)
		no := 1 + rng.Intn(3)
		in := &Input{Kind: "sequence"}
		for i := 0; i < nc; i++ {
			switch {
			case i == 0:
				in.Creds = append(in.Creds, p.merk[rng.Intn(len(p.merk))])
			case i == 1:
				in.Creds = append(in.Creds, p.ser[rng.Intn(len(p.ser))])
			default:
				in.Creds = append(in.Creds, every[rng.Intn(len(every))])
			}
		}
		for i := 0; i < no; i++ {
			o := all[rng.Intn(len(all))]
			if rng.Intn(2) == 0 {
				o.Root = "" // the interesting sharing: default root position, then a serialized credential
			}
			if rng.Intn(2) == 0 && o.Subject == "bogus" {
				o.Subject = "index"
			}
			in.Opts = append(in.Opts, o)
		}
		l := 1 + rng.Intn(6)
		for i := 0; i < l; i++ {
			k := Call{Cred: rng.Intn(nc), Opts: rng.Intn(no)}
			if rng.Intn(12) == 0 {
				k.Opts = -1
			}
			in.Calls = append(in.Calls, k)
		}
		g.add(in)
	}
	// the defect D6 as a fixed regression history: zero options, merklized then serialized credential
	g.add(&Input{Kind: "sequence", Creds: []credgen.Spec{p.merk[0], p.ser[len(p.ser)-1]}, Opts: []credgen.Opts{{}},
		Calls: []Call{{0, 0}, {1, 0}, {0, 0}, {1, 0}}})
}

// loaderStream: the same @context URLs and type, served by two document loaders with
// different schema documents (merklized vs serialized, two different slot assignments, well-formed
// vs malformed); calls interleaved in both orders over shared and separate credential objects.
// Every result must be the one a fresh call with that loader's documents gives.
func (g *gen) loaderStream(p pool) {
	e := g.env
	str := func(s string) *string { return &s }
	did := credgen.MakeDID(11)
	alt := func(base *credgen.Schema, ser *string, shape string) *credgen.Schema {
		return &credgen.Schema{URL: base.URL, TypeName: base.TypeName, TypeIRI: base.TypeIRI, Ser: ser, CtxShape: shape}
	}
	var specs []credgen.Spec
	a := e.NewSchema(nil) // merklized under loader 0, serialized under loader 1
	specs = append(specs, credgen.Spec{Schema: a, AltSchema: alt(a, str(credgen.SerAttr("price", "", "", "name")), "map"), Subject: did})
	b := e.NewSchema(str(credgen.SerAttr("count", "name", "", ""))) // serialized / merklized
	specs = append(specs, credgen.Spec{Schema: b, AltSchema: alt(b, nil, "map")})
	c := e.NewSchema(str(credgen.SerAttr("price", "count", "", ""))) // two different assignments
	x := int64(1900000000)
	specs = append(specs, credgen.Spec{Schema: c, AltSchema: alt(c, str(credgen.SerAttr("", "", "count", "price")), "map"), Subject: did, Expiration: &x})
	d := e.NewSchema(str(credgen.SerAttr("", "name", "", ""))) // well-formed / malformed
	specs = append(specs, credgen.Spec{Schema: d, AltSchema: alt(d, str("iden3:v1:slotIndexZ=name"), "map")})
	f := e.NewSchema(str(credgen.SerAttr("name", "", "", ""))) // map-shaped / array-shaped scoped context
	specs = append(specs, credgen.Spec{Schema: f, AltSchema: alt(f, str(credgen.SerAttr("name", "", "", "")), "array")})
	orders := [][]int{{0, 1}, {1, 0}, {0, 1, 0, 1}, {1, 0, 1, 0}, {0, 0, 1, 1, 0}, {1, 1, 0, 0, 1}}
	for _, sp := range specs {
		for _, ord := range orders {
			for _, twoObjects := range []bool{false, true} {
				in := &Input{Kind: "loaders", Creds: []credgen.Spec{sp}, Opts: []credgen.Opts{{Loader: 0}, {Loader: 1, Upd: true, Version: 2, RevNonce: 5}}}
				if twoObjects {
					in.Creds = append(in.Creds, sp) // a second credential object with the same @context URLs and type
				}
				for i, l := range ord {
					k := Call{Cred: 0, Opts: l}
					if twoObjects {
						k.Cred = i % 2
					}
					in.Calls = append(in.Calls, k)
				}
				g.add(in)
			}
		}
		// nil options use the process-wide default loader (loader 0), between calls that carry loader 1
		g.add(&Input{Kind: "loaders", Creds: []credgen.Spec{sp}, Opts: []credgen.Opts{{Loader: 1}}, Calls: []Call{{0, 0}, {0, -1}, {0, 0}, {0, -1}}})
	}
}

// failingStream: calls that fail at every stage (the credential does not marshal: NaN, +Inf, a
// channel, a function, a failing json.Marshaler in credentialSubject; the contexts do not load; the
// subject id is not a DID; unknown positions), on credentials that carry proofs, mixed with calls that
// succeed on the same objects.  After every call the credential is what it was, and the next call
// behaves like a fresh one.
func (g *gen) failingStream(p pool) {
	e := g.env
	str := func(s string) *string { return &s }
	did := credgen.MakeDID(13)
	ms := e.NewSchema(nil)
	ss := e.NewSchema(str(credgen.SerAttr("price", "", "", "name")))
	good := []credgen.Spec{{Schema: ms, Subject: did, WithProof: true}, {Schema: ss, WithProof: true}}
	var bad []credgen.Spec
	for _, po := range []string{"nan", "inf", "chan", "func", "marshaler"} {
		bad = append(bad, credgen.Spec{Schema: ms, Subject: did, WithProof: true, Poison: po}, credgen.Spec{Schema: ss, WithProof: true, Poison: po})
	}
	bad = append(bad, credgen.Spec{Schema: ms, Subject: "not-a-did", WithProof: true}, credgen.Spec{Schema: ss, Subject: "did:example:1", WithProof: true},
		credgen.Spec{Schema: ss, Omit: []string{"name"}, WithProof: true}, credgen.Spec{Schema: ms, WithProof: true, ExtraCtx: []string{"https://schemas.example/gen/missing.json-ld"}})
	for bi, b := range bad {
		gd := good[bi%2]
		// the failing call alone, twice; then between calls that succeed, sharing the option object
		g.add(&Input{Kind: "failing", Creds: []credgen.Spec{b}, Opts: []credgen.Opts{{}}, Calls: []Call{{0, 0}, {0, 0}, {0, -1}}})
		g.add(&Input{Kind: "failing", Creds: []credgen.Spec{gd, b}, Opts: []credgen.Opts{{Upd: true, Version: 1}}, Calls: []Call{{0, 0}, {1, 0}, {0, 0}, {1, 0}, {0, 0}}})
	}
	for _, gd := range good {
		// the contexts do not load with loader 2; unknown positions; then the same objects with a working loader
		g.add(&Input{Kind: "failing", Creds: []credgen.Spec{gd}, Opts: []credgen.Opts{{Loader: 2}, {}, {Subject: "bogus", Root: "bogus"}},
			Calls: []Call{{0, 0}, {0, 1}, {0, 2}, {0, 0}, {0, 1}, {0, -1}}})
	}
}

// contextStream: credentials with three and more contexts.  The schema's context depends on an EARLIER
// one (the type's @id is written `acme:Name`, the prefix comes from the context before it); a LATER
// context redefines the type with another attribute (the last definition is the type's); unrelated
// contexts before and after.
func (g *gen) contextStream(p pool) {
	e := g.env
	str := func(s string) *string { return &s }
	did := credgen.MakeDID(15)
	var specs []credgen.Spec
	mk := func(ser *string, compact bool) *credgen.Schema {
		s := e.NewSchema(ser)
		if compact {
			s.TypeIDWritten = "acme:" + s.TypeName
			s.TypeIRI = credgen.AcmeNS + s.TypeName
		}
		_ = e.Register(s)
		return s
	}
	a := mk(str(credgen.SerAttr("price", "", "", "name")), true)
	specs = append(specs, credgen.Spec{Schema: a, PreCtx: []string{credgen.URLPrefixCtx}},
		credgen.Spec{Schema: a, PreCtx: []string{credgen.URLNoiseCtx, credgen.URLPrefixCtx}, ExtraCtx: []string{credgen.URLNoiseCtx}, Subject: did},
		credgen.Spec{Schema: a, PreCtx: []string{credgen.URLPrefixCtx}, NoSubjectType: true, Subject: did})
	am := mk(nil, true) // merklized, prefix-dependent
	specs = append(specs, credgen.Spec{Schema: am, PreCtx: []string{credgen.URLPrefixCtx, credgen.URLNoiseCtx}, Subject: did})
	// without the earlier context the compact IRI stays what it is: another type IRI, no attribute found
	specs = append(specs, credgen.Spec{Schema: a, Subject: did})
	// a later context redefines the type
	for _, pair := range [][2]*string{{str(credgen.SerAttr("price", "", "", "")), str(credgen.SerAttr("", "count", "name", ""))},
		{str(credgen.SerAttr("price", "", "", "")), nil}, {nil, str(credgen.SerAttr("", "", "", "info.since"))}, {str(credgen.SerAttr("name", "", "", "")), str("iden3:v1:bad")}} {
		b := mk(pair[0], false)
		b.Unprotected = true
		_ = e.Register(b)
		ov := &credgen.Schema{URL: strings.Replace(b.URL, ".json-ld", "-override.json-ld", 1), TypeName: b.TypeName, TypeIRI: b.TypeIRI, Ser: pair[1], CtxShape: "map", Unprotected: true}
		specs = append(specs, credgen.Spec{Schema: b, Override: ov, Subject: did}, credgen.Spec{Schema: b, Override: ov, PreCtx: []string{credgen.URLNoiseCtx}, ExtraCtx: []string{credgen.URLPrefixCtx}})
	}
	os := []credgen.Opts{{}, {Subject: "value", Upd: true, Version: 5, RevNonce: 6}, {Root: "value"}}
	for _, sp := range specs {
		for _, o := range os {
			g.add(&Input{Kind: "contexts", Creds: []credgen.Spec{sp}, Opts: []credgen.Opts{o}, Calls: []Call{{0, 0}}})
		}
		g.add(&Input{Kind: "contexts", Creds: []credgen.Spec{sp}, Calls: []Call{{0, -1}, {0, -1}}})
	}
}

// sharedStream: option objects whose MerklizerOpts share one backing array with spare capacity
// (optsA = [loader], optsB = append(optsA, WithHasher)).  A call with one object must not disturb the
// other's options: the claim built with optsB is the same before and after a call with optsA.
func (g *gen) sharedStream(p pool) {
	e := g.env
	str := func(s string) *string { return &s }
	did := credgen.MakeDID(17)
	ms := e.NewSchema(nil)
	ss := e.NewSchema(str(credgen.SerAttr("name", "", "", "price")))
	for _, sp := range []credgen.Spec{{Schema: ms, Subject: did}, {Schema: ss}} {
		for _, calls := range [][]Call{{{0, 1}, {0, 0}, {0, 1}}, {{0, 0}, {0, 1}, {0, 0}, {0, 1}}, {{0, 1}, {0, 1}, {0, 0}, {0, 0}, {0, 1}}, {{0, 2}, {0, 1}, {0, 0}, {0, 2}, {0, 1}}} {
			g.add(&Input{Kind: "shared", SharedMz: true, Creds: []credgen.Spec{sp},
				Opts: []credgen.Opts{{}, {Salted: true, Upd: true}, {Salted: true, Version: 9, Subject: "value"}}, Calls: calls})
		}
	}
}

// ipfsStream: credentials whose contexts are ipfs:// objects that only the merklizer's own loader,
// configured through WithIPFSClient / WithIPFSGateway in MerklizerOpts, can resolve (no WithDocumentLoader;
// the process-wide default loader knows no IPFS).
func (g *gen) ipfsStream(p pool) {
	e := g.env
	str := func(s string) *string { return &s }
	did := credgen.MakeDID(19)
	ms := e.NewSchema(nil)
	ss := e.NewSchema(str(credgen.SerAttr("price", "count", "", "name")))
	x := int64(1888888888)
	for _, sp := range []credgen.Spec{{Schema: ms, Subject: did, CtxIPFS: true}, {Schema: ss, CtxIPFS: true, Expiration: &x}, {Schema: ss, CtxIPFS: true, Subject: did, Omit: []string{"name"}}} {
		for _, ld := range []int{3, 4} {
			for _, o := range []credgen.Opts{{Loader: ld}, {Loader: ld, Subject: "value", Upd: true, Version: 3, RevNonce: 8}, {Loader: ld, Root: "value"}} {
				g.add(&Input{Kind: "ipfs", Creds: []credgen.Spec{sp}, Opts: []credgen.Opts{o}, Calls: []Call{{0, 0}, {0, 0}}})
			}
		}
		// the loader of options 0 (and the default loader behind nil options) cannot resolve ipfs:// addresses
		g.add(&Input{Kind: "ipfs", Creds: []credgen.Spec{sp}, Opts: []credgen.Opts{{Loader: 3}, {Loader: 0}, {Loader: 4}}, Calls: []Call{{0, 0}, {0, 1}, {0, 2}, {0, -1}, {0, 0}}})
	}
}

func (g *gen) repeatStream(p pool) {
	pick := []credgen.Spec{p.merk[5], p.ser[len(p.ser)-1]}
	for _, c := range p.special {
		if len(c.Schema.Extra) > 0 {
			pick = append(pick, c)
		}
	}
	pick = append(pick, p.special[8])
	for _, c := range pick {
		for _, o := range []credgen.Opts{{}, {Subject: "value", Upd: true, Version: 1, RevNonce: 1}} {
			g.add(&Input{Kind: "repeat", Creds: []credgen.Spec{c}, Opts: []credgen.Opts{o}, Calls: []Call{{0, 0}}, Repeat: 30})
		}
	}
}

// ---------- shards ----------

const shardSize = 300

func obsCoq(o callObs) string {
	switch o.class {
	case "ok":
		var l []string
		for _, s := range o.slots {
			l = append(l, coqgen.Limbs(s))
		}
		return "OClaim [" + strings.Join(l, "; ") + "]"
	case "err":
		return "OErr"
	default:
		return "OPanic"
	}
}

func (g *gen) writeShards() error {
	n := len(g.hists)
	for s := 0; s*shardSize < n; s++ {
		lo, hi := s*shardSize, (s+1)*shardSize
		if hi > n {
			hi = n
		}
		f := coqgen.NewFile("From GSP Require Import Claim.Model Claim.Run.")
		or := credgen.NewOracles()
		poolIdx := map[string]int{}
		var poolDefs []string
		var cs, zs []string
		name := filepath.Join(g.cfg.OutDir, fmt.Sprintf("cases_C05_%03d.v", s))
		for i := lo; i < hi; i++ {
			in, ob := g.hists[i], g.obs[i]
			// the model's credential is the view under the loader the call's options carry
			poolOf := func(ci, loader int, salted bool) int {
				sp := in.Creds[ci]
				key := fmt.Sprintf("%d|%v|", loader, salted) + specKey(sp)
				j, ok := poolIdx[key]
				if !ok {
					v := g.viewOf(sp, loader, salted)
					or.Note(v)
					j = len(poolDefs)
					poolIdx[key] = j
					poolDefs = append(poolDefs, fmt.Sprintf("Definition cr%d := %s.", j, v.Coq(f)))
				}
				return j
			}
			var os, ks, obl, af []string
			for _, o := range in.Opts {
				os = append(os, o.Coq(f))
			}
			for _, k := range in.Calls {
				oi := "None"
				if k.Opts >= 0 {
					oi = fmt.Sprintf("(Some %d)", k.Opts)
				}
				ld, salted := 0, false
				if k.Opts >= 0 {
					ld, salted = in.Opts[k.Opts].Loader, in.Opts[k.Opts].Salted
				}
				ks = append(ks, fmt.Sprintf("kc %d %s", poolOf(k.Cred, ld, salted), oi))
			}
			for _, o := range ob.calls {
				obl = append(obl, obsCoq(o))
			}
			for _, o := range ob.after {
				af = append(af, o.Coq(f))
			}
			if len(ob.zObjs) > 0 {
				ints := func(l []int) string {
					var x []string
					for _, v := range l {
						x = append(x, fmt.Sprint(v))
					}
					return "[" + strings.Join(x, "; ") + "]"
				}
				var hp, objsC, callsC, aft []string
				for _, a := range ob.zHeap {
					hp = append(hp, ints(a))
				}
				for _, o := range ob.zObjs {
					objsC = append(objsC, fmt.Sprintf("mk_slice %d %d %d", o[0], o[1], o[2]))
				}
				for _, k := range in.Calls {
					if k.Opts >= 0 {
						callsC = append(callsC, fmt.Sprint(k.Opts))
					}
				}
				for _, a := range ob.zAfter {
					aft = append(aft, ints(a))
				}
				zs = append(zs, fmt.Sprintf("mkz %d [%s] [%s] [%s] [%s]", i, strings.Join(hp, "; "), strings.Join(objsC, "; "), strings.Join(callsC, "; "), strings.Join(aft, "; ")))
			}
			cs = append(cs, fmt.Sprintf("mkh %d [%s] [%s] [%s] [%s]", i, strings.Join(os, "; "), strings.Join(ks, "; "), strings.Join(obl, ";\n     "), strings.Join(af, "; ")))
			g.rep.Case(name, i, in)
		}
		f.Add(poolDefs...)
		var names []string
		for j := range poolDefs {
			names = append(names, fmt.Sprintf("cr%d", j))
		}
		f.Add("Definition creds_ : list cred := [" + strings.Join(names, "; ") + "].")
		f.Add("Definition oracles_ : raw_oracles := " + or.Coq(f) + ".")
		f.Add("Definition cases_ : list hcase := " + coqgen.List(cs) + ".")
		f.Add("Definition zcases_ : list zcase := " + coqgen.List(zs) + ".")
		f.Add("Definition M := Eval vm_compute in (hmismatches oracles_ creds_ cases_ ++ zmismatches zcases_)%list.")
		f.Add("Print M.")
		if err := f.Write(name); err != nil {
			return err
		}
		g.rep.Shards = append(g.rep.Shards, name)
	}
	return nil
}

func Run(cfg *common.Config) (*common.Report, error) {
	rep := common.NewReport("C05")
	rep.Correspondence = "Claim.Run.hmismatches: run_history / to_core_claim (Claim/Model.v) vs W3CCredential.ToCoreClaim over histories of calls sharing option objects and credentials: per call the 8 raw slot integers or the error class, and the option objects after the history"
	rep.Rule = "option grid {\"\",index,value,bogus}^2 x updatable x version {0,1,2^32-1} x nonce {0,1,2^64-1} (288 points; complete on two credentials in the quick tier, on all in the thorough tier, sampled otherwise) x credentials (merklized; serialized with all 2^4 slot subsets; subject id none / two DIDs; expiration none / 2030 / 1969 / 0 / instants with fractional seconds .4 .5 .75 .999999999 written with zone offsets, also before 1970) + special credentials (unusable DIDs, null id, type taken from the top-level pair, missing named field, malformed attributes, non-string attribute, array-shaped scoped contexts, sibling types, unloadable context) + random histories of 1..6 calls over 1..3 shared option objects (or nil) and 1..3 credentials + histories in which two document loaders serve different schema documents (merklized / serialized / other assignment / malformed) at the same @context URLs and type, interleaved in both orders + failing calls (unmarshalable subject values NaN / +Inf / channel / function / failing Marshaler, unloadable contexts, bad DIDs, unknown positions) on credentials carrying proofs, between successful calls on the same objects + credentials with 3+ contexts (type @id spelled with a prefix of an earlier context; a later context redefining the type) + option objects whose MerklizerOpts share one backing array with spare capacity + credentials whose contexts are ipfs:// objects resolvable only through WithIPFSClient / WithIPFSGateway in MerklizerOpts + 30-fold repetitions. distinct = distinct (credential specs, option objects, call list) histories; every history is non-trivial (it reaches the claim builder or one of its error points)."
	g := &gen{cfg: cfg, rep: rep, env: credgen.NewEnv(), views: map[string]credgen.View{}, fresh: map[string]callObs{}}
	// 3, 4: the documents of loader 0, reachable only as ipfs:// objects through the stub IPFS node / the stub gateway
	g.envs = []*credgen.Env{g.env, credgen.NewEnv(), credgen.NewEnv(), g.env.WithMode("ipfs-client"), g.env.WithMode("ipfs-gateway")}
	credgen.InstallGateway(g.env)
	merklize.SetDocumentLoader(g.env.Loader) // nil options carry no merklizer options: the default loader must be offline too
	if cfg.Replay != "" {
		return replay(cfg, g)
	}
	p := g.buildPool()
	g.gridStream(p)
	g.specialStream(p)
	g.sequenceStream(p)
	g.loaderStream(p)
	g.failingStream(p)
	g.contextStream(p)
	g.sharedStream(p)
	g.ipfsStream(p)
	g.repeatStream(p)
	g.flush()
	for i, in := range g.hists {
		if i%211 == 0 {
			var res []string
			for _, c := range g.obs[i].calls {
				res = append(res, c.class)
			}
			rep.Sample(map[string]any{"history": in, "results": res})
		}
	}
	rep.Exhaustive = false
	rep.Notes = append(rep.Notes, "the 288-point option grid is enumerated completely on at least two credentials per run (all credentials in the thorough tier)")
	if err := g.writeShards(); err != nil {
		return nil, err
	}
	return rep, nil
}

func replay(cfg *common.Config, g *gen) (*common.Report, error) {
	var rf struct {
		Input json.RawMessage `json:"input"`
	}
	if err := common.ReadJSON(cfg.Replay, &rf); err != nil {
		return nil, err
	}
	// failures carry {"history":..., "call":...}; correspondence cases carry the history itself
	var wrap struct {
		History *Input `json:"history"`
	}
	var in Input
	if err := json.Unmarshal(rf.Input, &wrap); err == nil && wrap.History != nil {
		in = *wrap.History
	} else if err := json.Unmarshal(rf.Input, &in); err != nil {
		return nil, err
	}
	g.add(&in)
	g.flush()
	o := g.obs[0]
	for i, c := range o.calls {
		fmt.Printf("replay: call %d -> %s %s %v\n", i, c.class, c.msg, c.slots)
	}
	fmt.Printf("replay: options after the history: %+v\n", o.after)
	g.rep.Sample(map[string]any{"history": in})
	if err := g.writeShards(); err != nil {
		return nil, err
	}
	return g.rep, nil
}
