package c12

// Decode facts: the shape of a JSON artefact as the decoding skeletons of
// coq/Total/Model.v take it (kinds of members, classification of every
// "siblings" element, which proof type an element names).

import (
	"encoding/hex"
	"fmt"
	"strings"

	core "github.com/iden3/go-iden3-core/v2"
	"github.com/iden3/go-iden3-crypto/babyjub"
	"github.com/iden3/go-schema-processor/v2/verifiable"
)

func isStrOrNull(m map[string]any, k string) bool {
	v, ok := m[k]
	if !ok || v == nil {
		return true
	}
	_, s := v.(string)
	return s
}

func isIntOrNull(m map[string]any, k string) bool {
	v, ok := m[k]
	if !ok || v == nil {
		return true
	}
	f, isNum := v.(float64)
	return isNum && f == float64(int64(f))
}

func issuerJ(v any, present bool) string {
	if !present {
		return "None"
	}
	if v == nil {
		return "(Some (mkissuerj true None))"
	}
	m, ok := v.(map[string]any)
	if !ok {
		return "(Some (mkissuerj false None))"
	}
	kinds := isStrOrNull(m, "id") && isStrOrNull(m, "authCoreClaim")
	if st, ok := m["state"]; ok && st != nil {
		sm, isObj := st.(map[string]any)
		if !isObj {
			kinds = false
		} else {
			for _, k := range []string{"txId", "rootOfRoots", "claimsTreeRoot", "revocationTreeRoot", "value", "status"} {
				kinds = kinds && isStrOrNull(sm, k)
			}
			kinds = kinds && isIntOrNull(sm, "blockTimestamp") && isIntOrNull(sm, "blockNumber")
		}
	}
	mv, mp := m["mtp"]
	return fmt.Sprintf("(Some (mkissuerj %s %s))", b2c(kinds), mtpJ(mv, mp))
}

func sigOK(s string) bool {
	b, err := hex.DecodeString(s)
	if err != nil {
		return false
	}
	var sig babyjub.SignatureComp
	if len(b) != len(sig) {
		return false
	}
	copy(sig[:], b)
	_, err = sig.Decompress()
	return err == nil
}

func proofJ(v any) string {
	m, ok := v.(map[string]any)
	if !ok {
		return "(mkproofj false None true None None false false)"
	}
	tp := "None"
	isSMT := false
	if s, ok := m["type"].(string); ok {
		switch verifiable.ProofType(s) {
		case verifiable.BJJSignatureProofType:
			tp = "(Some PBJJ)"
		case verifiable.Iden3SparseMerkleProofType:
			tp, isSMT = "(Some PSMTOld)", true
		case verifiable.Iden3SparseMerkleTreeProofType:
			tp, isSMT = "(Some PSMT)", true
		default:
			tp = "(Some PCommon)"
		}
	}
	kinds := isStrOrNull(m, "coreClaim") && isStrOrNull(m, "signature")
	mtp := "None"
	if isSMT {
		mv, mp := m["mtp"]
		mtp = mtpJ(mv, mp)
	}
	iv, ip := m["issuerData"]
	var c core.Claim
	claimOK := c.FromHex(str(m, "coreClaim")) == nil
	return fmt.Sprintf("(mkproofj true %s %s %s %s %s %s)", tp, b2c(kinds), mtp, issuerJ(iv, ip), b2c(claimOK), b2c(sigOK(str(m, "signature"))))
}

// proofsJ renders `proofsj` for the JSON value under "proof".
func proofsJ(v any) string {
	switch x := v.(type) {
	case nil:
		return "PJNull"
	case []any:
		var l []string
		for _, e := range x {
			l = append(l, proofJ(e))
		}
		return "(PJArray [" + strings.Join(l, ";") + "])"
	default:
		return "(PJSingle " + proofJ(x) + ")"
	}
}

// credJ renders `credj` (removal fragment: other members keep their kinds).
func credJ(cred map[string]any) string {
	p := "None"
	if v, ok := cred["proof"]; ok {
		p = "(Some " + proofsJ(v) + ")"
	}
	return fmt.Sprintf("(mkcredj true %s)", p)
}

func vmJ(v any) string {
	m, ok := v.(map[string]any)
	if !ok {
		return "(mkvmj false None)"
	}
	kinds := true
	for _, k := range []string{"id", "type", "controller"} {
		kinds = kinds && isStrOrNull(m, k)
	}
	gist := "None"
	if g, ok := m["global"]; ok && g != nil {
		gm, isObj := g.(map[string]any)
		if !isObj {
			kinds = false
		} else if pv, pp := gm["proof"]; pp && pv != nil {
			gist = mtpJ(pv, true)
			if pm, ok := pv.(map[string]any); ok && !isStrOrNull(pm, "type") {
				kinds = false
			}
		}
	}
	return fmt.Sprintf("(mkvmj %s %s)", b2c(kinds), gist)
}

func authJ(v any) string {
	switch x := v.(type) {
	case map[string]any:
		return "(AObject " + vmJ(x) + ")"
	case string:
		return "(AString true)"
	default:
		return "AOtherByte"
	}
}

// didDocJV: the value under "didDocument" of a resolver answer
func didDocJV(v any, present bool) string {
	if !present || v == nil {
		return "(mkdiddocj true [] [])"
	}
	m, ok := v.(map[string]any)
	if !ok {
		return "(mkdiddocj false [] [])"
	}
	return didDocJ(m)
}

// didDocJ renders `diddocj` for a DID document (not the resolver envelope).
func didDocJ(doc map[string]any) string {
	var vms, auths []string
	kinds := true
	if v, ok := doc["verificationMethod"]; ok && v != nil {
		arr, isArr := v.([]any)
		kinds = kinds && isArr
		for _, e := range arr {
			vms = append(vms, vmJ(e))
		}
	}
	for _, k := range []string{"assertionMethod", "authentication"} {
		if v, ok := doc[k]; ok && v != nil {
			arr, isArr := v.([]any)
			kinds = kinds && isArr
			for _, e := range arr {
				auths = append(auths, authJ(e))
			}
		}
	}
	return fmt.Sprintf("(mkdiddocj %s [%s] [%s])", b2c(kinds), strings.Join(vms, ";"), strings.Join(auths, ";"))
}

func statusJ(st map[string]any) string {
	kinds := true
	if iv, ok := st["issuer"]; ok && iv != nil {
		im, isObj := iv.(map[string]any)
		if !isObj {
			kinds = false
		} else {
			for _, k := range []string{"state", "rootOfRoots", "claimsTreeRoot", "revocationTreeRoot"} {
				kinds = kinds && isStrOrNull(im, k)
			}
		}
	}
	mv, mp := st["mtp"]
	return fmt.Sprintf("(mkstatusj %s %s)", b2c(kinds), mtpJ(mv, mp))
}

func gistJ(g map[string]any) string {
	kinds := isStrOrNull(g, "type")
	return fmt.Sprintf("(mkvmj %s %s)", b2c(kinds), mtpJ(map[string]any(g), true))
}
