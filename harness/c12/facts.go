package c12

// Facts: the PRIMITIVE observations about a (mutated) artefact set that the Coq
// control skeleton (coq/Total/Model.v) takes as data: which optional members
// are present, whether a hex string / DID / claim / signature decodes, what one
// library call (poseidon.Hash, merkletree.RootFromProof, VerifyPoseidon,
// CheckGenesisStateID) answered.  They are computed from the generic JSON with
// the libraries directly, never through the code under test - except the
// credential/claim binding check (a composite that belongs to C06), whose
// outcome is recorded through the hook VerifVerifyCoreClaim.

import (
	"context"
	"encoding/hex"
	"encoding/json"
	"fmt"
	"math/big"
	"strings"

	core "github.com/iden3/go-iden3-core/v2"
	"github.com/iden3/go-iden3-core/v2/w3c"
	"github.com/iden3/go-iden3-crypto/babyjub"
	"github.com/iden3/go-iden3-crypto/poseidon"
	"github.com/iden3/go-merkletree-sql/v2"
	"github.com/iden3/go-schema-processor/v2/merklize"
	"github.com/iden3/go-schema-processor/v2/verifiable"

	"vharness/coqgen"
	"vharness/ctxload"
)

func b2c(b bool) string { return coqgen.Bool(b) }

// hexField classifies a `*string` member meant to hold a 32-byte hex hash.
func hexField(obj map[string]any, key string) (class string, h *merkletree.Hash) {
	v, ok := obj[key]
	if !ok || v == nil {
		return "HNil_", nil
	}
	s, ok := v.(string)
	if !ok {
		return "HBad", nil
	}
	hh, err := merkletree.NewHashFromHex(s)
	if err != nil {
		return "HBad", nil
	}
	return "HGood", hh
}

type stateFacts struct {
	value, ctr, rtr, ror string
	hv, hctr, hrtr       *merkletree.Hash
	posOK, match         bool
}

func (s stateFacts) coq() string {
	return fmt.Sprintf("(mkstatef %s %s %s %s %s %s)", s.value, s.ctr, s.rtr, s.ror, b2c(s.posOK), b2c(s.match))
}

func orZero(h *merkletree.Hash) *big.Int {
	if h == nil {
		return big.NewInt(0)
	}
	return h.BigInt()
}

// stateOf: keys = names of (value, claimsTreeRoot, revocationTreeRoot, rootOfRoots)
func stateOf(obj map[string]any, kValue string) stateFacts {
	var s stateFacts
	var hror *merkletree.Hash
	if obj == nil {
		obj = map[string]any{}
	}
	s.value, s.hv = hexField(obj, kValue)
	s.ctr, s.hctr = hexField(obj, "claimsTreeRoot")
	s.rtr, s.hrtr = hexField(obj, "revocationTreeRoot")
	s.ror, hror = hexField(obj, "rootOfRoots")
	if s.ctr != "HBad" && s.rtr != "HBad" && s.ror != "HBad" {
		want, err := poseidon.Hash([]*big.Int{orZero(s.hctr), orZero(s.hrtr), orZero(hror)})
		if err == nil {
			s.posOK = true
			if s.hv != nil {
				s.match = want.Cmp(s.hv.BigInt()) == 0
			}
		}
	}
	return s
}

type mtpFacts struct{ coqTerm string }

// mtpOf decodes the proof object with the dependency's own decoder (under recover),
// calls merkletree.RootFromProof (under recover) and compares with the expected root.
func mtpOf(v any, present bool, want *merkletree.Hash, k, val *big.Int) string {
	if !present || v == nil {
		return "None"
	}
	b, _ := json.Marshal(v)
	var p merkletree.Proof
	decoded := false
	func() {
		defer func() { _ = recover() }()
		if err := json.Unmarshal(b, &p); err == nil {
			decoded = true
		}
	}()
	if !decoded {
		// the enclosing document does not decode: never consulted
		return "(Some (mkmtpf false None LErr))"
	}
	return mtpOfProof(&p, want, k, val)
}

// mtpOfProof renders `option mtpf` for a decoded (or programmatically built) proof:
// NodeAux shape and what merkletree.RootFromProof does on it (under recover).
func mtpOfProof(p *merkletree.Proof, want *merkletree.Hash, k, val *big.Int) string {
	aux := "None"
	if p.NodeAux != nil {
		aux = fmt.Sprintf("(Some (%s, %s))", b2c(p.NodeAux.Key != nil), b2c(p.NodeAux.Value != nil))
	}
	lib := "LErr"
	func() {
		defer func() {
			if r := recover(); r != nil {
				lib = "LPanic"
			}
		}()
		if k == nil || val == nil {
			return
		}
		root, err := merkletree.RootFromProof(p, k, val)
		if err != nil {
			return
		}
		eq := want != nil && root.Equals(want)
		lib = "(LRoot " + b2c(eq) + ")"
	}()
	return fmt.Sprintf("(Some (mkmtpf %s %s %s))", b2c(p.Existence), aux, lib)
}

func asMap(v any) map[string]any {
	m, _ := v.(map[string]any)
	return m
}

func str(obj map[string]any, key string) string {
	if obj == nil {
		return ""
	}
	s, _ := obj[key].(string)
	return s
}

// issuerFacts: issuerData.id / state, the DID resolver's answer, genesis check
func issuerFacts(issuerData map[string]any, a *Arte) (string, stateFacts) {
	st := stateOf(asMap(issuerData["state"]), "value")
	did, err := w3c.ParseDID(str(issuerData, "id"))
	didOK := err == nil
	resolve := didAnswerFacts(a.didAnswer())
	idOK, genesis := false, "None"
	if didOK && st.hv != nil {
		did.Query = fmt.Sprintf("state=%s", st.hv.Hex())
		id, err := core.IDFromDID(*did)
		if err == nil {
			idOK = true
			g, err := core.CheckGenesisStateID(id.BigInt(), st.hv.BigInt())
			if err == nil {
				genesis = "(Some " + b2c(g) + ")"
			}
		}
	}
	return fmt.Sprintf("(mkissuerf %s %s %s %s %s)", b2c(didOK), st.coq(), resolve, b2c(idOK), genesis), st
}

type credStatusMirror struct {
	ID              string `json:"id"`
	Type            string `json:"type"`
	RevocationNonce uint64 `json:"revocationNonce"`
	StatusIssuer    any    `json:"statusIssuer,omitempty"`
}

// statusAnswerFacts: what IssuerResolver would hand to ValidateCredentialStatus
func statusAnswerFacts(a *Arte, url string, nonce uint64) string {
	if !strings.HasPrefix(url, statusHost) {
		return "RAErr"
	}
	ra := a.statusAnswer()
	if ra.Transport || ra.Code < 200 || ra.Code >= 300 || len(ra.Body) >= verifiable.VerifLimitReaderBytes {
		return "RAErr"
	}
	v, err := canonBytes(ra.Body, statusS)
	if err != nil {
		return "RAErr" // json.Unmarshal fails: syntax / trailing data
	}
	if v == nil {
		v = map[string]any{} // null leaves the zero RevocationStatus
	}
	st, ok := v.(map[string]any)
	if !ok {
		return "RAErr" // cannot unmarshal array / string / number into RevocationStatus
	}
	issuer := asMap(st["issuer"])
	sf := stateOf(issuer, "state")
	want := sf.hrtr
	if sf.rtr == "HNil_" {
		want = &merkletree.HashZero
	}
	mtp := st["mtp"]
	if mtp == nil {
		mtp = map[string]any{} // a value member: absent = zero proof
	}
	m := mtpOf(mtp, true, want, new(big.Int).SetUint64(nonce), big.NewInt(0))
	m = strings.TrimSuffix(strings.TrimPrefix(m, "(Some "), ")")
	return fmt.Sprintf("(RAns %s %s %s)", statusJ(st), sf.coq(), m)
}

func claimFromHex(s string) (*core.Claim, bool) {
	var c core.Claim
	if err := c.FromHex(s); err != nil {
		return nil, false
	}
	return &c, true
}

// ProofSel renders the `proofsel` term for VerifyProof(kind) on the artefact set.
// vc is the decoded credential (for the binding hook), or nil.
func ProofSel(a *Arte, vc *verifiable.W3CCredential, loader *ctxload.Loader) string {
	var proofs []any
	switch p := a.Cred["proof"].(type) {
	case []any:
		proofs = p
	case map[string]any:
		proofs = []any{p}
	}
	var sel map[string]any
	for _, p := range proofs {
		if m := asMap(p); m != nil && str(m, "type") == a.Kind {
			sel = m
			break
		}
	}
	if sel == nil {
		return "SelNone"
	}
	claim, claimOK := claimFromHex(str(sel, "coreClaim"))
	// json.Marshal(vc) marshals EVERY typed proof of the credential
	deep := false
	for _, p := range proofs {
		if m := asMap(p); m != nil {
			switch verifiable.ProofType(str(m, "type")) {
			case verifiable.BJJSignatureProofType:
				deep = deep || deepMTP(asMap(m["issuerData"])["mtp"])
			case verifiable.Iden3SparseMerkleTreeProofType, verifiable.Iden3SparseMerkleProofType:
				deep = deep || deepMTP(asMap(m["issuerData"])["mtp"]) || deepMTP(m["mtp"])
			}
		}
	}
	bindOK := false
	if claimOK && vc != nil && !deep {
		o := guard(watchdog, func() error {
			return vc.VerifVerifyCoreClaim(context.Background(), claim, []merklize.MerklizeOption{merklize.WithDocumentLoader(loader)})
		})
		bindOK = o.Class == "ok"
	}
	var hi, hv *big.Int
	hihvOK := false
	if claimOK {
		var err error
		hi, hv, err = claim.HiHv()
		hihvOK = err == nil
	}
	issuerData := asMap(sel["issuerData"])
	if issuerData == nil {
		issuerData = map[string]any{}
	}
	iss, st := issuerFacts(issuerData, a)
	switch verifiable.ProofType(a.Kind) {
	case verifiable.BJJSignatureProofType:
		auth, authOK := claimFromHex(str(issuerData, "authCoreClaim"))
		sig := "SigErr"
		var msg *big.Int
		if hihvOK {
			m, err := poseidon.Hash([]*big.Int{hi, hv})
			if err != nil {
				hihvOK = false
			}
			msg = m
		}
		if sb, err := hex.DecodeString(str(sel, "signature")); err == nil {
			var comp [64]byte
			copy(comp[:], sb)
			s, err := new(babyjub.Signature).Decompress(comp)
			switch {
			case err != nil:
			case s == nil:
				sig = "SigNilNoErr"
			default:
				valid := false
				if authOK && msg != nil {
					ints := auth.RawSlotsAsInts()
					pk := babyjub.PublicKey{X: ints[2], Y: ints[3]}
					func() {
						defer func() { _ = recover() }()
						valid = pk.VerifyPoseidon(msg, s)
					}()
				}
				sig = "(SigOk " + b2c(valid) + ")"
			}
		}
		var ahi, ahv *big.Int
		authHiHvOK := false
		if authOK {
			var err error
			ahi, ahv, err = auth.HiHv()
			authHiHvOK = err == nil
		}
		mv, mpresent := issuerData["mtp"]
		mtp := mtpOf(mv, mpresent, st.hctr, ahi, ahv)
		// status
		raw := "RSOther"
		nonceEq, registered := false, false
		answer := "RAErr"
		if cs := asMap(issuerData["credentialStatus"]); cs != nil {
			var mir credStatusMirror
			b, _ := json.Marshal(cs)
			dec := json.Unmarshal(b, &mir) == nil
			raw = fmt.Sprintf("(RSObj %s %s)", b2c(dec), b2c(mir.Type != ""))
			if dec {
				if authOK {
					nonceEq = mir.RevocationNonce == auth.GetRevocationNonce()
				}
				registered = mir.Type == statusType
				answer = statusAnswerFacts(a, mir.ID, mir.RevocationNonce)
			}
		}
		status := fmt.Sprintf("(mkstatusf %s %s %s %s)", raw, b2c(nonceEq), b2c(registered), answer)
		return fmt.Sprintf("(SelBJJ %s %s %s true (mkbjjf %s %s %s %s %s %s %s))", b2c(claimOK), b2c(deep), b2c(bindOK),
			b2c(authOK), sig, b2c(hihvOK), mtp, b2c(authHiHvOK), iss, status)
	case verifiable.Iden3SparseMerkleTreeProofType:
		mv, mpresent := sel["mtp"]
		mtp := mtpOf(mv, mpresent, st.hctr, hi, hv)
		return fmt.Sprintf("(SelSMT %s %s %s true (mksmtf %s %s %s))", b2c(claimOK), b2c(deep), b2c(bindOK), iss, b2c(hihvOK), mtp)
	default:
		return fmt.Sprintf("(SelOther %s %s %s)", b2c(claimOK), b2c(deep), b2c(bindOK))
	}
}

// StatusF renders the `statusf` term for ValidateCredentialStatus on a status answer.
func StatusF(status map[string]any, nonce uint64) string {
	return StatusFRaw(&Arte{Status: status}, nonce)
}

// StatusFRaw: the same for an artefact set carrying a raw status answer.
func StatusFRaw(a *Arte, nonce uint64) string {
	return fmt.Sprintf("(mkstatusf (RSObj true true) true true %s)", statusAnswerFacts(a, statusHost+"x", nonce))
}

// ---- decode facts ----
func sibClass(v any) string {
	switch x := v.(type) {
	case nil:
		return "SNull"
	case string:
		h, err := merkletree.NewHashFromString(x)
		if err != nil {
			return "SBad"
		}
		if h.Equals(&merkletree.HashZero) {
			return "SZero"
		}
		return "SNonZero"
	default:
		return "SBad"
	}
}

func hashStrOK(v any, present bool) bool {
	if !present || v == nil {
		return true
	}
	s, ok := v.(string)
	if !ok {
		return false
	}
	_, err := merkletree.NewHashFromString(s)
	return err == nil
}

// mtpJ renders `option mtpj` for a "mtp"-like member.
func mtpJ(v any, present bool) string {
	if !present || v == nil {
		return "None" // null leaves a pointer nil / a value untouched: the decoder is not called
	}
	m, ok := v.(map[string]any)
	if !ok {
		// Proof.UnmarshalJSON is called with a non-object: json.Unmarshal into the struct fails
		return "(Some (mkmtpj false []))"
	}
	kinds := m[badKindKey] == nil
	if e, ok := m["existence"]; ok && e != nil {
		if _, isB := e.(bool); !isB {
			kinds = false
		}
	}
	if na, ok := m["node_aux"]; ok && na != nil {
		nm, isObj := na.(map[string]any)
		if !isObj {
			kinds = false
		} else {
			kv, kp := nm["key"]
			vv, vp := nm["value"]
			if !hashStrOK(kv, kp) || !hashStrOK(vv, vp) {
				kinds = false
			}
		}
	}
	sibList := func(s any) string {
		var sibs []string
		if s != nil {
			arr, isArr := s.([]any)
			if !isArr {
				kinds = false
			}
			for _, e := range arr {
				sibs = append(sibs, sibClass(e))
			}
		}
		return "[" + strings.Join(sibs, ";") + "]"
	}
	if ms, ok := m[sibMembersKey].([]any); ok {
		// raw JSON: the members spelled like "siblings" up to case, in document order
		var l []string
		for _, e := range ms {
			pair := e.([]any)
			l = append(l, fmt.Sprintf("(%s, %s)", coqgen.StringLit(pair[0].(string)), sibList(pair[1])))
		}
		return fmt.Sprintf("(Some (mkmtpj_m %s [%s]))", b2c(kinds), strings.Join(l, ";"))
	}
	sl := "[]"
	if s, ok := m["siblings"]; ok {
		sl = sibList(s)
	}
	return fmt.Sprintf("(Some (mkmtpj %s %s))", b2c(kinds), sl)
}

// deepMTP: the proof object has more than 240 siblings (Proof.MarshalJSON panics on it)
func deepMTP(v any) bool {
	m := asMap(v)
	if m == nil {
		return false
	}
	arr, _ := m["siblings"].([]any)
	return len(arr) > 240
}

// didAnswerFacts renders `didans` for an HTTP answer of the DID resolver
// (HTTPDIDResolver ignores the status code and decodes the first JSON value).
func didAnswerFacts(ra *rawAnswer) string {
	if ra == nil || ra.Transport {
		return "DErr"
	}
	env, err := canonFirst(ra.Body, didEnvS)
	if err != nil {
		return "DErr" // empty, truncated, not JSON
	}
	if env == nil {
		return "DNull"
	}
	em, ok := env.(map[string]any)
	if !ok {
		return "DErr" // json: cannot unmarshal array / string / number into the result struct
	}
	inner, present := em["didDocument"]
	info := "None"
	if im := asMap(inner); im != nil {
		if vms, ok := im["verificationMethod"].([]any); ok {
			for _, e := range vms {
				if vm := asMap(e); vm != nil && str(vm, "type") == "Iden3StateInfo2023" {
					switch p := vm["published"].(type) {
					case bool:
						info = "(Some (Some " + b2c(p) + "))"
					default:
						info = "(Some None)"
					}
					break
				}
			}
		}
	}
	return fmt.Sprintf("(DDoc %s %s)", didDocJV(inner, present), info)
}

func w3cParse(s string) (*w3c.DID, error) { return w3c.ParseDID(s) }
