package c12

// Running W3CCredential.VerifyProof / ValidateCredentialStatus / the decoders on
// (mutated) artefacts under recover + watchdog, with stub resolvers that decode
// their answers with the library's own types.

import (
	"bytes"
	"context"
	"encoding/json"
	"fmt"
	"io"
	"net/http"
	"strings"
	"sync"
	"time"

	"github.com/iden3/go-schema-processor/v2/merklize"
	"github.com/iden3/go-schema-processor/v2/verifiable"

	"vharness/ctxload"
)

const watchdog = 20 * time.Second

// ---- JSON paths ----
type jpath []any // string | int

func (p jpath) String() string {
	var sb strings.Builder
	for i, e := range p {
		if i > 0 {
			sb.WriteString(".")
		}
		sb.WriteString(fmt.Sprint(e))
	}
	return sb.String()
}

func jget(v any, p jpath) (any, bool) {
	for _, e := range p {
		switch k := e.(type) {
		case string:
			m, ok := v.(map[string]any)
			if !ok {
				return nil, false
			}
			v, ok = m[k]
			if !ok {
				return nil, false
			}
		case int:
			a, ok := v.([]any)
			if !ok || k < 0 || k >= len(a) {
				return nil, false
			}
			v = a[k]
		}
	}
	return v, true
}

// jremove deletes the member / element at p (no-op when it is not there).
func jremove(root any, p jpath) {
	if len(p) == 0 {
		return
	}
	parent, ok := jget(root, p[:len(p)-1])
	if !ok {
		return
	}
	if k, isStr := p[len(p)-1].(string); isStr {
		if m, ok := parent.(map[string]any); ok {
			delete(m, k)
		}
	}
}

// jset replaces the member at p (creating it in an existing parent object).
func jset(root any, p jpath, val any) {
	if len(p) == 0 {
		return
	}
	parent, ok := jget(root, p[:len(p)-1])
	if !ok {
		return
	}
	switch k := p[len(p)-1].(type) {
	case string:
		if m, ok := parent.(map[string]any); ok {
			m[k] = val
		}
	case int:
		if a, ok := parent.([]any); ok && k >= 0 && k < len(a) {
			a[k] = val
		}
	}
}

// allMembers lists the path of every object member (at every depth).
func allMembers(v any, prefix jpath, out *[]jpath) {
	switch x := v.(type) {
	case map[string]any:
		keys := make([]string, 0, len(x))
		for k := range x {
			keys = append(keys, k)
		}
		sortStrings(keys)
		for _, k := range keys {
			p := append(append(jpath{}, prefix...), k)
			*out = append(*out, p)
			allMembers(x[k], p, out)
		}
	case []any:
		for i, e := range x {
			allMembers(e, append(append(jpath{}, prefix...), i), out)
		}
	}
}

// allPositions lists the path of every value (members and array elements).
func allPositions(v any, prefix jpath, out *[]jpath) {
	switch x := v.(type) {
	case map[string]any:
		keys := make([]string, 0, len(x))
		for k := range x {
			keys = append(keys, k)
		}
		sortStrings(keys)
		for _, k := range keys {
			p := append(append(jpath{}, prefix...), k)
			*out = append(*out, p)
			allPositions(x[k], p, out)
		}
	case []any:
		for i, e := range x {
			p := append(append(jpath{}, prefix...), i)
			*out = append(*out, p)
			allPositions(e, p, out)
		}
	}
}

func sortStrings(s []string) {
	for i := 1; i < len(s); i++ {
		for j := i; j > 0 && s[j] < s[j-1]; j-- {
			s[j], s[j-1] = s[j-1], s[j]
		}
	}
}

// ---- an artefact set under test ----
type Arte struct {
	Kind   string         `json:"kind"` // verifiable.ProofType to verify
	Cred   map[string]any `json:"cred,omitempty"`
	DIDDoc map[string]any `json:"diddoc,omitempty"`
	Status map[string]any `json:"status,omitempty"`
	// raw credential bytes (override Cred when set: member-name variants, duplicates)
	CredRaw []byte `json:"cred_raw,omitempty"`
	// raw HTTP answers of the resolvers (override DIDDoc / Status when set)
	DIDRaw    *rawAnswer `json:"did_raw,omitempty"`
	StatusRaw *rawAnswer `json:"status_raw,omitempty"`
}

// rawAnswer: what the stub transport answers
type rawAnswer struct {
	Code      int    `json:"code"`
	Body      []byte `json:"body"`
	Transport bool   `json:"transport_error,omitempty"` // RoundTrip returns an error
}

func (b *Bundle) Arte() *Arte {
	return &Arte{Kind: string(b.Kind), Cred: cloneMap(b.Cred), DIDDoc: cloneMap(b.DIDDoc), Status: cloneMap(b.Status)}
}

func (a *Arte) copy() *Arte {
	return &Arte{Kind: a.Kind, Cred: cloneMap(a.Cred), DIDDoc: cloneMap(a.DIDDoc), Status: cloneMap(a.Status), CredRaw: a.CredRaw, DIDRaw: a.DIDRaw, StatusRaw: a.StatusRaw}
}

// didAnswer / statusAnswer: the HTTP answers the resolvers will see
func (a *Arte) didAnswer() *rawAnswer {
	if a.DIDRaw != nil {
		return a.DIDRaw
	}
	if a.DIDDoc == nil {
		return &rawAnswer{Transport: true}
	}
	b, _ := json.Marshal(a.DIDDoc)
	return &rawAnswer{Code: 200, Body: b}
}
func (a *Arte) statusAnswer() *rawAnswer {
	if a.StatusRaw != nil {
		return a.StatusRaw
	}
	if a.Status == nil {
		return &rawAnswer{Code: 404}
	}
	b, _ := json.Marshal(a.Status)
	return &rawAnswer{Code: 200, Body: b}
}

// oneAnswer is an http.RoundTripper that answers every request the same way.
type oneAnswer struct{ r *rawAnswer }

func (o oneAnswer) RoundTrip(req *http.Request) (*http.Response, error) {
	if o.r == nil || o.r.Transport {
		return nil, fmt.Errorf("stub transport: connection refused")
	}
	return &http.Response{StatusCode: o.r.Code, Status: fmt.Sprintf("%d", o.r.Code), Body: io.NopCloser(bytes.NewReader(o.r.Body)), Header: http.Header{}, Request: req}, nil
}

const resolverURL = "http://resolver.c12.invalid/1.0/identifiers"

func httpDIDResolver(r *rawAnswer) verifiable.HTTPDIDResolver {
	return verifiable.VerifNewHTTPDIDResolver(resolverURL, &http.Client{Transport: oneAnswer{r}})
}

// part selects one of the three documents: "cred", "diddoc", "status".
type member struct {
	Doc  string
	Path jpath
}

func (m member) String() string { return m.Doc + ":" + m.Path.String() }

func (a *Arte) doc(name string) map[string]any {
	switch name {
	case "cred":
		return a.Cred
	case "diddoc":
		return a.DIDDoc
	default:
		return a.Status
	}
}

func (a *Arte) remove(m member) { jremove(a.doc(m.Doc), m.Path) }

// ---- stub transports ----
// statusTransport serves revocation status answers to verifiable.IssuerResolver
// (which uses http.DefaultClient) without any network: the body is looked up
// by the request path.
type statusTransport struct {
	mu     sync.RWMutex
	bodies map[string]*rawAnswer
}

var transport = &statusTransport{bodies: map[string]*rawAnswer{}}

func (t *statusTransport) set(key string, body *rawAnswer) {
	t.mu.Lock()
	t.bodies[key] = body
	t.mu.Unlock()
}
func (t *statusTransport) del(key string) {
	t.mu.Lock()
	delete(t.bodies, key)
	t.mu.Unlock()
}

func (t *statusTransport) RoundTrip(req *http.Request) (*http.Response, error) {
	if !strings.HasPrefix(req.URL.String(), statusHost) {
		return nil, fmt.Errorf("offline: %s", req.URL)
	}
	key := strings.TrimPrefix(req.URL.String(), statusHost)
	t.mu.RLock()
	b, ok := t.bodies[key]
	t.mu.RUnlock()
	if !ok {
		return &http.Response{StatusCode: 404, Status: "404 Not Found", Body: io.NopCloser(bytes.NewReader(nil)), Header: http.Header{}, Request: req}, nil
	}
	return oneAnswer{b}.RoundTrip(req)
}

var installOnce sync.Once

func installTransport() {
	installOnce.Do(func() { http.DefaultClient = &http.Client{Transport: transport} })
}

var caseSeq struct {
	mu sync.Mutex
	n  int
}

func nextKey() string {
	caseSeq.mu.Lock()
	defer caseSeq.mu.Unlock()
	caseSeq.n++
	return fmt.Sprintf("k%d/", caseSeq.n)
}

// routeStatus rewrites every credentialStatus "id" that points at the stub host so
// that it carries a per-run key (several cases run concurrently).
func routeStatus(v any, key string) {
	switch x := v.(type) {
	case map[string]any:
		for k, e := range x {
			if s, ok := e.(string); ok && k == "id" && strings.HasPrefix(s, statusHost) {
				x[k] = statusHost + key + strings.TrimPrefix(s, statusHost)
			} else {
				routeStatus(e, key)
			}
		}
	case []any:
		for _, e := range x {
			routeStatus(e, key)
		}
	}
}

type Verdict struct {
	Decode Outcome // json.Unmarshal into W3CCredential
	Verify Outcome // VerifyProof (only when Decode is ok)
}

func (v Verdict) Class() string {
	if v.Decode.Class != "ok" {
		return v.Decode.Class
	}
	return v.Verify.Class
}

// RunVerify decodes the credential and runs VerifyProof with stub resolvers.
// The artefact is used as given (the caller clones).
func RunVerify(a *Arte, loader *ctxload.Loader) (Verdict, *verifiable.W3CCredential) {
	installTransport()
	key := nextKey()
	if p, ok := a.Cred["proof"]; ok {
		routeStatus(p, key) // only the proof: the credential body is bound to the claim
	}
	sa := a.statusAnswer()
	transport.set(key+"auth", sa)
	transport.set(key+"cred", sa)
	defer transport.del(key + "auth")
	defer transport.del(key + "cred")
	da := a.didAnswer()
	cbody, _ := json.Marshal(a.Cred)
	if a.CredRaw != nil {
		// route the status ids of the raw text as well
		cbody = bytes.ReplaceAll(a.CredRaw, []byte(`"`+statusHost), []byte(`"`+statusHost+key))
	}
	var vc verifiable.W3CCredential
	var v Verdict
	v.Decode = guard(watchdog, func() error { return json.Unmarshal(cbody, &vc) })
	if v.Decode.Class != "ok" {
		return v, nil
	}
	reg := &verifiable.CredentialStatusResolverRegistry{}
	reg.Register(statusType, verifiable.IssuerResolver{})
	v.Verify = guard(watchdog, func() error {
		return vc.VerifyProof(context.Background(), verifiable.ProofType(a.Kind), httpDIDResolver(da),
			verifiable.WithStatusResolverRegistry(reg),
			verifiable.VerifWithMerklizeOptions(merklize.WithDocumentLoader(loader)))
	})
	return v, &vc
}

// RunStatus runs ValidateCredentialStatus on a status answer; (nil RevocationStatus
// pointer semantics do not exist: it is a value).
func RunStatus(status map[string]any, nonce uint64) Outcome {
	installTransport()
	key := nextKey()
	b, _ := json.Marshal(status)
	return runStatusRaw(&rawAnswer{Code: 200, Body: b}, nonce, key)
}

func runStatusRaw(ra *rawAnswer, nonce uint64, key string) Outcome {
	installTransport()
	if key == "" {
		key = nextKey()
	}
	transport.set(key+"s", ra)
	defer transport.del(key + "s")
	reg := &verifiable.CredentialStatusResolverRegistry{}
	reg.Register(statusType, verifiable.IssuerResolver{})
	return guard(watchdog, func() error {
		_, err := verifiable.ValidateCredentialStatus(context.Background(),
			verifiable.CredentialStatus{ID: statusHost + key + "s", Type: statusType, RevocationNonce: nonce},
			verifiable.WithValidationStatusResolverRegistry(reg))
		return err
	})
}

// decodeInto runs json.Unmarshal of body into a fresh value of the named library type.
func decodeInto(target string, body []byte) Outcome {
	return guard(watchdog, func() error {
		switch target {
		case "W3CCredential":
			var v verifiable.W3CCredential
			return json.Unmarshal(body, &v)
		case "CredentialProofs":
			var v verifiable.CredentialProofs
			return json.Unmarshal(body, &v)
		case "DIDDocument":
			var v verifiable.DIDDocument
			return json.Unmarshal(body, &v)
		case "RevocationStatus":
			var v verifiable.RevocationStatus
			return json.Unmarshal(body, &v)
		case "GistInfoProof":
			var v verifiable.GistInfoProof
			return json.Unmarshal(body, &v)
		case "Authentication":
			var v verifiable.Authentication
			return json.Unmarshal(body, &v)
		case "Authentication.UnmarshalJSON":
			var v verifiable.Authentication
			return v.UnmarshalJSON(body)
		case "BJJSignatureProof2021":
			var v verifiable.BJJSignatureProof2021
			return json.Unmarshal(body, &v)
		case "Iden3SparseMerkleTreeProof":
			var v verifiable.Iden3SparseMerkleTreeProof
			return json.Unmarshal(body, &v)
		case "Iden3SparseMerkleProof":
			var v verifiable.Iden3SparseMerkleProof
			return json.Unmarshal(body, &v)
		case "IssuerData":
			var v verifiable.IssuerData
			return json.Unmarshal(body, &v)
		case "CommonProof":
			var v verifiable.CommonProof
			return json.Unmarshal(body, &v)
		case "CredentialStatus":
			var v verifiable.CredentialStatus
			return json.Unmarshal(body, &v)
		default:
			return fmt.Errorf("unknown target %s", target)
		}
	})
}
