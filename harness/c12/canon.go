package c12

// Canonicalisation of raw JSON the way encoding/json delivers it to the library's
// types: an object decoded into a STRUCT matches member names case-insensitively and
// every occurrence assigns the field (the last one wins); an object decoded into a
// map / interface{} keeps exact keys (the last duplicate wins).  The fact extractors
// work on the canonical form; for merkle proofs the spelled "siblings" members are
// kept in document order (the Coq skeleton does the lookup itself).

import (
	"bytes"
	"encoding/json"
	"fmt"
	"io"
	"sort"
	"strings"
)

// omap: a JSON object with its members in document order (duplicates kept)
type omap struct {
	keys []string
	vals []any
}

func parseOrdered(b []byte) (any, error) {
	dec := json.NewDecoder(bytes.NewReader(b))
	dec.UseNumber()
	v, err := parseValue(dec)
	if err != nil {
		return nil, err
	}
	if _, err := dec.Token(); err != io.EOF {
		return nil, fmt.Errorf("trailing data")
	}
	return v, nil
}

func parseValue(dec *json.Decoder) (any, error) {
	t, err := dec.Token()
	if err != nil {
		return nil, err
	}
	switch x := t.(type) {
	case json.Delim:
		switch x {
		case '{':
			o := &omap{}
			for dec.More() {
				kt, err := dec.Token()
				if err != nil {
					return nil, err
				}
				k, _ := kt.(string)
				v, err := parseValue(dec)
				if err != nil {
					return nil, err
				}
				o.keys = append(o.keys, k)
				o.vals = append(o.vals, v)
			}
			_, err := dec.Token()
			return o, err
		case '[':
			arr := []any{}
			for dec.More() {
				v, err := parseValue(dec)
				if err != nil {
					return nil, err
				}
				arr = append(arr, v)
			}
			_, err := dec.Token()
			return arr, err
		}
		return nil, fmt.Errorf("unexpected delimiter")
	case json.Number:
		if f, err := x.Float64(); err == nil {
			return f, nil
		}
		return x, nil
	default:
		return t, nil
	}
}

// schema of a target type
type schema struct {
	kind   byte               // 's' struct, 'a' array, 'm' map / interface{}, 'p' merkle proof, 'P' credential proofs, 'g' gist proof, 'A' authentication
	fields map[string]*schema // struct: field name (json tag) -> schema (nil = leaf / any)
	elem   *schema
}

var (
	anyS    = &schema{kind: 'm'}
	mtpS    = &schema{kind: 'p'}
	stateS  = st("txId", nil, "blockTimestamp", nil, "blockNumber", nil, "rootOfRoots", nil, "claimsTreeRoot", nil, "revocationTreeRoot", nil, "value", nil, "status", nil)
	issuerS = st("id", nil, "state", stateS, "authCoreClaim", nil, "mtp", mtpS, "credentialStatus", anyS)
	treeS   = st("state", nil, "rootOfRoots", nil, "claimsTreeRoot", nil, "revocationTreeRoot", nil)
	statusS = st("issuer", treeS, "mtp", mtpS)
	gistS   = &schema{kind: 'g'}
	globalS = st("root", nil, "replacedByRoot", nil, "createdAtTimestamp", nil, "replacedAtTimestamp", nil, "createdAtBlock", nil, "replacedAtBlock", nil, "proof", gistS)
	infoS   = st("id", nil, "state", nil, "replacedByState", nil, "createdAtTimestamp", nil, "replacedAtTimestamp", nil, "createdAtBlock", nil, "replacedAtBlock", nil)
	vmS     = st("id", nil, "type", nil, "controller", nil, "publicKeyJwk", anyS, "publicKeyMultibase", nil, "publicKeyHex", nil, "publicKeyBase58", nil,
		"ethereumAddress", nil, "blockchainAccountId", nil, "stateContractAddress", nil, "published", nil, "info", infoS, "global", globalS)
	authS   = &schema{kind: 'A'}
	didS    = st("@context", anyS, "id", nil, "service", anyS, "verificationMethod", arr(vmS), "assertionMethod", arr(authS), "authentication", arr(authS), "keyAgreement", anyS)
	didEnvS = st("didDocument", didS)
	proofsS = &schema{kind: 'P'}
	credS   = st("id", nil, "@context", anyS, "type", anyS, "expirationDate", nil, "issuanceDate", nil, "credentialSubject", anyS, "credentialStatus", anyS,
		"issuer", nil, "credentialSchema", st("id", nil, "type", nil), "proof", proofsS, "refreshService", st("id", nil, "type", nil), "displayMethod", st("id", nil, "type", nil))
)

func st(kv ...any) *schema {
	s := &schema{kind: 's', fields: map[string]*schema{}}
	for i := 0; i < len(kv); i += 2 {
		sub, _ := kv[i+1].(*schema)
		s.fields[kv[i].(string)] = sub
	}
	return s
}
func arr(e *schema) *schema { return &schema{kind: 'a', elem: e} }

const sibMembersKey = "\x00siblings-members"
const badKindKey = "\x00bad-kind"

// fieldOf: the struct field a member name assigns (exact match first, then case-insensitive)
func fieldOf(s *schema, name string) (string, bool) {
	if _, ok := s.fields[name]; ok {
		return name, true
	}
	for f := range s.fields {
		if strings.EqualFold(f, name) {
			return f, true
		}
	}
	return "", false
}

func canon(v any, s *schema) any {
	switch x := v.(type) {
	case *omap:
		if s == nil {
			s = anyS
		}
		switch s.kind {
		case 's':
			out := map[string]any{}
			for i, k := range x.keys {
				if f, ok := fieldOf(s, k); ok {
					if sub := s.fields[f]; sub != nil && sub.kind == 'g' {
						// a json.Unmarshaler field: every occurrence is decoded in turn and the
						// first one that fails ends the decoding
						if prev, had := out[f]; had && proofFails(prev) {
							continue
						}
					}
					// a second object for the same struct field merges into it; approximated by
					// "last wins" (the generator never repeats struct-valued members partially)
					out[f] = canon(x.vals[i], s.fields[f])
				}
			}
			return out
		case 'p':
			return canonProofObj(x, false)
		case 'g':
			return canonProofObj(x, true)
		case 'A':
			return canon(x, vmS)
		case 'P':
			return canonCredProof(x)
		default: // map / interface{}: exact keys, last duplicate wins
			out := map[string]any{}
			for i, k := range x.keys {
				out[k] = canon(x.vals[i], anyS)
			}
			return out
		}
	case []any:
		var es *schema
		if s != nil {
			switch s.kind {
			case 'a':
				es = s.elem
			case 'P':
				out := make([]any, len(x))
				for i, e := range x {
					out[i] = canonCredProof(e)
				}
				return out
			}
		}
		out := make([]any, len(x))
		for i, e := range x {
			out[i] = canon(e, es)
		}
		return out
	default:
		return v
	}
}

// canonProofObj: a merkletree.Proof object (proofJSON: existence, siblings, node_aux);
// the spelled siblings members are kept in order under sibMembersKey
func canonProofObj(x *omap, gist bool) any {
	fields := st("existence", nil, "siblings", nil, "node_aux", st("key", nil, "value", nil))
	if gist {
		fields.fields["type"] = nil
	}
	out := map[string]any{}
	var members []any
	for i, k := range x.keys {
		f, ok := fieldOf(fields, k)
		if !ok {
			continue
		}
		v := canon(x.vals[i], fields.fields[f])
		// a member of the wrong kind is remembered as an error even when a later
		// occurrence of the same field is fine
		switch f {
		case "siblings":
			members = append(members, []any{k, v})
			if _, isArr := v.([]any); v != nil && !isArr {
				out[badKindKey] = true
			}
		case "existence":
			if _, isB := v.(bool); v != nil && !isB {
				out[badKindKey] = true
			}
		case "node_aux":
			if _, isM := v.(map[string]any); v != nil && !isM {
				out[badKindKey] = true
			}
		}
		out[f] = v
	}
	if members != nil {
		out[sibMembersKey] = members
	}
	return out
}

// canonCredProof: one element of "proof": decoded as a map first (extractProof looks up
// the exact key "type"), re-marshalled (sorted keys) and decoded into the typed struct
func canonCredProof(v any) any {
	x, ok := v.(*omap)
	if !ok {
		return canon(v, anyS)
	}
	// the round trip through map[string]any + json.Marshal: at EVERY depth exact keys,
	// last duplicate wins, members re-ordered by key
	x = resort(x).(*omap)
	exact := map[string]any{}
	for i, k := range x.keys {
		exact[k] = x.vals[i]
	}
	keys := make([]string, 0, len(exact))
	for k := range exact {
		keys = append(keys, k)
	}
	sort.Strings(keys)
	typed := st("type", nil, "issuerData", issuerS, "coreClaim", nil, "signature", nil, "mtp", mtpS)
	out := map[string]any{}
	for _, k := range keys {
		if f, ok := fieldOf(typed, k); ok {
			out[f] = canon(exact[k], typed.fields[f])
		}
	}
	// the dispatch in extractProof uses the exact key
	if t, ok := exact["type"]; ok {
		out["type"] = canon(t, nil)
	} else {
		delete(out, "type")
	}
	return out
}

// canonBytes parses raw JSON and canonicalises it for the named target type.
func canonBytes(b []byte, s *schema) (any, error) {
	v, err := parseOrdered(b)
	if err != nil {
		return nil, err
	}
	if s != nil && s.kind == 'P' {
		// CredentialProofs: an array of proofs or a single proof object
		if o, ok := v.(*omap); ok {
			return canonCredProof(o), nil
		}
	}
	return canon(v, s), nil
}

// canonFirst: like canonBytes but only the first JSON value is read (json.Decoder.Decode)
func canonFirst(b []byte, s *schema) (any, error) {
	dec := json.NewDecoder(bytes.NewReader(b))
	dec.UseNumber()
	v, err := parseValue(dec)
	if err != nil {
		return nil, err
	}
	return canon(v, s), nil
}

// resort: what json.Marshal(json.Unmarshal into interface{}) does to the member order
func resort(v any) any {
	switch x := v.(type) {
	case *omap:
		m := map[string]any{}
		for i, k := range x.keys {
			m[k] = resort(x.vals[i])
		}
		keys := make([]string, 0, len(m))
		for k := range m {
			keys = append(keys, k)
		}
		sort.Strings(keys)
		o := &omap{}
		for _, k := range keys {
			o.keys = append(o.keys, k)
			o.vals = append(o.vals, m[k])
		}
		return o
	case []any:
		out := make([]any, len(x))
		for i, e := range x {
			out[i] = resort(e)
		}
		return out
	default:
		return v
	}
}

// proofFails: decodeMTP / the library decoder answers an error for this canonical proof
func proofFails(v any) bool {
	m, ok := v.(map[string]any)
	if !ok {
		return v != nil
	}
	if m[badKindKey] != nil {
		return true
	}
	arr, _ := m["siblings"].([]any)
	if len(arr) > 240 {
		return true
	}
	for _, e := range arr {
		if c := sibClass(e); c == "SNull" || c == "SBad" {
			return true
		}
	}
	return false
}
