package c12

// Child process for the calls that can exhaust memory or never return:
// MerklizerFromBytes, RDFEntry.UnmarshalBinary, MerklizeJSONLD.  The harness
// re-executes itself (VH_C12_CHILD=1); the child lowers RLIMIT_AS, runs each job
// under recover + watchdog, measures the bytes allocated by the call and answers
// one JSON line per job.  A child that dies (fatal out-of-memory, stack overflow)
// or does not answer is the finding; the parent restarts it for the rest.

import (
	"bufio"
	"bytes"
	"context"
	"encoding/json"
	"fmt"
	"io"
	"os"
	"os/exec"
	"runtime"
	"runtime/debug"
	"strings"
	"syscall"
	"time"

	"github.com/iden3/go-schema-processor/v2/merklize"

	"vharness/ctxload"
)

const childEnv = "VH_C12_CHILD"
const childAS = 4 << 30 // RLIMIT_AS of the child
const childWatchdog = 15 * time.Second

type job struct {
	Op   string `json:"op"`             // mzfrombytes | entry | entrykv | merklize
	Data []byte `json:"data"`           // gob stream / JSON document
	Tree string `json:"tree,omitempty"` // "" | "empty": WithMerkleTree(fresh empty tree)
}

func init() {
	if os.Getenv(childEnv) == "1" {
		childMain()
		os.Exit(0)
	}
}

func childMain() {
	_ = syscall.Setrlimit(syscall.RLIMIT_AS, &syscall.Rlimit{Cur: childAS, Max: childAS})
	debug.SetMemoryLimit(2 << 30)
	debug.SetMaxStack(256 << 20)
	loader := ctxload.New()
	in := bufio.NewReaderSize(os.Stdin, 1<<20)
	out := bufio.NewWriter(os.Stdout)
	for {
		line, err := in.ReadBytes('\n')
		if len(line) > 0 {
			var j job
			if e := json.Unmarshal(line, &j); e != nil {
				fmt.Fprintln(out, `{"class":"harness","msg":"bad job"}`)
			} else {
				var ms0, ms1 runtime.MemStats
				runtime.ReadMemStats(&ms0)
				o := guard(childWatchdog, func() error { return runJob(&j, loader) })
				runtime.ReadMemStats(&ms1)
				o.Alloc = ms1.TotalAlloc - ms0.TotalAlloc
				b, _ := json.Marshal(o)
				out.Write(b)
				out.WriteByte('\n')
				out.Flush()
				if o.Class == "hang" {
					return // the stuck goroutine keeps burning memory: let the parent restart us
				}
			}
			out.Flush()
		}
		if err != nil {
			return
		}
	}
}

func runJob(j *job, loader *ctxload.Loader) error {
	switch j.Op {
	case "mzfrombytes":
		var opts []merklize.MerklizeOption
		if j.Tree == "empty" {
			opts = append(opts, merklize.WithMerkleTree(merklize.MerkleTreeSQLAdapter(newTree())))
		}
		mz, err := merklize.MerklizerFromBytes(j.Data, opts...)
		if err == nil && mz == nil {
			return fmt.Errorf("NILNIL")
		}
		return err
	case "entry":
		var e merklize.RDFEntry
		return e.UnmarshalBinary(j.Data)
	case "entrykv": // restore an entry, then hash its key and value
		var e merklize.RDFEntry
		if err := e.UnmarshalBinary(j.Data); err != nil {
			return err
		}
		k, v, err := e.KeyValueMtEntries()
		if err == nil && (k == nil || v == nil) {
			return fmt.Errorf("NILNIL")
		}
		return err
	case "merklize":
		mz, err := merklize.MerklizeJSONLD(context.Background(), bytes.NewReader(j.Data), merklize.WithDocumentLoader(loader))
		if err == nil && mz == nil {
			return fmt.Errorf("NILNIL")
		}
		return err
	}
	return fmt.Errorf("unknown op %s", j.Op)
}

type childProc struct {
	cmd    *exec.Cmd
	in     io.WriteCloser
	out    *bufio.Reader
	stderr *bytes.Buffer
}

func startChild() (*childProc, error) {
	exe, err := os.Executable()
	if err != nil {
		return nil, err
	}
	cmd := exec.Command(exe)
	cmd.Env = append(os.Environ(), childEnv+"=1")
	in, err := cmd.StdinPipe()
	if err != nil {
		return nil, err
	}
	outp, err := cmd.StdoutPipe()
	if err != nil {
		return nil, err
	}
	var eb bytes.Buffer
	cmd.Stderr = &eb
	if err := cmd.Start(); err != nil {
		return nil, err
	}
	return &childProc{cmd: cmd, in: in, out: bufio.NewReaderSize(outp, 1<<20), stderr: &eb}, nil
}

func (c *childProc) kill() {
	_ = c.in.Close()
	_ = c.cmd.Process.Kill()
	_ = c.cmd.Wait()
}

// runChildJobs runs the jobs in child processes, in order.
func runChildJobs(jobs []job) ([]Outcome, error) {
	res := make([]Outcome, len(jobs))
	var c *childProc
	defer func() {
		if c != nil {
			c.kill()
		}
	}()
	for i := 0; i < len(jobs); i++ {
		if c == nil {
			var err error
			if c, err = startChild(); err != nil {
				return nil, err
			}
		}
		b, _ := json.Marshal(jobs[i])
		if _, err := c.in.Write(append(b, '\n')); err != nil {
			res[i] = Outcome{Class: "crash", Msg: "child not accepting input: " + tail(c.stderr.String())}
			c.kill()
			c = nil
			continue
		}
		type rd struct {
			line []byte
			err  error
		}
		ch := make(chan rd, 1)
		go func(r *bufio.Reader) {
			l, err := r.ReadBytes('\n')
			ch <- rd{l, err}
		}(c.out)
		select {
		case r := <-ch:
			if r.err != nil || json.Unmarshal(r.line, &res[i]) != nil {
				_ = c.cmd.Wait()
				res[i] = Outcome{Class: "crash", Msg: "child died: " + tail(c.stderr.String())}
				c.kill()
				c = nil
				continue
			}
			if res[i].Class == "err" && res[i].Msg == "NILNIL" {
				res[i].Class = "nilnil"
			}
			if res[i].Class == "hang" {
				c.kill()
				c = nil
			}
		case <-time.After(childWatchdog + 10*time.Second):
			res[i] = Outcome{Class: "hang", Msg: "child did not answer"}
			c.kill()
			c = nil
		}
	}
	return res, nil
}

func tail(s string) string {
	s = strings.TrimSpace(s)
	if i := strings.Index(s, "\n\ngoroutine"); i > 0 {
		s = s[:i]
	}
	if len(s) > 400 {
		s = s[:400]
	}
	return s
}
