package c12

// Stream (ii): crafted gob streams.  A stream is a list of typed values ("tokens")
// exactly as Merklizer.MarshalBinary / RDFEntry.MarshalBinary emit them; the
// generator starts from the canonical stream and takes single steps away from it
// (wrong version, negative / huge count, missing / extra / wrongly typed value,
// truncation, empty strings, colliding keys ...).  The same token list is the
// input of the Coq skeleton (merklizer_unmarshal / rdfentry_unmarshal).

import (
	"bytes"
	"encoding/gob"
	"fmt"
	"math/big"
	"math/rand"
	"strings"
	"time"

	"github.com/iden3/go-iden3-crypto/constants"

	"vharness/coqgen"
)

type tok struct {
	K     string // int uint bool str bytes big time parts entry junk
	I     int64
	U     uint64
	B     bool
	S     string
	J     string // JObject JNullLit JOtherValue JInvalid (for bytes)
	Big   *big.Int
	T     [2]int64 // unix seconds, nanoseconds
	Parts []any    // string | int | float64 (other)
	Inner []tok
}

type fakeEntry struct{ b []byte }

func (f *fakeEntry) MarshalBinary() ([]byte, error) { return f.b, nil }
func (f *fakeEntry) UnmarshalBinary(b []byte) error { f.b = b; return nil }

func jbytes(class string) []byte {
	switch class {
	case "JObject":
		return []byte(`{"@context":{"a":"urn:a"},"a":1}`)
	case "JNullLit":
		return []byte(`null`)
	case "JOtherValue":
		return []byte(`[1,2]`)
	default:
		return []byte(`{"a":`)
	}
}

func encodeToks(ts []tok) []byte {
	var buf bytes.Buffer
	enc := gob.NewEncoder(&buf)
	for _, t := range ts {
		var err error
		switch t.K {
		case "int":
			err = enc.Encode(int(t.I))
		case "uint":
			err = enc.Encode(t.U)
		case "bool":
			err = enc.Encode(t.B)
		case "str":
			err = enc.Encode(t.S)
		case "bytes":
			err = enc.Encode(jbytes(t.J))
		case "big":
			err = enc.Encode(t.Big)
		case "time":
			err = enc.Encode(time.Unix(t.T[0], t.T[1]).UTC())
		case "parts":
			p := t.Parts
			if p == nil {
				p = []any{}
			}
			err = enc.Encode(p)
		case "entry":
			err = enc.Encode(&fakeEntry{b: encodeToks(t.Inner)})
		default:
			err = enc.Encode(3.25)
		}
		if err != nil {
			panic(fmt.Sprintf("gob encode %s: %v", t.K, err))
		}
	}
	return buf.Bytes()
}

func partsCoq(f *coqgen.File, ps []any) string {
	var l []string
	for _, p := range ps {
		switch x := p.(type) {
		case string:
			l = append(l, "RWS "+f.Str(x))
		case int:
			l = append(l, "RWI "+coqgen.SNumI(int64(x)))
		default:
			l = append(l, "RWO")
		}
	}
	return "[" + strings.Join(l, ";") + "]"
}

func toksCoq(f *coqgen.File, ts []tok) string {
	var l []string
	for _, t := range ts {
		switch t.K {
		case "int":
			l = append(l, "RInt "+coqgen.SNumI(t.I))
		case "uint":
			l = append(l, "RUint "+coqgen.SNum(new(big.Int).SetUint64(t.U)))
		case "bool":
			l = append(l, "RBool "+b2c(t.B))
		case "str":
			l = append(l, "RStr "+f.Str(t.S))
		case "bytes":
			l = append(l, "RBytes "+t.J)
		case "big":
			l = append(l, "RBig "+coqgen.SNum(t.Big))
		case "time":
			l = append(l, fmt.Sprintf("RTime %s %s", coqgen.SNumI(t.T[0]), coqgen.SNumI(t.T[1])))
		case "parts":
			l = append(l, "RParts "+partsCoq(f, t.Parts))
		case "entry":
			l = append(l, "REntry "+toksCoq(f, t.Inner))
		default:
			l = append(l, "RJunk")
		}
	}
	return "[" + strings.Join(l, ";\n   ") + "]"
}

// recordEntryPrims records every primitive hash call the skeleton can make for an entry.
func (d *drv) recordEntryPrims(ts []tok) {
	if len(ts) < 4 || ts[1].K != "parts" {
		return
	}
	var elems []*big.Int
	ok := true
	for _, p := range ts[1].Parts {
		switch x := p.(type) {
		case string:
			z, err := d.prims.Bytes(x)
			if err != nil || z == nil {
				ok = false
			}
			elems = append(elems, z)
		case int:
			elems = append(elems, big.NewInt(int64(x)))
		default:
			ok = false
		}
	}
	if ok {
		_, _ = d.prims.Hash(elems)
	}
	if ts[3].K == "str" {
		_, _ = d.prims.Bytes(ts[3].S)
	}
}

type gobGen struct {
	r *rand.Rand
	n int
}

var gobVocab = []string{"https://www.w3.org/2018/credentials#credentialSubject", "http://schema.org/name", "urn:a", "urn:b", "x", ""}

func (g *gobGen) validEntry() []tok {
	np := 1 + g.r.Intn(3)
	var parts []any
	for i := 0; i < np; i++ {
		if g.r.Intn(4) == 0 {
			parts = append(parts, g.r.Intn(5))
		} else {
			parts = append(parts, fmt.Sprintf("%s#%d", gobVocab[g.r.Intn(4)], g.n))
			g.n++
		}
	}
	t := []tok{{K: "int", I: 1}, {K: "parts", Parts: parts}}
	switch g.r.Intn(5) {
	case 0:
		t = append(t, tok{K: "uint", U: 0}, tok{K: "int", I: g.r.Int63n(2000) - 1000})
	case 1:
		t = append(t, tok{K: "uint", U: 1}, tok{K: "bool", B: g.r.Intn(2) == 0})
	case 2:
		t = append(t, tok{K: "uint", U: 2}, tok{K: "str", S: fmt.Sprintf("value %d", g.r.Intn(50))})
	case 3:
		t = append(t, tok{K: "uint", U: 3}, tok{K: "time", T: [2]int64{g.r.Int63n(4e9) - 1e9, g.r.Int63n(1e9)}})
	default:
		t = append(t, tok{K: "uint", U: 4}, tok{K: "big", Big: big.NewInt(g.r.Int63() - 1<<62)})
	}
	return append(t, tok{K: "str", S: "http://www.w3.org/2001/XMLSchema#string"})
}

func (g *gobGen) validMz(n int) []tok {
	t := []tok{{K: "int", I: 1}, {K: "bytes", J: "JObject"}, {K: "bytes", J: "JObject"}, {K: "big", Big: big.NewInt(0)}, {K: "int", I: int64(n)}}
	for i := 0; i < n; i++ {
		t = append(t, tok{K: "str", S: fmt.Sprintf("key%d", i)}, tok{K: "entry", Inner: g.validEntry()})
	}
	return append(t, tok{K: "bool", B: true})
}

func someTok(r *rand.Rand) tok {
	switch r.Intn(9) {
	case 0:
		return tok{K: "int", I: r.Int63n(10) - 3}
	case 1:
		return tok{K: "uint", U: uint64(r.Intn(300))}
	case 2:
		return tok{K: "bool", B: true}
	case 3:
		return tok{K: "str", S: gobVocab[r.Intn(len(gobVocab))]}
	case 4:
		return tok{K: "bytes", J: []string{"JObject", "JNullLit", "JOtherValue", "JInvalid"}[r.Intn(4)]}
	case 5:
		return tok{K: "big", Big: big.NewInt(r.Int63())}
	case 6:
		return tok{K: "time", T: [2]int64{r.Int63n(1e9), 5}}
	case 7:
		return tok{K: "parts", Parts: []any{"urn:p", 1}}
	default:
		return tok{K: "junk"}
	}
}

// mutateToks takes one step away from a valid stream.
func (g *gobGen) mutateToks(ts []tok, entry bool) ([]tok, string) {
	r := g.r
	out := append([]tok{}, ts...)
	if len(out) == 0 {
		return []tok{someTok(r)}, "insert"
	}
	switch r.Intn(7) {
	case 0: // drop one value
		i := r.Intn(len(out))
		return append(out[:i], out[i+1:]...), "drop"
	case 1: // truncate
		return out[:r.Intn(len(out))], "truncate"
	case 2: // replace one value by an arbitrary one
		out[r.Intn(len(out))] = someTok(r)
		return out, "replace"
	case 3: // insert an arbitrary value
		i := r.Intn(len(out) + 1)
		out = append(out[:i], append([]tok{someTok(r)}, out[i:]...)...)
		return out, "insert"
	case 4: // wrong version
		out[0] = tok{K: "int", I: []int64{0, 2, -1, 1 << 40}[r.Intn(4)]}
		return out, "version"
	case 5:
		if entry { // entry type tag off
			if len(out) > 2 {
				out[2] = tok{K: "uint", U: []uint64{5, 255, 256, 1 << 40, uint64(r.Intn(5))}[r.Intn(5)]}
			}
			return out, "type-tag"
		}
		// entry count off
		if len(out) > 4 {
			out[4] = tok{K: "int", I: []int64{-1, -1 << 62, 1 << 40, 1 << 62, 1 << 31, out[4].I + 1, out[4].I - 1, 100000, 3000}[r.Intn(9)]}
		}
		return out, "count"
	default:
		if entry { // parts: empty list, empty string, other type, 17 parts
			alt := [][]any{{}, {""}, {"urn:a", ""}, {3.5}, {"a", true}, {-7}, {1, 2}}
			long := []any{}
			for i := 0; i < 17; i++ {
				long = append(long, i)
			}
			alt = append(alt, long)
			if len(out) > 1 {
				out[1] = tok{K: "parts", Parts: alt[r.Intn(len(alt))]}
			}
			return out, "parts"
		}
		// mutate inside one entry / duplicate an entry / empty-string value
		var idx []int
		for i, t := range out {
			if t.K == "entry" {
				idx = append(idx, i)
			}
		}
		if len(idx) == 0 {
			return out, "noop"
		}
		i := idx[r.Intn(len(idx))]
		switch r.Intn(3) {
		case 0:
			inner, why := g.mutateToks(out[i].Inner, true)
			out[i] = tok{K: "entry", Inner: inner}
			return out, "entry-" + why
		case 1:
			j := idx[r.Intn(len(idx))]
			out[i] = out[j] // same path twice: the tree rejects the second leaf
			return out, "dup-entry"
		default:
			inner := append([]tok{}, out[i].Inner...)
			if len(inner) > 3 {
				inner[2], inner[3] = tok{K: "uint", U: 2}, tok{K: "str", S: ""}
			}
			out[i] = tok{K: "entry", Inner: inner}
			return out, "empty-string-value"
		}
	}
}

func (d *drv) gobStream() error {
	g := &gobGen{r: d.cfg.Rng}
	type gcase struct {
		op, tree, why string
		toks          []tok
		raw           []byte // non-nil: byte-level mutation, no model input
	}
	var cs []gcase
	nMz, nEntry, nRaw := d.cfg.Pick(220, 4000), d.cfg.Pick(120, 2000), d.cfg.Pick(150, 3000)
	for i := 0; i < nMz; i++ {
		ts := g.validMz(g.r.Intn(5))
		why := "valid"
		if i%8 != 0 {
			ts, why = g.mutateToks(ts, false)
			if g.r.Intn(4) == 0 {
				var w2 string
				ts, w2 = g.mutateToks(ts, false)
				why += "+" + w2
			}
		}
		tree := ""
		if g.r.Intn(6) == 0 {
			tree = "empty"
		}
		cs = append(cs, gcase{op: "mzfrombytes", tree: tree, why: why, toks: ts})
	}
	// the D2 inputs, always
	for _, n := range []int64{-1, 1 << 40, 1 << 33, 1 << 62, -1 << 63} {
		ts := g.validMz(1)
		ts[4] = tok{K: "int", I: n}
		cs = append(cs, gcase{op: "mzfrombytes", why: "count", toks: ts})
	}
	// keys with empty / blank / very long parts, empty datatype, empty string value: always
	longPart := strings.Repeat("k", 70000)
	for _, parts := range [][]any{{""}, {"urn:a", ""}, {"", "urn:a"}, {"", 3}, {" "}, {"\t\n"}, {"urn:a", " ", 0}, {longPart}, {"urn:a", longPart, 2}, {}, {"urn:a", "", ""}} {
		for _, val := range [][]tok{{{K: "uint", U: 2}, {K: "str", S: "v"}}, {{K: "uint", U: 2}, {K: "str", S: ""}}, {{K: "uint", U: 0}, {K: "int", I: 7}}} {
			for _, dt := range []string{"", "http://www.w3.org/2001/XMLSchema#string"} {
				ent := append([]tok{{K: "int", I: 1}, {K: "parts", Parts: parts}}, val...)
				ent = append(ent, tok{K: "str", S: dt})
				cs = append(cs, gcase{op: "entry", why: "hostile-key", toks: ent})
				cs = append(cs, gcase{op: "entrykv", why: "hostile-key", toks: ent})
				mzs := []tok{{K: "int", I: 1}, {K: "bytes", J: "JObject"}, {K: "bytes", J: "JObject"}, {K: "big", Big: big.NewInt(0)}, {K: "int", I: 2},
					{K: "str", S: "k0"}, {K: "entry", Inner: g.validEntry()}, {K: "str", S: ""}, {K: "entry", Inner: ent}, {K: "bool", B: true}}
				cs = append(cs, gcase{op: "mzfrombytes", why: "hostile-key", toks: mzs})
			}
		}
	}
	for i := 0; i < nEntry; i++ {
		if i%3 == 0 { // restore, then hash key and value
			ts := g.validEntry()
			why := "valid"
			if i%2 == 0 {
				ts, why = g.mutateToks(ts, true)
			}
			cs = append(cs, gcase{op: "entrykv", why: why, toks: ts})
		}
		ts := g.validEntry()
		why := "valid"
		if i%6 != 0 {
			ts, why = g.mutateToks(ts, true)
		}
		cs = append(cs, gcase{op: "entry", why: why, toks: ts})
	}
	for i := 0; i < nRaw; i++ {
		var b []byte
		op := "mzfrombytes"
		if i%3 == 0 {
			op = "entry"
			b = encodeToks(g.validEntry())
		} else {
			b = encodeToks(g.validMz(1 + g.r.Intn(3)))
		}
		why := "bytes-"
		switch g.r.Intn(5) {
		case 0:
			b = b[:g.r.Intn(len(b))]
			why += "truncate"
		case 1:
			for k := 0; k < 1+g.r.Intn(4); k++ {
				b[g.r.Intn(len(b))] ^= byte(1 << uint(g.r.Intn(8)))
			}
			why += "bitflip"
		case 2:
			for k := 0; k < 1+g.r.Intn(8); k++ {
				b[g.r.Intn(len(b))] = byte(g.r.Intn(256))
			}
			why += "random-bytes"
		case 3:
			i := g.r.Intn(len(b))
			b = append(append(append([]byte{}, b[:i]...), 0xff, 0xff, 0xff, 0xff, 0x7f), b[i:]...)
			why += "insert-ff"
		default:
			b = make([]byte, g.r.Intn(64))
			g.r.Read(b)
			why += "noise"
		}
		cs = append(cs, gcase{op: op, why: why, raw: b})
	}
	jobs := make([]job, len(cs))
	for i, c := range cs {
		data := c.raw
		if data == nil {
			data = encodeToks(c.toks)
		}
		jobs[i] = job{Op: c.op, Data: data, Tree: c.tree}
	}
	res, err := runChildJobs(jobs)
	if err != nil {
		return err
	}
	for i, c := range cs {
		o := res[i]
		entry := map[string]string{"mzfrombytes": "MerklizerFromBytes", "entry": "RDFEntry.UnmarshalBinary", "entrykv": "RDFEntry.UnmarshalBinary+KeyValueMtEntries"}[c.op]
		input := map[string]any{"stream": "gob", "op": c.op, "tree": c.tree, "why": c.why, "data": jobs[i].Data}
		d.rep.Evaluations++
		d.rep.Count("gob:" + c.op + ":" + o.Class)
		d.rep.Count("gob-mutation:" + c.why)
		d.rep.Distinct(c.op + string(jobs[i].Data))
		if o.Class == "panic" || o.Class == "hang" || o.Class == "crash" || o.Class == "nilnil" {
			d.fail(entry, o, input)
		} else if limit := uint64(64<<20) + 4096*uint64(len(jobs[i].Data)); o.Alloc > limit {
			d.rep.Fail("c12-"+slug(entry)+"-memory", fmt.Sprintf("%s allocated %d bytes on a %d-byte input", entry, o.Alloc, len(jobs[i].Data)), input)
		}
		if c.raw != nil || longForModel(c.toks) {
			continue
		}
		toks := c.toks
		// primitives the skeleton may consult
		_, _ = d.prims.Hash([]*big.Int{big.NewInt(0)})
		_, _ = d.prims.Hash([]*big.Int{big.NewInt(1)})
		if c.op == "entry" || c.op == "entrykv" {
			d.recordEntryPrims(toks)
		} else {
			for _, t := range toks {
				if t.K == "entry" {
					d.recordEntryPrims(t.Inner)
				}
			}
		}
		ln := int64(len(jobs[i].Data))
		tree := c.tree
		op := c.op
		d.addCase(func(f *coqgen.File) string {
			if op == "entry" {
				return "IEntry " + toksCoq(f, toks)
			}
			if op == "entrykv" {
				return "IEntryKV " + toksCoq(f, toks)
			}
			given := "None"
			if tree == "empty" {
				given = "(Some [])"
			}
			return fmt.Sprintf("IMz %s %s %s", coqgen.SNumI(ln), given, toksCoq(f, toks))
		}, o.Class, map[string]any{"stream": "gob", "op": c.op, "tree": c.tree, "why": c.why, "data": jobs[i].Data})
	}
	_ = constants.Q
	return nil
}

// longForModel: a string too long to be written into a Coq case file
func longForModel(ts []tok) bool {
	for _, t := range ts {
		if len(t.S) > 300 || (t.K == "entry" && longForModel(t.Inner)) {
			return true
		}
		for _, p := range t.Parts {
			if s, ok := p.(string); ok && len(s) > 300 {
				return true
			}
		}
	}
	return false
}
