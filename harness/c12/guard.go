package c12

import (
	"fmt"
	"runtime/debug"
	"strings"
	"time"
)

// Outcome of a guarded call: ok | err | panic | hang | nilnil | crash
type Outcome struct {
	Class string `json:"class"`
	Msg   string `json:"msg,omitempty"`
	Site  string `json:"site,omitempty"` // innermost non-runtime function on the panicking stack
	Alloc uint64 `json:"alloc,omitempty"`
}

// panicSite extracts the innermost non-runtime frame below the panic.
func panicSite(stack string) string {
	lines := strings.Split(stack, "\n")
	// a panic re-raised by a deferred function (encoding/json does that) shows up
	// first; the original one is the LAST panic( frame of the trace
	last := -1
	for i, l := range lines {
		if strings.HasPrefix(l, "panic(") {
			last = i
		}
	}
	for i, l := range lines {
		if i <= last || last < 0 {
			continue
		}
		if strings.HasPrefix(l, "\t") || l == "" {
			continue
		}
		if strings.HasPrefix(l, "runtime.") || strings.HasPrefix(l, "runtime/") {
			continue
		}
		fn := l
		if i := strings.LastIndex(fn, "("); i > 0 {
			fn = fn[:i]
		}
		// drop the module path, keep pkg.Func
		if i := strings.LastIndex(fn, "/"); i >= 0 {
			fn = fn[i+1:]
		}
		fn = strings.NewReplacer("(*", "", ")", "", "[...]", "").Replace(fn)
		return fn
	}
	return "unknown"
}

// guard runs f under recover and a watchdog (a stuck goroutine is abandoned).
func guard(timeout time.Duration, f func() error) Outcome {
	ch := make(chan Outcome, 1)
	go func() {
		defer func() {
			if r := recover(); r != nil {
				ch <- Outcome{Class: "panic", Msg: fmt.Sprint(r), Site: panicSite(string(debug.Stack()))}
			}
		}()
		if err := f(); err != nil {
			ch <- Outcome{Class: "err", Msg: err.Error()}
			return
		}
		ch <- Outcome{Class: "ok"}
	}()
	select {
	case o := <-ch:
		return o
	case <-time.After(timeout):
		return Outcome{Class: "hang", Msg: "no result after " + timeout.String()}
	}
}

func obsCode(class string) int {
	switch class {
	case "ok":
		return 0
	case "err":
		return 1
	case "panic", "crash":
		return 2
	case "hang":
		return 3
	case "nilnil":
		return 4
	}
	return 7
}

func slug(s string) string {
	var sb strings.Builder
	for _, c := range strings.ToLower(s) {
		switch {
		case c >= 'a' && c <= 'z', c >= '0' && c <= '9':
			sb.WriteRune(c)
		case c == '.' || c == '-' || c == '_':
			sb.WriteRune('-')
		}
	}
	return sb.String()
}
