package c12

// Recorder of the PRIMITIVE hash calls (poseidon.Hash / poseidon.HashBytes of
// go-iden3-crypto, called directly) the Coq skeletons may consult.

import (
	"fmt"
	"math/big"
	"sort"
	"strings"
	"sync"

	"github.com/iden3/go-iden3-crypto/constants"
	"github.com/iden3/go-iden3-crypto/poseidon"

	"vharness/coqgen"
)

type primRec struct {
	mu    sync.Mutex
	bytes map[string]string // message -> thres term
	hash  map[string]string // key term -> thres term
	jb    []string          // journal: messages / keys touched since the last take()
	jh    []string
}

// take returns and clears the journal (the calls recorded for the current case).
func (p *primRec) take() (b, h []string) {
	p.mu.Lock()
	defer p.mu.Unlock()
	b, h = p.jb, p.jh
	p.jb, p.jh = nil, nil
	return
}

func newPrimRec() *primRec { return &primRec{bytes: map[string]string{}, hash: map[string]string{}} }

func thres(z *big.Int, err error) string {
	switch {
	case err != nil:
		return "TE"
	case z == nil:
		return "TNil"
	default:
		return "(TV " + coqgen.Limbs(z) + ")"
	}
}

// Bytes records poseidon.HashBytes(msg) and returns its answer.
func (p *primRec) Bytes(msg string) (z *big.Int, err error) {
	func() {
		defer func() {
			if r := recover(); r != nil {
				z, err = nil, fmt.Errorf("panic: %v", r)
			}
		}()
		z, err = poseidon.HashBytes([]byte(msg))
	}()
	p.mu.Lock()
	p.bytes[msg] = thres(z, err)
	p.jb = append(p.jb, msg)
	p.mu.Unlock()
	return z, err
}

// Hash records poseidon.Hash(in) (all elements non-nil) and returns its answer.
func (p *primRec) Hash(in []*big.Int) (z *big.Int, err error) {
	func() {
		defer func() {
			if r := recover(); r != nil {
				z, err = nil, fmt.Errorf("panic: %v", r)
			}
		}()
		z, err = poseidon.Hash(in)
	}()
	var ks []string
	for _, x := range in {
		ks = append(ks, coqgen.SNum(x))
	}
	p.mu.Lock()
	p.hash["["+strings.Join(ks, ";")+"]"] = thres(z, err)
	p.jh = append(p.jh, "["+strings.Join(ks, ";")+"]")
	p.mu.Unlock()
	return z, err
}

// Coq renders the tables restricted to the given messages / keys.
func (p *primRec) Coq(f *coqgen.File, needB, needH map[string]bool) string {
	p.mu.Lock()
	defer p.mu.Unlock()
	var hs, bs []string
	hk := make([]string, 0, len(needH))
	for k := range needH {
		if _, ok := p.hash[k]; ok {
			hk = append(hk, k)
		}
	}
	sort.Strings(hk)
	for _, k := range hk {
		hs = append(hs, fmt.Sprintf("(%s, %s)", k, p.hash[k]))
	}
	bk := make([]string, 0, len(needB))
	for k := range needB {
		if _, ok := p.bytes[k]; ok {
			bk = append(bk, k)
		}
	}
	sort.Strings(bk)
	for _, k := range bk {
		if len(k) > 300 {
			continue // never part of a model case (a consulted miss is a disagreement)
		}
		bs = append(bs, fmt.Sprintf("(%s, %s)", f.Str(k), p.bytes[k]))
	}
	return fmt.Sprintf("mkrawprim %s\n %s\n %s", coqgen.Limbs(constants.Q), coqgen.List(hs), coqgen.List(bs))
}
