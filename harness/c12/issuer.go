package c12

// Synthetic issuer: builds VALID artefacts offline (credential with a BJJ
// signature proof, credential with a sparse-merkle-tree proof, the DID document
// the resolver answers with, the revocation status answer, a gist proof), all
// as generic JSON so that members can be removed / mutated systematically.

import (
	"context"
	"encoding/hex"
	"encoding/json"
	"fmt"
	"math/big"
	"math/rand"

	core "github.com/iden3/go-iden3-core/v2"
	"github.com/iden3/go-iden3-crypto/babyjub"
	"github.com/iden3/go-iden3-crypto/poseidon"
	"github.com/iden3/go-merkletree-sql/v2"
	"github.com/iden3/go-merkletree-sql/v2/db/memory"
	"github.com/iden3/go-schema-processor/v2/merklize"
	"github.com/iden3/go-schema-processor/v2/verifiable"

	"vharness/ctxload"
)

const statusType = "SparseMerkleTreeProof"
const statusHost = "http://status.c12.invalid/"

// Bundle is a valid artefact set: VerifyProof(Kind) succeeds on it with the
// stub resolvers serving DIDDoc and Status.
type Bundle struct {
	Name   string
	Kind   verifiable.ProofType
	Cred   map[string]any // credential with exactly one proof (array of one)
	DIDDoc map[string]any // {"didDocument": {...}} as a universal resolver answers
	Status map[string]any // revocation status answer for the auth claim (BJJ) / the credential
	Gist   map[string]any // the gist proof object embedded in DIDDoc
	Nonce  uint64         // revocation nonce of the status answer's subject
}

// clone: deep copy; Go integers become float64 (what encoding/json would deliver),
// json.Number values (used for literals such as 1e400) are kept.
func clone(v any) any {
	switch x := v.(type) {
	case map[string]any:
		m := make(map[string]any, len(x))
		for k, e := range x {
			m[k] = clone(e)
		}
		return m
	case []any:
		l := make([]any, len(x))
		for i, e := range x {
			l[i] = clone(e)
		}
		return l
	case int:
		return float64(x)
	case int64:
		return float64(x)
	case uint64:
		return float64(x)
	case uint32:
		return float64(x)
	default:
		return v
	}
}

func cloneMap(m map[string]any) map[string]any {
	if m == nil {
		return nil
	}
	return clone(m).(map[string]any)
}

func newTree() *merkletree.MerkleTree {
	t, err := merkletree.NewMerkleTree(context.Background(), memory.NewMemoryStorage(), 40)
	if err != nil {
		panic(err)
	}
	return t
}

func proofJSON(p *merkletree.Proof) map[string]any {
	b, err := json.Marshal(p)
	if err != nil {
		panic(err)
	}
	var m map[string]any
	_ = json.Unmarshal(b, &m)
	return m
}

func must[T any](v T, err error) T {
	if err != nil {
		panic(err)
	}
	return v
}

// BuildBundles creates the valid artefact sets.  genesis: the issuer state named
// in the proof is the state the issuer DID was derived from (so verification
// succeeds without `published`); otherwise the DID document says published=true.
func BuildBundles(rng *rand.Rand, loader *ctxload.Loader) []*Bundle {
	var out []*Bundle
	for _, genesis := range []bool{false, true} {
		for _, kind := range []verifiable.ProofType{verifiable.BJJSignatureProofType, verifiable.Iden3SparseMerkleTreeProofType} {
			out = append(out, buildBundle(rng, loader, kind, genesis))
		}
	}
	return out
}

func randNonce(rng *rand.Rand) uint64 { return uint64(rng.Int63n(1 << 40)) }

func buildBundle(rng *rand.Rand, loader *ctxload.Loader, kind verifiable.ProofType, genesis bool) *Bundle {
	ctx := context.Background()
	var sk babyjub.PrivateKey
	rng.Read(sk[:])
	pk := sk.Public()
	authNonce := randNonce(rng)
	credNonce := randNonce(rng)
	authClaim := must(core.NewClaim(core.AuthSchemaHash, core.WithIndexDataInts(pk.X, pk.Y), core.WithRevocationNonce(authNonce)))
	ahi, ahv, err := authClaim.HiHv()
	if err != nil {
		panic(err)
	}
	claims, revs, roots := newTree(), newTree(), newTree()
	if err := claims.Add(ctx, ahi, ahv); err != nil {
		panic(err)
	}
	for i := 0; i < 5; i++ { // neighbours, so that proofs have siblings
		_ = claims.Add(ctx, big.NewInt(rng.Int63()), big.NewInt(rng.Int63()))
	}
	typ := must(core.BuildDIDType(core.DIDMethodPolygonID, core.Polygon, core.Mumbai))
	state := func() *big.Int {
		return must(poseidon.Hash([]*big.Int{claims.Root().BigInt(), revs.Root().BigInt(), roots.Root().BigInt()}))
	}
	subjDID := must(core.NewDIDFromIdenState(typ, big.NewInt(rng.Int63())))

	credBody := func(issuer string) map[string]any {
		return map[string]any{
			"id":             fmt.Sprintf("urn:uuid:%08x-0000-4000-8000-%012x", rng.Uint32(), rng.Int63n(1<<48)),
			"@context":       []any{ctxload.URLCredentialsV1, ctxload.URLIden3Proofs, ctxload.URLKYCv3},
			"type":           []any{"VerifiableCredential", "KYCAgeCredential"},
			"expirationDate": "2361-03-21T21:14:48+02:00",
			"issuanceDate":   "2023-12-21T16:35:46.737547+02:00",
			"credentialSubject": map[string]any{
				"birthday": 19960424, "documentType": 2, "id": subjDID.String(), "type": "KYCAgeCredential",
			},
			"credentialStatus": map[string]any{
				"id": statusHost + "cred", "revocationNonce": credNonce, "type": statusType,
			},
			"issuer": issuer,
			"credentialSchema": map[string]any{
				"id":   "https://raw.githubusercontent.com/iden3/claim-schema-vocab/main/schemas/json/KYCAgeCredential-v3.json",
				"type": "JsonSchema2023",
			},
		}
	}
	coreClaimOf := func(body map[string]any) *core.Claim {
		var vc verifiable.W3CCredential
		if err := json.Unmarshal(must(json.Marshal(body)), &vc); err != nil {
			panic(err)
		}
		return must(vc.ToCoreClaim(ctx, &verifiable.CoreClaimOptions{
			RevNonce: credNonce, SubjectPosition: verifiable.CredentialSubjectPositionIndex,
			MerklizedRootPosition: verifiable.CredentialMerklizedRootPositionIndex,
			MerklizerOpts:         []merklize.MerklizeOption{merklize.WithDocumentLoader(loader)},
		}))
	}

	// the DID is derived from the state at "genesis"; for the SMT/genesis bundle the
	// credential's claim has to be in the claims tree already, but the claim depends on
	// the issuer DID only through the credential's "issuer" member, which is a free
	// string for the binding check - so the DID is fixed first from a provisional state.
	if !genesis {
		_ = revs.Add(ctx, new(big.Int).SetUint64(randNonce(rng)), big.NewInt(0))
		_ = roots.Add(ctx, claims.Root().BigInt(), big.NewInt(0))
	}
	var issuerDIDStr string
	var body map[string]any
	var claim *core.Claim
	addClaim := func() {
		hi, hv, err := claim.HiHv()
		if err != nil {
			panic(err)
		}
		if err := claims.Add(ctx, hi, hv); err != nil {
			panic(err)
		}
	}
	if kind == verifiable.Iden3SparseMerkleTreeProofType && genesis {
		// claim must be in the tree before the DID exists: use a placeholder issuer string
		// that is a syntactically valid DID of another identity; the proof's issuerData.id
		// (the one that is verified) is the real one.
		placeholder := must(core.NewDIDFromIdenState(typ, big.NewInt(rng.Int63())))
		body = credBody(placeholder.String())
		claim = coreClaimOf(body)
		addClaim()
		issuerDIDStr = must(core.NewDIDFromIdenState(typ, state())).String()
	} else {
		issuerDIDStr = must(core.NewDIDFromIdenState(typ, state())).String()
		body = credBody(issuerDIDStr)
		claim = coreClaimOf(body)
		if kind == verifiable.Iden3SparseMerkleTreeProofType {
			addClaim()
			_ = roots.Add(ctx, claims.Root().BigInt(), big.NewInt(0))
		}
	}
	if !genesis && kind == verifiable.BJJSignatureProofType {
		// move the state away from the genesis one: the DID was derived above
		_ = claims.Add(ctx, big.NewInt(rng.Int63()), big.NewInt(rng.Int63()))
		_ = roots.Add(ctx, claims.Root().BigInt(), big.NewInt(0))
	}
	st := state()
	stHash := must(merkletree.NewHashFromBigInt(st))
	stateObj := map[string]any{
		"claimsTreeRoot":     claims.Root().Hex(),
		"revocationTreeRoot": revs.Root().Hex(),
		"rootOfRoots":        roots.Root().Hex(),
		"value":              stHash.Hex(),
		"txId":               "0x" + hex.EncodeToString(must(json.Marshal(rng.Int63()))),
		"blockTimestamp":     1700000000 + rng.Intn(1000),
		"blockNumber":        40000000 + rng.Intn(1000),
		"status":             "confirmed",
	}
	chex := must(claim.Hex())
	var proof map[string]any
	name := "smt"
	if kind == verifiable.BJJSignatureProofType {
		name = "bjj"
		hi, hv, _ := claim.HiHv()
		msg := must(poseidon.Hash([]*big.Int{hi, hv}))
		sig := sk.SignPoseidon(msg).Compress()
		amtp, _, err := claims.GenerateProof(ctx, ahi, nil)
		if err != nil {
			panic(err)
		}
		proof = map[string]any{
			"type": string(verifiable.BJJSignatureProofType),
			"issuerData": map[string]any{
				"id": issuerDIDStr, "state": stateObj, "authCoreClaim": must(authClaim.Hex()),
				"mtp": proofJSON(amtp),
				"credentialStatus": map[string]any{
					"id": statusHost + "auth", "revocationNonce": authNonce, "type": statusType,
				},
			},
			"coreClaim": chex,
			"signature": hex.EncodeToString(sig[:]),
		}
	} else {
		hi, _, _ := claim.HiHv()
		cmtp, _, err := claims.GenerateProof(ctx, hi, nil)
		if err != nil {
			panic(err)
		}
		proof = map[string]any{
			"type":       string(verifiable.Iden3SparseMerkleTreeProofType),
			"issuerData": map[string]any{"id": issuerDIDStr, "state": stateObj},
			"coreClaim":  chex,
			"mtp":        proofJSON(cmtp),
		}
	}
	if genesis {
		name += "-genesis"
	} else {
		name += "-published"
	}
	cred := cloneMap(body)
	cred["proof"] = []any{proof}

	// revocation status answer: the issuer's latest state, non-revocation of the nonce.
	// neighbours chosen so that the non-existence proof ends at another leaf (node_aux set).
	statusNonce := authNonce
	if kind != verifiable.BJJSignatureProofType {
		statusNonce = credNonce
	}
	for i := 0; i < 64; i++ {
		p, _, _ := revs.GenerateProof(ctx, new(big.Int).SetUint64(statusNonce), nil)
		if p.NodeAux != nil {
			break
		}
		_ = revs.Add(ctx, new(big.Int).SetUint64(randNonce(rng)), big.NewInt(0))
	}
	rmtp, _, err := revs.GenerateProof(ctx, new(big.Int).SetUint64(statusNonce), nil)
	if err != nil {
		panic(err)
	}
	latest := must(merkletree.NewHashFromBigInt(state()))
	status := map[string]any{
		"issuer": map[string]any{
			"state": latest.Hex(), "rootOfRoots": roots.Root().Hex(),
			"claimsTreeRoot": claims.Root().Hex(), "revocationTreeRoot": revs.Root().Hex(),
		},
		"mtp": proofJSON(rmtp),
	}

	// gist proof (only ever decoded by this library)
	gistTree := newTree()
	for i := 0; i < 6; i++ {
		_ = gistTree.Add(ctx, big.NewInt(rng.Int63()), big.NewInt(rng.Int63()))
	}
	gk := big.NewInt(rng.Int63())
	for i := 0; i < 64; i++ {
		p, _, _ := gistTree.GenerateProof(ctx, gk, nil)
		if p.NodeAux != nil {
			break
		}
		gk = big.NewInt(rng.Int63())
	}
	gp, _, _ := gistTree.GenerateProof(ctx, gk, nil)
	gist := proofJSON(gp)
	gist["type"] = "Iden3SparseMerkleTreeProof"
	didDoc := map[string]any{
		"didDocument": map[string]any{
			"@context": []any{"https://www.w3.org/ns/did/v1", "https://schema.iden3.io/core/jsonld/auth.jsonld"},
			"id":       issuerDIDStr,
			"service": []any{map[string]any{"id": issuerDIDStr + "#push", "type": "push-notification",
				"serviceEndpoint": "https://push.c12.invalid/"}},
			"verificationMethod": []any{map[string]any{
				"id": issuerDIDStr + "#stateInfo", "type": "Iden3StateInfo2023", "controller": issuerDIDStr,
				"stateContractAddress": "80001:0x134B1BE34911E39A8397ec6289782989729807a4",
				"published":            true,
				"info": map[string]any{
					"id": issuerDIDStr, "state": stHash.Hex(), "replacedByState": "0000000000000000000000000000000000000000000000000000000000000000",
					"createdAtTimestamp": "1703174663", "replacedAtTimestamp": "0", "createdAtBlock": "43840767", "replacedAtBlock": "0",
				},
				"global": map[string]any{
					"root": gistTree.Root().Hex(), "replacedByRoot": "0000000000000000000000000000000000000000000000000000000000000000",
					"createdAtTimestamp": "1704439557", "replacedAtTimestamp": "0", "createdAtBlock": "44415346", "replacedAtBlock": "0",
					"proof": gist,
				},
			}},
			"authentication":  []any{issuerDIDStr + "#stateInfo", map[string]any{"id": issuerDIDStr + "#key1", "type": "JsonWebKey2020", "controller": issuerDIDStr}},
			"assertionMethod": []any{issuerDIDStr + "#stateInfo"},
			"keyAgreement":    []any{issuerDIDStr + "#key1"},
		},
	}
	return &Bundle{Name: name, Kind: kind, Cred: cred, DIDDoc: didDoc, Status: status, Gist: cloneMap(gist), Nonce: statusNonce}
}
