package c12

// Streams (i-b) status answers / DID documents / gist proofs, (iii) documents into
// MerklizeJSONLD, (iv) structure-aware mutation, HashValue.

import (
	"bytes"
	"context"
	"encoding/json"
	"fmt"
	"math"
	"math/big"
	"regexp"
	"strings"
	"time"

	"github.com/iden3/go-iden3-crypto/poseidon"
	"github.com/iden3/go-merkletree-sql/v2"
	jsonproc "github.com/iden3/go-schema-processor/v2/json"
	"github.com/iden3/go-schema-processor/v2/merklize"
	"github.com/iden3/go-schema-processor/v2/processor"
	"github.com/iden3/go-schema-processor/v2/verifiable"
	"github.com/piprate/json-gold/ld"

	"vharness/coqgen"
	"vharness/docgen"
	"vharness/mzrun"
)

// ---------------------------------------------------------------- (i-b) decoders
type docInput struct {
	Stream  string          `json:"stream"` // decode
	Target  string          `json:"target"`
	Doc     json.RawMessage `json:"doc"`
	Nonce   uint64          `json:"nonce,omitempty"`
	Removed []string        `json:"removed,omitempty"`
}

// decodeCase decodes doc into the named library type and records the skeleton case.
func (d *drv) decodeCase(target string, doc any, removed []string, compare bool) Outcome {
	body, _ := json.Marshal(doc)
	o := decodeInto(target, body)
	in := docInput{Stream: "decode", Target: target, Doc: body, Removed: removed}
	d.mu.Lock()
	d.rep.Evaluations++
	d.rep.Count("decode:" + target + ":" + o.Class)
	if compare {
		d.rep.Distinct("decode:" + target + ":" + string(body))
	}
	d.mu.Unlock()
	if o.Class == "panic" || o.Class == "hang" {
		d.fail("json.Unmarshal("+target+")", o, in)
	}
	if !compare {
		return o
	}
	var term string
	switch target {
	case "W3CCredential":
		term = "ICred " + credJ(asMap(doc))
	case "CredentialProofs":
		term = "IProofs " + proofsJ(doc)
	case "DIDDocument":
		term = "IDidDoc " + didDocJ(asMap(doc))
	case "RevocationStatus":
		term = "IStatusJ " + statusJ(asMap(doc))
	case "GistInfoProof":
		term = "IGist " + gistJ(asMap(doc))
	default:
		return o
	}
	d.addCase(lit(term), o.Class, in)
	return o
}

func (d *drv) statusCase(status map[string]any, nonce uint64, removed []string) {
	pristine := cloneMap(status)
	o := RunStatus(status, nonce)
	b, _ := json.Marshal(pristine)
	in := docInput{Stream: "status", Target: "ValidateCredentialStatus", Doc: b, Nonce: nonce, Removed: removed}
	d.mu.Lock()
	d.rep.Evaluations++
	d.rep.Count("status:" + o.Class)
	d.rep.Distinct("status:" + string(b))
	d.mu.Unlock()
	if o.Class == "panic" || o.Class == "hang" {
		d.fail("ValidateCredentialStatus", o, in)
	}
	d.addCase(lit("IStatus "+StatusF(pristine, nonce)), o.Class, in)
}

func subsetsOf(base map[string]any, members []jpath, fn func(doc map[string]any, removed []string)) {
	n := 1 << len(members)
	parallel(n, func(mask int) {
		doc := cloneMap(base)
		var removed []string
		for i, m := range members {
			if mask&(1<<i) != 0 {
				jremove(doc, m)
				removed = append(removed, m.String())
			}
		}
		fn(doc, removed)
	})
}

func (d *drv) artefactStream() {
	// revocation status answer: 2^10 subsets, through ValidateCredentialStatus and the decoder
	stMembers := []jpath{{"issuer", "state"}, {"issuer", "rootOfRoots"}, {"issuer", "claimsTreeRoot"}, {"issuer", "revocationTreeRoot"},
		{"mtp"}, {"mtp", "existence"}, {"mtp", "siblings"}, {"mtp", "node_aux"}, {"mtp", "node_aux", "key"}, {"mtp", "node_aux", "value"}}
	for bi, b := range d.bundles {
		if bi >= d.cfg.Pick(2, 4) {
			break
		}
		for _, m := range stMembers {
			if _, ok := jget(b.Status, m); !ok {
				d.rep.Fail("c12-generator", "status answer lacks "+m.String(), b.Status)
			}
		}
		subsetsOf(b.Status, stMembers, func(doc map[string]any, removed []string) {
			d.statusCase(cloneMap(doc), b.Nonce, removed)
			d.decodeCase("RevocationStatus", doc, removed, true)
		})
		d.rep.Count(fmt.Sprintf("exhaustive-subsets:status-answer:k=%d", len(stMembers)))
	}
	// DID document: 2^12 subsets through the decoder
	b := d.bundles[0]
	dd := asMap(b.DIDDoc["didDocument"])
	vm := func(p ...any) jpath { return append(jpath{"verificationMethod", 0}, p...) }
	ddMembers := []jpath{{"service"}, {"verificationMethod"}, {"assertionMethod"}, {"authentication"}, {"keyAgreement"},
		vm("published"), vm("info"), vm("global"), vm("global", "proof"), vm("global", "proof", "siblings"),
		vm("global", "proof", "node_aux"), vm("global", "proof", "type")}
	for _, m := range ddMembers {
		if _, ok := jget(dd, m); !ok {
			d.rep.Fail("c12-generator", "DID document lacks "+m.String(), dd)
		}
	}
	subsetsOf(dd, ddMembers, func(doc map[string]any, removed []string) {
		d.decodeCase("DIDDocument", doc, removed, true)
	})
	d.rep.Count(fmt.Sprintf("exhaustive-subsets:did-document:k=%d", len(ddMembers)))
	// gist proof: 2^6
	gMembers := []jpath{{"existence"}, {"siblings"}, {"node_aux"}, {"node_aux", "key"}, {"node_aux", "value"}, {"type"}}
	subsetsOf(b.Gist, gMembers, func(doc map[string]any, removed []string) {
		d.decodeCase("GistInfoProof", doc, removed, true)
	})
	d.rep.Count(fmt.Sprintf("exhaustive-subsets:gist-proof:k=%d", len(gMembers)))
	// proofs alone (array / single object / null)
	for _, bb := range d.bundles {
		arr := bb.Cred["proof"].([]any)
		d.decodeCase("CredentialProofs", clone(arr), nil, true)
		d.decodeCase("CredentialProofs", clone(arr[0]), nil, true)
		var ps []jpath
		allMembers(arr[0], nil, &ps)
		for _, p := range ps {
			one := clone(arr[0])
			jremove(one, p)
			d.decodeCase("CredentialProofs", one, []string{p.String()}, true)
		}
	}
	d.decodeCase("CredentialProofs", nil, nil, true)
	d.decodeCase("CredentialProofs", []any{}, nil, true)
	// Authentication.UnmarshalJSON called directly
	for _, c := range []struct {
		b    []byte
		term string
	}{
		{nil, "ANilBytes"}, {[]byte{}, "AEmpty"}, {[]byte(`"did:example:1#k"`), "(AString true)"}, {[]byte(`5`), "AOtherByte"},
		{[]byte(`null`), "AOtherByte"}, {[]byte(`{"id":"x","type":"t"}`), "(AObject (mkvmj true None))"}, {[]byte(`{"id":5}`), "(AObject (mkvmj false None))"},
	} {
		o := decodeInto("Authentication.UnmarshalJSON", c.b)
		d.rep.Evaluations++
		d.rep.Count("decode:Authentication.UnmarshalJSON:" + o.Class)
		in := docInput{Stream: "auth-direct", Target: "Authentication.UnmarshalJSON", Doc: json.RawMessage(jsonBytes(c.b))}
		if o.Class == "panic" || o.Class == "hang" {
			d.fail("Authentication.UnmarshalJSON", o, in)
		}
		d.addCase(lit("IAuth "+c.term), o.Class, in)
	}
}

func jsonBytes(b []byte) []byte {
	if b == nil {
		return []byte(`null`)
	}
	out, _ := json.Marshal(string(b))
	return out
}

// ------------------------------------------------- merkle proofs with hostile siblings
// every place a merkle proof is decoded from JSON, with the sibling lists that the
// dependency's decoder cannot take (D12: known finding) and their harmless neighbours
func siblingLists() map[string][]any {
	nz := func(n int) []any {
		l := make([]any, n)
		for i := range l {
			l[i] = fmt.Sprint(i + 1)
		}
		return l
	}
	zeros := func(n int) []any {
		l := make([]any, n)
		for i := range l {
			l[i] = "0"
		}
		return l
	}
	return map[string][]any{
		"null-only":       {nil},
		"null-last":       {"1", "2", nil},
		"null-first":      {nil, "7"},
		"nonzero-240":     nz(240),                 // fits exactly
		"nonzero-241":     nz(241),                 // D12
		"zeros-240+1":     append(zeros(240), "5"), // D12: a non-zero sibling at level 240
		"zeros-300":       zeros(300),              // decodes; RootFromProof panics and is recovered (88617d1)
		"zeros-241":       zeros(241),
		"bad-element":     {"1", "not-a-number", nil},
		"number-element":  {1, nil},
		"null-after-deep": append(zeros(250), nil),
	}
}

func (d *drv) siblingStream() {
	lists := siblingLists()
	names := make([]string, 0, len(lists))
	for n := range lists {
		names = append(names, n)
	}
	sortStrings(names)
	for _, b := range d.bundles[:2] {
		for _, n := range names {
			sibs := lists[n]
			// credential: the proof's own mtp / issuerData.mtp
			for _, p := range []jpath{{"proof", 0, "mtp"}, {"proof", 0, "issuerData", "mtp"}} {
				a := b.Arte()
				if _, ok := jget(a.Cred, p); !ok {
					continue
				}
				jset(a.Cred, append(append(jpath{}, p...), "siblings"), clone(sibs))
				in := verifyInput{Stream: "verify", Bundle: b.Name}
				full := a.copy()
				in.Arte = full
				d.rep.Count("hostile-siblings:" + n)
				d.verifyCase(a, in, true)
				d.decodeCase("CredentialProofs", clone(full.Cred["proof"]), []string{"siblings=" + n}, true)
			}
			// status answer
			st := cloneMap(b.Status)
			jset(st, jpath{"mtp", "siblings"}, clone(sibs))
			d.decodeCase("RevocationStatus", cloneMap(st), []string{"siblings=" + n}, true)
			if o := decodeInto("RevocationStatus", mustJSON(st)); o.Class == "ok" {
				d.statusCase(st, b.Nonce, []string{"siblings=" + n})
			}
			// the status answer inside a BJJ verification
			if b.Kind == "BJJSignature2021" {
				a := b.Arte()
				jset(a.Status, jpath{"mtp", "siblings"}, clone(sibs))
				full := a.copy()
				d.verifyCase(a, verifyInput{Stream: "verify", Arte: full}, true)
			}
			// DID document / gist proof
			dd := cloneMap(asMap(b.DIDDoc["didDocument"]))
			jset(dd, jpath{"verificationMethod", 0, "global", "proof", "siblings"}, clone(sibs))
			d.decodeCase("DIDDocument", dd, []string{"siblings=" + n}, true)
			g := cloneMap(b.Gist)
			g["siblings"] = clone(sibs)
			d.decodeCase("GistInfoProof", g, []string{"siblings=" + n}, true)
			// a DID document that does not decode is a resolver error for VerifyProof
			a := b.Arte()
			jset(a.DIDDoc, jpath{"didDocument", "verificationMethod", 0, "global", "proof", "siblings"}, clone(sibs))
			full := a.copy()
			d.verifyCase(a, verifyInput{Stream: "verify", Arte: full}, true)
		}
		// node_aux shapes (88617d1)
		for _, aux := range []any{map[string]any{}, map[string]any{"key": "1"}, map[string]any{"value": "1"}, map[string]any{"key": nil, "value": nil}, map[string]any{"key": "1", "value": "2"}} {
			st := cloneMap(b.Status)
			jset(st, jpath{"mtp", "node_aux"}, clone(aux))
			d.decodeCase("RevocationStatus", cloneMap(st), []string{"node_aux"}, true)
			d.statusCase(st, b.Nonce, []string{"node_aux"})
			if b.Kind != "BJJSignature2021" {
				a := b.Arte()
				jset(a.Cred, jpath{"proof", 0, "mtp", "node_aux"}, clone(aux))
				jset(a.Cred, jpath{"proof", 0, "mtp", "existence"}, false)
				full := a.copy()
				d.verifyCase(a, verifyInput{Stream: "verify", Arte: full}, true)
			}
		}
	}
}

func mustJSON(v any) []byte {
	b, err := json.Marshal(v)
	if err != nil {
		panic(err)
	}
	return b
}

// ------------------------------------------------------- (iv) structure-aware mutation
func hostileValues() []any {
	deep := any("x")
	for i := 0; i < 200; i++ {
		deep = []any{deep}
	}
	deepObj := any(map[string]any{})
	for i := 0; i < 200; i++ {
		deepObj = map[string]any{"a": deepObj}
	}
	return []any{nil, true, 0, -1, 1.5, json.Number("1e400"), json.Number("123456789012345678901234567890123456789012345678901234567890"),
		"", "x", strings.Repeat("ab", 5000), []any{}, []any{nil}, map[string]any{}, map[string]any{"type": 5}, deep, deepObj}
}

type mutInput struct {
	Stream string `json:"stream"` // mutate
	Target string `json:"target"`
	Pos    string `json:"pos"`
	Arte   *Arte  `json:"arte,omitempty"`
	Doc    any    `json:"doc,omitempty"`
}

func (d *drv) mutationStream() {
	vals := hostileValues()
	type mjob struct {
		b   *Bundle
		m   member
		val any
	}
	var jobs []mjob
	for bi, b := range d.bundles {
		if bi >= d.cfg.Pick(2, 4) {
			break
		}
		a := b.Arte()
		for _, doc := range []string{"cred", "diddoc", "status"} {
			var ps []jpath
			allPositions(a.doc(doc), nil, &ps)
			for _, p := range ps {
				m := member{Doc: doc, Path: p}
				if !d.cfg.Thorough() && !interesting(m) {
					continue
				}
				for vi, v := range vals {
					if !d.cfg.Thorough() && (len(ps)+vi+len(p))%3 != 0 {
						continue // quick: a third of the (position, value) grid, fixed pattern
					}
					jobs = append(jobs, mjob{b, m, v})
				}
			}
		}
	}
	parallel(len(jobs), func(i int) {
		j := jobs[i]
		a := j.b.Arte()
		jset(a.doc(j.m.Doc), j.m.Path, clone(j.val))
		full := a.copy()
		d.mu.Lock()
		d.rep.Count("mutation:verify")
		d.rep.Distinct("mut:" + j.b.Name + j.m.String() + fmt.Sprint(i%len(vals)))
		d.mu.Unlock()
		d.verifyCase(a, verifyInput{Stream: "verify", Arte: full}, false)
	})
	// the decoders alone: every position x every hostile value
	type djob struct {
		target string
		doc    any
		p      jpath
		val    any
	}
	var dj []djob
	b := d.bundles[0]
	s := d.bundles[1]
	for _, t := range []struct {
		target string
		doc    any
	}{
		{"CredentialProofs", b.Cred["proof"]}, {"CredentialProofs", s.Cred["proof"]},
		{"BJJSignatureProof2021", b.Cred["proof"].([]any)[0]}, {"Iden3SparseMerkleTreeProof", s.Cred["proof"].([]any)[0]},
		{"Iden3SparseMerkleProof", oldSMT(s.Cred["proof"].([]any)[0])}, {"CommonProof", s.Cred["proof"].([]any)[0]},
		{"IssuerData", asMap(b.Cred["proof"].([]any)[0])["issuerData"]},
		{"DIDDocument", b.DIDDoc["didDocument"]}, {"RevocationStatus", b.Status}, {"GistInfoProof", b.Gist},
		{"W3CCredential", b.Cred}, {"CredentialStatus", b.Cred["credentialStatus"]},
		{"Authentication", asMap(b.DIDDoc["didDocument"])["verificationMethod"].([]any)[0]},
	} {
		var ps []jpath
		allPositions(t.doc, nil, &ps)
		dj = append(dj, djob{t.target, t.doc, nil, nil})
		for _, p := range ps {
			for _, v := range vals {
				dj = append(dj, djob{t.target, t.doc, p, v})
			}
		}
		for _, v := range vals { // the whole document replaced
			dj = append(dj, djob{t.target, v, nil, nil})
		}
	}
	parallel(len(dj), func(i int) {
		j := dj[i]
		doc := clone(j.doc)
		if j.p != nil {
			jset(doc, j.p, clone(j.val))
		}
		d.decodeCase(j.target, doc, nil, false)
	})
	d.rep.Count(fmt.Sprintf("mutation:decoder-grid=%d", len(dj)))
	// ValidateCredentialStatus on mutated answers
	var ps []jpath
	allPositions(b.Status, nil, &ps)
	type sjob struct {
		p   jpath
		val any
	}
	var sj []sjob
	for _, p := range ps {
		for _, v := range vals {
			sj = append(sj, sjob{p, v})
		}
	}
	parallel(len(sj), func(i int) {
		st := cloneMap(b.Status)
		jset(st, sj[i].p, clone(sj[i].val))
		o := RunStatus(st, b.Nonce)
		d.mu.Lock()
		d.rep.Evaluations++
		d.rep.Count("mutation:status:" + o.Class)
		d.mu.Unlock()
		if o.Class == "panic" || o.Class == "hang" {
			d.fail("ValidateCredentialStatus", o, docInput{Stream: "status", Target: "ValidateCredentialStatus", Doc: mustJSON2(st), Nonce: b.Nonce})
		}
	})
}

func oldSMT(p any) any {
	m := cloneMap(asMap(p))
	m["type"] = "Iden3SparseMerkleProof"
	return m
}

func mustJSON2(v any) json.RawMessage {
	b, err := json.Marshal(v)
	if err != nil {
		return json.RawMessage(`"unserialisable"`)
	}
	return b
}

// --------------------------------------------------------------- (iii) documents
type docCase struct {
	why string
	doc []byte
}

func nestArr(depth int, leaf string) string {
	return strings.Repeat("[", depth) + leaf + strings.Repeat("]", depth)
}

func (d *drv) documents() []docCase {
	ctx := `"@context":{"@vocab":"urn:v:","id":"@id","type":"@type","xsd":"http://www.w3.org/2001/XMLSchema#","int":{"@id":"urn:v:int","@type":"xsd:integer"},"s":{"@id":"urn:v:s","@type":"xsd:string"},"dt":{"@id":"urn:v:dt","@type":"xsd:dateTime"},"b":{"@id":"urn:v:b","@type":"xsd:boolean"},"dbl":{"@id":"urn:v:dbl","@type":"xsd:double"}}`
	mk := func(body string) []byte { return []byte("{" + ctx + "," + body + "}") }
	cyc := func(n int) string {
		// a -> b -> ... -> a
		s := `"id":"urn:n0","p":`
		open := 0
		for i := 1; i < n; i++ {
			s += fmt.Sprintf(`{"id":"urn:n%d","p":`, i)
			open++
		}
		s += `{"id":"urn:n0"}` + strings.Repeat("}", open)
		return s
	}
	out := []docCase{
		{"cycle-1", mk(cyc(1))}, {"cycle-2", mk(cyc(2))}, {"cycle-3", mk(cyc(3))}, {"cycle-4", mk(cyc(4))},
		{"cycle-2-with-leaf", mk(`"id":"urn:a","p":{"id":"urn:b","q":{"id":"urn:a"},"s":"x"}`)},
		{"cycle-D1", []byte(`{"@context":{"@vocab":"urn:v:","id":"@id"},"id":"urn:a","p":{"id":"urn:b","q":{"id":"urn:a"}}}`)},
		{"self-reference", mk(`"id":"urn:a","p":{"id":"urn:a"}`)},
		{"blank-cycle", mk(`"id":"_:a","p":{"id":"_:b","q":{"id":"_:a"}}`)},
		{"shared-node", mk(`"id":"urn:a","p":{"id":"urn:c","s":"x"},"q":{"id":"urn:c"}`)},
		{"shared-node-deep", mk(`"id":"urn:a","p":{"id":"urn:b","r":{"id":"urn:c","s":"x"}},"q":{"id":"urn:c"}`)},
		{"diamond", mk(`"id":"urn:a","p":{"id":"urn:b","r":{"id":"urn:d","s":"x"}},"q":{"id":"urn:c","r":{"id":"urn:d"}}`)},
		{"empty-string", mk(`"id":"urn:a","s":""`)},
		{"empty-string-untyped", mk(`"id":"urn:a","name":""`)},
		{"empty-string-in-array", mk(`"id":"urn:a","s":["x",""]`)},
		{"empty-string-nested", mk(`"id":"urn:a","p":{"s":""}`)},
		{"empty-id", mk(`"id":"","s":"x"`)},
		{"empty-type", mk(`"id":"urn:a","type":"","s":"x"`)},
		{"empty-key", mk(`"id":"urn:a","":"x"`)},
		{"deep-array-50", mk(`"id":"urn:a","s":` + nestArr(50, `"x"`))},
		{"deep-array-2000", mk(`"id":"urn:a","s":` + nestArr(2000, `"x"`))},
		{"deep-array-9000", mk(`"id":"urn:a","s":` + nestArr(9000, `"x"`))},
		{"deep-object-12", mk(`"id":"urn:a","p":` + strings.Repeat(`{"p":`, 12) + `{"s":"x"}` + strings.Repeat("}", 12))},
		{"deep-object-120", mk(`"id":"urn:a","p":` + strings.Repeat(`{"p":`, 120) + `{"s":"x"}` + strings.Repeat("}", 120))},
		{"huge-int-literal", mk(`"id":"urn:a","int":"` + strings.Repeat("9", 400) + `"`)},
		{"huge-int-number", mk(`"id":"urn:a","int":` + strings.Repeat("9", 400))},
		{"huge-exponent", mk(`"id":"urn:a","int":"1e999999"`)},
		{"huge-exponent-2", mk(`"id":"urn:a","int":"1e1000001"`)},
		{"huge-neg-exponent", mk(`"id":"urn:a","int":"1e-999999"`)},
		{"huge-exponent-number", mk(`"id":"urn:a","int":1e400`)},
		{"huge-double", mk(`"id":"urn:a","dbl":"1e400"`)},
		{"nan-double", mk(`"id":"urn:a","dbl":"NaN"`)},
		{"int-fraction", mk(`"id":"urn:a","int":"1/0"`)},
		{"int-hex", mk(`"id":"urn:a","int":"0x10"`)},
		{"bad-datetime", mk(`"id":"urn:a","dt":"2020-13-45T99:99:99Z"`)},
		{"year-huge", mk(`"id":"urn:a","dt":"99999-01-01T00:00:00Z"`)},
		{"bad-bool", mk(`"id":"urn:a","b":"yes"`)},
		{"not-an-object", []byte(`[1,2,3]`)},
		{"json-null", []byte(`null`)},
		{"empty-input", []byte(``)},
		{"empty-object", []byte(`{}`)},
		{"context-only", []byte("{" + ctx + "}")},
		{"long-string", mk(`"id":"urn:a","s":"` + strings.Repeat("z", 200000) + `"`)},
		{"many-values", mk(`"id":"urn:a","s":[` + strings.TrimSuffix(strings.Repeat(`"v",`, 300), ",") + `]`)},
		{"many-distinct-values", mk(`"id":"urn:a","int":[` + seqList(400) + `]`)},
		{"null-term-prefix (json-gold panics: outside the property's quantifier)", []byte(`{"@context":{"nul":null},"nul:x":"v"}`)},
		{"graph-container", mk(`"id":"urn:a","@graph":[{"id":"urn:b","s":"x"},{"id":"urn:c","p":{"id":"urn:b"}}]`)},
		{"reverse", []byte(`{"@context":{"@vocab":"urn:v:","id":"@id","r":{"@reverse":"urn:v:p"}},"id":"urn:a","r":{"id":"urn:b","s":"x"}}`)},
		{"list", []byte(`{"@context":{"@vocab":"urn:v:","id":"@id","l":{"@id":"urn:v:l","@container":"@list"}},"id":"urn:a","l":["x","y",""]}`)},
	}
	g := docgen.New(d.cfg.Rng)
	for i := 0; i < d.cfg.Pick(10, 200); i++ {
		out = append(out, docCase{"docgen-cycle", g.Cycle().Bytes}, docCase{"docgen-shared", g.Shared().Bytes},
			docCase{"docgen-empty-string", g.EmptyString().Bytes}, docCase{"docgen-odd", g.Odd().Bytes})
	}
	return out
}

// normalizeSlow: does json-gold's normalisation alone exceed the watchdog?
func (d *drv) normalizeSlow(doc []byte) bool {
	return guard(childWatchdog, func() error {
		_, e := mzrun.Normalize(doc, d.loader, true)
		return e
	}).Class == "hang"
}

func seqList(n int) string {
	var l []string
	for i := 0; i < n; i++ {
		l = append(l, fmt.Sprint(i))
	}
	return strings.Join(l, ",")
}

// rdfCases are evaluated by RDF.Run.rmismatches (entries_from_rdf of RDF/Model.v)
type rdfCase struct {
	ds    *ld.RDFDataset
	order []string
	views []mzrun.EntryView
	out   mzrun.Outcome
	input any
}

func (d *drv) documentStream() ([]*rdfCase, error) {
	docs := d.documents()
	jobs := make([]job, len(docs))
	for i, c := range docs {
		jobs[i] = job{Op: "merklize", Data: c.doc}
	}
	res, err := runChildJobs(jobs)
	if err != nil {
		return nil, err
	}
	var rcs []*rdfCase
	for i, c := range docs {
		o := res[i]
		input := map[string]any{"stream": "document", "why": c.why, "doc": string(c.doc)}
		if len(c.doc) > 4096 {
			input["doc"] = string(c.doc[:2048]) + "...(generated; see why)"
			input["regenerate"] = c.why
		}
		d.rep.Evaluations++
		d.rep.Count("document:" + o.Class)
		d.rep.Count("document-kind:" + strings.SplitN(c.why, " ", 2)[0])
		d.rep.Distinct("doc:" + string(c.doc))
		jsonGoldPanic := o.Class == "panic" && strings.HasPrefix(o.Site, "ld.")
		switch {
		case jsonGoldPanic:
			// the JSON-LD processor itself does not complete: outside the property's quantifier
			d.rep.Count("observation:c12-jsongold-panic-" + slug(o.Site) + " (json-gold itself does not complete: not claimed)")
			d.rep.Notes = append(d.rep.Notes, fmt.Sprintf("json-gold panics on %q at %s: %s (the property quantifies over documents on which the JSON-LD processor completes)", c.why, o.Site, o.Msg))
		case o.Class == "hang" && d.normalizeSlow(c.doc):
			// json-gold's URDNA2015 alone needs longer than the watchdog (cubic in the nesting depth)
			d.rep.Count("document:json-gold-slow (not claimed)")
			d.rep.Notes = append(d.rep.Notes, fmt.Sprintf("json-gold Normalize alone exceeds the watchdog on %q", c.why))
		case o.Class == "panic" || o.Class == "hang" || o.Class == "crash" || o.Class == "nilnil":
			d.fail("MerklizeJSONLD", o, input)
		case o.Alloc > uint64(256<<20)+8192*uint64(len(c.doc)):
			d.rep.Fail("c12-merklizejsonld-memory", fmt.Sprintf("MerklizeJSONLD allocated %d bytes on a %d-byte document (%s)", o.Alloc, len(c.doc), c.why), input)
		}
		// model side: entries_from_rdf on the dataset json-gold produces, then the tail
		if len(c.doc) > 2500 || jsonGoldPanic || o.Class == "hang" || strings.HasPrefix(c.why, "huge-") || c.why == "int-hex" {
			// (10^999999 is not something vm_compute evaluates: implementation side only)
			continue
		}
		var ds *ld.RDFDataset
		no := guard(watchdog, func() error {
			var e error
			ds, e = mzrun.Normalize(c.doc, d.loader, true)
			return e
		})
		if no.Class != "ok" || ds == nil {
			continue
		}
		nq := 0
		for _, qs := range ds.Graphs {
			nq += len(qs)
		}
		if nq > 40 {
			continue // the in-Coq evaluation of the RDF model is quadratic in the number of quads
		}
		for _, s := range mzrun.DoubleLexicals(ds) {
			d.fr.AddStr(s)
		}
		views, eo := mzrun.Entries(ds, merklize.PoseidonHasher{})
		rcs = append(rcs, &rdfCase{ds: ds, order: mzrun.GraphOrder(ds, d.cfg.Rng.Shuffle), views: views, out: eo, input: input})
		if eo.Class == "panic" || eo.Class == "hang" {
			d.fail("EntriesFromRDF", Outcome{Class: eo.Class, Msg: eo.Msg, Site: "EntriesFromRDFWithHasher"}, input)
		}
		if eo.Class != "ok" {
			continue
		}
		// tail: entries -> keys, tree, compaction
		compactOK := guard(watchdog, func() error {
			var obj map[string]any
			if e := json.Unmarshal(c.doc, &obj); e != nil {
				return e
			}
			opts := ld.NewJsonLdOptions("")
			opts.Algorithm = ld.AlgorithmURDNA2015
			opts.SafeMode = true
			opts.DocumentLoader = d.loader
			_, e := ld.NewJsonLdProcessor().Compact(obj, nil, opts)
			return e
		}).Class == "ok"
		type went struct {
			parts []any
			val   any
		}
		var es []went
		for _, v := range views {
			es = append(es, went{v.Parts, v.Value})
			var elems []*big.Int
			ok := true
			for _, p := range v.Parts {
				switch x := p.(type) {
				case string:
					z, err := d.prims.Bytes(x)
					if err != nil || z == nil {
						ok = false
					}
					elems = append(elems, z)
				case int:
					elems = append(elems, big.NewInt(int64(x)))
				}
			}
			if ok {
				_, _ = d.prims.Hash(elems)
			}
			if s, isStr := v.Value.(string); isStr {
				_, _ = d.prims.Bytes(s)
			}
		}
		_, _ = d.prims.Hash([]*big.Int{big.NewInt(0)})
		_, _ = d.prims.Hash([]*big.Int{big.NewInt(1)})
		d.addCase(func(f *coqgen.File) string {
			var l []string
			for _, e := range es {
				l = append(l, fmt.Sprintf("(%s, %s)", partsCoq(f, e.parts), mzrun.ValueCoq(f, e.val)))
			}
			return fmt.Sprintf("ITail [%s] %s", strings.Join(l, ";\n   "), b2c(compactOK))
		}, o.Class, input)
	}
	return rcs, nil
}

func (d *drv) writeRDFShards(rcs []*rdfCase) error {
	const sz = 60
	for s := 0; s*sz < len(rcs); s++ {
		lo, hi := s*sz, (s+1)*sz
		if hi > len(rcs) {
			hi = len(rcs)
		}
		f := coqgen.NewFile("From GSP Require Import Value.Time Value.Model Value.Run RDF.Model RDF.Run.")
		name := fmt.Sprintf("%s/cases_C12_rdf_%03d.v", d.cfg.OutDir, s)
		var cs []string
		for i := lo; i < hi; i++ {
			c := rcs[i]
			id := 1000000 + i
			cs = append(cs, fmt.Sprintf("mkr %d %s\n  %s\n  (%s)", id, coqgen.Limbs(merklize.PoseidonHasher{}.Prime()), mzrun.DatasetCoq(f, c.ds, c.order), mzrun.EntriesObsCoq(f, c.views, c.out)))
			d.rep.Case(name, id, c.input)
		}
		f.Add("Definition floats_ : raw_floats := " + d.fr.Coq(f) + ".")
		f.Add("Definition cases_ : list rcase := " + coqgen.List(cs) + ".")
		f.Add("Definition M := Eval vm_compute in rmismatches floats_ cases_.")
		f.Add("Print M.")
		if err := f.Write(name); err != nil {
			return err
		}
		d.rep.Shards = append(d.rep.Shards, name)
	}
	return nil
}

// ------------------------------------------------------------------- HashValue
type hvCase struct {
	dt   string
	val  any
	desc string
}

func (d *drv) hashValueStream() {
	xsd := "http://www.w3.org/2001/XMLSchema#"
	dts := []string{xsd + "string", xsd + "integer", xsd + "boolean", xsd + "dateTime", xsd + "double", xsd + "positiveInteger",
		xsd + "nonNegativeInteger", xsd + "negativeInteger", xsd + "nonPositiveInteger", "", "urn:custom:type", xsd + "float", "@id"}
	now := time.Date(2024, 2, 29, 12, 0, 0, 5, time.UTC)
	var nilPtr *big.Int
	var nilMap map[string]any
	vals := []struct {
		v    any
		desc string
	}{
		{nil, "nil"}, {true, "bool"}, {false, "bool"},
		{int(0), "int"}, {int(-1), "int"}, {int8(-128), "int8"}, {int16(32767), "int16"}, {int32(-5), "int32"}, {int64(math.MaxInt64), "int64"}, {int64(math.MinInt64), "int64"},
		{int64(1) << 53, "int64"}, {int64(1)<<53 + 1, "int64"},
		{uint(7), "uint"}, {uint8(255), "uint8"}, {uint16(1), "uint16"}, {uint32(1 << 31), "uint32"}, {uint64(math.MaxUint64), "uint64"}, {uint64(1) << 63, "uint64"},
		{float64(0), "float64"}, {math.Copysign(0, -1), "float64"}, {1.5, "float64"}, {-1e300, "float64"}, {math.NaN(), "float64"}, {math.Inf(1), "float64"}, {math.Inf(-1), "float64"},
		{math.SmallestNonzeroFloat64, "float64"}, {math.MaxFloat64, "float64"}, {float32(2.5), "float32"}, {float32(math.Inf(1)), "float32"},
		{"", "string"}, {"x", "string"}, {"true", "string"}, {"0", "string"}, {"1.0E0", "string"}, {"-17", "string"}, {"1e3", "string"}, {"1.5", "string"},
		{"NaN", "string"}, {"INF", "string"}, {"2024-02-29T12:00:00Z", "string"}, {"2024-02-30T12:00:00Z", "string"}, {"2024-02-29", "string"},
		{strings.Repeat("9", 100), "string"}, {"-" + strings.Repeat("9", 100), "string"}, {"1e999999", "string"}, {"1e-999999", "string"}, {"1e1000001", "string"},
		{strings.Repeat("s", 100000), "string"}, {"\x00", "string"}, {"\xff\xfe", "string"}, {" 1", "string"},
		{[]byte("x"), "[]byte"}, {[]any{1, "a"}, "slice"}, {[]string{}, "slice"}, {map[string]any{"a": 1}, "map"}, {nilMap, "nil-map"},
		{json.Number("12"), "json.Number"}, {json.Number(""), "json.Number"}, {now, "time.Time"}, {&now, "*time.Time"}, {time.Duration(5), "time.Duration"},
		{big.NewInt(5), "*big.Int"}, {nilPtr, "nil-*big.Int"}, {struct{}{}, "struct"}, {complex(1, 2), "complex128"}, {func() {}, "func"}, {make(chan int), "chan"},
		{uintptr(1), "uintptr"}, {[2]int{1, 2}, "array"}, {'x', "rune"}, {byte(1), "byte"},
	}
	for _, dt := range dts {
		for _, v := range vals {
			d.hashValueCase(dt, v.v, v.desc)
		}
	}
	// random strings under every datatype
	for i := 0; i < d.cfg.Pick(300, 20000); i++ {
		dt := dts[d.cfg.Rng.Intn(len(dts))]
		alphabet := "0123456789+-.eE/_xXTZ: na"
		n := d.cfg.Rng.Intn(12)
		var sb strings.Builder
		for k := 0; k < n; k++ {
			sb.WriteByte(alphabet[d.cfg.Rng.Intn(len(alphabet))])
		}
		d.hashValueCase(dt, sb.String(), "random-string")
	}
}

// recHasher is PoseidonHasher with the primitive poseidon calls recorded (same guard
// as merklize.PoseidonHasher.HashBytes); used for a second, recording run only.
type recHasher struct{ p *primRec }

func (r recHasher) Hash(in []*big.Int) (*big.Int, error) { return r.p.Hash(in) }
func (r recHasher) HashBytes(msg []byte) (*big.Int, error) {
	z, err := r.p.Bytes(string(msg))
	if err == nil && z == nil {
		return nil, fmt.Errorf("empty message")
	}
	return z, err
}
func (r recHasher) Prime() *big.Int { return merklize.PoseidonHasher{}.Prime() }

func (d *drv) hashValueCase(dt string, v any, desc string) {
	var z *big.Int
	o := guard(watchdog, func() error {
		var err error
		z, err = merklize.HashValue(dt, v)
		return err
	})
	if o.Class == "ok" && z == nil {
		o.Class = "nilnil"
	}
	input := map[string]any{"stream": "hashvalue", "datatype": dt, "kind": desc, "value": fmt.Sprintf("%.200v", v)}
	d.rep.Evaluations++
	d.rep.Count("hashvalue:" + o.Class)
	d.rep.Count("hashvalue-kind:" + desc)
	d.rep.Distinct("hv:" + dt + "|" + desc + "|" + fmt.Sprintf("%.300v", v))
	switch o.Class {
	case "panic", "hang":
		d.fail("HashValue", o, input)
	case "nilnil":
		d.rep.Fail("c12-hashvalue-nil-nil", fmt.Sprintf("HashValue(%q, %s %.60v) returned (nil, nil)", dt, desc, v), input)
	case "ok":
		if z.Sign() < 0 || z.Cmp(merklize.PoseidonHasher{}.Prime()) >= 0 {
			d.rep.Fail("c12-hashvalue-out-of-field", "HashValue returned a value outside the field", input)
		}
	}
	// model side: only the kinds and lexical forms the value model covers; the primitive
	// calls are recorded by a second run through a recording hasher
	_ = guard(watchdog, func() error { _, err := merklize.HashValueWithHasher(recHasher{d.prims}, dt, v); return err })
	var raw string
	switch x := v.(type) {
	case string:
		if !modelledLexical(dt, x) {
			return
		}
		if dt == ld.XSDDouble {
			d.flStr(x)
		}
		_, _ = d.prims.Bytes(x)
		raw = "S"
	case bool:
		if dt == ld.XSDDouble {
			d.flStr(fmt.Sprint(x))
		}
		raw = "RGBool " + b2c(x)
	case int, int8, int16, int32, int64:
		var i64 int64
		switch y := x.(type) {
		case int:
			i64 = int64(y)
		case int8:
			i64 = int64(y)
		case int16:
			i64 = int64(y)
		case int32:
			i64 = int64(y)
		case int64:
			i64 = y
		}
		if dt == ld.XSDDouble {
			d.flInt(big.NewInt(i64), false)
		}
		_, _ = d.prims.Bytes(fmt.Sprint(i64))
		raw = "RGInt " + coqgen.SNumI(i64)
	case uint, uint8, uint16, uint32, uint64:
		var u64 uint64
		switch y := x.(type) {
		case uint:
			u64 = uint64(y)
		case uint8:
			u64 = uint64(y)
		case uint16:
			u64 = uint64(y)
		case uint32:
			u64 = uint64(y)
		case uint64:
			u64 = y
		}
		if dt == ld.XSDDouble {
			d.flInt(new(big.Int).SetUint64(u64), true)
		}
		raw = "RGUint " + coqgen.SNum(new(big.Int).SetUint64(u64))
	case float64:
		d.flBits(math.Float64bits(x))
		_, _ = d.prims.Bytes(ld.GetCanonicalDouble(x))
		raw = "RGFloat " + coqgen.Limbs(new(big.Int).SetUint64(math.Float64bits(x)))
	case float32:
		d.flBits(math.Float64bits(float64(x)))
		_, _ = d.prims.Bytes(ld.GetCanonicalDouble(float64(x)))
		raw = "RGFloat " + coqgen.Limbs(new(big.Int).SetUint64(math.Float64bits(float64(x))))
	default:
		raw = "RGOther"
	}
	_, _ = d.prims.Hash([]*big.Int{big.NewInt(0)})
	_, _ = d.prims.Hash([]*big.Int{big.NewInt(1)})
	sv, _ := v.(string)
	d.addCase(func(f *coqgen.File) string {
		r := raw
		if r == "S" {
			r = "RGStr " + f.Str(sv)
		}
		return fmt.Sprintf("IHash %s (%s)", f.Str(dt), r)
	}, o.Class, input)
}

// modelledLexical: Value/Model.v covers the decimal grammar of big.Rat.SetString
// (no base prefixes / underscores / p-exponents, DESIGN.md O6) and RFC3339 times.
func modelledLexical(dt, s string) bool {
	if len(s) > 2000 {
		return false
	}
	for i := 0; i < len(s); i++ {
		if s[i] < 0x20 || s[i] > 0x7e {
			return false
		}
	}
	xsd := "http://www.w3.org/2001/XMLSchema#"
	switch dt {
	case xsd + "integer", xsd + "positiveInteger", xsd + "nonNegativeInteger", xsd + "negativeInteger", xsd + "nonPositiveInteger":
		if strings.ContainsAny(s, "xXbBoOpP_ nNiIaAfF") {
			return false
		}
		if i := strings.IndexAny(s, "eE"); i >= 0 && len(s)-i > 5 {
			return false // exponents near the 1e6 cap are exercised on the implementation only
		}
	case xsd + "dateTime":
		return false // the time grammar is C04's business; implementation side only
	case xsd + "double":
		if strings.ContainsAny(s, "xXpP_ ") {
			return false
		}
	}
	return true
}

// ------------------------------------------------- (v) HTTP answers of the resolvers
func hostileBodies(valid []byte) map[string][]byte {
	huge := append([]byte(`{"pad":"`), []byte(strings.Repeat("x", 3<<20))...)
	huge = append(huge, []byte(`"}`)...)
	return map[string][]byte{
		"valid": valid, "null": []byte(`null`), "empty-array": []byte(`[]`), "empty-string": []byte(`""`), "empty-object": []byte(`{}`),
		"no-body": {}, "number": []byte(`17`), "true": []byte(`true`), "not-json": []byte(`<html>502</html>`),
		"truncated": valid[:len(valid)/2], "trailing": append(append([]byte{}, valid...), []byte(` {"x":1}`)...),
		"huge": huge, "padded-17k": append(append([]byte{}, valid...), []byte(strings.Repeat(" ", 17*1024))...),
		"nested-null":   []byte(`{"didDocument":null,"issuer":null,"mtp":null}`),
		"wrong-types":   []byte(`{"didDocument":{"verificationMethod":{},"authentication":5},"issuer":[],"mtp":"x"}`),
		"wrong-types-2": []byte(`{"didDocument":{"verificationMethod":[5,null,{"published":"yes"}]},"issuer":{"state":5},"mtp":{"siblings":{}}}`),
		"deep":          []byte(strings.Repeat("[", 20000) + strings.Repeat("]", 20000)),
	}
}

type resolverInput struct {
	Stream string     `json:"stream"` // did-resolver | status-resolver
	Why    string     `json:"why"`
	Answer *rawAnswer `json:"answer"`
	Nonce  uint64     `json:"nonce,omitempty"`
}

func (d *drv) didResolveCase(ra *rawAnswer, why string) {
	did, _ := w3cParse("did:polygonid:polygon:mumbai:2qLGnFZiHrhdNh5KwdkGvbCN1sR2pUaBpBahAXC3zf?state=aa")
	o := guard(watchdog, func() error {
		_, err := httpDIDResolver(ra).Resolve(context.Background(), did)
		return err
	})
	in := resolverInput{Stream: "did-resolver", Why: why, Answer: ra}
	if len(ra.Body) > 4096 {
		in.Answer = &rawAnswer{Code: ra.Code, Body: []byte("regenerate:" + why)}
	}
	d.rep.Evaluations++
	d.rep.Count("did-resolver:" + o.Class)
	d.rep.Distinct("didres:" + why + fmt.Sprint(ra.Code))
	if o.Class == "panic" || o.Class == "hang" {
		if bytes.Equal(bytes.TrimSpace(ra.Body), []byte("null")) && o.Class == "panic" && !strings.Contains(o.Site, "merkletree") {
			d.rep.Fail("c12-did-resolver-null-answer", fmt.Sprintf("HTTPDIDResolver.Resolve: panic at %s: %s on the body `null`", o.Site, o.Msg), in)
		} else {
			d.fail("HTTPDIDResolver.Resolve", o, in)
		}
	}
	d.addCase(lit("IResolve "+didAnswerFacts(ra)), o.Class, in)
}

func (d *drv) statusResolveCase(ra *rawAnswer, nonce uint64, why string) {
	o := runStatusRaw(ra, nonce, "")
	in := resolverInput{Stream: "status-resolver", Why: why, Answer: ra, Nonce: nonce}
	if len(ra.Body) > 4096 {
		in.Answer = &rawAnswer{Code: ra.Code, Body: []byte("regenerate:" + why)}
	}
	d.rep.Evaluations++
	d.rep.Count("status-resolver:" + o.Class)
	d.rep.Distinct("stres:" + why + fmt.Sprint(ra.Code))
	if o.Class == "panic" || o.Class == "hang" {
		d.fail("ValidateCredentialStatus(IssuerResolver)", o, in)
	}
	d.addCase(lit("IStatus "+StatusFRaw(&Arte{StatusRaw: ra}, nonce)), o.Class, in)
}

func (d *drv) resolverStream() {
	b := d.bundles[1] // smt-published: the DID answer decides; bjj-published for the status answer
	bj := d.bundles[0]
	didBodies := hostileBodies(mustJSON(b.DIDDoc))
	stBodies := hostileBodies(mustJSON(bj.Status))
	names := make([]string, 0, len(didBodies))
	for n := range didBodies {
		names = append(names, n)
	}
	sortStrings(names)
	for _, n := range names {
		for _, code := range []int{200, 204, 301, 404, 500} {
			if code != 200 && n != "valid" && n != "null" && n != "no-body" {
				continue
			}
			ra := &rawAnswer{Code: code, Body: didBodies[n]}
			d.didResolveCase(ra, n)
			a := b.Arte()
			a.DIDRaw = ra
			d.verifyCase(a, verifyInput{Stream: "verify", Arte: a.copy()}, len(ra.Body) < 4096)
			rs := &rawAnswer{Code: code, Body: stBodies[n]}
			d.statusResolveCase(rs, bj.Nonce, n)
			a2 := bj.Arte()
			a2.StatusRaw = rs
			d.verifyCase(a2, verifyInput{Stream: "verify", Arte: a2.copy()}, len(rs.Body) < 4096)
		}
	}
	te := &rawAnswer{Transport: true}
	d.didResolveCase(te, "transport-error")
	d.statusResolveCase(te, bj.Nonce, "transport-error")
	// D12 through the resolvers' decoders
	for n, sibs := range siblingLists() {
		dd := cloneMap(b.DIDDoc)
		jset(dd, jpath{"didDocument", "verificationMethod", 0, "global", "proof", "siblings"}, clone(sibs))
		d.didResolveCase(&rawAnswer{Code: 200, Body: mustJSON(dd)}, "siblings="+n)
		st := cloneMap(bj.Status)
		jset(st, jpath{"mtp", "siblings"}, clone(sibs))
		d.statusResolveCase(&rawAnswer{Code: 200, Body: mustJSON(st)}, bj.Nonce, "siblings="+n)
	}
}

// ---------------------------------- (vi) resolver answers handed over as Go values
// A CredentialStatusResolver is pluggable: its answer need not have passed this
// library's JSON decoders.  Proofs built with merkletree.NewProofFromData that the
// library's RootFromProof cannot take (more levels than the bitmap, NodeAux without
// key / value) must still end in an error (88617d1).
type fixedResolver struct{ rs verifiable.RevocationStatus }

func (f fixedResolver) Resolve(context.Context, verifiable.CredentialStatus) (verifiable.RevocationStatus, error) {
	return f.rs, nil
}

func (d *drv) programmaticStatusStream() {
	b := d.bundles[0]
	var base verifiable.RevocationStatus
	if err := json.Unmarshal(mustJSON(b.Status), &base); err != nil {
		d.rep.Fail("c12-generator", "valid status answer does not decode: "+err.Error(), b.Status)
		return
	}
	zeros := func(n int) []*merkletree.Hash {
		l := make([]*merkletree.Hash, n)
		for i := range l {
			l[i] = &merkletree.HashZero
		}
		return l
	}
	one, _ := merkletree.NewHashFromBigInt(big.NewInt(1))
	type variant struct {
		why  string
		ex   bool
		sibs []*merkletree.Hash
		aux  *merkletree.NodeAux
	}
	vs := []variant{
		{"levels-241", false, zeros(241), nil}, {"levels-300", false, zeros(300), nil}, {"levels-300-existence", true, zeros(300), nil},
		{"levels-240", false, zeros(240), nil}, {"levels-0", false, nil, nil},
		{"aux-no-key", false, zeros(3), &merkletree.NodeAux{Value: one}}, {"aux-no-value", false, zeros(3), &merkletree.NodeAux{Key: one}},
		{"aux-empty", false, zeros(3), &merkletree.NodeAux{}}, {"aux-full", false, zeros(3), &merkletree.NodeAux{Key: one, Value: one}},
	}
	sf := stateOf(asMap(b.Status["issuer"]), "state")
	for _, v := range vs {
		p, err := merkletree.NewProofFromData(v.ex, v.sibs, v.aux)
		if err != nil {
			continue
		}
		rs := base
		rs.MTP = *p
		reg := &verifiable.CredentialStatusResolverRegistry{}
		reg.Register(statusType, fixedResolver{rs})
		o := guard(watchdog, func() error {
			_, err := verifiable.ValidateCredentialStatus(context.Background(),
				verifiable.CredentialStatus{ID: "urn:x", Type: statusType, RevocationNonce: b.Nonce},
				verifiable.WithValidationStatusResolverRegistry(reg))
			return err
		})
		in := map[string]any{"stream": "status-go-value", "why": v.why}
		d.rep.Evaluations++
		d.rep.Count("status-go-value:" + o.Class)
		d.rep.Distinct("stgo:" + v.why)
		if o.Class == "panic" || o.Class == "hang" {
			d.fail("ValidateCredentialStatus", o, in)
		}
		m := mtpOfProof(p, sf.hrtr, new(big.Int).SetUint64(b.Nonce), big.NewInt(0))
		m = strings.TrimSuffix(strings.TrimPrefix(m, "(Some "), ")")
		d.addCase(lit(fmt.Sprintf("IStatus (mkstatusf (RSObj true true) true true (RAns (mkstatusj true None) %s %s))", sf.coq(), m)), o.Class, in)
	}
}

// ------------------------------------------------ (vii) caller-supplied paths
// Path.MtEntry and everything built on it (Merklizer.Entry / Proof / JSONLDType,
// RDFEntry.KeyValueMtEntries) on paths with empty, blank, very long parts, negative
// and huge indices, too many parts; NewPathFromContext / NewPathFromDocument /
// ResolveDocPath with odd path strings.
func (d *drv) recordPathPrims(parts []any) {
	var elems []*big.Int
	ok := true
	for _, p := range parts {
		switch x := p.(type) {
		case string:
			z, err := d.prims.Bytes(x)
			if err != nil || z == nil {
				ok = false
			}
			elems = append(elems, z)
		case int:
			elems = append(elems, big.NewInt(int64(x)))
		default:
			ok = false
		}
	}
	if ok {
		_, _ = d.prims.Hash(elems)
	}
}

func (d *drv) pathStream() {
	doc := []byte(`{"@context":{"@vocab":"urn:v:","id":"@id","type":"@type"},"id":"urn:a","s":"x","p":{"q":["y","z"]},"n":5}`)
	var mz *merklize.Merklizer
	if o := guard(watchdog, func() error {
		var err error
		mz, err = merklize.MerklizeJSONLD(context.Background(), bytes.NewReader(doc), merklize.WithDocumentLoader(d.loader))
		return err
	}); o.Class != "ok" {
		d.rep.Fail("c12-generator", "path stream: document not merklized: "+o.Msg, string(doc))
		return
	}
	long := strings.Repeat("p", 70000)
	many := make([]any, 17)
	for i := range many {
		many[i] = fmt.Sprintf("urn:v:p%d", i)
	}
	lists := [][]any{
		{"urn:v:s"}, {"urn:v:p", "urn:v:q", 0}, {"urn:v:p", "urn:v:q", 1}, {"urn:v:p", "urn:v:q", 2}, {"urn:v:n"}, {"urn:v:missing"},
		{""}, {"urn:v:s", ""}, {"", "urn:v:s"}, {"", ""}, {" "}, {"\t"}, {"urn:v:p", " ", 0}, {"\x00"}, {"\xff\xfe"},
		{long}, {"urn:v:p", long}, {0}, {-1}, {"urn:v:p", -1}, {"urn:v:p", math.MaxInt64}, {"urn:v:p", math.MinInt64},
		many, many[:16], {}, {"urn:v:p", "urn:v:q", 0, ""},
	}
	for i := 0; i < d.cfg.Pick(60, 3000); i++ {
		n := 1 + d.cfg.Rng.Intn(4)
		var l []any
		for k := 0; k < n; k++ {
			switch d.cfg.Rng.Intn(6) {
			case 0:
				l = append(l, "")
			case 1:
				l = append(l, d.cfg.Rng.Intn(7)-2)
			case 2:
				l = append(l, strings.Repeat(" ", d.cfg.Rng.Intn(3)))
			default:
				l = append(l, []string{"urn:v:s", "urn:v:p", "urn:v:q", "urn:v:n", "x"}[d.cfg.Rng.Intn(5)])
			}
		}
		lists = append(lists, l)
	}
	for _, parts := range lists {
		parts := parts
		input := map[string]any{"stream": "path", "parts": parts}
		if len(fmt.Sprint(parts)) > 400 {
			input = map[string]any{"stream": "path", "parts": fmt.Sprintf("%d parts, %d bytes", len(parts), len(fmt.Sprint(parts)))}
		}
		var p merklize.Path
		mk := guard(watchdog, func() error {
			var err error
			p, err = merklize.NewPath(parts...)
			return err
		})
		d.rep.Evaluations++
		d.rep.Count("path:new:" + mk.Class)
		d.rep.Distinct("path:" + fmt.Sprint(parts))
		if mk.Class == "panic" || mk.Class == "hang" {
			d.fail("NewPath", mk, input)
			continue
		}
		if mk.Class != "ok" {
			continue
		}
		var z *big.Int
		o := guard(watchdog, func() error {
			var err error
			z, err = p.MtEntry()
			return err
		})
		if o.Class == "ok" && z == nil {
			o.Class = "nilnil"
		}
		d.rep.Count("path:mtentry:" + o.Class)
		if o.Class == "panic" || o.Class == "hang" || o.Class == "nilnil" {
			d.fail("Path.MtEntry", o, input)
		}
		// the same path through the merklizer's queries and through an entry
		for name, f := range map[string]func() error{
			"Merklizer.Entry":      func() error { _, err := mz.Entry(p); return err },
			"Merklizer.Proof":      func() error { _, _, err := mz.Proof(context.Background(), p); return err },
			"Merklizer.JSONLDType": func() error { _, err := mz.JSONLDType(p); return err },
			"Merklizer.RawValue":   func() error { _, err := mz.RawValue(p); return err },
			"RDFEntry.KeyValueMtEntries": func() error {
				e, err := merklize.NewRDFEntry(p, "v")
				if err != nil {
					return err
				}
				k, v, err := e.KeyValueMtEntries()
				if err == nil && (k == nil || v == nil) {
					return fmt.Errorf("(nil, nil)")
				}
				return err
			},
			"Options.NewPath": func() error {
				q, err := mz.Options().NewPath(parts...)
				if err != nil {
					return err
				}
				_, err = q.MtEntry()
				return err
			},
		} {
			qo := guard(watchdog, f)
			d.rep.Evaluations++
			d.rep.Count("path:" + name + ":" + qo.Class)
			if qo.Class == "panic" || qo.Class == "hang" {
				d.fail(name, qo, input)
			}
		}
		if len(fmt.Sprint(parts)) > 400 {
			continue
		}
		d.recordPathPrims(parts)
		d.addCase(func(f *coqgen.File) string { return "IPath " + partsCoq(f, parts) }, o.Class, input)
	}
	// every array of a document: indices len-1, len, len+1 (and below them), through
	// NewPathFromDocument and Merklizer.ResolveDocPath
	doc2 := []byte(`{"@context":{"id":"@id","type":"@type","items":{"@id":"urn:v:items"},"v":{"@id":"urn:v:v"},"w":{"@id":"urn:v:w"},"tags":{"@id":"urn:v:tags"},"one":{"@id":"urn:v:one"},"s":{"@id":"urn:v:s"}},"id":"urn:a","items":[{"id":"urn:i0","v":["a","b","c"]},{"id":"urn:i1","v":["d"],"w":[]}],"tags":["t1","t2"],"one":["only"],"s":"x"}`)
	var mz2 *merklize.Merklizer
	if o := guard(watchdog, func() error {
		var err error
		mz2, err = merklize.MerklizeJSONLD(context.Background(), bytes.NewReader(doc2), merklize.WithDocumentLoader(d.loader))
		return err
	}); o.Class != "ok" {
		d.rep.Fail("c12-generator", "path stream: document 2 not merklized: "+o.Msg, string(doc2))
	} else {
		var obj any
		_ = json.Unmarshal(doc2, &obj)
		for _, ps := range arrayIndexPaths(obj, "") {
			ps := ps
			input := map[string]any{"stream": "path-index", "path": ps}
			for name, f := range map[string]func() error{
				"NewPathFromDocument": func() error {
					p, err := merklize.Options{DocumentLoader: d.loader}.NewPathFromDocument(doc2, ps)
					if err != nil {
						return err
					}
					_, err = p.MtEntry()
					return err
				},
				"Merklizer.ResolveDocPath": func() error {
					p, err := mz2.ResolveDocPath(ps)
					if err != nil {
						return err
					}
					_, _, err = mz2.Proof(context.Background(), p)
					return err
				},
			} {
				qo := guard(watchdog, f)
				d.rep.Evaluations++
				d.rep.Count("path-index:" + name + ":" + qo.Class)
				d.rep.Distinct("path-index:" + name + ps)
				if qo.Class == "panic" || qo.Class == "hang" {
					d.fail(name, qo, input)
				}
			}
		}
	}
	d.slotPathStream()
	d.serAttrStream()
	d.degeneratePathStream()
	// path strings resolved against the document / a context
	ctxBytes := []byte(`{"@context":{"@vocab":"urn:v:","id":"@id","type":"@type","T":{"@id":"urn:v:T","@context":{"f":{"@id":"urn:v:f","@type":"http://www.w3.org/2001/XMLSchema#integer"}}}}}`)
	for _, ps := range []string{"", ".", "..", "s", "s.", ".s", "p.q", "p.q.0", "p.q.-1", "p.q.99999999999999999999", "p..q", " ", "s. ", "\x00", long, "p." + long, strings.Repeat("p.", 2000) + "q", "T.f", "T..f", "f"} {
		ps := ps
		input := map[string]any{"stream": "path-string", "path": ps}
		if len(ps) > 300 {
			input["path"] = fmt.Sprintf("%d bytes", len(ps))
		}
		for name, f := range map[string]func() error{
			"NewPathFromDocument": func() error {
				p, err := merklize.Options{DocumentLoader: d.loader}.NewPathFromDocument(doc, ps)
				if err != nil {
					return err
				}
				_, err = p.MtEntry()
				return err
			},
			"NewPathFromContext": func() error {
				p, err := merklize.Options{DocumentLoader: d.loader}.PathFromContext(ctxBytes, ps)
				if err != nil {
					return err
				}
				_, err = p.MtEntry()
				return err
			},
			"Merklizer.ResolveDocPath": func() error {
				p, err := mz.ResolveDocPath(ps)
				if err != nil {
					return err
				}
				_, _, err = mz.Proof(context.Background(), p)
				return err
			},
			"TypeFromContext": func() error {
				_, err := merklize.Options{DocumentLoader: d.loader}.TypeFromContext(ctxBytes, ps)
				return err
			},
		} {
			qo := guard(watchdog, f)
			d.rep.Evaluations++
			d.rep.Count("path-string:" + name + ":" + qo.Class)
			if qo.Class == "panic" || qo.Class == "hang" {
				d.fail(name, qo, input)
			}
		}
	}
}

// ------------------------------- (viii) removal of a root + recomputation of dependants
// Plain member removal leaves state.value as it was, so every removal of a tree root
// ends at "state is not consistent" and the checks behind it are never reached.  Here
// the state value is recomputed as Poseidon(roots, 0 for a missing one) after the
// removal (nothing else depends on it: the signature covers the claim only, the DID
// document says published = true), for the proof's issuerData.state and for the
// issuer state of the revocation status answer.
func recomputeState(obj map[string]any, valueKey string) {
	h := func(k string) *big.Int {
		_, hh := hexField(obj, k)
		return orZero(hh)
	}
	st, err := poseidon.Hash([]*big.Int{h("claimsTreeRoot"), h("revocationTreeRoot"), h("rootOfRoots")})
	if err != nil {
		return
	}
	if hh, err := merkletree.NewHashFromBigInt(st); err == nil {
		obj[valueKey] = hh.Hex()
	}
}

func (d *drv) recomputeStream() {
	roots := []string{"claimsTreeRoot", "revocationTreeRoot", "rootOfRoots"}
	type rjob struct {
		b      *Bundle
		mask   int
		status bool    // the mask applies to the status answer's issuer state
		extra  *member // one more member removed
	}
	var jobs []rjob
	for _, b := range d.bundles {
		ex := exhaustiveMembers(b, 12)
		for mask := 1; mask < 8; mask++ {
			jobs = append(jobs, rjob{b: b, mask: mask})
			for i := range ex {
				m := ex[i]
				if m.Doc == "cred" {
					last, _ := m.Path[len(m.Path)-1].(string)
					if last == "value" || last == "claimsTreeRoot" || last == "revocationTreeRoot" || last == "rootOfRoots" {
						continue
					}
				}
				jobs = append(jobs, rjob{b: b, mask: mask, extra: &m})
			}
			if b.Kind == "BJJSignature2021" {
				jobs = append(jobs, rjob{b: b, mask: mask, status: true})
			}
		}
	}
	parallel(len(jobs), func(i int) {
		j := jobs[i]
		a := j.b.Arte()
		var obj map[string]any
		key := "value"
		if j.status {
			obj, key = asMap(a.Status["issuer"]), "state"
		} else {
			p, _ := jget(a.Cred, jpath{"proof", 0, "issuerData", "state"})
			obj = asMap(p)
		}
		if obj == nil {
			return
		}
		for r, name := range roots {
			if j.mask&(1<<r) != 0 {
				delete(obj, name)
			}
		}
		recomputeState(obj, key)
		if j.extra != nil {
			a.remove(*j.extra)
		}
		d.mu.Lock()
		d.rep.Count("recompute:verify")
		d.rep.Distinct(fmt.Sprintf("recompute:%s:%d:%v:%v", j.b.Name, j.mask, j.status, j.extra))
		d.mu.Unlock()
		d.verifyCase(a, verifyInput{Stream: "verify", Arte: a.copy()}, true)
	})
	// the status answer on its own
	for _, b := range d.bundles[:2] {
		for mask := 1; mask < 8; mask++ {
			for _, alsoAux := range []bool{false, true} {
				st := cloneMap(b.Status)
				obj := asMap(st["issuer"])
				for r, name := range roots {
					if mask&(1<<r) != 0 {
						delete(obj, name)
					}
				}
				recomputeState(obj, "state")
				if alsoAux {
					jremove(st, jpath{"mtp", "node_aux"})
				}
				d.rep.Count("recompute:status")
				d.statusCase(st, b.Nonce, []string{fmt.Sprintf("roots-mask=%d recomputed", mask)})
			}
		}
	}
}

// arrayIndexPaths: for every array of the document (at every depth) the dotted paths
// with the indices len-1, len, len+1, also followed by a member name.
func arrayIndexPaths(v any, prefix string) []string {
	var out []string
	join := func(a, b string) string {
		if a == "" {
			return b
		}
		return a + "." + b
	}
	switch x := v.(type) {
	case map[string]any:
		keys := make([]string, 0, len(x))
		for k := range x {
			if k != "@context" {
				keys = append(keys, k)
			}
		}
		sortStrings(keys)
		for _, k := range keys {
			out = append(out, arrayIndexPaths(x[k], join(prefix, k))...)
		}
	case []any:
		n := len(x)
		for _, i := range []int{n - 1, n, n + 1, 0} {
			if i < 0 {
				continue
			}
			p := join(prefix, fmt.Sprint(i))
			out = append(out, p, p+".v", p+".v.0", p+".0")
		}
		for i, e := range x {
			out = append(out, arrayIndexPaths(e, join(prefix, fmt.Sprint(i)))...)
		}
	}
	return out
}

// slotPathStream: W3CCredential.ToCoreClaim on a credential whose schema context puts a
// field into a claim slot (iden3_serialization) with a path that indexes an array of the
// credential subject at len-1, len, len+1 (fillSlot -> ResolveDocPath).
func (d *drv) slotPathStream() {
	const base = "https://c12.invalid/ctx/slot-"
	subj := d.bundles[0].Cred["credentialSubject"].(map[string]any)["id"]
	for _, idx := range []string{"0", "1", "2", "3", "1.0", "2.x", ""} {
		url := base + idx + ".jsonld"
		ctxDoc := fmt.Sprintf(`{"@context":[{"@version":1.1,"@protected":true,"id":"@id","type":"@type","ArrCred":{"@id":"urn:c12:ArrCred","@context":{"@version":1.1,"@protected":true,"id":"@id","type":"@type","iden3_serialization":"iden3:v1:slotIndexA=items.%s","xsd":"http://www.w3.org/2001/XMLSchema#","items":{"@id":"urn:c12:items","@type":"xsd:integer"}}}}]}`, idx)
		if err := d.loader.Add(url, []byte(ctxDoc)); err != nil {
			d.rep.Fail("c12-generator", "slot context does not parse: "+err.Error(), ctxDoc)
			return
		}
		cred := map[string]any{
			"id": "urn:uuid:c12-slot", "@context": []any{"https://www.w3.org/2018/credentials/v1", "https://schema.iden3.io/core/jsonld/iden3proofs.jsonld", url},
			"type": []any{"VerifiableCredential", "ArrCred"}, "issuanceDate": "2023-12-21T16:35:46Z",
			"credentialSubject": map[string]any{"id": subj, "type": "ArrCred", "items": []any{11, 22}},
			"credentialStatus":  map[string]any{"id": "urn:x", "type": statusType, "revocationNonce": 1},
			"issuer":            d.bundles[0].Cred["issuer"],
			"credentialSchema":  map[string]any{"id": "https://c12.invalid/schema.json", "type": "JsonSchema2023"},
		}
		body := mustJSON(cred)
		var vc verifiable.W3CCredential
		if err := json.Unmarshal(body, &vc); err != nil {
			d.rep.Fail("c12-generator", "slot credential does not decode: "+err.Error(), string(body))
			return
		}
		o := guard(watchdog, func() error {
			_, err := vc.ToCoreClaim(context.Background(), &verifiable.CoreClaimOptions{RevNonce: 1,
				SubjectPosition: verifiable.CredentialSubjectPositionIndex,
				MerklizerOpts:   []merklize.MerklizeOption{merklize.WithDocumentLoader(d.loader)}})
			return err
		})
		d.rep.Evaluations++
		d.rep.Count("slot-path:items." + idx + ":" + o.Class)
		d.rep.Distinct("slot-path:" + idx)
		if o.Class == "panic" || o.Class == "hang" {
			d.fail("W3CCredential.ToCoreClaim(fillSlot)", o, map[string]any{"stream": "slot-path", "slot_path": "items." + idx, "credential": json.RawMessage(body)})
		}
	}
}

// ------------------------------------- (ix) member names: case variants, duplicates
// encoding/json matches member names to struct fields case-insensitively and lets the
// last occurrence win; a check that inspects a member under its exact name only is
// bypassed by "Siblings", "SIBLINGS", or a second member after a harmless first one.
type rawVariant struct {
	why  string
	body []byte
}

// nameVariants: raw texts of doc in which the merkle proof at pos (and the member
// holding it) is respelled / duplicated, with hostile sibling lists.
func nameVariants(doc map[string]any, pos jpath) []rawVariant {
	var out []rawVariant
	mtpV, ok := jget(doc, pos)
	mtp := asMap(mtpV)
	if !ok || mtp == nil {
		return nil
	}
	nz := make([]string, 241)
	for i := range nz {
		nz[i] = fmt.Sprintf(`"%d"`, i+1)
	}
	hostile := map[string]string{"null-sibling": `[null]`, "nonzero-241": "[" + strings.Join(nz, ",") + "]"}
	harmless := string(mustJSON(mtp["siblings"]))
	// (a) inside the proof object
	d1 := cloneMap(doc)
	m1v, _ := jget(d1, pos)
	asMap(m1v)["siblings"] = "@@S@@"
	b1 := mustJSON(d1)
	pat := []byte(`"siblings":"@@S@@"`)
	if bytes.Count(b1, pat) != 1 {
		return nil
	}
	sub := func(why, text string) {
		out = append(out, rawVariant{why, bytes.Replace(b1, pat, []byte(text), 1)})
	}
	for hn, h := range hostile {
		for _, name := range []string{"Siblings", "SIBLINGS", "sIbLiNgS"} {
			sub(hn+":"+name, fmt.Sprintf(`"%s":%s`, name, h))
			sub(hn+":siblings-then-"+name, fmt.Sprintf(`"siblings":%s,"%s":%s`, harmless, name, h))
			sub(hn+":"+name+"-then-siblings", fmt.Sprintf(`"%s":%s,"siblings":%s`, name, h, harmless))
		}
		sub(hn+":duplicate-hostile-last", fmt.Sprintf(`"siblings":%s,"siblings":%s`, harmless, h))
		sub(hn+":duplicate-hostile-first", fmt.Sprintf(`"siblings":%s,"siblings":%s`, h, harmless))
		sub(hn+":unknown-member", fmt.Sprintf(`"siblings":%s,"siblingz":%s,"x":{"siblings":%s}`, harmless, h, h))
	}
	sub("Existence", fmt.Sprintf(`"siblings":%s,"Existence":false,"EXISTENCE":true`, harmless))
	sub("existence-kind-dup", fmt.Sprintf(`"siblings":%s,"existence":"yes","Existence":true`, harmless))
	sub("Node_Aux", fmt.Sprintf(`"siblings":%s,"Node_Aux":{"Key":"1"},"NODE_AUX":{}`, harmless))
	sub("node_aux-dup", fmt.Sprintf(`"siblings":%s,"node_aux":{"key":"1","value":"2"},"node_aux":{"key":null}`, harmless))
	// (b) the member holding the proof
	parentKey, _ := pos[len(pos)-1].(string)
	if parentKey != "" {
		d2 := cloneMap(doc)
		jset(d2, pos, "@@M@@")
		b2 := mustJSON(d2)
		pat2 := []byte(fmt.Sprintf(`"%s":"@@M@@"`, parentKey))
		if bytes.Count(b2, pat2) == 1 {
			good := string(mustJSON(mtp))
			for hn, h := range hostile {
				bm := cloneMap(mtp)
				bm["siblings"] = "@@S@@"
				bad := strings.Replace(string(mustJSON(bm)), `"@@S@@"`, h, 1)
				up, title := strings.ToUpper(parentKey), strings.ToUpper(parentKey[:1])+parentKey[1:]
				for _, v := range []struct{ why, text string }{
					{up, fmt.Sprintf(`"%s":%s`, up, bad)}, {title, fmt.Sprintf(`"%s":%s`, title, bad)},
					{parentKey + "-then-" + up, fmt.Sprintf(`"%s":%s,"%s":%s`, parentKey, good, up, bad)},
					{up + "-then-" + parentKey, fmt.Sprintf(`"%s":%s,"%s":%s`, up, bad, parentKey, good)},
					{"duplicate-hostile-last", fmt.Sprintf(`"%s":%s,"%s":%s`, parentKey, good, parentKey, bad)},
					{"duplicate-hostile-first", fmt.Sprintf(`"%s":%s,"%s":%s`, parentKey, bad, parentKey, good)},
					{"null-then-hostile", fmt.Sprintf(`"%s":null,"%s":%s`, parentKey, title, bad)},
				} {
					out = append(out, rawVariant{hn + ":holder:" + v.why, bytes.Replace(b2, pat2, []byte(v.text), 1)})
				}
			}
		}
	}
	return out
}

func respell(b []byte, key string) [][]byte {
	var out [][]byte
	old := []byte(`"` + key + `":`)
	if bytes.Count(b, old) == 0 {
		return nil
	}
	for _, n := range []string{strings.ToUpper(key), strings.ToUpper(key[:1]) + key[1:]} {
		out = append(out, bytes.ReplaceAll(b, old, []byte(`"`+n+`":`)))
	}
	return out
}

type rawInput struct {
	Stream string `json:"stream"` // raw-decode
	Target string `json:"target"`
	Why    string `json:"why"`
	Body   []byte `json:"body"`
	Nonce  uint64 `json:"nonce,omitempty"`
}

// decodeRawCase: raw bytes into the named type, compared with the decoding skeleton
func (d *drv) decodeRawCase(target, why string, body []byte) {
	o := decodeInto(target, body)
	in := rawInput{Stream: "raw-decode", Target: target, Why: why, Body: body}
	d.mu.Lock()
	d.rep.Evaluations++
	d.rep.Count("raw-decode:" + target + ":" + o.Class)
	d.rep.Distinct("raw:" + target + string(body))
	d.mu.Unlock()
	if o.Class == "panic" || o.Class == "hang" {
		d.fail("json.Unmarshal("+target+")", o, in)
	}
	sch := map[string]*schema{"W3CCredential": credS, "CredentialProofs": proofsS, "DIDDocument": didS, "RevocationStatus": statusS,
		"GistInfoProof": gistS, "IssuerData": issuerS}[target]
	c, err := canonBytes(body, sch)
	if err != nil || sch == nil {
		return
	}
	var term string
	switch target {
	case "W3CCredential":
		term = "ICred " + credJ(asMap(c))
	case "CredentialProofs":
		term = "IProofs " + proofsJ(c)
	case "DIDDocument":
		term = "IDidDoc " + didDocJ(asMap(c))
	case "RevocationStatus":
		term = "IStatusJ " + statusJ(asMap(c))
	case "GistInfoProof":
		term = "IGist " + gistJ(asMap(c))
	default:
		return
	}
	d.addCase(lit(term), o.Class, in)
}

func (d *drv) memberNameStream() {
	type job struct {
		target string
		v      rawVariant
		arte   func(body []byte) *Arte // non-nil: also through VerifyProof
		nonce  uint64
	}
	var jobs []job
	for _, b := range d.bundles[:2] {
		b := b
		for _, pos := range []jpath{{"proof", 0, "mtp"}, {"proof", 0, "issuerData", "mtp"}} {
			for _, v := range nameVariants(b.Cred, pos) {
				jobs = append(jobs, job{target: "W3CCredential", v: v, arte: func(body []byte) *Arte { a := b.Arte(); a.CredRaw = body; return a }})
			}
		}
		// the holder of the holder: "issuerData" / "proof" respelled
		plain := mustJSON(b.Cred)
		for _, key := range []string{"issuerData", "state", "proof", "coreClaim", "type"} {
			for i, body := range respell(plain, key) {
				body := body
				jobs = append(jobs, job{target: "W3CCredential", v: rawVariant{fmt.Sprintf("respell:%s:%d", key, i), body}, arte: func([]byte) *Arte { a := b.Arte(); a.CredRaw = body; return a }})
			}
		}
		for _, v := range nameVariants(map[string]any{"proof": clone(b.Cred["proof"])}, jpath{"proof", 0, "mtp"}) {
			// the proofs alone: strip the wrapper
			body := bytes.TrimSuffix(bytes.TrimPrefix(v.body, []byte(`{"proof":`)), []byte(`}`))
			jobs = append(jobs, job{target: "CredentialProofs", v: rawVariant{v.why, body}})
		}
		for _, v := range nameVariants(b.Status, jpath{"mtp"}) {
			v := v
			jobs = append(jobs, job{target: "RevocationStatus", v: v, nonce: b.Nonce})
			if b.Kind == "BJJSignature2021" {
				jobs = append(jobs, job{target: "", v: v, arte: func(body []byte) *Arte { a := b.Arte(); a.StatusRaw = &rawAnswer{Code: 200, Body: body}; return a }})
			}
		}
		for _, v := range nameVariants(b.DIDDoc, jpath{"didDocument", "verificationMethod", 0, "global", "proof"}) {
			v := v
			jobs = append(jobs, job{target: "", v: v, arte: func(body []byte) *Arte { a := b.Arte(); a.DIDRaw = &rawAnswer{Code: 200, Body: body}; return a }})
		}
		for _, v := range nameVariants(asMap(b.DIDDoc["didDocument"]), jpath{"verificationMethod", 0, "global", "proof"}) {
			jobs = append(jobs, job{target: "DIDDocument", v: v})
		}
		for _, v := range nameVariants(map[string]any{"g": clone(b.Gist)}, jpath{"g"}) {
			if !strings.Contains(v.why, ":holder:") {
				body := bytes.TrimSuffix(bytes.TrimPrefix(v.body, []byte(`{"g":`)), []byte(`}`))
				jobs = append(jobs, job{target: "GistInfoProof", v: rawVariant{v.why, body}})
			}
		}
		if id := asMap(asMap(b.Cred["proof"].([]any)[0])["issuerData"]); id != nil && id["mtp"] != nil {
			for _, v := range nameVariants(id, jpath{"mtp"}) {
				jobs = append(jobs, job{target: "IssuerData", v: v})
			}
		}
	}
	parallel(len(jobs), func(i int) {
		j := jobs[i]
		d.mu.Lock()
		d.rep.Count("member-names:" + strings.SplitN(j.v.why, ":", 2)[0])
		d.mu.Unlock()
		if j.target != "" {
			d.decodeRawCase(j.target, j.v.why, j.v.body)
		}
		if j.target == "RevocationStatus" {
			o := runStatusRaw(&rawAnswer{Code: 200, Body: j.v.body}, j.nonce, "")
			in := resolverInput{Stream: "status-resolver", Why: "member-names:" + j.v.why, Answer: &rawAnswer{Code: 200, Body: j.v.body}, Nonce: j.nonce}
			d.mu.Lock()
			d.rep.Evaluations++
			d.mu.Unlock()
			if o.Class == "panic" || o.Class == "hang" {
				d.fail("ValidateCredentialStatus(IssuerResolver)", o, in)
			}
			d.addCase(lit("IStatus "+StatusFRaw(&Arte{StatusRaw: in.Answer}, j.nonce)), o.Class, in)
		}
		if j.arte != nil {
			a := j.arte(j.v.body)
			d.verifyCase(a, verifyInput{Stream: "verify", Arte: a.copy()}, true)
		}
	})
}

// ------------------------------------ (x) hostile iden3_serialization attributes
// The attribute comes from the schema context (served by the context URL): untrusted.
func hostileSerAttrs() []string {
	long := strings.Repeat("slotIndexA=a&", 3) + "slotValueB=" + strings.Repeat("v", 100000)
	return []string{
		"iden3:v1:slotIndexA=items.0", "iden3:v1:slotIndexA=items.0&slotValueB=items.1",
		"iden3:v1:slotIndexA=price&slotValueB", "iden3:v1:slotIndexA", "iden3:v1:slotValueA&slotValueB&slotIndexA&slotIndexB",
		"iden3:v1:slotIndexA=", "iden3:v1:=items.0", "iden3:v1:=", "iden3:v1:&", "iden3:v1:&&&", "iden3:v1:&&&&",
		"iden3:v1:slotIndexA=a&&slotIndexB=b", "iden3:v1:a=b&&c=d", "iden3:v1:slotIndexA=a=b", "iden3:v1:slotIndexA==",
		"iden3:v1:slotIndexA=a&slotIndexB=b&slotValueA=c&slotValueB=d&slotIndexA=e", "iden3:v1:slotIndexA=a&slotIndexA=b",
		"iden3:v1:slotIndexC=a", "iden3:v1:SLOTINDEXA=a", "iden3:v1: slotIndexA=a", "slotIndexA=items.0", "iden3:v2:slotIndexA=items.0",
		"iden3:v1:", "iden3:v1", "iden3:", "", " ", "=", "&", "iden3:v1:slotIndexA=items.0&", "iden3:v1:&slotIndexA=items.0",
		long, "iden3:v1:slotIndexA=\u00e9l\u00e8ve&slotValueB=\u4e2d\u6587", "iden3:v1:slotIndexA=\x00", "iden3:v1:slotIndexA=\xff\xfe",
		"iden3:v1:slotIndexA=items.0\n&slotIndexB=items.1", "iden3:v1:slotIndexA=items..0", "iden3:v1:slotIndexA=.", "iden3:v1:slotIndexA=items.99999999999",
	}
}

func (d *drv) serAttrStream() {
	subj := d.bundles[0].Cred["credentialSubject"].(map[string]any)["id"]
	claim, _ := claimFromHex(str(asMap(d.bundles[0].Cred["proof"].([]any)[0]), "coreClaim"))
	for i, attr := range hostileSerAttrs() {
		attr := attr
		shown := attr
		if len(shown) > 200 {
			shown = fmt.Sprintf("%s...(%d bytes)", shown[:80], len(attr))
		}
		input := map[string]any{"stream": "ser-attr", "index": i, "attr": shown}
		run := func(name string, f func() error) {
			o := guard(watchdog, f)
			d.rep.Evaluations++
			d.rep.Count("ser-attr:" + name + ":" + o.Class)
			d.rep.Distinct("ser-attr:" + name + attr)
			if o.Class == "panic" || o.Class == "hang" {
				d.fail(name, o, input)
			}
		}
		run("ParseSerializationAttr", func() error { _, err := verifiable.ParseSerializationAttr(attr); return err })
		if len(attr) <= 300 {
			po := guard(watchdog, func() error { _, err := verifiable.ParseSerializationAttr(attr); return err })
			d.addCase(func(f *coqgen.File) string { return "ISerAttr " + f.Str(attr) }, po.Class, input)
		}
		inner := map[string]any{"@version": 1.1, "@protected": true, "id": "@id", "type": "@type", "iden3_serialization": attr,
			"xsd": "http://www.w3.org/2001/XMLSchema#", "items": map[string]any{"@id": "urn:c12:items", "@type": "xsd:integer"},
			"price": map[string]any{"@id": "urn:c12:price", "@type": "xsd:integer"}}
		ctxDoc := mustJSON(map[string]any{"@context": []any{map[string]any{"@version": 1.1, "@protected": true, "id": "@id", "type": "@type",
			"ArrCred": map[string]any{"@id": "urn:c12:ArrCred", "@context": inner}}}})
		for _, field := range []string{"items.0", "price", ""} {
			field := field
			run("json.Parser.GetFieldSlotIndex", func() error { _, err := jsonproc.Parser{}.GetFieldSlotIndex(field, "ArrCred", ctxDoc); return err })
		}
		url := fmt.Sprintf("https://c12.invalid/ctx/serattr-%d.jsonld", i)
		if err := d.loader.Add(url, ctxDoc); err != nil {
			continue
		}
		cred := map[string]any{
			"id": "urn:uuid:c12-serattr", "@context": []any{"https://www.w3.org/2018/credentials/v1", "https://schema.iden3.io/core/jsonld/iden3proofs.jsonld", url},
			"type": []any{"VerifiableCredential", "ArrCred"}, "issuanceDate": "2023-12-21T16:35:46Z",
			"credentialSubject": map[string]any{"id": subj, "type": "ArrCred", "items": []any{11, 22}, "price": 7},
			"credentialStatus":  map[string]any{"id": "urn:x", "type": statusType, "revocationNonce": 1},
			"issuer":            d.bundles[0].Cred["issuer"],
			"credentialSchema":  map[string]any{"id": "https://c12.invalid/schema.json", "type": "JsonSchema2023"},
		}
		var vc verifiable.W3CCredential
		if err := json.Unmarshal(mustJSON(cred), &vc); err != nil {
			d.rep.Fail("c12-generator", "ser-attr credential does not decode: "+err.Error(), input)
			return
		}
		mzOpts := []merklize.MerklizeOption{merklize.WithDocumentLoader(d.loader)}
		run("W3CCredential.ToCoreClaim", func() error {
			_, err := vc.ToCoreClaim(context.Background(), &verifiable.CoreClaimOptions{RevNonce: 1,
				SubjectPosition: verifiable.CredentialSubjectPositionIndex, MerklizerOpts: mzOpts})
			return err
		})
		run("json.Parser.ParseClaim", func() error {
			_, err := jsonproc.Parser{}.ParseClaim(context.Background(), vc, &processor.CoreClaimOptions{RevNonce: 1,
				SubjectPosition: verifiable.CredentialSubjectPositionIndex, MerklizerOpts: mzOpts})
			return err
		})
		if claim != nil {
			run("VerifyProof(binding)", func() error { return vc.VerifVerifyCoreClaim(context.Background(), claim, mzOpts) })
		}
	}
}

// ------------------------------- (xi) paths that continue below degenerate values
// For every value shape: paths that go on (with a name, with an index) below an empty
// array, an empty object, null, a scalar, arrays of scalars / of empty arrays / of
// objects, nested empty arrays; empty segment names, leading / trailing dots.
var shapeTerms = []string{"emptyArr", "emptyObj", "nul", "scalar", "num", "scalars", "emptyArrs", "nested", "objs", "objEmptyArr", "label", "x"}

func shapeContext() map[string]any {
	c := map[string]any{"id": "@id", "type": "@type"}
	for _, t := range shapeTerms {
		c[t] = map[string]any{"@id": "urn:v:" + t}
	}
	return c
}

// shapeBody: mzSafe replaces the property-less blank nodes (which the merklizer rejects:
// "BlankNode is not supported yet") by identified nodes, so that the queries behind
// merklization (ResolveDocPath on the merklizer, fillSlot) are reached
func shapeBody(mzSafe bool) map[string]any {
	b := shapeBodyRaw()
	if mzSafe {
		b["emptyObj"] = map[string]any{"id": "urn:e"}
		b["objEmptyArr"] = map[string]any{"id": "urn:o", "x": []any{}, "label": []any{map[string]any{"id": "urn:o2", "x": []any{}}}}
		b["objs"] = []any{map[string]any{"id": "urn:o3", "label": "l0"}, map[string]any{"id": "urn:o4"}}
	}
	return b
}

func shapeBodyRaw() map[string]any {
	return map[string]any{
		"emptyArr": []any{}, "emptyObj": map[string]any{}, "nul": nil, "scalar": "s", "num": 5, "scalars": []any{"a", "b"},
		"emptyArrs": []any{[]any{}, []any{}}, "nested": []any{[]any{[]any{}}}, "objs": []any{map[string]any{"label": "l0"}, map[string]any{}},
		"objEmptyArr": map[string]any{"x": []any{}, "label": []any{map[string]any{"x": []any{}}}},
	}
}

func shapePaths() []string {
	var out []string
	tails := []string{"", ".label", ".0", ".1", ".label.x", ".label.0", ".0.label", ".0.0", ".0.0.0", ".0.0.label", ".x", ".x.label", ".x.0", ".label.0.x.label", ".label.0.x.0",
		".", "..label", ".label.", "..0", ".0.", ". ", ".-1", ".+0", ".00", ".0x0", ".4294967296", ".2147483648", ".99999999999999999999"}
	for _, k := range shapeTerms[:10] {
		for _, t := range tails {
			out = append(out, k+t, "."+k+t)
		}
	}
	return append(out, "", ".", "..", "...", "a..b", ".label", "label.", "0", "0.0", "-1")
}

func (d *drv) degeneratePathStream() {
	body := shapeBody(false)
	body["@context"] = shapeContext()
	body["id"] = "urn:a"
	doc := mustJSON(body)
	sbody := shapeBody(true)
	sbody["@context"] = shapeContext()
	sbody["id"] = "urn:a"
	sdoc := mustJSON(sbody)
	var mz *merklize.Merklizer
	mo := guard(watchdog, func() error {
		var err error
		mz, err = merklize.MerklizeJSONLD(context.Background(), bytes.NewReader(sdoc), merklize.WithDocumentLoader(d.loader))
		return err
	})
	d.rep.Count("degenerate-doc:merklize:" + mo.Class)
	if mo.Class != "ok" {
		if mo.Class == "panic" || mo.Class == "hang" {
			d.fail("MerklizeJSONLD", mo, map[string]any{"stream": "degenerate-path", "doc": string(sdoc)})
		} else {
			d.rep.Fail("c12-generator", "degenerate-shape document not merklized: "+mo.Msg, string(sdoc))
		}
	}
	var docAny any
	_ = json.Unmarshal(doc, &docAny)
	docDef := &sharedDef{name: "shape_doc", render: func(f *coqgen.File) string {
		var ts []string
		for _, t := range append(append([]string{}, shapeTerms...), "id", "type") {
			ts = append(ts, f.Str(t))
		}
		// two definitions in one: the defined terms first
		return jvCoq(f, docAny) + ".\nDefinition shape_defined := [" + strings.Join(ts, ";") + "]"
	}}
	for _, ps := range shapePaths() {
		ps := ps
		input := map[string]any{"stream": "degenerate-path", "path": ps, "doc": string(doc)}
		// the skeleton path_from_doc on the same document and segments
		{
			po := guard(watchdog, func() error { _, err := merklize.NewPathFromDocument(doc, ps); return err })
			segs := strings.Split(ps, ".")
			d.addCaseDef(docDef, func(f *coqgen.File) string {
				var l []string
				for _, sg := range segs {
					if digitsRE.MatchString(sg) {
						z, _ := new(big.Int).SetString(sg, 10)
						l = append(l, "RSNum "+coqgen.SNum(z))
					} else {
						l = append(l, "RSName "+f.Str(sg))
					}
				}
				return fmt.Sprintf("IDocPath shape_defined shape_doc [%s]", strings.Join(l, ";"))
			}, po.Class, input)
		}
		for name, f := range map[string]func() error{
			"NewPathFromDocument": func() error { _, err := merklize.NewPathFromDocument(doc, ps); return err },
			"Options.NewPathFromDocument": func() error {
				p, err := merklize.Options{DocumentLoader: d.loader}.NewPathFromDocument(doc, ps)
				if err != nil {
					return err
				}
				_, err = p.MtEntry()
				return err
			},
			"Merklizer.ResolveDocPath": func() error {
				if mz == nil {
					return fmt.Errorf("no merklizer")
				}
				p, err := mz.ResolveDocPath(ps)
				if err != nil {
					return err
				}
				_, _, err = mz.Proof(context.Background(), p)
				return err
			},
		} {
			qo := guard(watchdog, f)
			d.rep.Evaluations++
			d.rep.Count("degenerate-path:" + name + ":" + qo.Class)
			d.rep.Distinct("degenerate-path:" + name + ps)
			if qo.Class == "panic" || qo.Class == "hang" {
				d.fail(name, qo, input)
			}
		}
	}
	// the same below credentialSubject, through an iden3_serialization slot path (fillSlot)
	subj := d.bundles[0].Cred["credentialSubject"].(map[string]any)["id"]
	claim, _ := claimFromHex(str(asMap(d.bundles[0].Cred["proof"].([]any)[0]), "coreClaim"))
	var slotPaths []string
	for _, ps := range shapePaths() {
		if ps != "" && !strings.ContainsAny(ps, "&= ") && len(slotPaths) < d.cfg.Pick(140, 10000) && (d.cfg.Thorough() || strings.Count(ps, ".") <= 2) {
			slotPaths = append(slotPaths, ps)
		}
	}
	parallel(len(slotPaths), func(i int) {
		ps := slotPaths[i]
		// the terms are defined in the outer context as well: a type-scoped context does not
		// propagate to the nested nodes
		inner := shapeContext()
		inner["@version"], inner["iden3_serialization"] = 1.1, "iden3:v1:slotIndexA="+ps
		outer := shapeContext()
		outer["@version"] = 1.1
		outer["ShapeCred"] = map[string]any{"@id": "urn:c12:ShapeCred", "@context": inner}
		ctxDoc := mustJSON(map[string]any{"@context": []any{outer}})
		url := fmt.Sprintf("https://c12.invalid/ctx/shape-%d.jsonld", i)
		if err := d.loader.Add(url, ctxDoc); err != nil {
			return
		}
		cs := shapeBody(true)
		cs["id"], cs["type"] = subj, "ShapeCred"
		cred := map[string]any{
			"id": "urn:uuid:c12-shape", "@context": []any{"https://www.w3.org/2018/credentials/v1", "https://schema.iden3.io/core/jsonld/iden3proofs.jsonld", url},
			"type": []any{"VerifiableCredential", "ShapeCred"}, "issuanceDate": "2023-12-21T16:35:46Z", "credentialSubject": cs,
			"credentialStatus": map[string]any{"id": "urn:x", "type": statusType, "revocationNonce": 1}, "issuer": d.bundles[0].Cred["issuer"],
			"credentialSchema": map[string]any{"id": "https://c12.invalid/schema.json", "type": "JsonSchema2023"},
		}
		var vc verifiable.W3CCredential
		if err := json.Unmarshal(mustJSON(cred), &vc); err != nil {
			return
		}
		input := map[string]any{"stream": "degenerate-slot-path", "slot_path": ps, "credential": json.RawMessage(mustJSON(cred))}
		mzOpts := []merklize.MerklizeOption{merklize.WithDocumentLoader(d.loader)}
		for name, f := range map[string]func() error{
			"W3CCredential.ToCoreClaim(fillSlot)": func() error {
				_, err := vc.ToCoreClaim(context.Background(), &verifiable.CoreClaimOptions{RevNonce: 1, SubjectPosition: verifiable.CredentialSubjectPositionIndex, MerklizerOpts: mzOpts})
				return err
			},
			"VerifyProof(binding,fillSlot)": func() error {
				if claim == nil {
					return nil
				}
				return vc.VerifVerifyCoreClaim(context.Background(), claim, mzOpts)
			},
		} {
			qo := guard(watchdog, f)
			d.mu.Lock()
			d.rep.Evaluations++
			d.rep.Count("degenerate-slot-path:" + name + ":" + qo.Class)
			d.rep.Distinct("degenerate-slot:" + name + ps)
			d.mu.Unlock()
			if qo.Class == "panic" || qo.Class == "hang" {
				d.fail(name, qo, input)
			}
		}
	})
}

// ------------------------------------ (xii) free-form credential members of every kind
// CredentialSubject / CredentialStatus are free-form JSON: ToCoreClaim, the VerifyProof
// binding and ParseClaim read members out of them (id, type, revocationNonce ...).
// Every JSON kind at each such member, under the standard contexts (where `id` is @id
// and the JSON-LD processor rejects most of them first) and under a context in which
// `id` is an ordinary term (safe mode on and off), with every position option.
const plainIDContextURL = "https://c12.invalid/ctx/plain-id.jsonld"

const plainIDContext = `{"@context":{"@version":1.1,"type":"@type","id":"urn:c12:vocab#id",
 "VerifiableCredential":"https://www.w3.org/2018/credentials#VerifiableCredential",
 "PlainCred":{"@id":"urn:c12:vocab#PlainCred","@context":{"@version":1.1,"name":"urn:c12:vocab#name","a":"urn:c12:vocab#a"}},
 "credentialSubject":{"@id":"https://www.w3.org/2018/credentials#credentialSubject","@type":"@id"},
 "issuer":{"@id":"https://www.w3.org/2018/credentials#issuer","@type":"@id"},
 "issuanceDate":{"@id":"https://www.w3.org/2018/credentials#issuanceDate","@type":"http://www.w3.org/2001/XMLSchema#dateTime"},
 "credentialStatus":{"@id":"https://www.w3.org/2018/credentials#credentialStatus","@type":"@id","@context":{"@version":1.1,"revocationNonce":"urn:c12:vocab#revocationNonce","SparseMerkleTreeProof":"urn:c12:vocab#SparseMerkleTreeProof"}},
 "credentialSchema":{"@id":"https://www.w3.org/2018/credentials#credentialSchema","@type":"@id","@context":{"@version":1.1,"id":"@id","type":"@type","JsonSchema2023":"https://www.w3.org/ns/credentials#JsonSchema2023"}}}}`

func (d *drv) hostileCredentialStream() {
	_ = d.loader.Add(plainIDContextURL, []byte(plainIDContext))
	subj := d.bundles[0].Cred["credentialSubject"].(map[string]any)["id"]
	issuer := d.bundles[0].Cred["issuer"]
	claim, _ := claimFromHex(str(asMap(d.bundles[0].Cred["proof"].([]any)[0]), "coreClaim"))
	bases := map[string]func() map[string]any{
		"standard": func() map[string]any {
			c := cloneMap(d.bundles[0].Cred)
			delete(c, "proof")
			return c
		},
		"plain-id": func() map[string]any {
			return map[string]any{
				"@context": []any{plainIDContextURL}, "type": []any{"VerifiableCredential", "PlainCred"}, "issuer": issuer,
				"issuanceDate":      "2023-12-21T16:35:46Z",
				"credentialSchema":  map[string]any{"id": "https://c12.invalid/schema.json", "type": "JsonSchema2023"},
				"credentialStatus":  map[string]any{"id": "urn:c12:status", "type": "SparseMerkleTreeProof", "revocationNonce": 7},
				"credentialSubject": map[string]any{"id": subj, "type": "PlainCred", "name": "n"},
			}
		},
	}
	members := []jpath{{"credentialSubject", "id"}, {"credentialSubject", "type"}, {"credentialSubject"}, {"id"}, {"issuer"}, {"type"},
		{"credentialStatus", "revocationNonce"}, {"credentialStatus", "id"}, {"credentialStatus", "type"}, {"credentialStatus"},
		{"credentialSchema", "id"}, {"credentialSchema", "type"}, {"expirationDate"}, {"issuanceDate"}}
	absent := struct{}{}
	values := []any{123, -1, 1.5, true, false, nil, "", "x", "did:example:1", subj, map[string]any{"a": 1}, map[string]any{}, []any{1}, []any{}, []any{"did:x", 2},
		json.Number("1e400"), json.Number("18446744073709551616"), absent}
	type combo struct {
		subjPos, mrPos string
		safe           bool
	}
	combos := []combo{{"index", "", true}, {"value", "value", true}, {"", "index", false}, {"bogus", "", true}, {"index", "bogus", false}, {"value", "index", false}}
	type hjob struct {
		base string
		m    jpath
		v    any
	}
	var jobs []hjob
	for b := range bases {
		for _, m := range members {
			for _, v := range values {
				jobs = append(jobs, hjob{b, m, v})
			}
		}
	}
	parallel(len(jobs), func(i int) {
		j := jobs[i]
		cred := bases[j.base]()
		if _, isAbsent := j.v.(struct{}); isAbsent {
			jremove(cred, j.m)
		} else {
			if len(j.m) == 1 {
				cred[j.m[0].(string)] = clone(j.v)
			} else {
				jset(cred, j.m, clone(j.v))
			}
		}
		body := mustJSON2(cred)
		var vc verifiable.W3CCredential
		do := guard(watchdog, func() error { return json.Unmarshal(body, &vc) })
		input := map[string]any{"stream": "hostile-credential", "context": j.base, "member": j.m.String(), "credential": json.RawMessage(body)}
		d.mu.Lock()
		d.rep.Evaluations++
		d.rep.Count("hostile-credential:decode:" + do.Class)
		d.rep.Distinct("hostile-credential:" + string(body))
		d.mu.Unlock()
		if do.Class == "panic" || do.Class == "hang" {
			d.fail("json.Unmarshal(W3CCredential)", do, input)
		}
		if do.Class != "ok" {
			return
		}
		for _, c := range combos {
			c := c
			mzOpts := []merklize.MerklizeOption{merklize.WithDocumentLoader(d.loader), merklize.WithSafeMode(c.safe)}
			for name, f := range map[string]func() error{
				"W3CCredential.ToCoreClaim": func() error {
					cl, err := vc.ToCoreClaim(context.Background(), &verifiable.CoreClaimOptions{RevNonce: 7, SubjectPosition: c.subjPos,
						MerklizedRootPosition: c.mrPos, MerklizerOpts: mzOpts})
					if err == nil && cl == nil {
						return fmt.Errorf("(nil, nil)")
					}
					return err
				},
				"json.Parser.ParseClaim": func() error {
					_, err := jsonproc.Parser{}.ParseClaim(context.Background(), vc, &processor.CoreClaimOptions{RevNonce: 7, SubjectPosition: c.subjPos,
						MerklizedRootPosition: c.mrPos, MerklizerOpts: mzOpts})
					return err
				},
				"VerifyProof(binding)": func() error {
					if claim == nil || c.subjPos != "index" {
						return nil
					}
					return vc.VerifVerifyCoreClaim(context.Background(), claim, mzOpts)
				},
			} {
				qo := guard(watchdog, f)
				d.mu.Lock()
				d.rep.Evaluations++
				d.rep.Count("hostile-credential:" + name + ":" + qo.Class)
				d.mu.Unlock()
				if qo.Class == "panic" || qo.Class == "hang" {
					in2 := map[string]any{"stream": "hostile-credential", "context": j.base, "member": j.m.String(), "credential": json.RawMessage(body),
						"subject_position": c.subjPos, "merklized_root_position": c.mrPos, "safe_mode": c.safe}
					d.fail(name, qo, in2)
				}
			}
		}
	})
}

var digitsRE = regexp.MustCompile(`^\d+$`)

// jvCoq renders a JSON value as the `jv` of coq/Total/Model.v
func jvCoq(f *coqgen.File, v any) string {
	switch x := v.(type) {
	case nil:
		return "JVNull"
	case map[string]any:
		keys := make([]string, 0, len(x))
		for k := range x {
			keys = append(keys, k)
		}
		sortStrings(keys)
		var l []string
		for _, k := range keys {
			l = append(l, fmt.Sprintf("(%s, %s)", f.Str(k), jvCoq(f, x[k])))
		}
		return "(JVObj [" + strings.Join(l, ";") + "])"
	case []any:
		var l []string
		for _, e := range x {
			l = append(l, jvCoq(f, e))
		}
		return "(JVArr [" + strings.Join(l, ";") + "])"
	default:
		return "JVScalar"
	}
}
