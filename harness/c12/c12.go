// Package c12: total on untrusted input - an error, never a panic or a hang
// (property C12).  Streams:
//
//	(i)   EXHAUSTIVE removal of optional members of valid artefacts (credential with
//	      BJJ proof / SMT proof incl. the resolver answers it is verified against,
//	      revocation status answer, DID document, gist proof): all 2^k subsets of a
//	      list of k <= 12 members, all singletons and pairs of ALL members; the same
//	      subsets are evaluated in the Coq skeletons (coq/Total/Model.v);
//	(ii)  crafted gob streams into MerklizerFromBytes / RDFEntry.UnmarshalBinary
//	      (child process, RLIMIT_AS, allocation accounting);
//	(iii) documents with reference cycles, shared nodes, empty strings, deep nesting,
//	      huge numbers into MerklizeJSONLD (child process);
//	(iv)  structure-aware mutation of valid JSON artefacts into the decoders,
//	      VerifyProof and ValidateCredentialStatus; (datatype, value) pairs of every
//	      Go kind into HashValue.
package c12

import (
	"encoding/json"
	"fmt"
	"math/big"
	"math/rand"
	"path/filepath"
	"runtime"
	"runtime/debug"
	"strings"
	"sync"
	"time"

	"vharness/common"
	"vharness/coqgen"
	"vharness/ctxload"
	"vharness/floats"
)

func init() { common.Register("C12", Run) }

type tcase struct {
	render func(f *coqgen.File) string // the `tinput` term
	obs    int
	input  any
	needB  []string // primitive hash calls recorded for this case
	needH  []string
	fl     []func(*floats.Rec) // float primitives recorded for this case
	def    *sharedDef          // a definition shared by many cases of a shard (e.g. the document)
}

type sharedDef struct {
	name   string
	render func(f *coqgen.File) string
}

type drv struct {
	cfg     *common.Config
	rep     *common.Report
	loader  *ctxload.Loader
	fr      *floats.Rec // float primitives of the RDF cases
	flJ     []func(*floats.Rec)
	prims   *primRec
	mu      sync.Mutex
	cases   []*tcase
	bundles []*Bundle
	bindMu  sync.Mutex
	bind    map[string]bool
}

func (d *drv) addCase(term func(f *coqgen.File) string, class string, input any) {
	b, h := d.prims.take()
	d.mu.Lock()
	defer d.mu.Unlock()
	d.cases = append(d.cases, &tcase{render: term, obs: obsCode(class), input: input, needB: b, needH: h, fl: d.flJ})
	d.flJ = nil
}

// float primitives are journalled per case (sequential streams only)
func (d *drv) flStr(s string)  { d.flJ = append(d.flJ, func(fr *floats.Rec) { fr.AddStr(s) }) }
func (d *drv) flBits(b uint64) { d.flJ = append(d.flJ, func(fr *floats.Rec) { fr.AddBits(b) }) }
func (d *drv) flInt(z *big.Int, unsigned bool) {
	d.flJ = append(d.flJ, func(fr *floats.Rec) { fr.AddInt(z, unsigned) })
}

// addCaseDef: a case whose term refers to a definition shared within the shard
func (d *drv) addCaseDef(def *sharedDef, term func(f *coqgen.File) string, class string, input any) {
	d.addCase(term, class, input)
	d.mu.Lock()
	d.cases[len(d.cases)-1].def = def
	d.mu.Unlock()
}

func lit(s string) func(*coqgen.File) string { return func(*coqgen.File) string { return s } }

// fail reports an implementation-side violation; known dependency defects get
// their registered classifier.
func (d *drv) fail(entry string, o Outcome, input any) {
	d.mu.Lock()
	defer d.mu.Unlock()
	cls := fmt.Sprintf("c12-%s-%s", slug(entry), o.Class)
	switch o.Class {
	case "panic":
		switch {
		case strings.Contains(o.Site, "Hash.Equals") || strings.Contains(o.Site, "NewProofFromData") && strings.Contains(o.Msg, "nil pointer"):
			cls = "c12-mtp-decode-null-sibling"
		case strings.Contains(o.Site, "SetBitBigEndian") || strings.Contains(o.Site, "NewProofFromData") && strings.Contains(o.Msg, "index out of range"):
			cls = "c12-mtp-decode-over-240-siblings"
		case entry == "Authentication.UnmarshalJSON" && strings.Contains(o.Msg, "index out of range [0] with length 0"):
			cls = "c12-authentication-unmarshal-empty-input"
		default:
			cls = fmt.Sprintf("c12-%s-panic-%s", slug(entry), slug(o.Site))
		}
	}
	d.rep.Fail(cls, fmt.Sprintf("%s: %s at %s: %s", entry, o.Class, o.Site, o.Msg), input)
}

// parallel runs jobs on all cores.
func parallel(n int, job func(i int)) {
	w := runtime.NumCPU()
	if w > 16 {
		w = 16
	}
	var wg sync.WaitGroup
	ch := make(chan int, 64)
	for k := 0; k < w; k++ {
		wg.Add(1)
		go func() {
			defer wg.Done()
			for i := range ch {
				job(i)
			}
		}()
	}
	for i := 0; i < n; i++ {
		ch <- i
	}
	close(ch)
	wg.Wait()
}

const shardSize = 400

func (d *drv) writeShards() error {
	n := len(d.cases)
	for s := 0; s*shardSize < n; s++ {
		lo, hi := s*shardSize, (s+1)*shardSize
		if hi > n {
			hi = n
		}
		f := coqgen.NewFile("From GSP Require Import Value.Time Value.Model Value.Run Total.Model Total.Run.")
		name := filepath.Join(d.cfg.OutDir, fmt.Sprintf("cases_C12_%03d.v", s))
		var cs []string
		needB, needH := map[string]bool{}, map[string]bool{}
		defs := map[string]bool{}
		fr := floats.New()
		for i := lo; i < hi; i++ {
			c := d.cases[i]
			cs = append(cs, fmt.Sprintf("(%d, %s, %d)", i, c.render(f), c.obs))
			d.rep.Case(name, i, c.input)
			for _, k := range c.needB {
				needB[k] = true
			}
			for _, k := range c.needH {
				needH[k] = true
			}
			for _, fn := range c.fl {
				fn(fr)
			}
			if c.def != nil && !defs[c.def.name] {
				defs[c.def.name] = true
				f.Add("Definition " + c.def.name + " := " + c.def.render(f) + ".")
			}
		}
		f.Add("Definition prim_ : raw_prim := " + d.prims.Coq(f, needB, needH) + ".")
		f.Add("Definition floats_ : raw_floats := " + fr.Coq(f) + ".")
		f.Add("Definition cases_ : list tcase := " + coqgen.List(cs) + ".")
		f.Add("Definition M := Eval vm_compute in tmismatches prim_ floats_ cases_.")
		f.Add("Print M.")
		if err := f.Write(name); err != nil {
			return err
		}
		d.rep.Shards = append(d.rep.Shards, name)
	}
	return nil
}

// ---- stream (i): exhaustive removal of optional members ----

func mem(doc string, p ...any) member { return member{Doc: doc, Path: jpath(p)} }

// exhaustiveMembers: the <= 12 members whose 2^k subsets are all evaluated.
func exhaustiveMembers(b *Bundle, k int) []member {
	pr := func(p ...any) member { return mem("cred", append([]any{"proof", 0}, p...)...) }
	vm := func(p ...any) member {
		return mem("diddoc", append([]any{"didDocument", "verificationMethod", 0}, p...)...)
	}
	var l []member
	if b.Kind == "BJJSignature2021" {
		l = []member{
			pr("issuerData", "state", "value"), pr("issuerData", "state", "claimsTreeRoot"), pr("issuerData", "mtp"),
			pr("issuerData", "credentialStatus"), vm("published"), mem("status", "issuer", "state"),
			mem("status", "mtp", "node_aux"), pr("issuerData", "authCoreClaim"),
			pr("issuerData", "id"), pr("issuerData", "state", "revocationTreeRoot"),
			pr("issuerData", "state", "rootOfRoots"), mem("status", "issuer", "revocationTreeRoot"),
		}
	} else {
		l = []member{
			pr("issuerData", "state", "value"), pr("issuerData", "state", "claimsTreeRoot"), pr("mtp"), vm("published"),
			pr("issuerData", "state"), pr("mtp", "siblings"), mem("diddoc", "didDocument", "verificationMethod"), pr("issuerData", "id"),
			pr("mtp", "existence"), pr("issuerData", "state", "revocationTreeRoot"),
			pr("issuerData", "state", "rootOfRoots"), vm("type"),
		}
	}
	if k < len(l) {
		l = l[:k]
	}
	return l
}

func interesting(m member) bool {
	return m.Doc != "cred" || (len(m.Path) > 0 && m.Path[0] == "proof")
}

func everyMember(a *Arte) []member {
	var out []member
	for _, doc := range []string{"cred", "diddoc", "status"} {
		var ps []jpath
		allMembers(a.doc(doc), nil, &ps)
		for _, p := range ps {
			out = append(out, member{Doc: doc, Path: p})
		}
	}
	return out
}

type verifyInput struct {
	Stream  string   `json:"stream"`
	Bundle  string   `json:"bundle,omitempty"`
	Removed []string `json:"removed,omitempty"`
	Arte    *Arte    `json:"arte,omitempty"`
}

func (d *drv) bindKey(a *Arte) string {
	c := cloneMap(a.Cred)
	claim := ""
	switch p := c["proof"].(type) {
	case []any:
		for _, e := range p {
			if m := asMap(e); m != nil && str(m, "type") == a.Kind {
				claim = str(m, "coreClaim")
				break
			}
		}
	}
	delete(c, "proof")
	b, _ := json.Marshal(c)
	return claim + "|" + string(b)
}

// verifyCase runs one mutated artefact set through the implementation and
// records the skeleton input.
func (d *drv) verifyCase(a *Arte, in verifyInput, compare bool) Verdict {
	pristine := a.copy()
	if a.CredRaw != nil {
		// the fact extractors see the credential as encoding/json delivers it
		if c, err := canonBytes(a.CredRaw, credS); err == nil {
			pristine.Cred = asMap(c)
		} else {
			compare = false
		}
	}
	v, vc := RunVerify(a, d.loader)
	d.mu.Lock()
	d.rep.Evaluations++
	d.rep.Count("verify:" + a.Kind + ":" + v.Class())
	if len(in.Removed) > 0 {
		d.rep.Distinct("verify:" + in.Bundle + ":" + strings.Join(in.Removed, ","))
	}
	d.mu.Unlock()
	full := verifyInput{Stream: "verify", Arte: pristine}
	if c := v.Decode.Class; c == "panic" || c == "hang" {
		d.fail("json.Unmarshal(W3CCredential)", v.Decode, full)
	}
	if c := v.Verify.Class; c == "panic" || c == "hang" {
		d.fail("W3CCredential.VerifyProof", v.Verify, full)
	}
	if !compare {
		return v
	}
	// decode skeleton
	d.addCase(lit("ICred "+credJ(pristine.Cred)), v.Decode.Class, in)
	if v.Decode.Class != "ok" {
		return v
	}
	// the binding check outcome is cached per (credential body, claim)
	key := d.bindKey(pristine)
	d.bindMu.Lock()
	_, have := d.bind[key]
	d.bindMu.Unlock()
	if a.CredRaw != nil {
		have = false // the canonical form is not what the binding check re-marshals: no caching
		key = "raw:" + string(a.CredRaw)
	}
	var term string
	if have {
		term = ProofSel(pristine, nil, d.loader)
		d.bindMu.Lock()
		ok := d.bind[key]
		d.bindMu.Unlock()
		term = patchBind(term, ok)
	} else {
		term = ProofSel(pristine, vc, d.loader)
		if f := strings.Fields(term); len(f) > 2 && f[2] == "false" { // not `deep`: the hook ran to its end
			d.bindMu.Lock()
			d.bind[key] = bindOf(term)
			d.bindMu.Unlock()
		}
	}
	d.addCase(lit("IVerify "+term), v.Verify.Class, in)
	return v
}

// the third boolean of SelBJJ / SelSMT / SelOther is bind_ok
func bindOf(term string) bool {
	f := strings.Fields(strings.TrimSuffix(term, ")"))
	return len(f) > 3 && f[3] == "true"
}
func patchBind(term string, ok bool) string {
	f := strings.SplitN(term, " ", 5)
	if len(f) < 4 {
		return term
	}
	if len(f) == 4 { // (SelOther c deep bd)
		f[3] = b2c(ok) + ")"
		return strings.Join(f, " ")
	}
	f[3] = b2c(ok)
	return strings.Join(f, " ")
}

func (d *drv) removalStream() {
	for _, b := range d.bundles {
		// sanity: the unmodified bundle verifies
		base := d.verifyCase(b.Arte(), verifyInput{Stream: "verify", Bundle: b.Name}, true)
		if base.Class() != "ok" {
			d.rep.Fail("c12-generator", fmt.Sprintf("valid bundle %s rejected: decode=%s %s verify=%s %s", b.Name,
				base.Decode.Class, base.Decode.Msg, base.Verify.Class, base.Verify.Msg), verifyInput{Stream: "verify", Arte: b.Arte()})
			continue
		}
		k := d.cfg.Pick(9, 12)
		if strings.HasSuffix(b.Name, "-genesis") {
			k = d.cfg.Pick(7, 12)
		}
		ex := exhaustiveMembers(b, k)
		for _, m := range ex {
			if _, ok := jget(b.Arte().doc(m.Doc), m.Path); !ok {
				d.rep.Fail("c12-generator", "member of the exhaustive list is not in the bundle: "+m.String(), nil)
			}
		}
		n := 1 << len(ex)
		parallel(n, func(mask int) {
			if mask == 0 {
				return
			}
			a := b.Arte()
			var removed []string
			for i, m := range ex {
				if mask&(1<<i) != 0 {
					a.remove(m)
					removed = append(removed, m.String())
				}
			}
			d.verifyCase(a, verifyInput{Stream: "verify", Bundle: b.Name, Removed: removed}, true)
		})
		d.rep.Count(fmt.Sprintf("exhaustive-subsets:%s:k=%d", b.Name, len(ex)))
		d.rep.Distinct("verify-exhaustive:" + b.Name)
		// every member: singletons and pairs
		all := everyMember(b.Arte())
		var jobs [][]member
		for i := range all {
			jobs = append(jobs, []member{all[i]})
		}
		// pairs: thorough = all; quick = pairs among the members of the proof object
		// of the two `published` bundles (a removed member of the credential
		// body ends at the binding check whatever else is removed)
		for i := range all {
			for j := i + 1; j < len(all); j++ {
				if !d.cfg.Thorough() {
					if strings.HasSuffix(b.Name, "-genesis") || all[i].Doc != "cred" || all[j].Doc != "cred" || !interesting(all[i]) || !interesting(all[j]) {
						continue
					}
				}
				jobs = append(jobs, []member{all[i], all[j]})
			}
		}
		parallel(len(jobs), func(i int) {
			a := b.Arte()
			var removed []string
			for _, m := range jobs[i] {
				a.remove(m)
				removed = append(removed, m.String())
			}
			d.verifyCase(a, verifyInput{Stream: "verify", Bundle: b.Name, Removed: removed}, true)
		})
		d.rep.Count(fmt.Sprintf("singletons+pairs:%s:members=%d:jobs=%d", b.Name, len(all), len(jobs)))
	}
}

func (d *drv) bundleByName(name string) *Bundle {
	for _, b := range d.bundles {
		if b.Name == name {
			return b
		}
	}
	return nil
}

func parseMember(s string) member {
	i := strings.Index(s, ":")
	m := member{Doc: s[:i]}
	for _, e := range strings.Split(s[i+1:], ".") {
		var n int
		if _, err := fmt.Sscanf(e, "%d", &n); err == nil && fmt.Sprint(n) == e {
			m.Path = append(m.Path, n)
		} else {
			m.Path = append(m.Path, e)
		}
	}
	return m
}

func Run(cfg *common.Config) (*common.Report, error) {
	rep := common.NewReport("C12")
	rep.Correspondence = "Total.Run.tmismatches: outcome class (result / error / panic / hang / nil-nil) of the control skeletons of coq/Total/Model.v (verify_proof, validate_status, cred_unmarshal, proofs_unmarshal, diddoc_unmarshal, status_unmarshal, vm_unmarshal, auth_unmarshal, merklizer_unmarshal, rdfentry_unmarshal, merklize_tail, hash_value) vs W3CCredential.VerifyProof, ValidateCredentialStatus, json.Unmarshal into the verifiable types, MerklizerFromBytes, RDFEntry.UnmarshalBinary, MerklizeJSONLD, HashValue on the same inputs; RDF.Run.rmismatches: entries_from_rdf vs EntriesFromRDF on cyclic / shared-node documents"
	rep.Rule = "distinct = distinct (entry point, canonical input) pairs; non-trivial = at least one optional member removed / one value mutated / one gob value off the canonical stream"
	d := &drv{cfg: cfg, rep: rep, loader: ctxload.New(), fr: floats.New(), prims: newPrimRec(), bind: map[string]bool{}}
	seed := cfg.Seed
	if cfg.Replay != "" {
		var rf struct {
			Seed int64 `json:"seed"`
		}
		if err := common.ReadJSON(cfg.Replay, &rf); err == nil && rf.Seed != 0 {
			seed = rf.Seed
		}
	}
	brng := rand.New(rand.NewSource(seed*7919 + 12))
	d.bundles = BuildBundles(brng, d.loader)
	if cfg.Replay != "" {
		if err := d.replay(); err != nil {
			return nil, err
		}
		return rep, d.writeShards()
	}
	debug.SetGCPercent(400)
	t0 := time.Now()
	lap := func(name string) {
		rep.Notes = append(rep.Notes, fmt.Sprintf("timing %s: %.1fs", name, time.Since(t0).Seconds()))
		t0 = time.Now()
	}
	d.removalStream()
	lap("removal")
	d.recomputeStream()
	lap("recompute")
	d.artefactStream()
	lap("artefacts")
	d.siblingStream()
	d.memberNameStream()
	lap("siblings")
	d.resolverStream()
	d.programmaticStatusStream()
	lap("resolvers")
	d.mutationStream()
	lap("mutation")
	d.hashValueStream()
	lap("hashvalue")
	d.pathStream()
	lap("paths")
	d.hostileCredentialStream()
	lap("hostile-credentials")
	if err := d.gobStream(); err != nil {
		return nil, err
	}
	lap("gob")
	rcs, err := d.documentStream()
	if err != nil {
		return nil, err
	}
	lap("documents")
	rep.Exhaustive = true
	rep.Notes = append(rep.Notes,
		"exhaustive: every subset of the listed k optional members (see distribution exhaustive-subsets:*), every single member and (thorough: every pair of members; quick: every pair of members of the proof object of the two `published` bundles) of four valid artefact sets; 2^10 subsets of the status answer, 2^12 of the DID document, 2^6 of the gist proof",
		"verify cases: the binding check outcome is recorded through the hook VerifVerifyCoreClaim (composite of C06, not part of the skeleton)")
	for i, c := range d.cases {
		if i%977 == 0 {
			rep.Sample(c.input)
		}
	}
	if err := d.writeShards(); err != nil {
		return nil, err
	}
	return rep, d.writeRDFShards(rcs)
}

func (d *drv) replay() error {
	var rf struct {
		Input json.RawMessage `json:"input"`
	}
	if err := common.ReadJSON(d.cfg.Replay, &rf); err != nil {
		return err
	}
	var head struct {
		Stream string `json:"stream"`
	}
	if err := json.Unmarshal(rf.Input, &head); err != nil {
		return err
	}
	switch head.Stream {
	case "verify":
		var in verifyInput
		if err := json.Unmarshal(rf.Input, &in); err != nil {
			return err
		}
		a := in.Arte
		if a == nil {
			b := d.bundleByName(in.Bundle)
			if b == nil {
				return fmt.Errorf("unknown bundle %q", in.Bundle)
			}
			a = b.Arte()
			for _, r := range in.Removed {
				a.remove(parseMember(r))
			}
		}
		v := d.verifyCase(a, in, true)
		fmt.Printf("replay: decode=%s %s | verify=%s %s (%s)\n", v.Decode.Class, v.Decode.Msg, v.Verify.Class, v.Verify.Msg, v.Verify.Site)
	case "decode":
		var in docInput
		if err := json.Unmarshal(rf.Input, &in); err != nil {
			return err
		}
		var doc any
		dec := json.NewDecoder(strings.NewReader(string(in.Doc)))
		dec.UseNumber()
		if err := dec.Decode(&doc); err != nil {
			return err
		}
		o := d.decodeCase(in.Target, numbersToFloat(doc), in.Removed, true)
		fmt.Printf("replay: %s: %s %s (%s)\n", in.Target, o.Class, o.Msg, o.Site)
	case "status":
		var in docInput
		if err := json.Unmarshal(rf.Input, &in); err != nil {
			return err
		}
		var doc map[string]any
		if err := json.Unmarshal(in.Doc, &doc); err != nil {
			return err
		}
		d.statusCase(doc, in.Nonce, in.Removed)
	case "auth-direct":
		var in docInput
		if err := json.Unmarshal(rf.Input, &in); err != nil {
			return err
		}
		var b []byte
		var sv *string
		if err := json.Unmarshal(in.Doc, &sv); err == nil && sv != nil {
			b = []byte(*sv)
		}
		o := decodeInto("Authentication.UnmarshalJSON", b)
		fmt.Printf("replay: Authentication.UnmarshalJSON(%q): %s %s\n", b, o.Class, o.Msg)
		if o.Class == "panic" || o.Class == "hang" {
			d.fail("Authentication.UnmarshalJSON", o, in)
		}
	case "gob":
		var in struct {
			Op, Tree, Why string
			Data          []byte
		}
		if err := json.Unmarshal(rf.Input, &in); err != nil {
			return err
		}
		res, err := runChildJobs([]job{{Op: in.Op, Data: in.Data, Tree: in.Tree}})
		if err != nil {
			return err
		}
		fmt.Printf("replay: %s: %s %s (%s) alloc=%d\n", in.Op, res[0].Class, res[0].Msg, res[0].Site, res[0].Alloc)
		d.rep.Evaluations++
		if c := res[0].Class; c == "panic" || c == "hang" || c == "crash" || c == "nilnil" {
			d.fail(map[string]string{"mzfrombytes": "MerklizerFromBytes", "entry": "RDFEntry.UnmarshalBinary", "entrykv": "RDFEntry.UnmarshalBinary+KeyValueMtEntries"}[in.Op], res[0], json.RawMessage(rf.Input))
		}
	case "document":
		var in struct{ Why, Doc, Regenerate string }
		if err := json.Unmarshal(rf.Input, &in); err != nil {
			return err
		}
		doc := []byte(in.Doc)
		if in.Regenerate != "" {
			for _, c := range d.documents() {
				if c.why == in.Regenerate {
					doc = c.doc
				}
			}
		}
		res, err := runChildJobs([]job{{Op: "merklize", Data: doc}})
		if err != nil {
			return err
		}
		fmt.Printf("replay: MerklizeJSONLD: %s %s (%s) alloc=%d\n", res[0].Class, res[0].Msg, res[0].Site, res[0].Alloc)
		d.rep.Evaluations++
		if c := res[0].Class; (c == "panic" && !strings.HasPrefix(res[0].Site, "ld.")) || c == "hang" || c == "crash" || c == "nilnil" {
			d.fail("MerklizeJSONLD", res[0], json.RawMessage(rf.Input))
		}
	case "hashvalue":
		// the fixed grid is re-run; only the recorded (datatype, kind, value) is kept
		var in struct{ Datatype, Kind, Value string }
		if err := json.Unmarshal(rf.Input, &in); err != nil {
			return err
		}
		d.hashValueStream()
		var keep []common.Failure
		for _, f := range d.rep.Failures {
			var g struct{ Datatype, Kind, Value string }
			_ = json.Unmarshal(f.Input, &g)
			if g == in {
				keep = append(keep, f)
			}
		}
		d.rep.Failures = keep
		d.cases = nil
	case "path", "path-string", "path-index", "slot-path", "ser-attr", "degenerate-path", "degenerate-slot-path":
		d.pathStream()
	case "hostile-credential":
		d.hostileCredentialStream()
	case "raw-decode":
		var in rawInput
		if err := json.Unmarshal(rf.Input, &in); err != nil {
			return err
		}
		d.decodeRawCase(in.Target, in.Why, in.Body)
	case "status-go-value":
		d.programmaticStatusStream()
	case "did-resolver", "status-resolver":
		var in resolverInput
		if err := json.Unmarshal(rf.Input, &in); err != nil {
			return err
		}
		if in.Answer != nil && strings.HasPrefix(string(in.Answer.Body), "regenerate:") {
			valid := mustJSON(d.bundles[1].DIDDoc)
			if head.Stream == "status-resolver" {
				valid = mustJSON(d.bundles[0].Status)
			}
			in.Answer.Body = hostileBodies(valid)[strings.TrimPrefix(string(in.Answer.Body), "regenerate:")]
		}
		if head.Stream == "did-resolver" {
			d.didResolveCase(in.Answer, in.Why)
		} else {
			d.statusResolveCase(in.Answer, in.Nonce, in.Why)
		}
	default:
		return fmt.Errorf("replay: unknown stream %q", head.Stream)
	}
	return nil
}

func numbersToFloat(v any) any {
	switch x := v.(type) {
	case map[string]any:
		for k, e := range x {
			x[k] = numbersToFloat(e)
		}
	case []any:
		for i, e := range x {
			x[i] = numbersToFloat(e)
		}
	case json.Number:
		if f, err := x.Float64(); err == nil {
			return f
		}
	}
	return v
}
