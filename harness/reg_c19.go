package main

import (
	_ "vharness/c19"
)
