package main

import (
	_ "vharness/c02"
)
