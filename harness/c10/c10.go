// Package c10: standalone value hashing equals the merklized leaf (property C10).
//
// For every literal of every merklized document (docgen documents and a crafted
// grid of typed values: integer boundaries, spellings, doubles, booleans, times,
// arrays in non-canonical order, arrays of nodes), under four hashers:
//
//	HashValueWithHasher(h, JSONLDType(p), RawValue(p))  vs  the leaf stored in the tree
//	(RDFEntry.ValueMtEntry, verified with merkletree.VerifyProof against Root())
//	vs the MtEntry of the Value returned by Proof(p), and the Go kind of that Value.
//
// The same observations are written as sibling-group cases for the Coq model
// Value/Leaf.v (evaluated by Value/LeafRun.v).
package c10

import (
	"context"
	"encoding/json"
	"fmt"
	"math"
	"math/big"
	"path/filepath"
	"sort"
	"strconv"
	"strings"
	"time"

	"github.com/iden3/go-iden3-crypto/constants"
	"github.com/iden3/go-merkletree-sql/v2"
	"github.com/iden3/go-merkletree-sql/v2/db/memory"
	"github.com/iden3/go-schema-processor/v2/merklize"
	"github.com/piprate/json-gold/ld"

	"vharness/common"
	"vharness/coqgen"
	"vharness/ctxload"
	"vharness/docgen"
	"vharness/floats"
	"vharness/hashers"
	"vharness/mzrun"
)

func init() { common.Register("C10", Run) }

const xsd = "http://www.w3.org/2001/XMLSchema#"

// Input is the replayable description of one document case.
type Input struct {
	Stream   string                     `json:"stream"`
	Doc      json.RawMessage            `json:"doc"`
	Hasher   int                        `json:"hasher"`
	Contexts map[string]json.RawMessage `json:"contexts,omitempty"`
	Path     []any                      `json:"path,omitempty"` // where the failure was seen (informational)
	// Pinned: three-step sequence in one process: (1) merklize.SetHasher(hasher #Hasher) and
	// MerklizeJSONLD WITHOUT WithHasher, (2) merklize.SetHasher(another hasher), (3) all
	// observations through mz.Hasher() / mz.Options(); the default is restored afterwards
	Pinned bool `json:"pinned,omitempty"`
	// Prior: a document merklized FIRST into a caller-provided tree (WithMerkleTree); Doc is then
	// merklized into the same tree (two revisions of one document, persistent tree)
	Prior json.RawMessage `json:"prior,omitempty"`
	// ViaBinary: the observations are made on MerklizerFromBytes(mz.MarshalBinary(), WithHasher(h), loader)
	ViaBinary bool `json:"via_binary,omitempty"`
}

// jv is a JSON value as RawValue returns it.
type jv struct {
	kind byte // 'b' bool, 'n' number, 's' string, 'o' anything else
	b    bool
	bits uint64
	s    string
}

func jvOf(v any) jv {
	switch x := v.(type) {
	case bool:
		return jv{kind: 'b', b: x}
	case float64:
		return jv{kind: 'n', bits: math.Float64bits(x)}
	case string:
		return jv{kind: 's', s: x}
	default:
		return jv{kind: 'o'}
	}
}

func (j jv) coq(f *coqgen.File) string {
	switch j.kind {
	case 'b':
		return "RJBool " + coqgen.Bool(j.b)
	case 'n':
		return "RJNum " + coqgen.Limbs(floats.BitsBig(j.bits))
	case 's':
		return "RJStr " + f.Str(j.s)
	default:
		return "RJOther"
	}
}

func (j jv) String() string {
	switch j.kind {
	case 'b':
		return fmt.Sprintf("bool:%v", j.b)
	case 'n':
		return "num:" + strconv.FormatFloat(math.Float64frombits(j.bits), 'g', -1, 64)
	case 's':
		return "str:" + j.s
	default:
		return "other"
	}
}

type docElem struct {
	declared *string
	v        jv
}

type obsTuple struct {
	dt    string
	leaf  *big.Int
	pv    *big.Int
	kind  int
	parts []any
}

type hvCase struct {
	dt    string
	v     jv
	ok    bool
	val   *big.Int
	panic bool
}

type group struct {
	hasher int
	pair   bool
	docs   []docElem
	obs    []obsTuple
	hvs    []hvCase
	input  *Input
}

type drv struct {
	cfg    *common.Config
	rep    *common.Report
	loader *ctxload.Loader
	hs     []merklize.Hasher
	groups []*group
	gen    *docgen.Gen
	// prior: see Input.Prior (set by the caller of docCase for the next document only)
	prior []byte
	// viaBinary: see Input.ViaBinary (set by the caller for the next document only)
	viaBinary bool
	// ordering classes are reported once per document
	docReported map[string]bool
}

type poseidonPrime struct{ p *big.Int }

func (h poseidonPrime) Hash(in []*big.Int) (*big.Int, error) {
	return merklize.PoseidonHasher{}.Hash(in)
}
func (h poseidonPrime) HashBytes(b []byte) (*big.Int, error) {
	return merklize.PoseidonHasher{}.HashBytes(b)
}
func (h poseidonPrime) Prime() *big.Int { return new(big.Int).Set(h.p) }

func hasherSet() []merklize.Hasher {
	p61, _ := new(big.Int).SetString("2305843009213693951", 10)
	return []merklize.Hasher{
		hashers.Default(),
		hashers.Mod{P: new(big.Int).Set(constants.Q), SaltBytes: []byte("salt:"), SaltElem: big.NewInt(77), Name: "salted"},
		hashers.Mod{P: big.NewInt(2147483647), Name: "mod2^31-1"},
		hashers.Mod{P: p61, SaltBytes: []byte("m61:"), Name: "mod2^61-1"},
		// Prime() hands out the stored modulus itself: in-place arithmetic on it corrupts the hasher
		hashers.Mod{P: new(big.Int).Set(constants.Q), SaltBytes: []byte("shr:"), Name: "shared-Q", ShareP: true},
		hashers.Mod{P: new(big.Int).Set(p61), SaltBytes: []byte("s61:"), Name: "shared-2^61-1", ShareP: true},
		// hashes exactly like the default Poseidon hasher (package-level paths still address the
		// tree) but reports another Prime(): values whose field mapping depends on the prime
		// (negative integers, dateTime before 1970) tell which hasher hashed them
		poseidonPrime{p: new(big.Int).Set(p61)},
		poseidonPrime{p: big.NewInt(2147483647)},
	}
}

// navigate walks the compacted document exactly like Merklizer.RawValue, but
// returns the final object without unwrapping "@value".
func navigate(obj any, parts []any) (any, bool) {
	for _, p := range parts {
		switch f := p.(type) {
		case string:
			m, ok := obj.(map[string]any)
			if !ok {
				return nil, false
			}
			if g, has := m["@graph"]; has && len(m) == 1 {
				m, ok = g.(map[string]any)
				if !ok {
					return nil, false
				}
			}
			obj, ok = m[f]
			if !ok {
				return nil, false
			}
		case int:
			a, ok := obj.([]any)
			if !ok || f < 0 || f >= len(a) {
				return nil, false
			}
			obj = a[f]
		default:
			return nil, false
		}
	}
	return obj, true
}

// elemOf classifies one element of the compacted document: literal value object /
// native value (lit=true) or node / IRI reference (lit=false).
func elemOf(o any) (e docElem, lit bool, lang bool) {
	switch x := o.(type) {
	case map[string]any:
		v, has := x["@value"]
		if !has {
			return docElem{}, false, false
		}
		if t, ok := x["@type"].(string); ok {
			e.declared = &t
		}
		_, lang = x["@language"]
		e.v = jvOf(v)
		return e, true, lang
	case bool, float64, string:
		return docElem{v: jvOf(x)}, true, false
	default:
		return docElem{}, false, false
	}
}

func pathKey(parts []any) string {
	var sb strings.Builder
	for _, p := range parts {
		switch x := p.(type) {
		case int:
			sb.WriteString(fmt.Sprintf("#%d\x00", x))
		default:
			sb.WriteString(fmt.Sprint(x) + "\x00")
		}
	}
	return sb.String()
}

func hasMiddleIndex(parts []any) bool {
	for i, p := range parts {
		if _, ok := p.(int); ok && i < len(parts)-1 {
			return true
		}
	}
	return false
}

func kindImplied(dt string) int {
	switch dt {
	case xsd + "boolean":
		return 0
	case xsd + "integer", xsd + "positiveInteger", xsd + "nonNegativeInteger", xsd + "negativeInteger", xsd + "nonPositiveInteger":
		return 1
	case xsd + "dateTime":
		return 3
	default:
		return 4
	}
}

func kindOf(v merklize.Value) int {
	switch {
	case v.IsBool():
		return 0
	case v.IsBigInt():
		return 1
	case v.IsInt64():
		return 2
	case v.IsTime():
		return 3
	case v.IsString():
		return 4
	}
	return -1
}

// natural: is the JSON value of the natural kind for the datatype (the property's quantifier)?
func natural(dt string, v jv) bool {
	switch kindImplied(dt) {
	case 0:
		if v.kind == 'b' {
			return true
		}
		if v.kind == 'n' {
			f := math.Float64frombits(v.bits)
			return f == 0 || f == 1
		}
		return v.kind == 's'
	case 1:
		return v.kind == 'n' || v.kind == 's'
	case 3:
		return v.kind == 's'
	default:
		if dt == xsd+"double" {
			return v.kind == 'n' || v.kind == 's'
		}
		return v.kind == 's'
	}
}

type entryRes struct {
	view    mzrun.EntryView
	path    merklize.Path
	dt      string
	raw     any
	rawErr  error
	hv      *big.Int
	hvErr   string
	hvPanic bool
	leaf    *big.Int
	agree   bool
	class   string // classifier of the disagreement ("" = agrees)
	// unpaired: the sibling group's document array could not be tied to this entry
	// (node arrays in non-canonical order, or no document value found for the leaf)
	unpaired bool
	// decimal snapshots taken at observation time: results handed out earlier must not change
	// when later calls are made (aliasing of pooled / cached big.Int values)
	hvSnap, leafSnap string
	// Values returned by Proof through package-level / zero paths: (MtEntry, kind)
	pkgPV   []*big.Int
	pkgKind []int
}

func safeHash(h merklize.Hasher, dt string, raw any) (v *big.Int, msg string, panicked bool) {
	defer func() {
		if r := recover(); r != nil {
			v, msg, panicked = nil, fmt.Sprint(r), true
		}
	}()
	v, err := merklize.HashValueWithHasher(h, dt, raw)
	if err != nil {
		return nil, err.Error(), false
	}
	if v == nil {
		return nil, "nil result with nil error", true
	}
	return v, "", false
}

func sortedStrings(xs []*big.Int) ([]string, bool) {
	out := make([]string, 0, len(xs))
	for _, x := range xs {
		if x == nil {
			return nil, false
		}
		out = append(out, x.String())
	}
	sort.Strings(out)
	return out, true
}

func sameMultiset(a, b []*big.Int) bool {
	sa, ok1 := sortedStrings(a)
	sb, ok2 := sortedStrings(b)
	if !ok1 || !ok2 || len(sa) != len(sb) {
		return false
	}
	for i := range sa {
		if sa[i] != sb[i] {
			return false
		}
	}
	return true
}

// canonExact: does the canonical double of an integral float denote it exactly?
func canonExact(f float64) bool {
	r, ok := new(big.Rat).SetString(ld.GetCanonicalDouble(f))
	if !ok {
		return false
	}
	exact := new(big.Rat).SetFloat64(f)
	return exact != nil && r.Cmp(exact) == 0
}

// packageHashValue: while the package default (merklize.SetHasher) is the hasher the merklizer
// was created under, the PACKAGE-LEVEL HashValue(datatype, RawValue) must hash like that default.
func (d *drv) packageHashValue(mz *merklize.Merklizer, def merklize.Hasher, in *Input) {
	for _, v := range mzrun.MapEntries(mz) {
		if v.Datatype == "" {
			continue
		}
		p, err := mz.Options().NewPath(v.Parts...)
		if err != nil {
			continue
		}
		raw, err := mz.RawValue(p)
		if err != nil {
			continue
		}
		want, _, _ := safeHash(def, v.Datatype, raw)
		var got *big.Int
		o := mzrun.Guard(10*time.Second, func() error {
			x, err := merklize.HashValue(v.Datatype, raw)
			got = x
			return err
		})
		d.rep.Evaluations++
		if (want == nil) != (got == nil) || (want != nil && want.Cmp(got) != 0) {
			c := *in
			c.Path = v.Parts
			d.rep.Fail("c10-hashvalue-ignores-default", fmt.Sprintf("package-level HashValue(%s, %v) = %v (%s) under merklize.SetHasher(h), HashValueWithHasher(h, ..) = %v", v.Datatype, raw, got, o.Msg, want), &c)
			return
		}
	}
}

// lateHasher is what merklize.SetHasher installs AFTER a pinned merklization: its Hash and
// HashBytes differ from every hasher of hasherSet.
func lateHasher() merklize.Hasher {
	return hashers.NewRecorder(hashers.Mod{P: new(big.Int).Set(constants.Q), SaltBytes: []byte("late:"), SaltElem: big.NewInt(4242), Name: "late"})
}

func (d *drv) docCase(stream string, doc []byte, hi int, ctxs map[string]json.RawMessage) bool {
	return d.docCaseP(stream, doc, hi, ctxs, false)
}

func (d *drv) docCaseP(stream string, doc []byte, hi int, ctxs map[string]json.RawMessage, pinned bool) bool {
	h := d.hs[hi]
	d.docReported = map[string]bool{}
	in := &Input{Stream: stream, Doc: json.RawMessage(doc), Hasher: hi, Contexts: ctxs, Pinned: pinned}
	modulus := new(big.Int).Set(d.hs[hi].Prime())
	defer func() {
		if d.hs[hi].Prime().Cmp(modulus) != 0 {
			d.rep.Fail("c10-hasher-modulus-changed", fmt.Sprintf("the hasher's Prime() was %s before and is %s after the calls on this document (arithmetic in place on the value Prime() returned)", modulus, d.hs[hi].Prime()), in)
			d.hs[hi].Prime().Set(modulus) // repair the shared modulus for the following documents
		}
	}()
	var mz *merklize.Merklizer
	var mo mzrun.Outcome
	if pinned {
		d.rep.Count("pinned-sequences")
		creation := hashers.NewRecorder(h) // a pointer: comparable with mz.Hasher()
		merklize.SetHasher(creation)
		defer merklize.SetHasher(merklize.PoseidonHasher{})
		mz, mo = mzrun.Merklize(doc, merklize.WithDocumentLoader(d.loader))
		if mo.Class == "ok" {
			d.packageHashValue(mz, creation, in)
		}
		merklize.SetHasher(lateHasher())
		if mo.Class == "ok" {
			if mz.Hasher() != merklize.Hasher(creation) {
				d.rep.Fail("c10-default-hasher-not-pinned", "after merklize.SetHasher the merklizer built without WithHasher reports another Hasher()", in)
			}
			// everything below goes through mz.Hasher() / mz.Options(), as a caller would
			h = mz.Hasher()
		}
	} else {
		opts := []merklize.MerklizeOption{merklize.WithHasher(h), merklize.WithDocumentLoader(d.loader)}
		if d.prior != nil {
			in.Prior = json.RawMessage(d.prior)
			mt, err := merkletree.NewMerkleTree(context.Background(), memory.NewMemoryStorage(), 40)
			if err != nil {
				return false
			}
			opts = append(opts, merklize.WithMerkleTree(merklize.MerkleTreeSQLAdapter(mt)))
			_, po := mzrun.Merklize(d.prior, opts...)
			d.rep.Count(stream + ":prior:" + po.Class)
			d.prior = nil
			if po.Class != "ok" {
				return false
			}
		}
		mz, mo = mzrun.Merklize(doc, opts...)
		if d.viaBinary && d.prior == nil && in.Prior == nil && mo.Class == "ok" {
			// C10 must hold for a binary-restored merklizer too
			in.ViaBinary = true
			var restored *merklize.Merklizer
			ro := mzrun.Guard(30*time.Second, func() error {
				b, err := mz.MarshalBinary()
				if err != nil {
					return err
				}
				m2, err := merklize.MerklizerFromBytes(b, merklize.WithHasher(h), merklize.WithDocumentLoader(d.loader))
				restored = m2
				return err
			})
			d.rep.Count(stream + ":via-binary:" + ro.Class)
			if ro.Class != "ok" || restored == nil {
				d.rep.Fail("c10-restore-"+ro.Class, "MarshalBinary / MerklizerFromBytes of a merklized document failed: "+ro.Msg, in)
				d.viaBinary = false
				return false
			}
			if restored.Root().BigInt().Cmp(mz.Root().BigInt()) != 0 {
				d.rep.Fail("c10-restored-root", "the binary-restored merklizer has another root than the original", in)
			}
			mz = restored
		}
		d.viaBinary = false
	}
	d.rep.Count(stream + ":merklize:" + mo.Class)
	if mo.Class == "panic" || mo.Class == "hang" {
		d.rep.Fail("c10-merklize-"+mo.Class, "MerklizeJSONLD: "+mo.Msg, in)
		return false
	}
	if mo.Class != "ok" {
		return false
	}
	compacted := mz.VerifCompacted()
	views := mzrun.MapEntries(mz)
	if stream == "replay" {
		for k, v := range views {
			fmt.Printf("replay: entry key=%s path=%v value=%s datatype=%q\n", k, v.Parts, docgen.RenderGoValue(v.Value), v.Datatype)
		}
	}
	var res []*entryRes
	for mapKey, v := range views {
		if v.Datatype == "" {
			d.rep.Count("non-literal-entry")
			continue // IRI-valued statements (incl. rdf:type) are not literals
		}
		res = append(res, d.observe(mz, h, mapKey, v, in))
	}
	for _, r := range res {
		if (r.hv != nil && r.hvSnap != "" && r.hv.String() != r.hvSnap) || (r.leaf != nil && r.leafSnap != "" && r.leaf.String() != r.leafSnap) {
			c := *in
			c.Path = r.view.Parts
			d.rep.Fail("c10-result-overwritten", fmt.Sprintf("the *big.Int returned for %v by HashValueWithHasher / ValueMtEntry changed after later calls", r.view.Parts), &c)
			break
		}
	}
	sort.Slice(res, func(i, j int) bool { return pathKey(res[i].view.Parts) < pathKey(res[j].view.Parts) })

	// sibling groups: entries whose path ends in an index share the prefix
	byGroup := map[string][]*entryRes{}
	var order []string
	for _, r := range res {
		parts := r.view.Parts
		gk := pathKey(parts)
		if _, ok := parts[len(parts)-1].(int); ok {
			gk = pathKey(parts[:len(parts)-1]) + "[]"
		}
		if _, seen := byGroup[gk]; !seen {
			order = append(order, gk)
		}
		byGroup[gk] = append(byGroup[gk], r)
	}
	for _, gk := range order {
		rs := byGroup[gk]
		sort.Slice(rs, func(i, j int) bool {
			a, _ := rs[i].view.Parts[len(rs[i].view.Parts)-1].(int)
			b, _ := rs[j].view.Parts[len(rs[j].view.Parts)-1].(int)
			return a < b
		})
		d.classify(compacted, h, rs, in)
		d.addGroup(mz, compacted, hi, rs, in)
	}
	return true
}

// observe evaluates the property's observation points for one literal entry.
func (d *drv) observe(mz *merklize.Merklizer, h merklize.Hasher, mapKey string, v mzrun.EntryView, in *Input) *entryRes {
	r := &entryRes{view: v}
	withPath := func() *Input { c := *in; c.Path = v.Parts; return &c }
	d.rep.Evaluations++
	p, err := mz.Options().NewPath(v.Parts...)
	if err != nil {
		d.rep.Fail("c10-path", "entry path rejected by NewPath: "+err.Error(), withPath())
		return r
	}
	r.path = p
	if pk, perr := p.MtEntry(); perr != nil || pk.String() != mapKey {
		d.rep.Fail("c10-path-key", fmt.Sprintf("path %v built through mz.Options() hashes to %v (%v), the entry is stored under %s", v.Parts, pk, perr, mapKey), withPath())
	}
	dt, err := mz.JSONLDType(p)
	if err != nil || dt != v.Datatype {
		d.rep.Fail("c10-jsonldtype", fmt.Sprintf("JSONLDType(%v) = %q, %v; entry datatype %q", v.Parts, dt, err, v.Datatype), withPath())
	}
	r.dt = v.Datatype
	if err == nil {
		r.dt = dt
	}
	key, err1 := v.Entry.KeyMtEntry()
	leaf, err2 := v.Entry.ValueMtEntry()
	if err1 != nil || err2 != nil {
		d.rep.Fail("c10-entry-hash", fmt.Sprintf("entry %v of a merklized document does not hash: %v %v", v.Parts, err1, err2), withPath())
		return r
	}
	r.leaf = leaf
	proof, val, err := mz.Proof(context.Background(), p)
	switch {
	case err != nil || proof == nil || !proof.Existence || val == nil:
		d.rep.Fail("c10-proof", fmt.Sprintf("no existence proof / value for literal %v: %v", v.Parts, err), withPath())
	default:
		if !merkletree.VerifyProof(mz.Root(), proof, key, leaf) {
			d.rep.Fail("c10-leaf-not-in-tree", fmt.Sprintf("tree leaf of %v is not the entry's ValueMtEntry", v.Parts), withPath())
		}
		pv, perr := val.MtEntry()
		if perr != nil || pv == nil || pv.Cmp(leaf) != 0 {
			d.rep.Fail("c10-proof-value", fmt.Sprintf("Value returned by Proof(%v) hashes to %v (%v), leaf is %s", v.Parts, pv, perr, leaf), withPath())
		}
		if k := kindOf(val); k != kindImplied(r.dt) {
			d.rep.Fail("c10-kind", fmt.Sprintf("Value of %v (%s) has Go kind %d, datatype implies %d", v.Parts, r.dt, k, kindImplied(r.dt)), withPath())
		}
	}
	// paths built with the package-level constructor / a zero Path carry the package default
	// hasher; when they address the same key, Proof must still hash the Value with the
	// MERKLIZER's hasher
	{
		var zp merklize.Path
		_ = zp.Append(v.Parts...)
		pp, perr := merklize.NewPath(v.Parts...)
		for i, q := range []merklize.Path{pp, zp} {
			if i == 0 && perr != nil {
				continue
			}
			q := q
			if k, err := q.MtEntry(); err != nil || k.String() != mapKey {
				continue
			}
			d.rep.Count("package-level-path-proofs")
			var pv *big.Int
			kind := -1
			o := mzrun.Guard(10*time.Second, func() error {
				_, val, err := mz.Proof(context.Background(), q)
				if err != nil {
					return err
				}
				if val == nil {
					return fmt.Errorf("no value")
				}
				kind = kindOf(val)
				x, err := val.MtEntry()
				pv = x
				return err
			})
			if pv != nil && kind >= 0 {
				r.pkgPV = append(r.pkgPV, pv)
				r.pkgKind = append(r.pkgKind, kind)
			}
			if o.Class != "ok" || pv == nil || pv.Cmp(leaf) != 0 || kind != kindImplied(r.dt) {
				d.rep.Fail("c10-proof-value-package-path", fmt.Sprintf("Proof(%v) through a %s: Value hashes to %v (%s %s), kind %d; leaf is %s", v.Parts,
					[]string{"merklize.NewPath path", "zero Path"}[i], pv, o.Class, o.Msg, kind, leaf), withPath())
				break
			}
		}
	}
	r.raw, r.rawErr = mz.RawValue(p)
	if r.rawErr != nil {
		r.class = "c10-rawvalue-error"
		return r
	}
	// a caller hashing negative Go-typed integers in between must not disturb anything
	_ = mzrun.Guard(10*time.Second, func() error {
		if x, err := mz.MkValue(int64(-1 - d.rep.Evaluations%7)); err == nil {
			_, _ = x.MtEntry()
		}
		if x, err := merklize.NewValue(h, int64(-3)); err == nil {
			_, _ = x.MtEntry()
		}
		return nil
	})
	r.hv, r.hvErr, r.hvPanic = safeHash(h, r.dt, r.raw)
	r.agree = r.hv != nil && r.hv.Cmp(leaf) == 0
	r.leafSnap = leaf.String()
	if r.hv != nil {
		r.hvSnap = r.hv.String()
	}
	if r.agree && proof != nil && !merkletree.VerifyProof(mz.Root(), proof, key, r.hv) {
		d.rep.Fail("c10-leaf-not-in-tree", fmt.Sprintf("HashValue of %v does not verify against the root", v.Parts), withPath())
	}
	d.rep.Count("dt:" + shortDT(r.dt) + ":" + string(jvOf(r.raw).kind))
	d.rep.Distinct(fmt.Sprintf("%d|%s|%s", in.Hasher, r.dt, jvOf(r.raw)))
	return r
}

func shortDT(dt string) string {
	if strings.HasPrefix(dt, xsd) {
		return dt[len(xsd):]
	}
	return "other"
}

// addGroup records the sibling group as a case for the Coq model.
func (d *drv) addGroup(mz *merklize.Merklizer, compacted map[string]any, hi int, rs []*entryRes, in *Input) {
	g := &group{hasher: hi, pair: true, input: in}
	parts := rs[0].view.Parts
	prefix := parts
	if _, ok := parts[len(parts)-1].(int); ok {
		prefix = parts[:len(parts)-1]
	}
	obj, ok := navigate(compacted, prefix)
	if !ok {
		g.pair = false
	} else {
		elems, isArr := obj.([]any)
		if !isArr {
			elems = []any{obj}
		}
		for _, e := range elems {
			de, lit, lang := elemOf(e)
			if lang {
				g.pair = false
			}
			if lit && !mergedByJSONGold(g.docs, de) {
				g.docs = append(g.docs, de)
			}
		}
	}
	for _, r := range rs {
		if r.leaf == nil {
			g.pair = false
			continue
		}
		// the implementation-side oracle found that this path does not lead to the
		// leaf's own document value (reported there): leaf pairing is impossible
		if r.unpaired {
			g.pair = false
		}
		kind, pv := -1, (*big.Int)(nil)
		if _, val, err := mz.Proof(context.Background(), r.path); err == nil && val != nil {
			kind = kindOf(val)
			pv, _ = val.MtEntry()
		}
		if pv == nil || kind < 0 {
			g.pair = false
			pv = big.NewInt(0)
			kind = 0
		}
		g.obs = append(g.obs, obsTuple{dt: r.view.Datatype, leaf: r.leaf, pv: pv, kind: kind, parts: r.view.Parts})
		// the same entry as seen through package-level / zero paths: the model predicts the SAME
		// tuple (Proof hashes the Value with the merklizer's hasher whatever the path carries)
		for i := range r.pkgPV {
			g.obs = append(g.obs, obsTuple{dt: r.view.Datatype, leaf: r.leaf, pv: r.pkgPV[i], kind: r.pkgKind[i], parts: r.view.Parts})
		}
		if r.rawErr == nil {
			g.hvs = append(g.hvs, hvCase{dt: r.dt, v: jvOf(r.raw), ok: r.hv != nil, val: r.hv, panic: r.hvPanic})
		}
	}
	d.groups = append(d.groups, g)
}

// mergedByJSONGold: json-gold's node map drops a value object that compares equal
// (same @type, Go == on @value) to an earlier one of the same property; for floats
// that merges -0.0 into 0 (and vice versa) before any RDF literal exists.
func mergedByJSONGold(prev []docElem, e docElem) bool {
	for _, p := range prev {
		if (p.declared == nil) != (e.declared == nil) || (p.declared != nil && *p.declared != *e.declared) || p.v.kind != e.v.kind {
			continue
		}
		switch e.v.kind {
		case 'n':
			if math.Float64frombits(p.v.bits) == math.Float64frombits(e.v.bits) {
				return true
			}
		case 'b':
			if p.v.b == e.v.b {
				return true
			}
		case 's':
			if p.v.s == e.v.s {
				return true
			}
		}
	}
	return false
}

// ---- recording of primitive oracle answers for one shard ----

type shardRec struct {
	recs []*hashers.Recorder
	fr   *floats.Rec
	ext  map[uint64]*int64 // nil = not integer
	seen map[uint64]bool
}

func int64RoundTrip(f float64) (int64, bool) {
	// ld/node.go:264   isInteger := floatVal == float64(int64(floatVal))
	i := int64(f)
	return i, f == float64(i)
}

func (s *shardRec) float(bits uint64) {
	s.fr.AddBits(bits)
	if s.seen[bits] {
		return
	}
	s.seen[bits] = true
	f := math.Float64frombits(bits)
	if i, ok := int64RoundTrip(f); ok {
		s.ext[bits] = &i
	} else {
		s.ext[bits] = nil
	}
}

func (s *shardRec) need(hi int, dt string, v jv) {
	r := s.recs[hi]
	_, _ = r.Hash([]*big.Int{big.NewInt(0)})
	_, _ = r.Hash([]*big.Int{big.NewInt(1)})
	hb := func(x string) { _, _ = r.HashBytes([]byte(x)) }
	switch v.kind {
	case 's':
		hb(v.s)
		if dt == xsd+"double" {
			s.fr.AddStr(v.s)
			if f, err := strconv.ParseFloat(v.s, 64); err == nil {
				c := ld.GetCanonicalDouble(f)
				hb(c)
				if f2, err := strconv.ParseFloat(c, 64); err == nil {
					hb(ld.GetCanonicalDouble(f2))
				}
			}
		}
	case 'n':
		s.float(v.bits)
		f := math.Float64frombits(v.bits)
		c := ld.GetCanonicalDouble(f)
		hb(c)
		if f2, err := strconv.ParseFloat(c, 64); err == nil {
			hb(ld.GetCanonicalDouble(f2))
		}
		if i, ok := int64RoundTrip(f); ok {
			hb(strconv.FormatInt(i, 10))
		}
	case 'b':
		hb("true")
		hb("false")
		if dt == xsd+"double" {
			s.fr.AddStr(strconv.FormatBool(v.b))
		}
	}
}

func (s *shardRec) extCoq() string {
	ks := make([]uint64, 0, len(s.ext))
	for k := range s.ext {
		ks = append(ks, k)
	}
	sort.Slice(ks, func(i, j int) bool { return ks[i] < ks[j] })
	var out []string
	for _, k := range ks {
		if s.ext[k] == nil {
			out = append(out, fmt.Sprintf("(%s, None)", coqgen.Limbs(floats.BitsBig(k))))
		} else {
			out = append(out, fmt.Sprintf("(%s, Some %s)", coqgen.Limbs(floats.BitsBig(k)), coqgen.SNumI(*s.ext[k])))
		}
	}
	return coqgen.List(out)
}

const shardSize = 250

func optStr(f *coqgen.File, s *string) string {
	if s == nil {
		return "None"
	}
	return "(Some " + f.Str(*s) + ")"
}

func (d *drv) writeShards() error {
	n := len(d.groups)
	for s := 0; s*shardSize < n; s++ {
		lo, hi := s*shardSize, (s+1)*shardSize
		if hi > n {
			hi = n
		}
		f := coqgen.NewFile("From GSP Require Import Value.Time Value.Model Value.Run Value.Leaf Value.LeafRun.")
		sr := &shardRec{fr: floats.New(), ext: map[uint64]*int64{}, seen: map[uint64]bool{}}
		for _, h := range d.hs {
			sr.recs = append(sr.recs, hashers.NewRecorder(h))
		}
		name := filepath.Join(d.cfg.OutDir, fmt.Sprintf("cases_C10_%03d.v", s))
		var cs []string
		for i := lo; i < hi; i++ {
			g := d.groups[i]
			var docs, obs, hvs []string
			for _, e := range g.docs {
				dt := ""
				if e.declared != nil {
					dt = *e.declared
				}
				sr.need(g.hasher, dt, e.v)
				docs = append(docs, fmt.Sprintf("(%s, %s)", optStr(f, e.declared), e.v.coq(f)))
			}
			for _, o := range g.obs {
				obs = append(obs, fmt.Sprintf("(%s, %s, %s, %d)", f.Str(o.dt), coqgen.Limbs(o.leaf), coqgen.Limbs(o.pv), o.kind))
			}
			for _, h := range g.hvs {
				sr.need(g.hasher, h.dt, h.v)
				var o string
				switch {
				case h.ok:
					o = "HOk " + coqgen.Limbs(h.val)
				case h.panic:
					o = "HPanic"
				default:
					o = "HErr"
				}
				hvs = append(hvs, fmt.Sprintf("(%s, %s, %s)", f.Str(h.dt), h.v.coq(f), o))
			}
			cs = append(cs, fmt.Sprintf("mkg %d %d %s\n   [%s]\n   [%s]\n   [%s]", i, g.hasher, coqgen.Bool(g.pair),
				strings.Join(docs, "; "), strings.Join(obs, "; "), strings.Join(hvs, "; ")))
			d.rep.Case(name, i, g.input)
		}
		var hs []string
		for _, r := range sr.recs {
			hs = append(hs, r.Coq(f))
		}
		f.Add("Definition hashers_ : list raw_hasher := " + coqgen.List(hs) + ".")
		f.Add("Definition floats_ : raw_floats := " + sr.fr.Coq(f) + ".")
		f.Add("Definition ext_ : raw_floats_ext := " + sr.extCoq() + ".")
		f.Add("Definition cases_ : list gcase := " + coqgen.List(cs) + ".")
		f.Add("Definition M := Eval vm_compute in gmismatches hashers_ floats_ ext_ cases_.")
		f.Add("Print M.")
		if err := f.Write(name); err != nil {
			return err
		}
		d.rep.Shards = append(d.rep.Shards, name)
	}
	return nil
}

// syncContexts registers the contexts the generator published by URL.
func (d *drv) syncContexts() {
	for u, b := range d.gen.CtxURLs {
		if d.loader.Raw(u) == nil {
			_ = d.loader.Add(u, b)
		}
	}
}

// contextsOf returns the generator contexts referenced by URL in doc.
func (d *drv) contextsOf(doc []byte) map[string]json.RawMessage {
	out := map[string]json.RawMessage{}
	for u, b := range d.gen.CtxURLs {
		if strings.Contains(string(doc), u) {
			out[u] = json.RawMessage(b)
		}
	}
	if len(out) == 0 {
		return nil
	}
	return out
}

func Run(cfg *common.Config) (*common.Report, error) {
	rep := common.NewReport("C10")
	rep.Correspondence = "Value.LeafRun.gmismatches: value_to_hash (Value/Model.v) vs merklize.HashValueWithHasher(JSONLDType(p), RawValue(p)); to_rdf_lex;convert;mk_value_entry (Value/Leaf.v) vs the leaf / Proof value / Go kind the implementation stored for the same document value"
	rep.Rule = "every literal entry of every merklized document: docgen documents (random schema trees, typed/untyped literals of all supported kinds, arrays, nested nodes, named graphs) and a crafted grid (integer boundaries around 2^53, 10^15..10^19, int64 limits, 1e21; number spellings; numeric strings; doubles incl. NaN/Inf strings; booleans as true/false/0/1/\"0\"/\"1\"/-0; dateTimes with offsets, nanoseconds, bare dates; arrays in canonical and non-canonical order; arrays of nodes) x 4 hashers; plus pinned-default sequences (SetHasher(h); MerklizeJSONLD without WithHasher; SetHasher(other); all observations through mz.Hasher()/mz.Options()) on every third docgen document and every eighth grid document. evaluations = literal entries observed; distinct = distinct (hasher, datatype, RawValue) triples; all are non-trivial (each reaches a datatype branch of both code paths)."
	d := &drv{cfg: cfg, rep: rep, loader: ctxload.New(), hs: hasherSet(), gen: docgen.New(cfg.Rng)}
	if cfg.Replay != "" {
		var rf struct {
			Input Input `json:"input"`
		}
		if err := common.ReadJSON(cfg.Replay, &rf); err != nil {
			return nil, err
		}
		for u, b := range rf.Input.Contexts {
			_ = d.loader.Add(u, b)
		}
		if len(rf.Input.Prior) > 0 {
			d.prior = rf.Input.Prior
		}
		d.viaBinary = rf.Input.ViaBinary
		d.docCaseP("replay", rf.Input.Doc, rf.Input.Hasher, rf.Input.Contexts, rf.Input.Pinned)
		for _, f := range rep.Failures {
			fmt.Printf("replay: [%s] %s\n", f.Class, f.What)
		}
		if len(rep.Failures) == 0 {
			fmt.Printf("replay: no disagreement on this document (%d literal entries)\n", rep.Evaluations)
		}
		return rep, d.writeShards()
	}
	nDoc := cfg.Pick(140, 1200)
	for i := 0; i < nDoc; i++ {
		doc := d.gen.Valid(1 + cfg.Rng.Intn(3))
		d.syncContexts()
		hi := 0
		if i%2 == 1 {
			hi = cfg.Rng.Intn(len(d.hs))
		}
		d.docCase("docgen", doc.Bytes, hi, d.contextsOf(doc.Bytes))
		if i%3 == 1 {
			// the same document observed on a binary-restored merklizer (WithHasher(#hi) on both sides)
			d.viaBinary = true
			d.docCase("restored", doc.Bytes, hi, d.contextsOf(doc.Bytes))
		}
		if i%3 == 0 {
			// the same document, merklized without WithHasher while hasher #hi is the package
			// default, observed after merklize.SetHasher(another hasher)
			d.docCaseP("pinned", doc.Bytes, hi, d.contextsOf(doc.Bytes), true)
		}
		if i%29 == 0 {
			rep.Sample(map[string]any{"stream": "docgen", "doc": string(doc.Bytes), "hasher": hi})
		}
	}
	// systematic walk of every pool value (single-valued literals); a chunk whose
	// document is rejected (value out of range for the type / prime) is retried value by value
	for ci, ch := range systematicChunks() {
		his := []int{ci % len(d.hs)}
		if cfg.Thorough() {
			his = []int{0, 1, 2, 3}
		}
		for _, hi := range his {
			if d.docCase("systematic", systematicDoc(fmt.Sprintf("urn:sys:%d", ci), ch[0], ch[1]), hi, nil) {
				continue
			}
			for k := range ch[0] {
				d.docCase("systematic1", systematicDoc(fmt.Sprintf("urn:sys:%d:%d", ci, k), ch[0][k:k+1], ch[1][k:k+1]), hi, nil)
			}
		}
	}
	// duplicate paths: two entries under one key must make merklization fail; if a merklizer is
	// ever handed out, every proof Value must hash to the leaf the tree proves
	for i := 0; i < cfg.Pick(12, 120); i++ {
		hi := i % len(d.hs)
		head := `{"@context":` + gridContext + `,`
		var doc string
		switch i % 3 {
		case 0: // two root nodes sharing a property, different values
			doc = head + fmt.Sprintf(`"@graph":[{"@id":"urn:dup:a%d","i":%d,"s":"x"},{"@id":"urn:dup:b%d","i":%d}]}`, i, 30+i, i, 31+i)
		case 1: // three nodes, two equal values and one different
			doc = head + fmt.Sprintf(`"@graph":[{"@id":"urn:dup:a%d","t":"1990-05-17"},{"@id":"urn:dup:b%d","t":"1990-05-17"},{"@id":"urn:dup:c%d","t":"1990-05-18T00:00:00Z"}]}`, i, i, i)
		default: // two revisions of one document into the same caller-provided tree
			d.prior = []byte(head + fmt.Sprintf(`"@id":"urn:rev:%d","i":%d,"b":false,"t":"1990-05-17","s":"Alice","ni":-5}`, i, 30+i))
			doc = head + fmt.Sprintf(`"@id":"urn:rev:%d","i":%d,"b":true,"t":"1990-05-18T00:00:00Z","s":"Alice B.","ni":-6}`, i, 31+i)
			if i%2 == 0 {
				doc = string(d.prior) // the identical revision again
			}
		}
		if d.docCase("dup-path", []byte(doc), hi, nil) {
			rep.Count("dup-path:accepted")
		}
		d.prior = nil
	}
	nGrid := cfg.Pick(80, 1000)
	for i := 0; i < nGrid; i++ {
		doc := gridDoc(cfg, i)
		hi := i % len(d.hs)
		d.docCase("grid", doc, hi, nil)
		if i%4 == 1 {
			d.viaBinary = true
			d.docCase("restored", doc, hi, nil)
		}
		if i%8 == 0 {
			d.docCaseP("pinned", doc, hi, nil, true)
		}
		if i%31 == 0 {
			rep.Sample(map[string]any{"stream": "grid", "doc": string(doc), "hasher": hi})
		}
	}
	rep.Notes = append(rep.Notes,
		"float-formatting hypotheses of Value/LeafTheory.v (canonical double re-parses to itself; integral |z| < 10^16 prints exactly; +0.0 -> 0.0E0, 1.0 -> 1.0E0) are evaluated on every float of every case inside the shards",
		"values outside the property's quantifier (e.g. a JSON number under xsd:string) are counted under outside-quantifier:* and not reported")
	return rep, d.writeShards()
}
