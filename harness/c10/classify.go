package c10

import (
	"fmt"
	"math"
	"math/big"
	"regexp"
	"strconv"
	"time"

	"github.com/iden3/go-schema-processor/v2/merklize"
	"github.com/piprate/json-gold/ld"

	"vharness/docgen"
)

var dateRE = regexp.MustCompile(`^\d{4}-\d{2}-\d{2}$`)

// denotes: does the document element (value object or native value) denote the
// entry's Go value under the entry's datatype?  Independent restatement of
// json-gold's native-value conversion followed by the XSD conversion; used only
// to tie each leaf to its own document value.
func denotes(o any, dt string, want any) bool {
	e, lit, lang := elemOf(o)
	if !lit || lang {
		return false
	}
	declared := ""
	if e.declared != nil {
		declared = *e.declared
	}
	var lex, edt string
	switch e.v.kind {
	case 'b':
		lex, edt = strconv.FormatBool(e.v.b), xsd+"boolean"
	case 'n':
		f := math.Float64frombits(e.v.bits)
		if i, ok := int64RoundTrip(f); ok && declared != xsd+"double" {
			lex, edt = strconv.FormatInt(i, 10), xsd+"integer"
		} else {
			lex, edt = ld.GetCanonicalDouble(f), xsd+"double"
		}
	case 's':
		lex, edt = e.v.s, xsd+"string"
	default:
		return false
	}
	if declared != "" {
		edt = declared
	}
	if edt != dt {
		return false
	}
	switch w := want.(type) {
	case bool:
		switch lex {
		case "true", "1", "1.0E0":
			return w
		case "false", "0", "0.0E0":
			return !w
		}
		return false
	case *big.Int:
		r, ok := new(big.Rat).SetString(lex)
		return ok && r.IsInt() && r.Num().Cmp(w) == 0
	case time.Time:
		var t time.Time
		var err error
		if dateRE.MatchString(lex) {
			t, err = time.ParseInLocation("2006-01-02", lex, time.UTC)
		} else {
			t, err = time.Parse(time.RFC3339Nano, lex)
		}
		return err == nil && t.Equal(w)
	case string:
		if dt == xsd+"double" {
			f, err := strconv.ParseFloat(lex, 64)
			return err == nil && ld.GetCanonicalDouble(f) == w
		}
		return lex == w
	}
	return false
}

type location struct {
	found       bool
	obj         any
	movedMiddle bool // an index in a non-final position had to be changed
	movedLast   bool // the final index had to be changed
	unwrapped   bool // the path has no index where the document holds an array (repeated values collapsed)
}

// locate searches the compacted document for the element denoting the entry's
// value: the path's own indices first, then every other index.
func locate(obj any, parts []any, i int, loc location, match func(any) bool) location {
	if i == len(parts) {
		if arr, ok := obj.([]any); ok {
			for _, el := range arr {
				if match(el) {
					loc.found, loc.obj, loc.unwrapped = true, el, true
					return loc
				}
			}
			return location{}
		}
		if match(obj) {
			loc.found, loc.obj = true, obj
			return loc
		}
		return location{}
	}
	switch f := parts[i].(type) {
	case string:
		if arr, ok := obj.([]any); ok {
			// the path descends into an array without an index
			for _, el := range arr {
				l := loc
				l.unwrapped = true
				if r := locate(el, parts, i, l, match); r.found {
					return r
				}
			}
			return location{}
		}
		next, ok := navigate(obj, []any{f})
		if !ok {
			return location{}
		}
		return locate(next, parts, i+1, loc, match)
	case int:
		arr, ok := obj.([]any)
		if !ok {
			// the path has an index where this node holds a single value: a different node
			// of an enclosing array is the one the path means
			loc.movedMiddle = true
			return locate(obj, parts, i+1, loc, match)
		}
		try := func(k int) location {
			l := loc
			if k != f {
				if i == len(parts)-1 {
					l.movedLast = true
				} else {
					l.movedMiddle = true
				}
			}
			return locate(arr[k], parts, i+1, l, match)
		}
		if f >= 0 && f < len(arr) {
			if r := try(f); r.found {
				return r
			}
		}
		for k := range arr {
			if k != f {
				if r := try(k); r.found {
					return r
				}
			}
		}
	}
	return location{}
}

// classify assigns a narrow classifier to every disagreement of a sibling group
// and reports it.
func (d *drv) classify(compacted map[string]any, h merklize.Hasher, rs []*entryRes, in *Input) {
	disagree := false
	for _, r := range rs {
		if !r.agree {
			disagree = true
		}
	}
	if !disagree {
		d.rep.Count("group:agree")
		return
	}
	last := rs[0].view.Parts
	_, endsInIndex := last[len(last)-1].(int)
	multiset := false
	if endsInIndex && len(rs) >= 2 {
		var hvs, leaves []*big.Int
		for _, r := range rs {
			hvs = append(hvs, r.hv)
			leaves = append(leaves, r.leaf)
		}
		multiset = sameMultiset(hvs, leaves)
	}
	if multiset {
		// D13: RawValue([p,i]) is the document's element i, leaf [p,i] holds the canonically i-th value
		for _, r := range rs {
			if !r.agree {
				r.class = "c10-rawvalue-array-order"
			}
		}
		c := *in
		c.Path = rs[0].view.Parts
		var dv, cv []string
		for _, r := range rs {
			dv = append(dv, jvOf(r.raw).String())
			cv = append(cv, docgen.RenderGoValue(r.view.Value))
		}
		d.rep.Fail("c10-rawvalue-array-order", fmt.Sprintf("multi-valued property: document order %v, canonical (leaf) order %v: HashValue(RawValue([..,i])) != leaf [..,i] although the multisets agree", dv, cv), &c)
		d.rep.Count("group:c10-rawvalue-array-order")
		return
	}
	reported := d.docReported
	setEq := groupSetEqual(compacted, rs)
	for _, r := range rs {
		if r.agree {
			continue
		}
		c := *in
		c.Path = r.view.Parts
		what := fmt.Sprintf("path %v datatype %s: RawValue=%v (%v) HashValue=%v (%s) leaf=%v entry value=%s",
			r.view.Parts, r.dt, r.raw, r.rawErr, r.hv, r.hvErr, r.leaf, docgen.RenderGoValue(r.view.Value))
		loc := locate(compacted, r.view.Parts, 0, location{}, func(o any) bool { return denotes(o, r.view.Datatype, r.view.Value) })
		var own any // the leaf's own document value
		switch {
		case !loc.found:
			r.class, r.unpaired = "c10-disagree", true
			what = "no document value denotes this leaf; " + what
		case loc.movedMiddle:
			r.class, r.unpaired = "c10-rawvalue-node-array-order", true
			what = "array of nodes: RawValue follows document order, the leaf path follows canonical node order; " + what
		case hasMiddleIndex(r.view.Parts) && !setEq:
			r.class, r.unpaired = "c10-rawvalue-node-array-order", true
			what = "array of nodes: RawValue follows document order, the leaf path follows canonical node order; " + what
		case loc.unwrapped:
			r.class = "c10-rawvalue-array-repeated"
			what = "repeated values collapse to fewer leaves than the document array has elements; " + what
		case loc.movedLast:
			if n := docArrayLen(compacted, r.view.Parts); n != len(rs) {
				r.class = "c10-rawvalue-array-repeated"
				what = fmt.Sprintf("document array has %d elements, %d leaves (repeated values collapse); ", n, len(rs)) + what
			} else {
				r.class = "c10-rawvalue-array-order-mixed"
				what = "multi-valued property with heterogeneous datatypes in non-canonical order; " + what
			}
		default:
			r.class = valueClass(r.rawErr, r.hvPanic, r.dt, r.raw)
		}
		if loc.found && (loc.movedMiddle || loc.movedLast || loc.unwrapped) {
			own = loc.obj
			if m, ok := own.(map[string]any); ok {
				own = m["@value"]
			}
			// the leaf's own value must still hash to the leaf
			hv, _, pan := safeHash(h, r.view.Datatype, own)
			if hv == nil || hv.Cmp(r.leaf) != 0 {
				vc := valueClass(nil, pan, r.view.Datatype, own)
				if vc == "outside-quantifier" {
					d.rep.Count("outside-quantifier:" + shortDT(r.dt) + ":" + string(jvOf(own).kind))
				} else {
					d.rep.Count("group:" + vc)
					d.rep.Fail(vc, fmt.Sprintf("own document value %v of leaf %v (%s): HashValue=%v leaf=%v", own, r.view.Parts, r.view.Datatype, hv, r.leaf), &c)
				}
			}
		}
		if r.class == "outside-quantifier" {
			d.rep.Count("outside-quantifier:" + shortDT(r.dt) + ":" + string(jvOf(r.raw).kind))
			continue
		}
		d.rep.Count("group:" + r.class)
		// ordering classes: one report per group and class
		switch r.class {
		case "c10-rawvalue-array-repeated", "c10-rawvalue-array-order-mixed", "c10-rawvalue-node-array-order":
			if reported[r.class] {
				continue
			}
			reported[r.class] = true
		}
		d.rep.Fail(r.class, what, &c)
	}
}

// groupSetEqual: do the literal elements at the group's own document position
// denote exactly the group's entry values (as sets)?
func groupSetEqual(compacted map[string]any, rs []*entryRes) bool {
	parts := rs[0].view.Parts
	prefix := parts
	if _, ok := parts[len(parts)-1].(int); ok {
		prefix = parts[:len(parts)-1]
	}
	obj, ok := navigate(compacted, prefix)
	if !ok {
		return false
	}
	elems, isArr := obj.([]any)
	if !isArr {
		elems = []any{obj}
	}
	used := make([]bool, len(rs))
	for _, e := range elems {
		if _, lit, _ := elemOf(e); !lit {
			continue
		}
		hit := false
		for i, r := range rs {
			if denotes(e, r.view.Datatype, r.view.Value) {
				hit, used[i] = true, true
			}
		}
		if !hit {
			return false
		}
	}
	for _, u := range used {
		if !u {
			return false
		}
	}
	return true
}

func docArrayLen(compacted map[string]any, parts []any) int {
	obj, ok := navigate(compacted, parts[:len(parts)-1])
	if !ok {
		return -1
	}
	if arr, ok := obj.([]any); ok {
		return len(arr)
	}
	return 1
}

func valueClass(rawErr error, hvPanic bool, dt string, raw any) string {
	if rawErr != nil {
		return "c10-rawvalue-error"
	}
	if hvPanic {
		return "c10-hashvalue-panic"
	}
	v := jvOf(raw)
	if v.kind == 'o' {
		return "c10-rawvalue-nonscalar"
	}
	if !natural(dt, v) {
		return "outside-quantifier"
	}
	if v.kind == 'n' {
		f := math.Float64frombits(v.bits)
		if kindImplied(dt) == 0 && f == 0 && math.Signbit(f) {
			return "c10-negative-zero-boolean"
		}
		if kindImplied(dt) == 1 && f == math.Trunc(f) && !canonExact(f) {
			return "c10-native-int-precision"
		}
	}
	return "c10-disagree"
}
