package c10

import (
	"fmt"
	"sort"
	"strings"

	"vharness/common"
)

// The grid documents are written as JSON *text* so that the number spellings
// (1e3, 5.0, -0, 12345678901234567) reach encoding/json unchanged.

const slots = 8

var gridTypes = map[string]string{"i": "xsd:integer", "pi": "xsd:positiveInteger", "nni": "xsd:nonNegativeInteger",
	"ni": "xsd:negativeInteger", "npi": "xsd:nonPositiveInteger", "b": "xsd:boolean", "t": "xsd:dateTime", "d": "xsd:double",
	"s": "xsd:string", "u": "", "c": "ex:customType"}

// gridContext defines, for every datatype, the term itself and `slots` numbered
// terms (i0..i7) so that one document can hold several single-valued literals.
var gridContext = func() string {
	parts := []string{`"xsd":"http://www.w3.org/2001/XMLSchema#"`, `"ex":"http://ex.org/g#"`, `"n":"ex:n"`, `"m":"ex:m"`}
	var names []string
	for t := range gridTypes {
		names = append(names, t)
	}
	sort.Strings(names)
	for _, t := range names {
		terms := []string{t}
		for k := 0; k < slots; k++ {
			terms = append(terms, fmt.Sprintf("%s%d", t, k))
		}
		for _, term := range terms {
			if gridTypes[t] == "" {
				parts = append(parts, fmt.Sprintf(`%q:"ex:%s"`, term, term))
			} else {
				parts = append(parts, fmt.Sprintf(`%q:{"@id":"ex:%s","@type":%q}`, term, term, gridTypes[t]))
			}
		}
	}
	return "{" + strings.Join(parts, ",") + "}"
}()

var (
	posInts = []string{"1", "7", "42", "1000000", "999999999999999", "1000000000000000", "9007199254740991", "9007199254740992",
		"9007199254740993", "9999999999999998", "9999999999999999", "10000000000000000", "10000000000000002", "12345678901234567",
		"99999999999999999", "1152921504606846976", "1152921504606846977", "9223372036854775807", "9223372036854774784", "1e19", "1e21", "1.5e21",
		"1E3", "5.0", "0.5e1", "50e-1", "123456789012", "4611686018427387904", "72057594037927936", "72057594037927937", "18014398509481985"}
	zeroInts   = []string{"0", "-0", "0.0", "-0.0", "0e5"}
	posIntStrs = []string{`"33"`, `"033"`, `"3.3E1"`, `"+5"`, `"330e-1"`, `"12345678901234567890123"`, `"66/2"`, `"33.0"`, `"1e18"`, `"9007199254740993"`}
	doubles    = []string{"1.5", "0.1", "1e3", "123456.789", "1E-7", "2.5e-3", "1e21", "5", "0", "-0.0", "1e300", "4.9e-324", "-17.25",
		"0.30000000000000004", "1.7976931348623157e308", "9007199254740993", "12345678901234567", "100", "1e15", "1e16", "3.141592653589793"}
	doubleStrs = []string{`"1.5"`, `"1e3"`, `"0.1"`, `"100"`, `"NaN"`, `"Inf"`, `"-Inf"`, `"0x1p-2"`, `"1_0"`, `"1.0E0"`, `"-0"`, `".5"`, `"5."`, `"1E+2"`,
		`"0.30000000000000004"`, `"12345678901234567"`}
	bools     = []string{"true", "false", "0", "1", `"0"`, `"1"`, `"true"`, `"false"`, "1.0", "0e0", "0.0", `"1.0E0"`, `"0.0E0"`}
	negZeroes = []string{"-0", "-0.0"}
	times     = []string{`"2020-01-01T00:00:00Z"`, `"2020-06-01T12:00:00+02:00"`, `"1969-12-31T23:59:59.999999999Z"`, `"2024-02-29T23:59:59.123456789-07:30"`,
		`"2020-01-01"`, `"1600-02-29"`, `"9999-12-31T23:59:59Z"`, `"0001-01-01T00:00:00Z"`, `"2020-06-01T10:00:00Z"`, `"2020-06-01T10:00:00.000000001Z"`,
		`"2021-03-04T05:06:07.5+05:30"`, `"2021-03-04T05:06:07,25Z"`, `"1970-01-01T00:00:00+00:00"`}
	strs = []string{`"a"`, `"b"`, `"hello world"`, `"0"`, `"true"`, `"ünïcödé ✓"`, `"with \"quotes\""`, `"tab\tnl\n"`, `"zzzzzzzzzzzzzzzzzzzzzzzzzzzzzzzzzzzzzzzzzzzz"`,
		`"2020-01-01"`, `"5"`, `"A"`, `" lead"`, `"é"`, `"~"`}
	untyped = []string{"true", "false", "5", "-5", "0", "1.5", "-0.0", "1e21", "12345678901234567", "9007199254740993", `"plain"`, `"another"`, "1E3", "0.1", "1152921504606846976", "1e300"}
)

func neg(xs []string) []string {
	var out []string
	for _, x := range xs {
		if strings.HasPrefix(x, `"`) {
			if strings.HasPrefix(x, `"+`) {
				continue
			}
			out = append(out, `"-`+x[1:])
		} else {
			out = append(out, "-"+x)
		}
	}
	return out
}

func join(xs ...[]string) []string {
	var out []string
	for _, x := range xs {
		out = append(out, x...)
	}
	return out
}

type gridProp struct {
	term string
	pool []string
}

func gridProps() []gridProp {
	return []gridProp{
		{"i", join(posInts, neg(posInts), zeroInts, posIntStrs, neg(posIntStrs))},
		{"pi", join(posInts, posIntStrs)},
		{"nni", join(posInts, zeroInts, posIntStrs)},
		{"ni", join(neg(posInts), neg(posIntStrs))},
		{"npi", join(neg(posInts), zeroInts, neg(posIntStrs))},
		{"b", join(bools, bools, negZeroes)},
		{"t", times},
		{"d", join(doubles, neg(doubles), doubleStrs)},
		{"s", strs},
		{"u", untyped},
		{"c", strs},
	}
}

func pick(cfg *common.Config, pool []string) string { return pool[cfg.Rng.Intn(len(pool))] }

func gridValue(cfg *common.Config, p gridProp, forceArray bool) string {
	n := 1
	if forceArray || cfg.Rng.Intn(3) == 0 {
		n = 2 + cfg.Rng.Intn(3)
	}
	if n == 1 {
		v := pick(cfg, p.pool)
		if cfg.Rng.Intn(6) == 0 {
			return "[" + v + "]"
		}
		return v
	}
	var vs []string
	for k := 0; k < n; k++ {
		v := pick(cfg, p.pool)
		if k > 0 && cfg.Rng.Intn(7) == 0 {
			v = vs[0] // repeated value: collapses in RDF
		}
		vs = append(vs, v)
	}
	return "[" + strings.Join(vs, ",") + "]"
}

func gridNode(cfg *common.Config, props []gridProp, id string, depth int) string {
	var fields []string
	if id != "" {
		fields = append(fields, fmt.Sprintf(`"@id":%q`, id))
	}
	for _, p := range props {
		if cfg.Rng.Intn(3) != 0 {
			continue
		}
		fields = append(fields, fmt.Sprintf(`%q:%s`, p.term, gridValue(cfg, p, false)))
	}
	if len(fields) == 0 || (id == "" && len(fields) == 0) {
		p := props[cfg.Rng.Intn(len(props))]
		fields = append(fields, fmt.Sprintf(`%q:%s`, p.term, gridValue(cfg, p, false)))
	}
	if depth > 0 && cfg.Rng.Intn(2) == 0 {
		// array of blank nodes: canonical order of the nodes differs from document order at random
		k := 1 + cfg.Rng.Intn(3)
		var kids []string
		for j := 0; j < k; j++ {
			kids = append(kids, gridNode(cfg, props, "", depth-1))
		}
		term := []string{"n", "m"}[cfg.Rng.Intn(2)]
		if k == 1 && cfg.Rng.Intn(2) == 0 {
			fields = append(fields, fmt.Sprintf(`%q:%s`, term, kids[0]))
		} else {
			fields = append(fields, fmt.Sprintf(`%q:[%s]`, term, strings.Join(kids, ",")))
		}
	}
	return "{" + strings.Join(fields, ",") + "}"
}

// systematicChunks walks every pool completely: chunks of up to `slots`
// single-valued literals of one datatype.
func systematicChunks() [][2][]string {
	var out [][2][]string
	for _, p := range gridProps() {
		for lo := 0; lo < len(p.pool); lo += slots {
			hi := lo + slots
			if hi > len(p.pool) {
				hi = len(p.pool)
			}
			var terms []string
			for k := range p.pool[lo:hi] {
				terms = append(terms, fmt.Sprintf("%s%d", p.term, k))
			}
			out = append(out, [2][]string{terms, p.pool[lo:hi]})
		}
	}
	return out
}

func systematicDoc(id string, terms, vals []string) []byte {
	fields := []string{fmt.Sprintf(`"@id":%q`, id)}
	for k := range terms {
		fields = append(fields, fmt.Sprintf("%q:%s", terms[k], vals[k]))
	}
	return []byte(`{"@context":` + gridContext + "," + strings.Join(fields, ",") + "}")
}

// gridDoc builds the i-th random crafted document.
func gridDoc(cfg *common.Config, i int) []byte {
	props := gridProps()
	head := `{"@context":` + gridContext + `,`
	if i%2 == 0 {
		p := props[cfg.Rng.Intn(len(props))]
		return []byte(head + fmt.Sprintf(`"@id":"urn:grid:%d",%q:%s}`, i, p.term, gridValue(cfg, p, true)))
	}
	body := gridNode(cfg, props, fmt.Sprintf("urn:grid:%d", i), 2)
	return []byte(head + body[1:])
}
